#!/usr/bin/env python3-vt
"""Generator of /verif/harness/ref/c11_reference.txt (property C11).

Run ONCE with the tooling venv:   python3-vt gen_c11_reference.py > c11_reference.txt
Every value is computed with mpmath at 50 significant digits AND at 80 digits; a row is only
emitted when both agree to 1e-40 relative (otherwise the precision is raised, and the row is
dropped with a note on stderr if that does not help).  Deterministic: fixed seed, no clock.

Row formats (tab separated):
  V <fn> <args> <bits of the correctly rounded f64 value> <decimal, 30 digits>
  I <fn> <args> <bits lo>:<bits hi> <decimal true inverse>
        (inverse functions: [lo,hi] = outward rounded pre-image of input*(1 -+ 1e-9) under the
         forward function, i.e. exactly the set of results whose forward image reproduces the
         input to 1e-9 relative)
args: space separated, `f:<16 hex digits>` = f64 bit pattern, `u:<n>` = unsigned integer.
Only rows whose true value is a NORMAL f64 are emitted (property: "results that are normal floats").
"""
import math, struct, sys, random
from mpmath import mp, mpf

R = random.Random(20260930)
MINN = mpf(2) ** -1022
MAXF = mpf(sys.float_info.max)


def bits(x):
    return "%016x" % struct.unpack(">Q", struct.pack(">d", x))[0]


def up(x, n=1):
    for _ in range(n):
        x = math.nextafter(x, math.inf)
    return x


def dn(x, n=1):
    for _ in range(n):
        x = math.nextafter(x, -math.inf)
    return x


def around(x, n=1):
    return [dn(x, n), x, up(x, n)] if n == 1 else [dn(x, n), dn(x), x, up(x), up(x, n)]


def logu(lo, hi):
    return math.exp(R.uniform(math.log(lo), math.log(hi)))


def stable(f, rel=mpf(10) ** -40):
    """evaluate f() at 50 and 80 digits (then 120/200) until two consecutive agree"""
    prev = None
    for d in (50, 80, 120, 200, 400):
        mp.dps = d
        try:
            v = f()
        except Exception as e:  # noqa
            v = None
        if v is not None and isinstance(v, mp.mpc):
            if abs(v.imag) > mpf(10) ** -30 * max(1, abs(v.real)):
                return None
            v = v.real
        if v is not None and prev is not None:
            mp.dps = 60
            if v == prev or abs(v - prev) <= rel * max(abs(v), abs(prev)):
                return +v
        prev = v
    return None


def fmt_arg(a):
    if isinstance(a, int):
        return "u:%d" % a
    return "f:" + bits(a)


NROWS = {}
DROPPED = []


def emit(fn, args, f):
    """f: zero-argument function computing the true value at the current mp precision"""
    v = stable(f)
    if v is None:
        DROPPED.append((fn, args))
        return
    mp.dps = 60
    if not (MINN <= abs(v) <= MAXF):
        return  # not a normal float (zero, subnormal, overflow): outside the property
    x = float(v)  # mpmath rounds to nearest
    if x == 0.0 or math.isinf(x) or abs(x) < sys.float_info.min:
        return
    NROWS[fn] = NROWS.get(fn, 0) + 1
    print("V\t%s\t%s\t%s\t%s" % (fn, " ".join(fmt_arg(a) for a in args), bits(x), mp.nstr(v, 30)))


def emit_inv(fn, args, y, inv):
    """inv(t): true pre-image of t (mpf) at current precision."""
    e = mpf(10) ** -9
    lo = stable(lambda: inv(mpf(y) * (1 - e)))
    hi = stable(lambda: inv(mpf(y) * (1 + e)))
    mid = stable(lambda: inv(mpf(y)))
    if lo is None or hi is None or mid is None:
        DROPPED.append((fn, args))
        return
    mp.dps = 60
    if lo > hi:
        lo, hi = hi, lo
    flo, fhi = float(lo), float(hi)
    if mpf(flo) > lo:
        flo = dn(flo)
    if mpf(fhi) < hi:
        fhi = up(fhi)
    NROWS[fn] = NROWS.get(fn, 0) + 1
    print("I\t%s\t%s\t%s:%s\t%s" % (fn, " ".join(fmt_arg(a) for a in args), bits(flo), bits(fhi), mp.nstr(mid, 30)))


# ------------------------------------------------------------------ gamma family
def gamma_points():
    xs = [1e-300, 1e-200, 1e-100, 1.000001e-35, 1e-20, 1.000001e-10, 1e-8, 1.000001e-5, 1e-3, 1.000001e-2, 0.1, 0.2, 0.25, 0.3, 0.4]
    xs += around(0.5, 3) + [0.6, 0.75, 0.9] + around(1.0, 3) + [1.1, 1.25, 1.4616321449683623, 1.5, 1.75] + around(2.0, 3)
    xs += [1.0 - 1e-14, 1.0 + 1e-14, 5.0 - 1e-14, 5.0 + 1e-14, math.pi / 2, math.pi, 10.1, 150.0 + 1e-12]
    xs += [float(k) for k in range(3, 172)]
    xs += [k + 0.5 for k in range(2, 172)]
    xs += [169.5, 169.75, 169.9, 170.25, 170.6, 171.0, 171.25, 171.5, 171.6, 171.62]
    xs += [R.uniform(0.0, 171.6) for _ in range(160)]
    xs += [logu(1e-12, 1.0) for _ in range(40)]
    # negative non-integers
    xs += [-(k + 0.5) for k in range(0, 171)]
    xs += [-1e-300, -1e-100, -1e-10, -1e-5, -0.01, -0.1, -0.25, -0.75, -0.9, -0.99, -0.999999, -1.000001, -1.01, -1.1, -1.9, -2.1, -4.8]
    for k in (1, 2, 3, 5, 10, 20, 50, 100, 150, 170):
        for d in (1e-3, 1e-6, 1e-9):
            xs += [-k + d, -k - d]
    xs += [-R.uniform(0.0, 171.0) for _ in range(160)]
    return sorted(set(x for x in xs if x != math.floor(x) or x > 0))


def lngamma_points():
    xs = [x for x in gamma_points() if x > 0]
    xs += [logu(1e-10, 1e5) for _ in range(220)]
    xs += [200.0, 500.0, 1e3, 1e3 + 0.5, 5e3, 1e4, 1e4 + 0.25, 5e4, 99999.5, 1e5]
    xs += [1.0 + 1e-6, 1.0 - 1e-6, 2.0 + 1e-6, 2.0 - 1e-6, 1.0 + 1e-3, 2.0 - 1e-3, 1.9, 2.1, 1.3, 1.7]
    # negative arguments with gamma(x) > 0, i.e. floor(x) even
    neg = []
    for k in list(range(1, 60)) + [100, 170, 171, 500, 1000, 5000, 10000, 50000, 99999]:
        fl = -k if k % 2 == 0 else -(k + 1)  # even floor
        for fr in (0.5, 0.1, 0.9, 0.25, 1e-3, 1 - 1e-3):
            neg.append(fl + fr)
    neg += [x for x in (-R.uniform(0.0, 1e3) for _ in range(300)) if x != math.floor(x) and int(math.floor(x)) % 2 == 0][:120]
    neg += [x for x in (-logu(1.0, 1e5) for _ in range(300)) if x != math.floor(x) and int(math.floor(x)) % 2 == 0][:100]
    return sorted(set(xs + [x for x in neg if abs(x) <= 1e5]))


def digamma_points():
    xs = [1e-300, 1e-100, 1e-20, 1e-10, 1e-8] + around(1e-6, 2) + [1e-5, 1e-4, 1e-3, 0.01, 0.1, 0.25, 0.5, 0.75, 1.0, 1.25, 1.4, 1.46, 1.4616321449683623, 1.47, 1.5, 2.0, 2.5, 3.0, math.pi, math.pi / 2, 10.1]
    xs += around(12.0, 2) + around(11.0, 1) + [11.5, 12.5, 13.0]
    xs += [float(k) for k in range(4, 60)] + [k + 0.5 for k in range(3, 60)]
    xs += [100.0, 170.0, 500.0, 1e3, 1e4, 99999.5, 1e5]
    xs += [logu(1e-10, 1e5) for _ in range(250)]
    xs += [R.uniform(0, 20) for _ in range(100)]
    neg = [-(k + 0.5) for k in range(0, 60)] + [-1e-300, -1e-10, -1e-6, -1e-3, -0.1, -0.25, -0.75, -0.9, -1.1, -1.5040830082644554, -2.4, -4.8]
    for k in (1, 2, 5, 10, 100, 1000, 10000, 99999):
        for d in (0.5, 0.25, 0.1, 1e-3, 1e-6):
            neg += [-k + d, -k - d]
    neg += [x for x in (-R.uniform(0.0, 200.0) for _ in range(150)) if x != math.floor(x)]
    neg += [x for x in (-logu(1e-3, 1e5) for _ in range(150)) if x != math.floor(x)]
    return sorted(set(xs + [x for x in neg if abs(x) <= 1e5 and x != math.floor(x)]))


def lngamma_true(x):
    x = mpf(x)
    if x > 0:
        return mp.loggamma(x)
    return mp.log(abs(mp.gamma(x))) if x > -2000 else mp.re(mp.loggamma(x))


def gen_gamma_family():
    for x in gamma_points():
        emit("gamma", [x], lambda: mp.gamma(mpf(x)))
    for x in lngamma_points():
        emit("ln_gamma", [x], lambda: lngamma_true(x))
    for x in digamma_points():
        emit("digamma", [x], lambda: mp.psi(0, mpf(x)))
    grid = [1e-3, 0.1, 0.5, 1.0, 1.5, 2.0, 5.0, 10.0, 50.0, 100.0, 170.0, 500.0, 2e3, 1e4, 1e5]
    pts = [(a, b) for a in grid for b in grid]
    pts += [(logu(1e-3, 1e5), logu(1e-3, 1e5)) for _ in range(120)]
    pts += [(logu(0.1, 100), logu(0.1, 100)) for _ in range(80)]
    for (a, b) in pts:
        f = lambda: mp.loggamma(mpf(a)) + mp.loggamma(mpf(b)) - mp.loggamma(mpf(a) + mpf(b))
        emit("ln_beta", [a, b], f)
        emit("beta", [a, b], lambda: mp.exp(f()))


# ------------------------------------------------------------------ erf
JOINTS = [1e-10, 0.5, 0.75, 1.25, 2.25, 3.5, 5.25, 8.0, 11.5, 17.0, 24.0, 38.0, 60.0, 85.0, 110.0]


def erf_points():
    xs = [5e-324, 2.2250738585072014e-308, 1e-300, 1e-200, 1e-100, 1e-50, 1e-20, 1e-15, 1e-12, 1e-11]
    for j in JOINTS:
        xs += around(j, 2)
    edges = [1e-10] + JOINTS[1:] + [120.0]
    for lo, hi in zip(edges[:-1], edges[1:]):
        xs += [lo + (hi - lo) * k / 12.0 for k in range(1, 12)]
        xs += [R.uniform(lo, hi) for _ in range(16)]
    xs += [logu(1e-10, 0.5) for _ in range(30)]
    xs += [26.0, 26.5, 26.54, 26.6, 27.0, 5.9, 6.0, 9.0, 9.3, 1e3, 1e10, 1e300]
    xs = sorted(set(xs))
    return xs + [-x for x in xs]


def gen_erf():
    for x in erf_points():
        emit("erf", [x], lambda: mp.erf(mpf(x)))
        emit("erfc", [x], lambda: mp.erfc(mpf(x)))


# ------------------------------------------------------------------ incomplete gamma
def gen_incgamma():
    A = [0.01, 0.1, 0.5, 1.0, 2.0, 5.0, 10.0, 30.0, 100.0, 300.0, 1e3, 3e3, 1e4]
    Q = [1e-3, 0.01, 0.1, 0.3, 0.5, 0.7, 0.9, 0.99, 1.0, 1.01, 1.1, 1.3, 1.5, 2.0, 3.0, 5.0, 10.0, 100.0]
    pts = [(a, a * q) for a in A for q in Q]
    for _ in range(140):
        a = logu(0.01, 1e4)
        s = 1.0 / math.sqrt(a)
        q = R.choice([logu(1e-3, 100.0), 1.0 + R.uniform(-4, 4) * s, 1.0 + R.uniform(-1, 1) * s])
        if q > 0:
            pts.append((a, a * q))
    pts += [(0.1, 1.0), (0.1, 2.0), (0.1, 8.0), (1.5, 1.0), (5.5, 8.0), (100.0, 0.5), (100.0, 1.5), (500.0, 450.0), (1.0, 1.0), (1.0, up(1.0)), (3.0, dn(1.0))]
    for (a, x) in pts:
        emit("gamma_lr", [a, x], lambda: mp.gammainc(mpf(a), 0, mpf(x), regularized=True))
        emit("gamma_ur", [a, x], lambda: mp.gammainc(mpf(a), mpf(x), mp.inf, regularized=True))
        if a <= 171.0:
            emit("gamma_li", [a, x], lambda: mp.gammainc(mpf(a), 0, mpf(x)))
            emit("gamma_ui", [a, x], lambda: mp.gammainc(mpf(a), mpf(x), mp.inf))


# ------------------------------------------------------------------ incomplete beta
def beta_x_points(a, b):
    m = a / (a + b)
    sd = math.sqrt(a * b / ((a + b) ** 2 * (a + b + 1)))
    xs = [0.001, 0.01, 0.1, 0.25, 0.5, 0.75, 0.9, 0.99, 0.999, m, m - sd, m + sd, m - 3 * sd, m + 3 * sd, (a + 1) / (a + b + 2), dn((a + 1) / (a + b + 2))]
    return sorted(set(x for x in xs if 0.0 < x < 1.0))


def gen_incbeta():
    G = [0.1, 0.5, 1.0, 2.5, 10.0, 50.0, 200.0, 1e3, 2e3]
    pts = []
    for a in G:
        for b in G:
            for x in beta_x_points(a, b):
                pts.append((a, b, x))
    for _ in range(220):
        a, b = logu(0.1, 2e3), logu(0.1, 2e3)
        m = a / (a + b)
        sd = math.sqrt(a * b / ((a + b) ** 2 * (a + b + 1)))
        x = R.choice([R.uniform(0, 1), m + R.uniform(-4, 4) * sd])
        if 0 < x < 1:
            pts.append((a, b, x))
    for (a, b, x) in pts:
        emit("beta_reg", [a, b, x], lambda: mp.betainc(mpf(a), mpf(b), 0, mpf(x), regularized=True))
        emit("beta_inc", [a, b, x], lambda: mp.betainc(mpf(a), mpf(b), 0, mpf(x)))


# ------------------------------------------------------------------ combinatorics
def gen_comb():
    for n in range(0, 171):
        emit("factorial", [n], lambda: mp.factorial(n))
        emit("ln_factorial", [n], lambda: mp.log(mp.factorial(n)))
    ns = [171, 172, 200, 255, 256, 1000, 4096, 10000, 65536, 100000, 999999, 1000000] + [int(logu(171, 1e6)) for _ in range(150)]
    for n in sorted(set(ns)):
        emit("ln_factorial", [n], lambda: mp.loggamma(mpf(n) + 1))
    pairs = []
    for n in list(range(0, 40)) + [50, 60, 62, 64, 66, 67, 70, 80, 100, 120, 150, 169, 170, 171, 172, 200, 500, 1000, 1029, 1030, 5000, 10 ** 4, 10 ** 5, 10 ** 6]:
        ks = {0, 1, 2, 3, n // 4, n // 3, n // 2, n - n // 3, n - 2, n - 1, n}
        ks |= {R.randint(0, n) for _ in range(3)}
        for k in sorted(k for k in ks if 0 <= k <= n):
            pairs.append((n, k))
    for _ in range(200):
        n = int(logu(2, 1e6))
        k = R.choice([R.randint(0, n), R.randint(0, min(n, 40)), n - R.randint(0, min(n, 40))])
        pairs.append((n, k))
    for (n, k) in sorted(set(pairs)):
        emit("binomial", [n, k], lambda: mp.binomial(n, k))
        emit("ln_binomial", [n, k], lambda: mp.log(mp.binomial(n, k)))
    ms = [[1], [0, 0], [1, 1], [2, 3], [1, 2, 3], [5, 5, 5], [3, 0, 4], [10, 10, 10, 10], [20, 30, 40], [50, 50, 50], [1, 1, 1, 1, 1, 1, 1, 1], [100, 50, 20], [170, 1], [85, 85], [60, 60, 50], [100, 100, 100], [300, 300], [200, 200, 200, 200, 100], [1000, 2], [500, 3, 2]]
    for _ in range(120):
        k = R.randint(2, 8)
        top = R.choice([5, 20, 60, 200])
        ms.append([R.randint(0, top) for _ in range(k)])
    for ni in ms:
        n = sum(ni)

        def f():
            v = mp.loggamma(mpf(n) + 1)
            for x in ni:
                v -= mp.loggamma(mpf(x) + 1)
            return mp.exp(v)
        emit("multinomial", [n] + ni, f)


# ------------------------------------------------------------------ harmonic
def gen_harmonic():
    ts = list(range(1, 171)) + [171, 200, 1000, 10 ** 4, 10 ** 5, 10 ** 6] + [int(logu(171, 1e6)) for _ in range(60)]
    for t in sorted(set(ts)):
        emit("harmonic", [t], lambda: mp.harmonic(mpf(t)))
    for n in [1, 2, 3, 4, 5, 7, 10, 20, 50, 100, 170, 500, 1000, 10 ** 4, 10 ** 5]:
        for m in [0.0, 0.5, 1.0, 1.5, 2.0, 3.0, 5.5, 10.0, 50.0, -1.0, -0.5, -2.0]:
            if n > 10 ** 4 and m not in (1.0, 2.0, 0.5):
                continue
            emit("gen_harmonic", [n, m], lambda: mp.fsum(mpf(k) ** (-mpf(m)) for k in range(1, n + 1)))


# ------------------------------------------------------------------ logistic / logit / E_n
def gen_misc():
    ps = [0.0, 1e-300, 1e-100, 1e-20, 1e-10, 1e-5, 1e-3, 0.1, 0.5, 1.0, 2.0, 5.0, 10.0, 20.0, 30.0, 36.0, 37.0, 40.0, 50.0, 100.0, 300.0, 500.0, 700.0, 708.0, 709.0, 745.0]
    ps += [R.uniform(0, 40) for _ in range(40)] + [logu(1e-6, 700) for _ in range(30)]
    for p in sorted(set(ps)):
        for s in (p, -p):
            emit("logistic", [s], lambda: 1 / (1 + mp.exp(-mpf(s))))
    qs = [5e-324, 2.2250738585072014e-308, 1e-300, 1e-100, 1e-20, 1e-10, 1e-5, 1e-3, 0.01, 0.1, 0.25, 0.4, 0.49, 0.499999, dn(0.5), up(0.5), 0.500001, 0.51, 0.6, 0.75, 0.9, 0.99, 0.999, 1 - 1e-6, 1 - 1e-10, 1 - 1e-15, dn(1.0), dn(1.0, 2)]
    qs += [R.uniform(0, 1) for _ in range(60)] + [logu(1e-12, 0.5) for _ in range(20)]
    for p in sorted(set(qs)):
        emit("logit", [p], lambda: mp.log(mpf(p) / (1 - mpf(p))))
    xs = [1e-300, 1e-100, 1e-10, 1e-5, 1e-3, 0.01, 0.1, 0.25, 0.5, 0.75, 0.9, dn(1.0), 1.0, up(1.0), 1.1, 1.5, 2.0, 3.0, 5.0, 10.0, 20.0, 50.0, 100.0, 300.0, 500.0, 700.0]
    xs += [logu(1e-6, 700) for _ in range(40)]
    for n in [0, 1, 2, 3, 4, 5, 10, 20, 50, 100, 1000]:
        for x in sorted(set(xs)):
            emit("exp_integral", [x, n], lambda: mp.expint(n, mpf(x)))
        if n > 1:
            emit("exp_integral", [0.0, n], lambda: mp.expint(n, mpf(0)))


# ------------------------------------------------------------------ inverses
def bisect_inv(f, lo, hi, increasing=True):
    """high precision inverse by bisection+secant of a monotone function"""
    def g(t):
        def h(x):
            return f(x) - t
        a, b = mpf(lo), mpf(hi)
        fa, fb = h(a), h(b)
        if fa == 0:
            return a
        if fb == 0:
            return b
        if (fa > 0) == (fb > 0):
            raise ValueError("no bracket")
        return mp.findroot(h, (a, b), solver="anderson", tol=mpf(10) ** (-(mp.dps - 5)), maxsteps=400, verify=False)
    return g


def gen_inverses():
    # erf_inv
    ys = [1e-300, 1e-100, 1e-20, 1e-10, 1e-5, 1e-3, 0.01, 0.1, 0.2, 0.3, 0.4] + around(0.5, 2) + [0.6, 0.7] + around(0.75, 2) + [0.8, 0.9, 0.99, 0.999, 0.9999]
    e9 = 1.0 - math.exp(-9.0)
    ys += around(e9, 2) + [1 - 1e-5, 1 - 1e-8, 1 - 1e-10, 1 - 1e-12, 1 - 1e-14, 1 - 1e-15, dn(1.0, 4), dn(1.0, 2), dn(1.0)]
    ys += [R.uniform(0, 1) for _ in range(60)] + [1 - logu(1e-16, 0.25) for _ in range(40)]
    ys = sorted(set(y for y in ys if 0 < y < 1))
    for y in ys + [-y for y in ys]:
        emit_inv("erf_inv", [y], y, lambda t: mp.erfinv(t) if abs(t) < 1 else (mp.inf if t > 0 else -mp.inf))
    # erfc_inv: y in (0,2)
    qs = [5e-324, 1e-310, 2.2250738585072014e-308, 1e-300, 1e-250, 1e-200, 1e-150] + around(math.exp(-324.0), 2) + [1e-140, 1e-120, 1e-100, 1e-50, 1e-30, 1e-20] + around(math.exp(-36.0), 2) + [1e-15, 1e-12, 1e-10, 1e-8, 1e-5] + around(math.exp(-9.0), 2) + [1e-3, 0.01, 0.1] + around(0.25, 2) + [0.3, 0.4] + around(0.5, 2) + [0.75, 0.9, 0.99, 0.999999, dn(1.0), up(1.0), 1.000001, 1.01, 1.1, 1.25, 1.5] + around(1.75, 2) + [1.9, 1.99, 1.9999, 2 - 1e-8, 2 - 1e-12, 2 - 1e-15, dn(2.0)]
    qs += [logu(1e-300, 1.0) for _ in range(60)] + [R.uniform(0, 2) for _ in range(40)]

    def erfcinv(t):
        if t >= 2:
            return -mp.inf
        if t <= 0:
            return mp.inf
        # exact via erfinv(1-t) with enough digits for tiny t
        old = mp.dps
        mp.dps = old + 330
        try:
            r = mp.erfinv(1 - t)
        finally:
            mp.dps = old
        return +r
    for y in sorted(set(q for q in qs if 0 < q < 2)):
        emit_inv("erfc_inv", [y], y, erfcinv)
    # inv_digamma (positive branch)
    ds = [-1e10, -1e8, -1e6, -1e4, -1e3, -100.0, -30.0, -10.423754940411076, -10.0, -5.0, -3.0, -2.22, -2.0, -1.5, -1.0, -0.5772156649015329, -0.5, -0.1, -0.01, -1e-3, -1e-6, 1e-6, 1e-3, 0.01, 0.036489973978576520559, 0.1, 0.42278433509846713939, 0.5, 1.0, 1.5, 2.0, 2.2622143570941481, 3.0, 4.0, 5.0, 6.0, 8.0, 10.0, 11.0, 11.5]
    ds += [R.uniform(-12, 11.5) for _ in range(80)]

    def invpsi(t):
        x0 = mp.exp(t) + mpf(1) / 2 if t >= mpf("-2.22") else -1 / (t - mp.psi(0, 1))
        x = x0
        for _ in range(200):
            fx = mp.psi(0, x) - t
            x1 = x - fx / mp.psi(1, x)
            if x1 <= 0:
                x1 = x / 2
            if abs(x1 - x) <= abs(x1) * mpf(10) ** (-(mp.dps - 6)):
                return x1
            x = x1
        raise ValueError("no convergence")
    for y in sorted(set(ds)):
        emit_inv("inv_digamma", [y], y, invpsi)
    # inv_beta_reg
    G = [0.5, 1.0, 2.0, 5.0, 10.0, 50.0, 200.0, 1000.0]
    P = [1e-6, 1e-3, 0.01, 0.1, 0.3, 0.5, 0.7, 0.9, 0.99, 0.999]
    pts = [(a, b, p) for a in G for b in G for p in P]
    pts += [(logu(0.1, 2e3), logu(0.1, 2e3), R.uniform(0, 1)) for _ in range(80)]
    for (a, b, p) in pts:
        def invb(t, a=a, b=b):
            if t >= 1:
                return mpf(1)
            f = lambda x: mp.betainc(mpf(a), mpf(b), 0, x, regularized=True)
            # coarse bracket by bisection in log-ish steps
            lo, hi = mpf(0), mpf(1)
            for _ in range(70):
                mid = (lo + hi) / 2
                if f(mid) < t:
                    lo = mid
                else:
                    hi = mid
                if hi - lo < mpf(10) ** -12 * hi:
                    break
            if lo == 0:
                lo = hi * mpf(10) ** -30
                while f(lo) > t:
                    lo = lo * mpf(10) ** -30
            return bisect_inv(f, lo, hi)(t)
        emit_inv("inv_beta_reg", [a, b, p], p, invb)


if __name__ == "__main__":
    print("# C11 reference table; generated by gen_c11_reference.py (mpmath %s, 50/80 digits, seed 20260930)" % __import__("mpmath").__version__)
    gen_gamma_family()
    gen_erf()
    gen_incgamma()
    gen_incbeta()
    gen_comb()
    gen_harmonic()
    gen_misc()
    gen_inverses()
    sys.stderr.write("rows: %r\ntotal %d\ndropped %d: %r\n" % (NROWS, sum(NROWS.values()), len(DROPPED), DROPPED[:40]))
