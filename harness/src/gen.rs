//! Request generators for the correspondence suites.
pub fn main(_args: &[String]) {
    eprintln!("gen: not built yet");
}
