//! Request generators for the correspondence suites.
//!   harness gen <tier> <seed> <signatures.json> [id-prefix ...]   → request lines on stdout, statistics (JSON) on stderr
use crate::proto::*;
use crate::rng::Sm;
use std::collections::BTreeMap;

pub const SPECIAL_F: [f64; 13] = [
    f64::NAN,
    f64::NEG_INFINITY,
    -1.0,
    -0.0,
    0.0,
    5e-324,
    f64::MIN_POSITIVE,
    0.5,
    1.0,
    1.0000000000000002,
    2.0,
    f64::MAX,
    f64::INFINITY,
];

pub fn next_up(x: f64) -> f64 {
    if x.is_nan() || x == f64::INFINITY {
        return x;
    }
    if x == 0.0 {
        return 5e-324;
    }
    let b = x.to_bits();
    f64::from_bits(if x > 0.0 { b + 1 } else { b - 1 })
}
pub fn next_down(x: f64) -> f64 {
    -next_up(-x)
}

#[derive(Clone, Copy, PartialEq, Debug)]
enum Kind {
    Prob,
    Shape,
    Scale,
    Loc,
    Any,
}

fn kind_of(name: &str) -> Kind {
    let n = name;
    if n == "p" {
        Kind::Prob
    } else if n.starts_with("shape") || n.starts_with("freedom") || n == "r" || n == "lambda" || n == "a" || n == "b" {
        Kind::Shape
    } else if n == "rate" || n == "scale" || n == "std_dev" || n == "c" {
        Kind::Scale
    } else if n == "location" || n == "mean" || n == "mu" || n == "v" {
        Kind::Loc
    } else {
        Kind::Any
    }
}

fn gen_f(r: &mut Sm, k: Kind, extended: bool) -> f64 {
    match k {
        Kind::Prob => match r.below(10) {
            0 => 0.0,
            1 => 1.0,
            2 => 0.5,
            3 => 1e-3,
            4 => 1.0 - 1e-3,
            _ => r.range(1e-3, 1.0 - 1e-3),
        },
        Kind::Shape => match r.below(12) {
            0 => 0.5,
            1 => 1.0,
            2 => 2.0,
            3 => 80.0,
            4 => 160.0,
            5 => 200.0,
            6 => r.below(200) as f64 + 1.0,
            _ => {
                if extended {
                    r.log_range(0.05, 1e4)
                } else {
                    r.log_range(0.5, 200.0)
                }
            }
        },
        Kind::Scale => match r.below(8) {
            0 => 1.0,
            1 => 1e-2,
            2 => 1e2,
            _ => {
                if extended {
                    r.log_range(1e-4, 1e4)
                } else {
                    r.log_range(1e-2, 1e2)
                }
            }
        },
        Kind::Loc => match r.below(8) {
            0 => 0.0,
            1 => -100.0,
            2 => 100.0,
            3 => 1.0,
            _ => r.range(-100.0, 100.0),
        },
        Kind::Any => {
            let s = if r.below(2) == 0 { 1.0 } else { -1.0 };
            match r.below(8) {
                0 => 0.0,
                1 => 1.0,
                2 => -1.0,
                _ => s * r.log_range(1e-3, 1e3),
            }
        }
    }
}

/// core-domain constructor tuples per family
pub fn ctor_tuple(r: &mut Sm, fam: &str, types: &[String], names: &[String], extended: bool, lattice: bool) -> Vec<Arg> {
    ctor_tuple_flag(r, fam, types, names, extended, lattice).0
}
/// (tuple, is-lattice-tuple)
pub fn ctor_tuple_flag(r: &mut Sm, fam: &str, types: &[String], names: &[String], extended: bool, lattice: bool) -> (Vec<Arg>, bool) {
    if lattice && r.below(8) == 0 {
        return (lattice_tuple(r, types), true);
    }
    (ctor_tuple_core(r, fam, types, names, extended), false)
}
fn lattice_tuple(r: &mut Sm, types: &[String]) -> Vec<Arg> {
    {
        return types
            .iter()
            .map(|t| {
                if t == "f" {
                    Arg::F(*r.pick(&SPECIAL_F))
                } else if t.starts_with("i:i") {
                    Arg::I(*r.pick(&[-2i128, -1, 0, 1, 2]))
                } else if t.starts_with("i:") {
                    Arg::I(*r.pick(&[0i128, 1, 2]))
                } else {
                    Arg::FL(vec![])
                }
            })
            .collect();
    }
}
fn ctor_tuple_core(r: &mut Sm, fam: &str, types: &[String], names: &[String], extended: bool) -> Vec<Arg> {
    match fam {
        "Uniform" => {
            let a = gen_f(r, Kind::Loc, extended);
            let w = gen_f(r, Kind::Scale, extended);
            vec![Arg::F(a), Arg::F(a + w)]
        }
        "Triangular" => {
            let a = gen_f(r, Kind::Loc, extended);
            let w = gen_f(r, Kind::Scale, extended);
            let b = a + w;
            let m = match r.below(5) {
                0 => a,
                1 => b,
                _ => a + w * r.unit(),
            };
            vec![Arg::F(a), Arg::F(b), Arg::F(m)]
        }
        "DiscreteUniform" => {
            let a = r.below(200) as i128 - 100;
            let w = r.below(60) as i128;
            vec![Arg::I(a), Arg::I(a + w)]
        }
        "Hypergeometric" => {
            let n = match r.below(6) {
                0 => 0,
                1 => 1,
                2 => 50,
                _ => r.below(300),
            } as i128;
            let k = r.below(n as u64 + 1) as i128;
            let d = r.below(n as u64 + 1) as i128;
            vec![Arg::I(n), Arg::I(k), Arg::I(d)]
        }
        "Binomial" => {
            let n = match r.below(6) {
                0 => 0,
                1 => 1,
                2 => 1000,
                _ => r.below(200),
            } as i128;
            vec![Arg::F(gen_f(r, Kind::Prob, extended)), Arg::I(n)]
        }
        "Erlang" => vec![Arg::I(1 + r.below(200) as i128), Arg::F(gen_f(r, Kind::Scale, extended))],
        "Chi" => vec![Arg::I(1 + r.below(200) as i128)],
        "Geometric" | "NegativeBinomial" => {
            // p in (0,1]
            let mut v = vec![];
            for (t, n) in types.iter().zip(names.iter()) {
                if t == "f" {
                    let k = kind_of(n);
                    let mut x = gen_f(r, k, extended);
                    if k == Kind::Prob && x == 0.0 {
                        x = 0.25;
                    }
                    v.push(Arg::F(x));
                }
            }
            v
        }
        "StudentsT" => {
            let dof = match r.below(8) {
                0 => f64::INFINITY,
                1 => 1.0,
                2 => 2.0,
                3 => 3.0,
                _ => gen_f(r, Kind::Shape, extended),
            };
            vec![Arg::F(gen_f(r, Kind::Loc, extended)), Arg::F(gen_f(r, Kind::Scale, extended)), Arg::F(dof)]
        }
        "Poisson" => vec![Arg::F(match r.below(6) {
            0 => 0.5,
            1 => 29.5,
            2 => 30.5,
            _ => r.log_range(0.5, 200.0),
        })],
        _ => types
            .iter()
            .zip(names.iter())
            .map(|(t, n)| {
                if t == "f" {
                    Arg::F(gen_f(r, kind_of(n), extended))
                } else if t.starts_with("i:") {
                    Arg::I(r.below(50) as i128)
                } else if t == "F" {
                    let len = 1 + r.below(6) as usize;
                    Arg::FL((0..len).map(|_| if r.below(5) == 0 { 0.0 } else { r.log_range(1e-2, 10.0) }).collect())
                } else {
                    Arg::I(0)
                }
            })
            .collect(),
    }
}

pub fn reply_f(s: &str) -> Option<f64> {
    let s = s.strip_prefix("f:")?;
    u64::from_str_radix(s, 16).ok().map(f64::from_bits)
}
pub fn reply_i(s: &str) -> Option<i128> {
    s.strip_prefix("i:")?.parse().ok()
}

pub const P_GRID: [f64; 15] = [1e-9, 1e-6, 1e-4, 1e-3, 1e-2, 0.1, 0.25, 0.5, 0.75, 0.9, 0.99, 0.999, 1.0 - 1e-4, 1.0 - 1e-6, 1.0 - 1e-9];

/// argument values for a float method parameter of a constructed distribution
pub fn x_pool_f(r: &mut Sm, fam: &str, ctor: &[Arg], inv_hangs: &mut bool) -> Vec<f64> {
    let mut v: Vec<f64> = vec![];
    for p in P_GRID.iter() {
        let mut a = ctor.to_vec();
        a.push(Arg::F(*p));
        let rep = crate::call_timeout(&format!("{}::inverse_cdf", fam), &a, 2000);
        if rep == "hang" {
            *inv_hangs = true;
            break;
        }
        if let Some(x) = reply_f(&rep) {
            if !x.is_nan() {
                v.push(x);
                if r.below(3) == 0 {
                    v.push(next_up(x));
                }
            }
        }
    }
    for m in ["min", "max"] {
        if let Some(x) = reply_f(&crate::call_timeout(&format!("{}::{}", fam, m), ctor, 2000)) {
            v.push(x);
            v.push(next_up(x));
            v.push(next_down(x));
        }
    }
    if let Some(x) = reply_f(&crate::call_timeout(&format!("{}::median", fam), ctor, 2000)) {
        v.push(x);
    }
    v.extend_from_slice(&[0.0, -0.0, 1.0, -1.0, 0.5, f64::INFINITY, f64::NEG_INFINITY, 1e300, -1e300, 5e-324]);
    for _ in 0..6 {
        v.push(gen_f(r, Kind::Any, false));
    }
    v
}

pub fn x_pool_i(r: &mut Sm, fam: &str, ctor: &[Arg], signed: bool) -> Vec<i128> {
    let mut v: Vec<i128> = vec![0, 1, 2, 3, 5, 10];
    for m in ["min", "max"] {
        if let Some(x) = reply_i(&crate::call_timeout(&format!("{}::{}", fam, m), ctor, 2000)) {
            for d in [-2i128, -1, 0, 1, 2] {
                v.push(x.saturating_add(d));
            }
        }
    }
    for _ in 0..8 {
        v.push(r.below(300) as i128);
    }
    if signed {
        for _ in 0..4 {
            v.push(-(r.below(100) as i128));
        }
        v.retain(|x| *x >= i64::MIN as i128 && *x <= i64::MAX as i128);
    } else {
        v.retain(|x| *x >= 0 && *x <= i64::MAX as i128);
    }
    v
}

fn fn_arg(r: &mut Sm, id: &str, name: &str, ty: &str) -> Arg {
    let last = id.rsplit("::").next().unwrap();
    let module = id.rsplit("::").nth(1).unwrap_or("");
    match ty {
        "f" => {
            let special = r.below(12) == 0;
            if special {
                return Arg::F(*r.pick(&SPECIAL_F));
            }
            let x = match (module, last, name) {
                ("erf", "erf_inv", _) => r.range(-1.0, 1.0),
                ("erf", "erfc_inv", _) => r.range(0.0, 2.0),
                ("erf", _, _) => {
                    let joints = [0.0, 1e-10, 0.5, 0.75, 1.25, 2.25, 3.5, 5.25, 8.0, 11.5, 17.0, 24.0, 38.0, 60.0, 85.0, 110.0, 5.8, 5.93, 28.0];
                    match r.below(3) {
                        0 => {
                            let j = *r.pick(&joints);
                            let s = if r.below(2) == 0 { 1.0 } else { -1.0 };
                            s * match r.below(3) {
                                0 => j,
                                1 => next_up(j),
                                _ => next_down(j),
                            }
                        }
                        _ => (if r.below(2) == 0 { 1.0 } else { -1.0 }) * r.log_range(1e-12, 120.0),
                    }
                }
                ("beta", _, "x") => match r.below(8) {
                    0 => 0.0,
                    1 => 1.0,
                    _ => r.unit(),
                },
                ("beta", _, _) => r.log_range(1e-3, 2e3),
                ("gamma", _, "a") => r.log_range(1e-3, 1e4),
                ("gamma", "gamma" | "ln_gamma", _) => match r.below(4) {
                    0 => -r.log_range(1e-3, 170.0),
                    _ => r.log_range(1e-5, 1e5),
                },
                ("gamma", "digamma" | "inv_digamma", _) => (if r.below(3) == 0 { -1.0 } else { 1.0 }) * r.log_range(1e-7, 1e4),
                ("gamma", _, _) => r.log_range(1e-6, 1e5),
                ("logistic", "logistic", _) => r.range(-800.0, 800.0),
                ("logistic", _, _) => r.unit(),
                ("exponential", _, _) => r.log_range(1e-6, 50.0),
                ("harmonic", _, _) => r.range(0.5, 6.0),
                ("generate", _, _) => r.range(-5.0, 5.0).round(),
                _ => gen_f(r, Kind::Any, false),
            };
            Arg::F(x)
        }
        t if t.starts_with("i:") => {
            let x = match r.below(10) {
                0 => 0,
                1 => 1,
                2 => 170,
                3 => 171,
                // a length argument of a sequence generator: the reply carries that many values
                4 => r.below(if module == "generate" { 5_000 } else { 1_000_000 }),
                _ => r.below(200),
            };
            Arg::I(x as i128)
        }
        "F" => {
            let len = r.below(13) as usize;
            Arg::FL((0..len).map(|_| gen_f(r, Kind::Any, false)).collect())
        }
        t if t.starts_with("I:") => {
            let len = if id.contains("fisher") { 4 } else { r.below(5) as usize };
            Arg::IL((0..len).map(|_| r.below(20) as i128).collect())
        }
        t if t.starts_with("e:") => {
            let n: u64 = t[2..].parse().unwrap_or(1);
            Arg::I(r.below(n) as i128)
        }
        "b" => Arg::B(r.below(2) == 0),
        "OF" => Arg::FL(if r.below(2) == 0 { vec![] } else { vec![gen_f(r, Kind::Any, false)] }),
        t if t.starts_with("OI:") => Arg::IL(if r.below(2) == 0 { vec![] } else { vec![r.below(5) as i128] }),
        _ => Arg::I(0),
    }
}

pub fn main(args: &[String]) {
    std::panic::set_hook(Box::new(|_| {}));
    let tier = args.get(0).map(|s| s.as_str()).unwrap_or("quick");
    let seed: u64 = args.get(1).and_then(|s| s.parse().ok()).unwrap_or(1);
    let sig_path = args.get(2).expect("signatures.json");
    let prefixes: Vec<String> = args[3.min(args.len())..].to_vec();
    let sigs: serde_json::Value = serde_json::from_str(&std::fs::read_to_string(sig_path).unwrap()).unwrap();
    let thorough = tier == "thorough";
    let (n_tuples, n_args, n_fn) = if thorough { (60usize, 200usize, 20000usize) } else { (14, 24, 1500) };
    let mut r = Sm::new(seed);
    let mut stats: BTreeMap<String, u64> = BTreeMap::new();
    // group methods by family so that parameter tuples and argument pools are shared
    let mut fams: BTreeMap<String, Vec<&serde_json::Value>> = BTreeMap::new();
    let mut frees: Vec<&serde_json::Value> = vec![];
    for s in sigs.as_array().unwrap() {
        let id = s["id"].as_str().unwrap();
        let m = |p: &String| -> bool {
            if let Some(x) = p.strip_prefix('=') {
                id == x
            } else if p.starts_with("::") {
                id.ends_with(p.as_str())
            } else {
                id.starts_with(p.as_str())
            }
        };
        if !prefixes.is_empty() && !prefixes.iter().any(m) {
            continue;
        }
        match s["self"].as_str() {
            Some(f) if s["ctor"].as_array().map(|a| !a.is_empty()).unwrap_or(false) && !["f64", "i64", "u64", "i32", "u32"].contains(&f) => {
                fams.entry(f.to_string()).or_default().push(s)
            }
            _ => frees.push(s),
        }
    }
    let strs = |v: &serde_json::Value| -> Vec<String> { v.as_array().map(|a| a.iter().map(|x| x.as_str().unwrap_or("").to_string()).collect()).unwrap_or_default() };
    let out = std::io::stdout();
    let mut out = std::io::BufWriter::new(out.lock());
    use std::io::Write;
    for (fam, methods) in &fams {
        let ctypes = strs(&methods[0]["ctor"]);
        let cnames = strs(&methods[0]["ctor_names"]);
        for ti in 0..n_tuples {
            let (ctor, is_lattice) = ctor_tuple_flag(&mut r, fam, &ctypes, &cnames, thorough && ti % 2 == 1, true);
            let ok = crate::call_timeout(&format!("{}::new", fam), &ctor, 2000).starts_with("ok");
            let mut inv_hangs = false;
            let xf = if ok { x_pool_f(&mut r, fam, &ctor, &mut inv_hangs) } else { vec![0.5, 1.0] };
            let xi_u = if ok { x_pool_i(&mut r, fam, &ctor, false) } else { vec![0, 1] };
            let xi_s = if ok { x_pool_i(&mut r, fam, &ctor, true) } else { vec![0, 1] };
            for m in methods {
                let id = m["id"].as_str().unwrap();
                let ptypes = strs(&m["params"]);
                let method = m["method"].as_str().unwrap_or("");
                // special-value parameter tuples exercise the constructor and parameterless methods only: inside
                // loops a panic of the implementation cannot be mirrored by the pure model (the sentinel does not
                // survive comparisons), and such objects are outside every property's domain except C09/C12
                if is_lattice && !ptypes.is_empty() {
                    continue;
                }
                let reps = if ptypes.is_empty() { 1 } else if ok { n_args } else { 2 };
                // a hang seen while building the argument pool is reported once, not n_args times
                let reps = if inv_hangs && (method == "inverse_cdf" || method == "median") { 1 } else { reps };
                for ri in 0..reps {
                    let mut a = ctor.clone();
                    for t in &ptypes {
                        let v = if t == "f" {
                            if method == "inverse_cdf" {
                                Arg::F(match r.below(12) {
                                    0 => 0.0,
                                    1 => 1.0,
                                    2 => *r.pick(&P_GRID),
                                    3 => *r.pick(&P_GRID),
                                    _ => r.unit(),
                                })
                            } else if ri < xf.len() {
                                Arg::F(xf[ri])
                            } else {
                                Arg::F(*r.pick(&xf))
                            }
                        } else if t.starts_with("i:i") {
                            Arg::I(*r.pick(&xi_s))
                        } else if t.starts_with("i:") {
                            Arg::I(*r.pick(&xi_u))
                        } else {
                            fn_arg(&mut r, id, "", t)
                        };
                        a.push(v);
                    }
                    writeln!(out, "{} {}", id, a.iter().map(|x| x.render()).collect::<Vec<_>>().join(" ")).unwrap();
                    *stats.entry(id.to_string()).or_default() += 1;
                }
            }
        }
    }
    for s in frees {
        let id = s["id"].as_str().unwrap();
        let mut types = strs(&s["ctor"]);
        types.extend(strs(&s["params"]));
        let mut names: Vec<String> = strs(&s["ctor"]).iter().map(|_| "self".to_string()).collect();
        names.extend(strs(&s["param_names"]));
        let reps = if types.is_empty() { 1 } else { n_fn };
        for _ in 0..reps {
            let a: Vec<Arg> = types.iter().zip(names.iter()).map(|(t, n)| fn_arg(&mut r, id, n, t)).collect();
            writeln!(out, "{} {}", id, a.iter().map(|x| x.render()).collect::<Vec<_>>().join(" ")).unwrap();
            *stats.entry(id.to_string()).or_default() += 1;
        }
    }
    out.flush().unwrap();
    let hangs = crate::HANGS.lock().unwrap().clone();
    eprintln!("{}", serde_json::json!({"counts": stats, "generator_hangs": hangs}));
    std::process::exit(0);
}


/// Deterministic boundary parameter tuples per family (degenerate probabilities, infinite freedom, mode at an end,
/// branch-switch shapes, non-trivial location/scale), always explored by the searches in addition to the seeded ones.
pub fn corner_tuples(fam: &str) -> Vec<Vec<Arg>> {
    let f = |v: &[f64]| -> Vec<Arg> { v.iter().map(|x| Arg::F(*x)).collect() };
    let inf = f64::INFINITY;
    match fam {
        "StudentsT" => vec![f(&[0.0, 1.0, inf]), f(&[1.5, 2.0, inf]), f(&[-3.0, 0.5, 1.0]), f(&[2.0, 3.0, 2.0]), f(&[0.0, 1.0, 3.0]), f(&[1.5, 2.0, 1e8]), f(&[1.5, 2.0, 7.0])],
        "Normal" | "Cauchy" | "Laplace" | "Gumbel" | "LogNormal" => vec![f(&[1.5, 2.0]), f(&[-100.0, 0.01]), f(&[0.0, 1.0])],
        "Levy" => vec![f(&[1.5, 2.0]), f(&[-100.0, 0.01])],
        "Bernoulli" | "Geometric" => vec![f(&[1.0]), f(&[0.5]), f(&[0.75])].into_iter().chain(if fam == "Bernoulli" { vec![f(&[0.0])] } else { vec![] }).collect(),
        "Binomial" => vec![vec![Arg::F(0.0), Arg::I(5)], vec![Arg::F(1.0), Arg::I(5)], vec![Arg::F(0.3), Arg::I(0)], vec![Arg::F(0.3), Arg::I(1)], vec![Arg::F(0.999), Arg::I(156)]],
        "NegativeBinomial" => vec![f(&[2.5, 1.0]), f(&[1.0, 0.5]), f(&[3.0, 0.25])],
        "Triangular" => vec![f(&[0.0, 1.0, 0.0]), f(&[0.0, 1.0, 1.0]), f(&[-2.0, 3.0, -2.0]), f(&[-2.0, 3.0, 3.0]), f(&[2.0, 4.0, 3.5]), f(&[-5.0, 8.0, 0.0])],
        "Beta" => vec![f(&[1.0, 1.0]), f(&[1.0, 3.0]), f(&[3.0, 1.0]), f(&[0.5, 0.5]), f(&[80.0, 80.0]), f(&[81.0, 2.0])],
        "Gamma" => vec![f(&[1.0, 2.0]), f(&[160.0, 1.0]), f(&[161.0, 1.0]), f(&[0.5, 2.0])],
        "InverseGamma" => vec![f(&[1.0, 2.0]), f(&[2.0, 1.0]), f(&[3.0, 0.5])],
        "Erlang" => vec![vec![Arg::I(1), Arg::F(2.0)], vec![Arg::I(160), Arg::F(1.0)]],
        "Chi" => vec![vec![Arg::I(1)], vec![Arg::I(2)], vec![Arg::I(31)], vec![Arg::I(160)], vec![Arg::I(161)], vec![Arg::I(300)], vec![Arg::I(301)]],
        "ChiSquared" => vec![f(&[1.0]), f(&[2.0]), f(&[4.0]), f(&[0.99]), f(&[0.75]), f(&[0.4])],
        "Hypergeometric" => vec![[0, 0, 0], [10, 0, 5], [10, 10, 10], [10, 5, 0], [10, 5, 10], [50, 25, 25], [10, 3, 5]].iter().map(|t| t.iter().map(|x| Arg::I(*x as i128)).collect()).collect(),
        "DiscreteUniform" => vec![vec![Arg::I(3), Arg::I(3)], vec![Arg::I(-5), Arg::I(5)]],
        "Uniform" => vec![f(&[0.0, 1.0]), f(&[-100.0, 100.0])],
        "Weibull" => vec![f(&[1.0, 2.0]), f(&[0.5, 1.0]), f(&[2.0, 3.0])],
        "Pareto" => vec![f(&[1.0, 1.0]), f(&[2.0, 2.0]), f(&[0.5, 3.0])],
        "FisherSnedecor" => vec![f(&[2.0, 2.0]), f(&[2.0, 1.0]), f(&[1.0, 2.0]), f(&[2.0, 4.0]), f(&[2.0, 6.0]), f(&[100.0, 100.0])],
        "Poisson" => vec![f(&[0.5]), f(&[29.5]), f(&[30.5]), f(&[1.0]), f(&[0.05])],
        "Exp" => vec![f(&[1.0]), f(&[1e-2]), f(&[1e2])],
        "Dirac" => vec![f(&[0.0]), f(&[-2.5])],
        _ => vec![],
    }
}
