//! Hand-written dispatch entries (functions the translator does not cover, stateful objects, generic entry points).
use crate::proto::*;

pub fn dispatch(_id: &str, _a: &[Arg]) -> Option<String> {
    None
}
