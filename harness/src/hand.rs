//! Hand-written dispatch entries (functions the translator's auto-dispatch does not cover:
//! generic entry points, stateful objects).  Same ids as lean/Statrs/Model/Dispatch.lean.
use crate::proto::*;
use statrs::statistics::{Data, Distribution, Max, Min, Statistics};

fn stat(id: &str, a: &[Arg]) -> Option<String> {
    let rest = id.strip_prefix("IterStatistics::")?;
    let (name, how) = match rest.split_once('@') {
        Some((n, h)) => (n, h),
        None => (rest, "slice"),
    };
    let v = a.get(0)?.fl();
    macro_rules! by {
        ($m:ident) => {
            match how {
                "vec" => Statistics::$m(v.clone()),
                "iter" => Statistics::$m(v.clone().into_iter()),
                _ => Statistics::$m(v.as_slice()),
            }
        };
    }
    let r = match name {
        "min" => by!(min),
        "max" => by!(max),
        "abs_min" => by!(abs_min),
        "abs_max" => by!(abs_max),
        "mean" => by!(mean),
        "geometric_mean" => by!(geometric_mean),
        "harmonic_mean" => by!(harmonic_mean),
        "variance" => by!(variance),
        "std_dev" => by!(std_dev),
        "population_variance" => by!(population_variance),
        "population_std_dev" => by!(population_std_dev),
        "quadratic_mean" => by!(quadratic_mean),
        "covariance" => v.as_slice().covariance(a.get(1)?.fl().as_slice()),
        "population_covariance" => v.as_slice().population_covariance(a.get(1)?.fl().as_slice()),
        _ => return None,
    };
    Some(rep(&r))
}

pub fn dispatch(id: &str, a: &[Arg]) -> Option<String> {
    if let Some(r) = crate::hand_ranktests::answer(id, a) {
        return Some(r);
    }
    if id.starts_with("vec::") {
        return crate::hand_vec::dispatch(id, a);
    }
    if id.starts_with("mv::") {
        return crate::hand_mv::dispatch(id, a);
    }
    if id.starts_with("sample::") {
        return crate::hand_samplers::dispatch(id, a);
    }
    if id.starts_with("IterStatistics::") {
        return stat(id, a);
    }
    if let Some(m) = id.strip_prefix("cat::") {
        use statrs::distribution::{Categorical, Discrete, DiscreteCDF};
        use statrs::statistics::{Distribution as _, Max, Median, Min};
        let d = match Categorical::new(&a[0].fl()) {
            Ok(d) => d,
            Err(e) => return Some(crate::proto::ctor_err(&e)),
        };
        let k = |i: usize| -> u64 { a[i].i() as u64 };
        return Some(match m {
            "new" => "ok".to_string(),
            "pmf" => rep(&d.pmf(k(1))),
            "ln_pmf" => rep(&d.ln_pmf(k(1))),
            "cdf" => rep(&d.cdf(k(1))),
            "sf" => rep(&d.sf(k(1))),
            "inverse_cdf" => rep(&d.inverse_cdf(a[1].f())),
            "min" => rep(&d.min()),
            "max" => rep(&d.max()),
            "mean" => rep(&d.mean()),
            "variance" => rep(&d.variance()),
            "std_dev" => rep(&d.std_dev()),
            "entropy" => rep(&d.entropy()),
            "skewness" => rep(&d.skewness()),
            "median" => rep(&d.median()),
            _ => return None,
        });
    }
    {
        use statrs::distribution::{ContinuousCDF, Empirical};
        let obs_of = |e: &Empirical, obs: &[f64]| -> (Vec<f64>, (Option<f64>, Option<f64>)) {
            let mut v: Vec<f64> = obs.iter().map(|x| e.cdf(*x)).collect();
            v.extend(obs.iter().map(|x| e.sf(*x)));
            if e.mean().is_none() {
                v.push(f64::NAN);
                v.push(f64::NAN);
            } else {
                v.push(e.min());
                v.push(e.max());
            }
            (v, (e.mean(), e.variance()))
        };
        match id {
            "Empirical::history" => {
                let vals = a[0].fl();
                let ops = a[1].il();
                let obs = a[2].fl();
                let mut e = Empirical::new().unwrap();
                let mut out = vec![];
                for (v, o) in vals.iter().zip(ops.iter()) {
                    if *o == 0 {
                        e.add(*v);
                    } else {
                        e.remove(*v);
                    }
                    out.push(obs_of(&e, &obs));
                }
                return Some(rep(&out));
            }
            "Empirical::from_iter" => {
                let e: Empirical = a[0].fl().into_iter().collect();
                return Some(rep(&obs_of(&e, &a[1].fl())));
            }
            _ => {}
        }
    }
    use statrs::generate::*;
    let take = |it: &mut dyn Iterator<Item = f64>, n: i128| -> Vec<f64> { it.take(n.max(0) as usize).collect() };
    match id {
        "gen::periodic" => return Some(rep(&take(&mut InfinitePeriodic::new(a[0].f(), a[1].f(), a[2].f(), a[3].f(), a[4].i() as i64), a[5].i()))),
        "gen::sinusoidal" => return Some(rep(&take(&mut InfiniteSinusoidal::new(a[0].f(), a[1].f(), a[2].f(), a[3].f(), a[4].f(), a[5].i() as i64), a[6].i()))),
        "gen::square" => return Some(rep(&take(&mut InfiniteSquare::new(a[0].i() as i64, a[1].i() as i64, a[2].f(), a[3].f(), a[4].i() as i64), a[5].i()))),
        "gen::triangle" => return Some(rep(&take(&mut InfiniteTriangle::new(a[0].i() as i64, a[1].i() as i64, a[2].f(), a[3].f(), a[4].i() as i64), a[5].i()))),
        "gen::sawtooth" => return Some(rep(&take(&mut InfiniteSawtooth::new(a[0].i() as i64, a[1].f(), a[2].f(), a[3].i() as i64), a[4].i()))),
        _ => {}
    }
    {
        use statrs::statistics::OrderStatistics;
        let buf = |d: &Data<Vec<f64>>| -> Vec<f64> { d.iter().copied().collect() };
        match id {
            "Data::order_statistic" => {
                let mut d = Data::new(a[0].fl());
                let v = d.order_statistic(a[1].i() as usize);
                return Some(rep(&(v, buf(&d))));
            }
            "Data::median_os" => {
                let mut d = Data::new(a[0].fl());
                let v = OrderStatistics::median(&mut d);
                return Some(rep(&(v, buf(&d))));
            }
            "Data::quantile" => {
                let mut d = Data::new(a[0].fl());
                let v = d.quantile(a[1].f());
                return Some(rep(&(v, buf(&d))));
            }
            "Data::percentile" => {
                let mut d = Data::new(a[0].fl());
                let v = d.percentile(a[1].i() as usize);
                return Some(rep(&(v, buf(&d))));
            }
            "Data::lower_quartile" => {
                let mut d = Data::new(a[0].fl());
                let v = d.lower_quartile();
                return Some(rep(&(v, buf(&d))));
            }
            "Data::upper_quartile" => {
                let mut d = Data::new(a[0].fl());
                let v = d.upper_quartile();
                return Some(rep(&(v, buf(&d))));
            }
            "Data::interquartile_range" => {
                let mut d = Data::new(a[0].fl());
                let v = d.interquartile_range();
                return Some(rep(&(v, buf(&d))));
            }
            _ => {}
        }
    }
    match id {
        "Data::min" => Some(rep(&Data::new(a[0].fl()).min())),
        "Data::max" => Some(rep(&Data::new(a[0].fl()).max())),
        "Data::mean" => Some(rep(&Data::new(a[0].fl()).mean())),
        "Data::variance" => Some(rep(&Data::new(a[0].fl()).variance())),
        "crate::function::beta::inv_beta_reg" => Some(rep(&statrs::function::beta::inv_beta_reg(a[0].f(), a[1].f(), a[2].f()))),
        _ => None,
    }
}

/// request generators for the hand suites: `harness gen-hand <suite> <tier> <seed>`
pub fn gen(suite: &str, tier: &str, seed: u64) {
    use crate::rng::Sm;
    let mut r = Sm::new(seed ^ 0x68616e64);
    let thorough = tier == "thorough";
    let emit = |id: &str, a: &[Arg]| println!("{} {}", id, a.iter().map(|x| x.render()).collect::<Vec<_>>().join(" "));
    if suite == "multivariate" {
        crate::hand_mv::gen(tier, seed);
        return;
    }
    if suite == "vsamplers" {
        crate::hand_vec::gen(tier, seed);
        return;
    }
    if suite == "ranktests" {
        crate::hand_ranktests::gen(tier, seed);
        return;
    }
    if suite == "categorical" {
        // Categorical: hand-modelled constructor + generated methods.  Probability vectors: the full
        // special-value lattice for lengths 0..=3 (4 in thorough), then seeded vectors with zero masses.
        let thorough = tier == "thorough";
        let mut r = crate::rng::Sm::new(seed ^ 0xca7);
        let lat = [0.0, 0.25, 1.0, 3.0, 5e-324, 1e-300, 1e300, f64::MAX, f64::INFINITY, f64::NAN, -1.0, -0.0];
        let mut vecs: Vec<Vec<f64>> = vec![vec![]];
        let maxn = if thorough { 4 } else { 3 };
        for n in 1..=maxn {
            let mut idx = vec![0usize; n];
            loop {
                vecs.push(idx.iter().map(|i| lat[*i]).collect());
                let mut i = 0;
                while i < n {
                    idx[i] += 1;
                    if idx[i] < lat.len() {
                        break;
                    }
                    idx[i] = 0;
                    i += 1;
                }
                if i == n {
                    break;
                }
            }
        }
        let n_lat = vecs.len();
        for _ in 0..(if thorough { 3000 } else { 300 }) {
            let n = 1 + r.below(12) as usize;
            vecs.push((0..n).map(|_| match r.below(6) { 0 => 0.0, 1 => r.log_range(1e-12, 1e12), _ => r.range(0.0, 10.0) }).collect());
        }
        let emit = |id: &str, a: &[Arg]| println!("{} {}", id, a.iter().map(|x| x.render()).collect::<Vec<_>>().join(" "));
        for (vi, v) in vecs.iter().enumerate() {
            let pv = Arg::FL(v.clone());
            emit("cat::new", &[pv.clone()]);
            // the lattice is large: all methods for every 7th lattice vector and for every seeded one
            let full = v.len() <= 2 || vi % 7 == 0 || vi >= n_lat;
            if !full {
                continue;
            }
            for m in ["min", "max", "mean", "variance", "std_dev", "entropy", "skewness", "median"] {
                emit(&format!("cat::{}", m), &[pv.clone()]);
            }
            let n = v.len() as i128;
            for k in [0, 1, 2, n - 1, n, n + 1, 1 << 40] {
                if k < 0 {
                    continue;
                }
                for m in ["pmf", "ln_pmf", "cdf", "sf"] {
                    emit(&format!("cat::{}", m), &[pv.clone(), Arg::I(k)]);
                }
            }
            // quantile levels: grid, end points, out of range, and the exact cumulative levels (plateau ends)
            let mut ps: Vec<f64> = vec![0.0, 1.0, -0.5, 1.5, f64::NAN, 5e-324, 0.5, 0.25, 0.75, 1.0 - f64::EPSILON / 2.0];
            let s: f64 = v.iter().sum();
            let mut c = 0.0;
            for x in v {
                c += x;
                ps.push(c / s);
                ps.push(crate::gen::next_up(c / s));
                ps.push(crate::gen::next_down(c / s));
            }
            for _ in 0..4 {
                ps.push(r.unit());
            }
            for p in ps {
                emit("cat::inverse_cdf", &[pv.clone(), Arg::F(p)]);
            }
        }
        return;
    }
    match suite {
        "stats" => {
            let names = ["min", "max", "abs_min", "abs_max", "mean", "geometric_mean", "harmonic_mean", "variance", "std_dev", "population_variance", "population_std_dev", "quadratic_mean"];
            let lattice = [f64::NAN, f64::INFINITY, f64::NEG_INFINITY, 0.0, -0.0, 1.0, -2.5];
            // exhaustive vectors of length 0..=L over the 7-value lattice
            let maxlen = if thorough { 5 } else { 3 };
            let mut vecs: Vec<Vec<f64>> = vec![vec![]];
            let mut frontier: Vec<Vec<f64>> = vec![vec![]];
            for _ in 0..maxlen {
                let mut next = vec![];
                for v in &frontier {
                    for x in lattice.iter() {
                        let mut w = v.clone();
                        w.push(*x);
                        next.push(w);
                    }
                }
                vecs.extend(next.iter().cloned());
                frontier = next;
            }
            // seeded random vectors: magnitudes 1e-150..1e150, offsets/spreads up to 1e8
            let nrand = if thorough { 3000 } else { 300 };
            for i in 0..nrand {
                let n = 1 + r.below(if i % 10 == 0 { 2000 } else { 40 }) as usize;
                let mode = r.below(4);
                let mag = 10f64.powf(r.range(-150.0, 150.0));
                let off = r.range(-1.0, 1.0) * 10f64.powf(r.range(0.0, 8.0));
                let v: Vec<f64> = (0..n)
                    .map(|_| match mode {
                        0 => r.range(-1.0, 1.0) * mag,
                        1 => off + r.range(-1.0, 1.0),
                        2 => r.log_range(1e-3, 1e3),
                        _ => (r.below(7) as f64) - 3.0,
                    })
                    .collect();
                vecs.push(v);
            }
            for (vi, v) in vecs.iter().enumerate() {
                for n in names.iter() {
                    emit(&format!("IterStatistics::{}", n), &[Arg::FL(v.clone())]);
                    if vi % 7 == 0 {
                        emit(&format!("IterStatistics::{}@vec", n), &[Arg::FL(v.clone())]);
                        emit(&format!("IterStatistics::{}@iter", n), &[Arg::FL(v.clone())]);
                    }
                }
                for n in ["min", "max", "mean", "variance"] {
                    if vi % 5 == 0 {
                        emit(&format!("Data::{}", n), &[Arg::FL(v.clone())]);
                    }
                }
                // covariance with a partner of equal (mostly) length
                let mut w: Vec<f64> = v.iter().map(|x| x * 0.5 + r.range(-1.0, 1.0)).collect();
                if vi % 11 == 0 {
                    w.push(1.0);
                }
                emit("IterStatistics::covariance", &[Arg::FL(v.clone()), Arg::FL(w.clone())]);
                emit("IterStatistics::population_covariance", &[Arg::FL(v.clone()), Arg::FL(w)]);
            }
        }
        "generators" => {
            let n_cases = if thorough { 400 } else { 60 };
            let n_out: i128 = if thorough { 3000 } else { 1200 };
            for _ in 0..n_cases {
                let sr = *r.pick(&[1.0, 10.0, 44100.0, 8.0, 1000.0]);
                let fr = *r.pick(&[1.0, 0.5, 440.0, 2.0, 3.3]);
                let amp = *r.pick(&[1.0, 2.0, 10.0, 0.5]);
                let ph = r.range(0.0, 3.0);
                let d = r.below(9) as i128 - 4;
                emit("gen::periodic", &[Arg::F(sr), Arg::F(fr), Arg::F(amp), Arg::F(ph), Arg::I(d), Arg::I(n_out)]);
                emit("gen::sinusoidal", &[Arg::F(sr), Arg::F(fr), Arg::F(amp), Arg::F(r.range(-1.0, 1.0)), Arg::F(ph), Arg::I(d), Arg::I(n_out)]);
                let hd = 1 + r.below(6) as i128;
                let ld = 1 + r.below(6) as i128;
                emit("gen::square", &[Arg::I(hd), Arg::I(ld), Arg::F(r.range(0.5, 3.0)), Arg::F(r.range(-3.0, 0.5)), Arg::I(d), Arg::I(n_out / 4)]);
                emit("gen::triangle", &[Arg::I(hd), Arg::I(ld), Arg::F(r.range(0.5, 3.0)), Arg::F(r.range(-3.0, 0.5)), Arg::I(d), Arg::I(n_out / 4)]);
                emit("gen::sawtooth", &[Arg::I(2 + r.below(8) as i128), Arg::F(r.range(0.5, 3.0)), Arg::F(r.range(-3.0, 0.5)), Arg::I(d), Arg::I(n_out / 4)]);
            }
        }
        "samplers" => {
            // scripted word streams: stratified first word + seeded tail; core-domain parameter tuples
            let per = if thorough { 400 } else { 60 };
            for (id, ct, cn, fam) in crate::hand_samplers::SAMPLERS.iter() {
                let ct: Vec<String> = ct.iter().map(|s| s.to_string()).collect();
                let cn: Vec<String> = cn.iter().map(|s| s.to_string()).collect();
                for i in 0..per {
                    let t = crate::gen::ctor_tuple(&mut r, fam, &ct, &cn, false, false);
                    // keep rejection samplers bounded: skip parameter corners known to loop forever
                    let mut words: Vec<i128> = vec![];
                    let first = match i % 6 {
                        0 => 0u64,
                        1 => u64::MAX,
                        2 => 1u64 << 63,
                        _ => r.next(),
                    };
                    words.push(first as i128);
                    for _ in 0..1300 {
                        words.push(r.next() as i128);
                    }
                    let mut a = t.clone();
                    a.push(Arg::IL(words));
                    emit(id, &a);
                }
            }
        }
        "empirical" => {
            // exhaustive histories over {-1.5, 0, 2, 1e8, NaN} x {add, remove} up to length L, plus seeded long ones
            let alpha = [-1.5, 0.0, 2.0, 1e8, f64::NAN];
            let obs = vec![-2.0, -1.5, 0.0, 1.0, 2.0, 1e8, 2e8];
            let maxlen = if thorough { 5 } else { 4 };
            let mut frontier: Vec<(Vec<f64>, Vec<i128>)> = vec![(vec![], vec![])];
            for _ in 0..maxlen {
                let mut next = vec![];
                for (vs, os) in &frontier {
                    for v in alpha.iter() {
                        for o in [0i128, 1] {
                            let mut v2 = vs.clone();
                            v2.push(*v);
                            let mut o2 = os.clone();
                            o2.push(o);
                            next.push((v2, o2));
                        }
                    }
                }
                frontier = next;
            }
            for (vs, os) in &frontier {
                emit("Empirical::history", &[Arg::FL(vs.clone()), Arg::IL(os.clone()), Arg::FL(obs.clone())]);
            }
            let nrand = if thorough { 2000 } else { 200 };
            for i in 0..nrand {
                let len = 1 + r.below(if i % 5 == 0 { 400 } else { 40 }) as usize;
                let pool: Vec<f64> = (0..(2 + r.below(6))).map(|_| match r.below(6) {
                    0 => r.range(-1.0, 1.0) * 1e8,
                    1 => r.range(-1.0, 1.0) * 1e-8,
                    2 => 0.0,
                    3 => -0.0,
                    _ => (r.below(9) as f64) - 4.0,
                }).collect();
                let vs: Vec<f64> = (0..len).map(|_| *r.pick(&pool)).collect();
                let os: Vec<i128> = (0..len).map(|_| if r.below(3) == 0 { 1 } else { 0 }).collect();
                let mut ob = pool.clone();
                ob.push(0.5);
                emit("Empirical::history", &[Arg::FL(vs.clone()), Arg::IL(os), Arg::FL(ob.clone())]);
                emit("Empirical::from_iter", &[Arg::FL(vs), Arg::FL(ob)]);
            }
        }
        "order" => {
            // every weak ordering of n positions (n ≤ 5 quick / 6 thorough) + seeded vectors; NaN-free
            let maxn = if thorough { 6 } else { 5 };
            let mut vecs: Vec<Vec<f64>> = vec![vec![]];
            for n in 1..=maxn {
                let mut idx = vec![0usize; n];
                loop {
                    // used rank values must form an initial segment
                    let mx = *idx.iter().max().unwrap();
                    if (0..=mx).all(|v| idx.contains(&v)) {
                        vecs.push(idx.iter().map(|v| *v as f64 * 1.5 - 2.0).collect());
                    }
                    let mut i = 0;
                    loop {
                        if i == n {
                            break;
                        }
                        idx[i] += 1;
                        if idx[i] < n {
                            break;
                        }
                        idx[i] = 0;
                        i += 1;
                    }
                    if i == n {
                        break;
                    }
                }
            }
            let nrand = if thorough { 400 } else { 60 };
            for i in 0..nrand {
                let n = 1 + r.below(if i % 8 == 0 { 600 } else { 40 }) as usize;
                let mode = r.below(5);
                let mut v: Vec<f64> = (0..n)
                    .map(|j| match mode {
                        0 => r.range(-100.0, 100.0),
                        1 => j as f64,
                        2 => (n - j) as f64,
                        3 => (r.below(4) as f64) - 1.0,
                        _ => 7.0,
                    })
                    .collect();
                if i % 13 == 0 {
                    v[0] = f64::INFINITY;
                }
                vecs.push(v);
            }
            for v in &vecs {
                let n = v.len() as i128;
                let ks: Vec<i128> = if n <= 8 { (0..=n + 1).collect() } else { vec![0, 1, 2, n / 2, n - 1, n, n + 1] };
                for k in ks {
                    emit("Data::order_statistic", &[Arg::FL(v.clone()), Arg::I(k)]);
                }
                emit("Data::median_os", &[Arg::FL(v.clone())]);
                let taus: Vec<f64> = if n <= 6 { (0..=16).map(|t| t as f64 / 16.0).collect() } else { vec![0.0, 0.1, 0.25, 0.5, 0.75, 0.99, 1.0] };
                for t in taus {
                    emit("Data::quantile", &[Arg::FL(v.clone()), Arg::F(t)]);
                }
                emit("Data::quantile", &[Arg::FL(v.clone()), Arg::F(-0.5)]);
                for p in [0i128, 10, 50, 90, 100] {
                    emit("Data::percentile", &[Arg::FL(v.clone()), Arg::I(p)]);
                }
                emit("Data::lower_quartile", &[Arg::FL(v.clone())]);
                emit("Data::upper_quartile", &[Arg::FL(v.clone())]);
                emit("Data::interquartile_range", &[Arg::FL(v.clone())]);
            }
        }
        "inv_beta_reg" => {
            let n = if thorough { 20000 } else { 1500 };
            for _ in 0..n {
                let a = r.log_range(0.05, 500.0);
                let b = r.log_range(0.05, 500.0);
                let x = match r.below(10) {
                    0 => 0.0,
                    1 => 1.0,
                    2 => 0.5,
                    _ => r.unit(),
                };
                emit("crate::function::beta::inv_beta_reg", &[Arg::F(a), Arg::F(b), Arg::F(x)]);
            }
        }
        _ => {}
    }
}
