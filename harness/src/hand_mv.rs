//! Multivariate entries for the correspondence (ids match lean/Statrs/Model/MVDispatch.lean).
use crate::proto::*;
use nalgebra::{DMatrix, DVector};
use statrs::distribution::{Continuous, Dirichlet, Discrete, Multinomial, MultivariateNormal, MultivariateStudent};
use statrs::statistics::{MeanN, VarianceN};

fn rows(m: &DMatrix<f64>) -> Vec<Vec<f64>> {
    (0..m.nrows()).map(|i| (0..m.ncols()).map(|j| m[(i, j)]).collect()).collect()
}
fn vecof(v: &DVector<f64>) -> Vec<f64> {
    v.iter().copied().collect()
}

pub fn dispatch(id: &str, a: &[Arg]) -> Option<String> {
    let dv = |v: Vec<f64>| DVector::from_vec(v);
    Some(match id {
        "mv::mvn::pdf" | "mv::mvn::ln_pdf" | "mv::mvn::entropy" => {
            let d = match MultivariateNormal::new(a[0].fl(), a[1].fl()) {
                Ok(d) => d,
                Err(e) => return Some(ctor_err(&e)),
            };
            match id {
                "mv::mvn::pdf" => rep(&d.pdf(&dv(a[2].fl()))),
                "mv::mvn::ln_pdf" => rep(&d.ln_pdf(&dv(a[2].fl()))),
                _ => rep(&d.entropy()),
            }
        }
        "mv::mvt::pdf" | "mv::mvt::ln_pdf" | "mv::mvt::mean" | "mv::mvt::variance" => {
            let d = match MultivariateStudent::new(a[0].fl(), a[1].fl(), a[2].f()) {
                Ok(d) => d,
                Err(e) => return Some(ctor_err(&e)),
            };
            match id {
                "mv::mvt::pdf" => rep(&d.pdf(&dv(a[3].fl()))),
                "mv::mvt::ln_pdf" => rep(&d.ln_pdf(&dv(a[3].fl()))),
                "mv::mvt::mean" => rep(&d.mean().map(|v| vecof(&v))),
                _ => rep(&d.variance().map(|m| rows(&m))),
            }
        }
        "mv::dirichlet::pdf" | "mv::dirichlet::ln_pdf" | "mv::dirichlet::entropy" | "mv::dirichlet::mean" | "mv::dirichlet::variance" => {
            let d = match Dirichlet::new(a[0].fl()) {
                Ok(d) => d,
                Err(e) => return Some(ctor_err(&e)),
            };
            match id {
                "mv::dirichlet::pdf" => rep(&d.pdf(&dv(a[1].fl()))),
                "mv::dirichlet::ln_pdf" => rep(&d.ln_pdf(&dv(a[1].fl()))),
                "mv::dirichlet::entropy" => rep(&d.entropy()),
                "mv::dirichlet::mean" => rep(&d.mean().map(|v| vecof(&v))),
                _ => rep(&d.variance().map(|m| rows(&m))),
            }
        }
        "mv::multinomial::pmf" | "mv::multinomial::ln_pmf" | "mv::multinomial::mean" | "mv::multinomial::variance" | "mv::multinomial::p" => {
            let d = match Multinomial::new(a[0].fl(), a[1].i() as u64) {
                Ok(d) => d,
                Err(e) => return Some(ctor_err(&e)),
            };
            let xs = |i: usize| DVector::from_vec(a[i].il().iter().map(|x| *x as u64).collect::<Vec<u64>>());
            match id {
                "mv::multinomial::pmf" => rep(&d.pmf(&xs(2))),
                "mv::multinomial::ln_pmf" => rep(&d.ln_pmf(&xs(2))),
                "mv::multinomial::mean" => rep(&d.mean().map(|v| vecof(&v))),
                "mv::multinomial::variance" => rep(&d.variance().map(|m| rows(&m))),
                _ => rep(&vecof(d.p())),
            }
        }
        _ => return None,
    })
}

/// `harness gen-hand multivariate <tier> <seed>`
pub fn gen(tier: &str, seed: u64) {
    use crate::rng::Sm;
    let mut r = Sm::new(seed ^ 0x6d76);
    let thorough = tier == "thorough";
    let emit = |id: &str, a: &[Arg]| println!("{} {}", id, a.iter().map(|x| x.render()).collect::<Vec<_>>().join(" "));
    let n_cases = if thorough { 600 } else { 80 };
    for i in 0..n_cases {
        let dim = 1 + (i % 4);
        // covariance A*A^T + eps*I (row-major = column-major for symmetric)
        let a: Vec<f64> = (0..dim * dim).map(|_| r.range(-2.0, 2.0)).collect();
        let eps = 10f64.powf(r.range(-6.0, 0.0));
        let mut cov = vec![0.0; dim * dim];
        for p in 0..dim {
            for q in 0..dim {
                let mut s = 0.0;
                for k in 0..dim {
                    s += a[p * dim + k] * a[q * dim + k];
                }
                cov[p * dim + q] = s + if p == q { eps } else { 0.0 };
            }
        }
        // exact symmetry
        for p in 0..dim {
            for q in 0..p {
                cov[p * dim + q] = cov[q * dim + p];
            }
        }
        if i % 17 == 0 {
            cov[0] = -1.0; // not positive definite
        }
        let mean: Vec<f64> = (0..dim).map(|_| r.range(-10.0, 10.0)).collect();
        let nu = match i % 5 {
            0 => f64::INFINITY,
            1 => 0.5,
            2 => 3.0,
            _ => r.log_range(0.5, 100.0),
        };
        for _ in 0..4 {
            let x: Vec<f64> = (0..dim).map(|k| mean[k] + r.range(-3.0, 3.0)).collect();
            emit("mv::mvn::pdf", &[Arg::FL(mean.clone()), Arg::FL(cov.clone()), Arg::FL(x.clone())]);
            emit("mv::mvn::ln_pdf", &[Arg::FL(mean.clone()), Arg::FL(cov.clone()), Arg::FL(x.clone())]);
            emit("mv::mvt::pdf", &[Arg::FL(mean.clone()), Arg::FL(cov.clone()), Arg::F(nu), Arg::FL(x.clone())]);
            emit("mv::mvt::ln_pdf", &[Arg::FL(mean.clone()), Arg::FL(cov.clone()), Arg::F(nu), Arg::FL(x)]);
        }
        emit("mv::mvn::entropy", &[Arg::FL(mean.clone()), Arg::FL(cov.clone())]);
        emit("mv::mvt::mean", &[Arg::FL(mean.clone()), Arg::FL(cov.clone()), Arg::F(nu)]);
        emit("mv::mvt::variance", &[Arg::FL(mean.clone()), Arg::FL(cov.clone()), Arg::F(nu)]);
        // Dirichlet
        let k = 2 + (i % 4);
        let alpha: Vec<f64> = (0..k).map(|_| r.log_range(0.2, 50.0)).collect();
        let mut x: Vec<f64> = (0..k).map(|_| r.range(0.05, 1.0)).collect();
        let s: f64 = x.iter().sum();
        for v in x.iter_mut() {
            *v /= s;
        }
        emit("mv::dirichlet::pdf", &[Arg::FL(alpha.clone()), Arg::FL(x.clone())]);
        emit("mv::dirichlet::ln_pdf", &[Arg::FL(alpha.clone()), Arg::FL(x)]);
        emit("mv::dirichlet::entropy", &[Arg::FL(alpha.clone())]);
        emit("mv::dirichlet::mean", &[Arg::FL(alpha.clone())]);
        emit("mv::dirichlet::variance", &[Arg::FL(alpha)]);
        // Multinomial incl. zero entries
        let mut p: Vec<f64> = (0..k).map(|j| if (i + j) % 5 == 0 { 0.0 } else { r.range(0.1, 3.0) }).collect();
        if i % 4 == 1 {
            // weights whose sum is within 1e-9 .. 1e-3 of one, or exactly one
            let s: f64 = p.iter().sum();
            let off = [0.0, 1e-5, -1e-5, 9e-5, 1e-4, -1e-4, 1.1e-4, 1e-3, 1e-9][(i / 4) % 9];
            if s > 0.0 {
                for v in p.iter_mut() {
                    *v = *v / s * (1.0 + off);
                }
            }
        }
        let n = r.below(9) as i128;
        let mut xs: Vec<i128> = vec![0; k];
        for _ in 0..n {
            let j = r.below(k as u64) as usize;
            xs[j] += 1;
        }
        emit("mv::multinomial::pmf", &[Arg::FL(p.clone()), Arg::I(n), Arg::IL(xs.clone())]);
        emit("mv::multinomial::ln_pmf", &[Arg::FL(p.clone()), Arg::I(n), Arg::IL(xs)]);
        emit("mv::multinomial::mean", &[Arg::FL(p.clone()), Arg::I(n)]);
        emit("mv::multinomial::variance", &[Arg::FL(p.clone()), Arg::I(n)]);
        emit("mv::multinomial::p", &[Arg::FL(p), Arg::I(n)]);
    }
}
