//! Suite "ranktests": `Data::ranks`, `mannwhitneyu` (and, through it, the private `rankdata_mwu`),
//! `ks_onesample`, `ks_twosample`.  Same ids and integer codes as
//! lean/Statrs/Model/RankDispatch.lean (hand models in lean/Statrs/Model/RankTests.lean).
//!
//!   Data::ranks            F:data i:tie_breaker(0 Average 1 Min 2 Max 3 First)
//!   rankdata_mwu@probe     F:y        -> [mannwhitneyu([y_i], y \ y_i, AsymptoticExcl, Greater) for i]
//!   mannwhitneyu           F:x F:y i:method(0 Automatic 1 Exact 2 AsymptoticIncl 3 AsymptoticExcl)
//!                          i:alternative(0 TwoSided 1 Less 2 Greater)
//!   ks_onesample::normal   F:data f:mean f:std_dev i:method i:nan_policy b:fused
//!   ks_onesample::uniform  F:data f:min f:max      i:method i:nan_policy b:fused
//!   ks_onesample::exp      F:data f:rate           i:method i:nan_policy b:fused
//!                          method: 0 Less 1 Greater 2 TwoSidedExact 3 TwoSidedAsymptotic 4 TwoSidedApproximate
//!                          nan_policy: 0 Propogate 1 Emit 2 Error
//!   ks_twosample           F:data1 F:data2 i:method(0 LessAsymptotic 1 GreaterAsymptotic 2 TwoSidedExact
//!                          3 TwoSidedAsymptotic) i:nan_policy
//!   ranktests::fma         f:a f:b f:c   (self-test of the Lean driver's software fma)
//!
//! `rankdata_mwu` is private in statrs and /repo has no `statrs_verif` hook for it, so it is observed through
//! the public `mannwhitneyu` (`rankdata_mwu@probe`: every single rank as `U1 + 1`, the tie term through the
//! asymptotic p-value).  The Lean table also has a direct entry `rankdata_mwu F:y -> ok(([ranks],[t])) | err(..)`;
//! if a hook `#[cfg(statrs_verif)] pub fn __verif_rankdata_mwu(y: Vec<f64>)` is ever added next to it, answer
//! that id here with `rep(&statrs::stats_tests::mannwhitneyu::__verif_rankdata_mwu(a[0].fl()))` (Vec<usize> needs
//! `.map(|(r, t)| (r, t))` unchanged: `usize` has a `Rep` impl) and emit it in `gen`.
//!
//! The exact MWU enumeration is only requested where it stays within the model's loop fuel (20000 combinations).
//!
//! `fused` tells the model which multiply-add `matrixmultiply::dgemm` uses on this machine (it selects its
//! FMA micro-kernel at run time); it is an input of the request so that both sides see the same value.
use crate::proto::*;
use crate::rng::Sm;
use statrs::distribution::{Exp, Normal, Uniform};
use statrs::statistics::{Data, OrderStatistics, RankTieBreaker};
use statrs::stats_tests::ks_test::{ks_onesample, ks_twosample, KSOneSampleAlternativeMethod, KSTwoSampleAlternativeMethod};
use statrs::stats_tests::mannwhitneyu::{mannwhitneyu, MannWhitneyUMethod};
use statrs::stats_tests::{Alternative, NaNPolicy};

fn tie_breaker(i: i128) -> RankTieBreaker {
    match i {
        0 => RankTieBreaker::Average,
        1 => RankTieBreaker::Min,
        2 => RankTieBreaker::Max,
        _ => RankTieBreaker::First,
    }
}
fn mwu_method(i: i128) -> MannWhitneyUMethod {
    match i {
        0 => MannWhitneyUMethod::Automatic,
        1 => MannWhitneyUMethod::Exact,
        2 => MannWhitneyUMethod::AsymptoticInclContinuityCorrection,
        _ => MannWhitneyUMethod::AsymptoticExclContinuityCorrection,
    }
}
fn alternative(i: i128) -> Alternative {
    match i {
        0 => Alternative::TwoSided,
        1 => Alternative::Less,
        _ => Alternative::Greater,
    }
}
fn ks1_method(i: i128) -> KSOneSampleAlternativeMethod {
    match i {
        0 => KSOneSampleAlternativeMethod::Less,
        1 => KSOneSampleAlternativeMethod::Greater,
        2 => KSOneSampleAlternativeMethod::TwoSidedExact,
        3 => KSOneSampleAlternativeMethod::TwoSidedAsymptotic,
        _ => KSOneSampleAlternativeMethod::TwoSidedApproximate,
    }
}
fn ks2_method(i: i128) -> KSTwoSampleAlternativeMethod {
    match i {
        0 => KSTwoSampleAlternativeMethod::LessAsymptotic,
        1 => KSTwoSampleAlternativeMethod::GreaterAsymptotic,
        2 => KSTwoSampleAlternativeMethod::TwoSidedExact,
        _ => KSTwoSampleAlternativeMethod::TwoSidedAsymptotic,
    }
}
fn nan_policy(i: i128) -> NaNPolicy {
    match i {
        0 => NaNPolicy::Propogate,
        1 => NaNPolicy::Emit,
        _ => NaNPolicy::Error,
    }
}

/// does `matrixmultiply::dgemm` accumulate with a fused multiply-add on this machine?
pub fn dgemm_is_fused() -> bool {
    #[cfg(any(target_arch = "x86", target_arch = "x86_64"))]
    {
        return std::is_x86_feature_detected!("fma") && std::is_x86_feature_detected!("avx2");
    }
    #[cfg(target_arch = "aarch64")]
    {
        return true;
    }
    #[allow(unreachable_code)]
    false
}

/// the implementation's reply for the ids of this suite (called inside `call`'s `catch_unwind`)
pub fn answer(id: &str, a: &[Arg]) -> Option<String> {
    match id {
        "Data::ranks" => {
            let mut d = Data::new(a.get(0)?.fl());
            Some(rep(&d.ranks(tie_breaker(a.get(1)?.i()))))
        }
        "rankdata_mwu@probe" => {
            let y = a.get(0)?.fl();
            let mut out = vec![];
            for i in 0..y.len() {
                let mut rest = y.clone();
                let xi = rest.remove(i);
                out.push(mannwhitneyu(&[xi], &rest, MannWhitneyUMethod::AsymptoticExclContinuityCorrection, Alternative::Greater));
            }
            Some(rep(&out))
        }
        "mannwhitneyu" => {
            let x = a.get(0)?.fl();
            let y = a.get(1)?.fl();
            Some(rep(&mannwhitneyu(&x, &y, mwu_method(a.get(2)?.i()), alternative(a.get(3)?.i()))))
        }
        "ks_onesample::normal" => {
            let d = match Normal::new(a.get(1)?.f(), a.get(2)?.f()) {
                Ok(d) => d,
                Err(e) => return Some(ctor_err(&e)),
            };
            Some(rep(&ks_onesample(a.get(0)?.fl(), &d, ks1_method(a.get(3)?.i()), nan_policy(a.get(4)?.i()))))
        }
        "ks_onesample::uniform" => {
            let d = match Uniform::new(a.get(1)?.f(), a.get(2)?.f()) {
                Ok(d) => d,
                Err(e) => return Some(ctor_err(&e)),
            };
            Some(rep(&ks_onesample(a.get(0)?.fl(), &d, ks1_method(a.get(3)?.i()), nan_policy(a.get(4)?.i()))))
        }
        "ks_onesample::exp" => {
            let d = match Exp::new(a.get(1)?.f()) {
                Ok(d) => d,
                Err(e) => return Some(ctor_err(&e)),
            };
            Some(rep(&ks_onesample(a.get(0)?.fl(), &d, ks1_method(a.get(2)?.i()), nan_policy(a.get(3)?.i()))))
        }
        "ks_twosample" => Some(rep(&ks_twosample(a.get(0)?.fl(), a.get(1)?.fl(), ks2_method(a.get(2)?.i()), nan_policy(a.get(3)?.i())))),
        "ranktests::fma" => Some(rep(&a.get(0)?.f().mul_add(a.get(1)?.f(), a.get(2)?.f()))),
        _ => None,
    }
}

/// every weak ordering of `n` positions as a vector of class numbers 0..k (all classes used)
fn weak_orderings(n: usize) -> Vec<Vec<usize>> {
    let mut out = vec![];
    if n == 0 {
        out.push(vec![]);
        return out;
    }
    let mut idx = vec![0usize; n];
    loop {
        let mx = *idx.iter().max().unwrap();
        if (0..=mx).all(|v| idx.contains(&v)) {
            out.push(idx.clone());
        }
        let mut i = 0;
        loop {
            if i == n {
                break;
            }
            idx[i] += 1;
            if idx[i] < n {
                break;
            }
            idx[i] = 0;
            i += 1;
        }
        if i == n {
            break;
        }
    }
    out
}

/// all vectors of length 0..=maxlen over `alphabet`
fn lattice_vectors(alphabet: &[f64], maxlen: usize) -> Vec<Vec<f64>> {
    let mut vecs: Vec<Vec<f64>> = vec![vec![]];
    let mut frontier: Vec<Vec<f64>> = vec![vec![]];
    for _ in 0..maxlen {
        let mut next = vec![];
        for v in &frontier {
            for x in alphabet.iter() {
                let mut w = v.clone();
                w.push(*x);
                next.push(w);
            }
        }
        vecs.extend(next.iter().cloned());
        frontier = next;
    }
    vecs
}

fn binom(n: u128, k: u128) -> u128 {
    let k = k.min(n - k);
    let mut r: u128 = 1;
    for i in 0..k {
        r = r * (n - i) / (i + 1);
    }
    r
}

/// seeded vector of length `n`; `mode` 0: continuous (no ties), 1: small integers (many ties),
/// 2: few distinct values incl. ±0, 3: halves with an occasional ±inf, 4: constant
fn random_vec(r: &mut Sm, n: usize, mode: u64) -> Vec<f64> {
    (0..n)
        .map(|_| match mode {
            0 => r.range(-100.0, 100.0),
            1 => (r.below(7) as f64) - 3.0,
            2 => *r.pick(&[-1.5, -0.0, 0.0, 2.0, 1e-300, 1e300]),
            3 => match r.below(12) {
                0 => f64::INFINITY,
                1 => f64::NEG_INFINITY,
                _ => (r.below(20) as f64) * 0.5,
            },
            _ => 7.25,
        })
        .collect()
}

pub fn gen(tier: &str, seed: u64) {
    let mut r = Sm::new(seed ^ 0x72616e6b);
    let thorough = tier == "thorough";
    let emit = |id: &str, a: &[Arg]| println!("{} {}", id, a.iter().map(|x| x.render()).collect::<Vec<_>>().join(" "));
    let maxn = if thorough { 6 } else { 5 };
    let fused = dgemm_is_fused();
    let val = |c: usize| c as f64 * 1.5 - 2.0;

    // ---------------------------------------------------------------- Data::ranks
    {
        let mut vecs: Vec<Vec<f64>> = vec![];
        for n in 0..=maxn {
            for w in weak_orderings(n) {
                vecs.push(w.iter().map(|c| val(*c)).collect());
            }
        }
        // special values: ±0 tie, ±inf (ties among infinities), NaN (panics unless alone)
        vecs.extend(lattice_vectors(&[f64::NEG_INFINITY, -1.0, -0.0, 0.0, 1.0, f64::INFINITY], if thorough { 4 } else { 3 }));
        vecs.extend(lattice_vectors(&[f64::NAN, 1.0, 2.0], 3));
        let nrand = if thorough { 600 } else { 80 };
        for i in 0..nrand {
            let n = 1 + r.below(if i % 10 == 0 { 300 } else { 40 }) as usize;
            let mode = r.below(5);
            vecs.push(random_vec(&mut r, n, mode));
        }
        for v in &vecs {
            for tb in 0..4 {
                emit("Data::ranks", &[Arg::FL(v.clone()), Arg::I(tb)]);
            }
        }
    }

    // ---------------------------------------------------------------- rankdata_mwu (through the probe)
    {
        let mut vecs: Vec<Vec<f64>> = vec![];
        for n in 1..=maxn {
            for w in weak_orderings(n) {
                vecs.push(w.iter().map(|c| val(*c)).collect());
            }
        }
        vecs.extend(lattice_vectors(&[f64::NEG_INFINITY, -0.0, 0.0, f64::INFINITY], 3));
        vecs.push(vec![1.0, f64::NAN, 2.0]);
        vecs.push(vec![f64::NAN, f64::NAN]);
        let nrand = if thorough { 200 } else { 40 };
        for _ in 0..nrand {
            let n = 2 + r.below(39) as usize;
            let mode = r.below(5);
            vecs.push(random_vec(&mut r, n, mode));
        }
        for v in &vecs {
            emit("rankdata_mwu@probe", &[Arg::FL(v.clone())]);
        }
    }

    // ---------------------------------------------------------------- mannwhitneyu
    {
        // every weak ordering of the pooled positions, every split point, every method x alternative
        for n in 0..=maxn {
            for w in weak_orderings(n) {
                let v: Vec<f64> = w.iter().map(|c| val(*c)).collect();
                for n1 in 0..=n {
                    for m in 0..4 {
                        for alt in 0..3 {
                            // an empty side is `SampleTooSmall` whatever the rest: one alternative is enough
                            if (n1 == 0 || n1 == n) && alt > 0 {
                                continue;
                            }
                            emit("mannwhitneyu", &[Arg::FL(v[..n1].to_vec()), Arg::FL(v[n1..].to_vec()), Arg::I(m), Arg::I(alt)]);
                        }
                    }
                }
            }
        }
        // error inputs and special values
        let specials: Vec<(Vec<f64>, Vec<f64>)> = vec![
            (vec![f64::NAN], vec![1.0]),
            (vec![1.0], vec![f64::NAN]),
            (vec![1.0, 2.0, f64::NAN], vec![0.5, 3.0]),
            (vec![1.0, 2.0], vec![0.5, f64::NAN, 3.0]),
            (vec![], vec![f64::NAN]),
            (vec![f64::NAN], vec![]),
            (vec![-0.0, 1.0], vec![0.0, 2.0]),
            (vec![f64::INFINITY, 1.0], vec![f64::INFINITY, f64::NEG_INFINITY]),
            (vec![f64::NEG_INFINITY, f64::NEG_INFINITY], vec![f64::NEG_INFINITY]),
            (vec![1e300, -1e300], vec![1e-300, -1e-300, 0.0]),
        ];
        for (x, y) in &specials {
            for m in 0..4 {
                for alt in 0..3 {
                    emit("mannwhitneyu", &[Arg::FL(x.clone()), Arg::FL(y.clone()), Arg::I(m), Arg::I(alt)]);
                }
            }
        }
        // seeded samples; the exact enumeration is kept within the model's loop fuel (20000 combinations)
        let nrand = if thorough { 1500 } else { 150 };
        for i in 0..nrand {
            let n1 = 1 + r.below(if i % 3 == 0 { 40 } else { 12 }) as usize;
            let n2 = 1 + r.below(if i % 3 == 1 { 40 } else { 12 }) as usize;
            let mode = r.below(4);
            let x = random_vec(&mut r, n1, mode);
            let y = random_vec(&mut r, n2, mode);
            let small = binom((n1 + n2) as u128, n1.min(n2) as u128) <= 15000;
            let mut pooled: Vec<f64> = x.iter().chain(y.iter()).cloned().collect();
            pooled.sort_by(|a, b| a.partial_cmp(b).unwrap());
            let ties = pooled.windows(2).any(|w| w[0] == w[1]);
            for m in 0..4 {
                // would this call run the exact enumeration?
                let exact = match m {
                    0 => !((n1 > 8 && n2 > 8) || ties),
                    1 => !ties,
                    _ => false,
                };
                if exact && !small {
                    continue;
                }
                for alt in 0..3 {
                    emit("mannwhitneyu", &[Arg::FL(x.clone()), Arg::FL(y.clone()), Arg::I(m), Arg::I(alt)]);
                }
            }
        }
    }

    // ---------------------------------------------------------------- ks_onesample
    {
        // (id, parameters, sampler of a plausible data point)
        let cdfs: Vec<(&str, Vec<f64>)> = vec![
            ("ks_onesample::normal", vec![0.0, 1.0]),
            ("ks_onesample::normal", vec![1.5, 0.25]),
            ("ks_onesample::uniform", vec![0.0, 1.0]),
            ("ks_onesample::uniform", vec![-2.0, 6.0]),
            ("ks_onesample::exp", vec![1.0]),
            ("ks_onesample::exp", vec![0.3]),
        ];
        let emit1 = |id: &str, data: &Vec<f64>, p: &Vec<f64>, m: i128, pol: i128| {
            let mut a = vec![Arg::FL(data.clone())];
            a.extend(p.iter().map(|x| Arg::F(*x)));
            a.push(Arg::I(m));
            a.push(Arg::I(pol));
            a.push(Arg::B(fused));
            emit(id, &a);
        };
        // every weak ordering of n <= 4 positions (values spread over the supports), all methods
        for n in 0..=4usize {
            for w in weak_orderings(n) {
                let v: Vec<f64> = w.iter().map(|c| *c as f64 * 0.45 - 0.3).collect();
                for (id, p) in &cdfs {
                    for m in 0..5 {
                        emit1(id, &v, p, m, 2);
                    }
                }
            }
        }
        // NaN policies
        let nan_sets: Vec<Vec<f64>> = vec![
            vec![f64::NAN],
            vec![f64::NAN, f64::NAN],
            vec![0.2, f64::NAN, 0.7, 0.4],
            vec![f64::NAN, 0.5],
            vec![0.3, 0.3, f64::NAN],
            vec![],
            vec![f64::INFINITY, 0.1, f64::NEG_INFINITY],
        ];
        for v in &nan_sets {
            for (id, p) in &cdfs {
                for m in 0..5 {
                    for pol in 0..3 {
                        emit1(id, v, p, m, pol);
                    }
                }
            }
        }
        // seeded samples
        let nrand = if thorough { 600 } else { 60 };
        for i in 0..nrand {
            let big = i % 12 == 0;
            let n = 1 + r.below(if big { 300 } else { 40 }) as usize;
            let (id, p) = &cdfs[r.below(cdfs.len() as u64) as usize];
            let kind = r.below(4);
            let mut v: Vec<f64> = (0..n)
                .map(|_| match (*id, kind) {
                    ("ks_onesample::normal", 0) | ("ks_onesample::normal", 1) => p[0] + p[1] * r.range(-2.5, 2.5),
                    ("ks_onesample::uniform", 0) | ("ks_onesample::uniform", 1) => r.range(p[0], p[1]),
                    ("ks_onesample::exp", 0) | ("ks_onesample::exp", 1) => -(1.0 - r.unit()).ln() / p[0],
                    (_, 2) => r.range(-1.0, 3.0),
                    _ => (r.below(9) as f64) * 0.25 - 0.5, // ties
                })
                .collect();
            if i % 9 == 0 {
                let k = r.below(n as u64) as usize;
                v[k] = f64::NAN;
            }
            for m in 0..5 {
                // TwoSidedExact: matrix dimension up to 2n-1; keep the model's matrix powers affordable
                if m == 2 && n > (if thorough { 120 } else { 60 }) && n < 170 {
                    continue;
                }
                let pol = if i % 9 == 0 { r.below(3) as i128 } else { 2 };
                emit1(id, &v, p, m, pol);
            }
        }
    }

    // ---------------------------------------------------------------- ks_twosample
    {
        let kmax = if thorough { 6 } else { 5 };
        for n in 0..=kmax {
            for w in weak_orderings(n) {
                let v: Vec<f64> = w.iter().map(|c| val(*c)).collect();
                for n1 in 0..=n {
                    for m in 0..4 {
                        if (n1 == 0 || n1 == n) && m % 2 == 1 {
                            continue;
                        }
                        emit("ks_twosample", &[Arg::FL(v[..n1].to_vec()), Arg::FL(v[n1..].to_vec()), Arg::I(m), Arg::I(2)]);
                    }
                }
            }
        }
        let specials: Vec<(Vec<f64>, Vec<f64>)> = vec![
            (vec![f64::NAN], vec![1.0]),
            (vec![1.0], vec![f64::NAN]),
            (vec![f64::NAN, 2.0], vec![1.0, f64::NAN]),
            (vec![1.0, 2.0, f64::NAN], vec![0.5, 3.0]),
            (vec![1.0, 2.0], vec![0.5, f64::NAN, 3.0]),
            (vec![], vec![f64::NAN]),
            (vec![f64::NAN], vec![]),
            (vec![-0.0, 1.0], vec![0.0, 2.0]),
            (vec![f64::INFINITY, 1.0], vec![f64::INFINITY, f64::NEG_INFINITY]),
            ((0..101).map(|i| i as f64).collect(), (0..100).map(|i| i as f64 + 0.5).collect()),
            ((0..100).map(|i| i as f64).collect(), (0..100).map(|i| (i * i) as f64 * 0.01).collect()),
        ];
        for (x, y) in &specials {
            for m in 0..4 {
                for pol in 0..3 {
                    emit("ks_twosample", &[Arg::FL(x.clone()), Arg::FL(y.clone()), Arg::I(m), Arg::I(pol)]);
                }
            }
        }
        let nrand = if thorough { 1200 } else { 120 };
        for i in 0..nrand {
            let n1 = 1 + r.below(if i % 4 == 0 { 120 } else { 40 }) as usize;
            let n2 = 1 + r.below(40) as usize;
            let mode = r.below(4);
            let mut x = random_vec(&mut r, n1, mode);
            let shift = r.range(-20.0, 20.0);
            let mut y: Vec<f64> = random_vec(&mut r, n2, mode).iter().map(|v| if mode == 0 { v + shift } else { *v }).collect();
            let pol = if i % 10 == 0 {
                let k = r.below(n1 as u64) as usize;
                x[k] = f64::NAN;
                if i % 20 == 0 {
                    y[0] = f64::NAN;
                }
                r.below(3) as i128
            } else {
                2
            };
            for m in 0..4 {
                emit("ks_twosample", &[Arg::FL(x.clone()), Arg::FL(y.clone()), Arg::I(m), Arg::I(pol)]);
            }
        }
    }

    // ---------------------------------------------------------------- fma self-test
    {
        let n = if thorough { 3000 } else { 400 };
        for i in 0..n {
            let (a, b, c) = match i % 8 {
                0 => {
                    let a = r.range(-2.0, 2.0);
                    let b = r.range(-2.0, 2.0);
                    (a, b, -(a * b)) // cancellation: exposes the single rounding
                }
                1 => (r.log_range(1e-200, 1e-100), r.log_range(1e-200, 1e-100), r.range(-1.0, 1.0) * 5e-324 * 1e3), // subnormal results
                2 => (r.log_range(1e150, 1e160), r.log_range(1e150, 1e158), -r.log_range(1e300, 1e308)), // near overflow
                3 => (f64::from_bits(r.next() >> 2), f64::from_bits(r.next() >> 2), f64::from_bits(r.next() >> 2)),
                4 => (1.0 + r.unit() * 1e-8, 1.0 - r.unit() * 1e-8, -1.0),
                5 => (r.range(-1.0, 1.0), 0.0, if r.below(2) == 0 { -0.0 } else { 0.0 }),
                _ => (r.range(-1e3, 1e3), r.range(-1e3, 1e3), r.range(-1e6, 1e6)),
            };
            emit("ranktests::fma", &[Arg::F(a), Arg::F(b), Arg::F(c)]);
        }
    }
}
