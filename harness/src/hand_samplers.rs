//! Scripted-RNG entries for the sampler correspondence (ids match lean/Statrs/Model/SamplerDispatch.lean).
use crate::proto::*;

/// rand::RngCore over a scripted word list: next_u64 pops the next word (0 when exhausted),
/// next_u32 = next_u64 as u32 (the convention the Lean model `Rng.nextU32` uses).
pub struct ScriptRng {
    pub ws: Vec<u64>,
    pub used: usize,
}
impl ScriptRng {
    pub fn new(w: Vec<i128>) -> ScriptRng {
        ScriptRng { ws: w.into_iter().map(|x| x as u64).collect(), used: 0 }
    }
}
impl rand::RngCore for ScriptRng {
    fn next_u32(&mut self) -> u32 {
        self.next_u64() as u32
    }
    fn next_u64(&mut self) -> u64 {
        let v = self.ws.get(self.used).copied().unwrap_or(0);
        self.used += 1;
        v
    }
    fn fill_bytes(&mut self, dest: &mut [u8]) {
        for chunk in dest.chunks_mut(8) {
            let b = self.next_u64().to_le_bytes();
            chunk.copy_from_slice(&b[..chunk.len()]);
        }
    }
    fn try_fill_bytes(&mut self, dest: &mut [u8]) -> Result<(), rand::Error> {
        self.fill_bytes(dest);
        Ok(())
    }
}

pub fn dispatch(id: &str, a: &[Arg]) -> Option<String> {
    match id {
        "sample::Bernoulli::bool" => {
            let d = match statrs::distribution::Bernoulli::new(a[0].f()) { Ok(d) => d, Err(e) => return Some(ctor_err(&e)) };
            let mut rng = ScriptRng::new(a[1].il());
            let v: bool = rand::distributions::Distribution::<bool>::sample(&d, &mut rng);
            return Some(rep(&(v, rng.used as i64)));
        }
        "sample::Bernoulli::f64" => {
            let d = match statrs::distribution::Bernoulli::new(a[0].f()) { Ok(d) => d, Err(e) => return Some(ctor_err(&e)) };
            let mut rng = ScriptRng::new(a[1].il());
            let v: f64 = rand::distributions::Distribution::<f64>::sample(&d, &mut rng);
            return Some(rep(&(v, rng.used as i64)));
        }
        "sample::Beta::f64" => {
            let d = match statrs::distribution::Beta::new(a[0].f(), a[1].f()) { Ok(d) => d, Err(e) => return Some(ctor_err(&e)) };
            let mut rng = ScriptRng::new(a[2].il());
            let v: f64 = rand::distributions::Distribution::<f64>::sample(&d, &mut rng);
            return Some(rep(&(v, rng.used as i64)));
        }
        "sample::Binomial::u64" => {
            let d = match statrs::distribution::Binomial::new(a[0].f(), a[1].i() as u64) { Ok(d) => d, Err(e) => return Some(ctor_err(&e)) };
            let mut rng = ScriptRng::new(a[2].il());
            let v: u64 = rand::distributions::Distribution::<u64>::sample(&d, &mut rng);
            return Some(rep(&(v, rng.used as i64)));
        }
        "sample::Binomial::f64" => {
            let d = match statrs::distribution::Binomial::new(a[0].f(), a[1].i() as u64) { Ok(d) => d, Err(e) => return Some(ctor_err(&e)) };
            let mut rng = ScriptRng::new(a[2].il());
            let v: f64 = rand::distributions::Distribution::<f64>::sample(&d, &mut rng);
            return Some(rep(&(v, rng.used as i64)));
        }
        "sample::Cauchy::f64" => {
            let d = match statrs::distribution::Cauchy::new(a[0].f(), a[1].f()) { Ok(d) => d, Err(e) => return Some(ctor_err(&e)) };
            let mut rng = ScriptRng::new(a[2].il());
            let v: f64 = rand::distributions::Distribution::<f64>::sample(&d, &mut rng);
            return Some(rep(&(v, rng.used as i64)));
        }
        "sample::Chi::f64" => {
            let d = match statrs::distribution::Chi::new(a[0].i() as u64) { Ok(d) => d, Err(e) => return Some(ctor_err(&e)) };
            let mut rng = ScriptRng::new(a[1].il());
            let v: f64 = rand::distributions::Distribution::<f64>::sample(&d, &mut rng);
            return Some(rep(&(v, rng.used as i64)));
        }
        "sample::ChiSquared::f64" => {
            let d = match statrs::distribution::ChiSquared::new(a[0].f()) { Ok(d) => d, Err(e) => return Some(ctor_err(&e)) };
            let mut rng = ScriptRng::new(a[1].il());
            let v: f64 = rand::distributions::Distribution::<f64>::sample(&d, &mut rng);
            return Some(rep(&(v, rng.used as i64)));
        }
        "sample::Dirac::f64" => {
            let d = match statrs::distribution::Dirac::new(a[0].f()) { Ok(d) => d, Err(e) => return Some(ctor_err(&e)) };
            let mut rng = ScriptRng::new(a[1].il());
            let v: f64 = rand::distributions::Distribution::<f64>::sample(&d, &mut rng);
            return Some(rep(&(v, rng.used as i64)));
        }
        "sample::DiscreteUniform::i64" => {
            let d = match statrs::distribution::DiscreteUniform::new(a[0].i() as i64, a[1].i() as i64) { Ok(d) => d, Err(e) => return Some(ctor_err(&e)) };
            let mut rng = ScriptRng::new(a[2].il());
            let v: i64 = rand::distributions::Distribution::<i64>::sample(&d, &mut rng);
            return Some(rep(&(v, rng.used as i64)));
        }
        "sample::DiscreteUniform::f64" => {
            let d = match statrs::distribution::DiscreteUniform::new(a[0].i() as i64, a[1].i() as i64) { Ok(d) => d, Err(e) => return Some(ctor_err(&e)) };
            let mut rng = ScriptRng::new(a[2].il());
            let v: f64 = rand::distributions::Distribution::<f64>::sample(&d, &mut rng);
            return Some(rep(&(v, rng.used as i64)));
        }
        "sample::Erlang::f64" => {
            let d = match statrs::distribution::Erlang::new(a[0].i() as u64, a[1].f()) { Ok(d) => d, Err(e) => return Some(ctor_err(&e)) };
            let mut rng = ScriptRng::new(a[2].il());
            let v: f64 = rand::distributions::Distribution::<f64>::sample(&d, &mut rng);
            return Some(rep(&(v, rng.used as i64)));
        }
        "sample::Exp::f64" => {
            let d = match statrs::distribution::Exp::new(a[0].f()) { Ok(d) => d, Err(e) => return Some(ctor_err(&e)) };
            let mut rng = ScriptRng::new(a[1].il());
            let v: f64 = rand::distributions::Distribution::<f64>::sample(&d, &mut rng);
            return Some(rep(&(v, rng.used as i64)));
        }
        "sample::FisherSnedecor::f64" => {
            let d = match statrs::distribution::FisherSnedecor::new(a[0].f(), a[1].f()) { Ok(d) => d, Err(e) => return Some(ctor_err(&e)) };
            let mut rng = ScriptRng::new(a[2].il());
            let v: f64 = rand::distributions::Distribution::<f64>::sample(&d, &mut rng);
            return Some(rep(&(v, rng.used as i64)));
        }
        "sample::Gamma::f64" => {
            let d = match statrs::distribution::Gamma::new(a[0].f(), a[1].f()) { Ok(d) => d, Err(e) => return Some(ctor_err(&e)) };
            let mut rng = ScriptRng::new(a[2].il());
            let v: f64 = rand::distributions::Distribution::<f64>::sample(&d, &mut rng);
            return Some(rep(&(v, rng.used as i64)));
        }
        "sample::Geometric::u64" => {
            let d = match statrs::distribution::Geometric::new(a[0].f()) { Ok(d) => d, Err(e) => return Some(ctor_err(&e)) };
            let mut rng = ScriptRng::new(a[1].il());
            let v: u64 = rand::distributions::Distribution::<u64>::sample(&d, &mut rng);
            return Some(rep(&(v, rng.used as i64)));
        }
        "sample::Geometric::f64" => {
            let d = match statrs::distribution::Geometric::new(a[0].f()) { Ok(d) => d, Err(e) => return Some(ctor_err(&e)) };
            let mut rng = ScriptRng::new(a[1].il());
            let v: f64 = rand::distributions::Distribution::<f64>::sample(&d, &mut rng);
            return Some(rep(&(v, rng.used as i64)));
        }
        "sample::Gumbel::f64" => {
            let d = match statrs::distribution::Gumbel::new(a[0].f(), a[1].f()) { Ok(d) => d, Err(e) => return Some(ctor_err(&e)) };
            let mut rng = ScriptRng::new(a[2].il());
            let v: f64 = rand::distributions::Distribution::<f64>::sample(&d, &mut rng);
            return Some(rep(&(v, rng.used as i64)));
        }
        "sample::Hypergeometric::u64" => {
            let d = match statrs::distribution::Hypergeometric::new(a[0].i() as u64, a[1].i() as u64, a[2].i() as u64) { Ok(d) => d, Err(e) => return Some(ctor_err(&e)) };
            let mut rng = ScriptRng::new(a[3].il());
            let v: u64 = rand::distributions::Distribution::<u64>::sample(&d, &mut rng);
            return Some(rep(&(v, rng.used as i64)));
        }
        "sample::Hypergeometric::f64" => {
            let d = match statrs::distribution::Hypergeometric::new(a[0].i() as u64, a[1].i() as u64, a[2].i() as u64) { Ok(d) => d, Err(e) => return Some(ctor_err(&e)) };
            let mut rng = ScriptRng::new(a[3].il());
            let v: f64 = rand::distributions::Distribution::<f64>::sample(&d, &mut rng);
            return Some(rep(&(v, rng.used as i64)));
        }
        "sample::InverseGamma::f64" => {
            let d = match statrs::distribution::InverseGamma::new(a[0].f(), a[1].f()) { Ok(d) => d, Err(e) => return Some(ctor_err(&e)) };
            let mut rng = ScriptRng::new(a[2].il());
            let v: f64 = rand::distributions::Distribution::<f64>::sample(&d, &mut rng);
            return Some(rep(&(v, rng.used as i64)));
        }
        "sample::Laplace::f64" => {
            let d = match statrs::distribution::Laplace::new(a[0].f(), a[1].f()) { Ok(d) => d, Err(e) => return Some(ctor_err(&e)) };
            let mut rng = ScriptRng::new(a[2].il());
            let v: f64 = rand::distributions::Distribution::<f64>::sample(&d, &mut rng);
            return Some(rep(&(v, rng.used as i64)));
        }
        "sample::Levy::f64" => {
            let d = match statrs::distribution::Levy::new(a[0].f(), a[1].f()) { Ok(d) => d, Err(e) => return Some(ctor_err(&e)) };
            let mut rng = ScriptRng::new(a[2].il());
            let v: f64 = rand::distributions::Distribution::<f64>::sample(&d, &mut rng);
            return Some(rep(&(v, rng.used as i64)));
        }
        "sample::LogNormal::f64" => {
            let d = match statrs::distribution::LogNormal::new(a[0].f(), a[1].f()) { Ok(d) => d, Err(e) => return Some(ctor_err(&e)) };
            let mut rng = ScriptRng::new(a[2].il());
            let v: f64 = rand::distributions::Distribution::<f64>::sample(&d, &mut rng);
            return Some(rep(&(v, rng.used as i64)));
        }
        "sample::NegativeBinomial::u64" => {
            let d = match statrs::distribution::NegativeBinomial::new(a[0].f(), a[1].f()) { Ok(d) => d, Err(e) => return Some(ctor_err(&e)) };
            let mut rng = ScriptRng::new(a[2].il());
            let v: u64 = rand::distributions::Distribution::<u64>::sample(&d, &mut rng);
            return Some(rep(&(v, rng.used as i64)));
        }
        "sample::Normal::f64" => {
            let d = match statrs::distribution::Normal::new(a[0].f(), a[1].f()) { Ok(d) => d, Err(e) => return Some(ctor_err(&e)) };
            let mut rng = ScriptRng::new(a[2].il());
            let v: f64 = rand::distributions::Distribution::<f64>::sample(&d, &mut rng);
            return Some(rep(&(v, rng.used as i64)));
        }
        "sample::Pareto::f64" => {
            let d = match statrs::distribution::Pareto::new(a[0].f(), a[1].f()) { Ok(d) => d, Err(e) => return Some(ctor_err(&e)) };
            let mut rng = ScriptRng::new(a[2].il());
            let v: f64 = rand::distributions::Distribution::<f64>::sample(&d, &mut rng);
            return Some(rep(&(v, rng.used as i64)));
        }
        "sample::Poisson::u64" => {
            let d = match statrs::distribution::Poisson::new(a[0].f()) { Ok(d) => d, Err(e) => return Some(ctor_err(&e)) };
            let mut rng = ScriptRng::new(a[1].il());
            let v: u64 = rand::distributions::Distribution::<u64>::sample(&d, &mut rng);
            return Some(rep(&(v, rng.used as i64)));
        }
        "sample::Poisson::f64" => {
            let d = match statrs::distribution::Poisson::new(a[0].f()) { Ok(d) => d, Err(e) => return Some(ctor_err(&e)) };
            let mut rng = ScriptRng::new(a[1].il());
            let v: f64 = rand::distributions::Distribution::<f64>::sample(&d, &mut rng);
            return Some(rep(&(v, rng.used as i64)));
        }
        "sample::StudentsT::f64" => {
            let d = match statrs::distribution::StudentsT::new(a[0].f(), a[1].f(), a[2].f()) { Ok(d) => d, Err(e) => return Some(ctor_err(&e)) };
            let mut rng = ScriptRng::new(a[3].il());
            let v: f64 = rand::distributions::Distribution::<f64>::sample(&d, &mut rng);
            return Some(rep(&(v, rng.used as i64)));
        }
        "sample::Triangular::f64" => {
            let d = match statrs::distribution::Triangular::new(a[0].f(), a[1].f(), a[2].f()) { Ok(d) => d, Err(e) => return Some(ctor_err(&e)) };
            let mut rng = ScriptRng::new(a[3].il());
            let v: f64 = rand::distributions::Distribution::<f64>::sample(&d, &mut rng);
            return Some(rep(&(v, rng.used as i64)));
        }
        "sample::Uniform::f64" => {
            let d = match statrs::distribution::Uniform::new(a[0].f(), a[1].f()) { Ok(d) => d, Err(e) => return Some(ctor_err(&e)) };
            let mut rng = ScriptRng::new(a[2].il());
            let v: f64 = rand::distributions::Distribution::<f64>::sample(&d, &mut rng);
            return Some(rep(&(v, rng.used as i64)));
        }
        "sample::Weibull::f64" => {
            let d = match statrs::distribution::Weibull::new(a[0].f(), a[1].f()) { Ok(d) => d, Err(e) => return Some(ctor_err(&e)) };
            let mut rng = ScriptRng::new(a[2].il());
            let v: f64 = rand::distributions::Distribution::<f64>::sample(&d, &mut rng);
            return Some(rep(&(v, rng.used as i64)));
        }
        _ => {}
    }
    None
}

pub const SAMPLERS: &[(&str, &[&str], &[&str], &str)] = &[
    ("sample::Bernoulli::bool", &["f"], &["p"], "Bernoulli"),
    ("sample::Bernoulli::f64", &["f"], &["p"], "Bernoulli"),
    ("sample::Beta::f64", &["f", "f"], &["shape_a", "shape_b"], "Beta"),
    ("sample::Binomial::u64", &["f", "i:u64"], &["p", "n"], "Binomial"),
    ("sample::Binomial::f64", &["f", "i:u64"], &["p", "n"], "Binomial"),
    ("sample::Cauchy::f64", &["f", "f"], &["location", "scale"], "Cauchy"),
    ("sample::Chi::f64", &["i:u64"], &["freedom"], "Chi"),
    ("sample::ChiSquared::f64", &["f"], &["freedom"], "ChiSquared"),
    ("sample::Dirac::f64", &["f"], &["v"], "Dirac"),
    ("sample::DiscreteUniform::i64", &["i:i64", "i:i64"], &["min", "max"], "DiscreteUniform"),
    ("sample::DiscreteUniform::f64", &["i:i64", "i:i64"], &["min", "max"], "DiscreteUniform"),
    ("sample::Erlang::f64", &["i:u64", "f"], &["shape", "rate"], "Erlang"),
    ("sample::Exp::f64", &["f"], &["rate"], "Exp"),
    ("sample::FisherSnedecor::f64", &["f", "f"], &["freedom_1", "freedom_2"], "FisherSnedecor"),
    ("sample::Gamma::f64", &["f", "f"], &["shape", "rate"], "Gamma"),
    ("sample::Geometric::u64", &["f"], &["p"], "Geometric"),
    ("sample::Geometric::f64", &["f"], &["p"], "Geometric"),
    ("sample::Gumbel::f64", &["f", "f"], &["location", "scale"], "Gumbel"),
    ("sample::Hypergeometric::u64", &["i:u64", "i:u64", "i:u64"], &["population", "successes", "draws"], "Hypergeometric"),
    ("sample::Hypergeometric::f64", &["i:u64", "i:u64", "i:u64"], &["population", "successes", "draws"], "Hypergeometric"),
    ("sample::InverseGamma::f64", &["f", "f"], &["shape", "rate"], "InverseGamma"),
    ("sample::Laplace::f64", &["f", "f"], &["location", "scale"], "Laplace"),
    ("sample::Levy::f64", &["f", "f"], &["mu", "c"], "Levy"),
    ("sample::LogNormal::f64", &["f", "f"], &["location", "scale"], "LogNormal"),
    ("sample::NegativeBinomial::u64", &["f", "f"], &["r", "p"], "NegativeBinomial"),
    ("sample::Normal::f64", &["f", "f"], &["mean", "std_dev"], "Normal"),
    ("sample::Pareto::f64", &["f", "f"], &["scale", "shape"], "Pareto"),
    ("sample::Poisson::u64", &["f"], &["lambda"], "Poisson"),
    ("sample::Poisson::f64", &["f"], &["lambda"], "Poisson"),
    ("sample::StudentsT::f64", &["f", "f", "f"], &["location", "scale", "freedom"], "StudentsT"),
    ("sample::Triangular::f64", &["f", "f", "f"], &["min", "max", "mode"], "Triangular"),
    ("sample::Uniform::f64", &["f", "f"], &["min", "max"], "Uniform"),
    ("sample::Weibull::f64", &["f", "f"], &["shape", "scale"], "Weibull"),
];
