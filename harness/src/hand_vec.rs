//! Second sampler / accessor suite (`vsamplers`): vector variates, the samplers the first suite did not
//! pin (Categorical, Data, Dirichlet, Multinomial, MultivariateNormal, MultivariateStudent, Empirical),
//! the Cholesky-factor and parameter accessors of the multivariate families, and Empirical's quantile.
//! Ids match lean/Statrs/Model/VecDispatch.lean.
use crate::hand_samplers::ScriptRng;
use crate::proto::*;
use nalgebra::{DMatrix, DVector};
use rand::distributions::Distribution as RandDist;
use statrs::distribution::{Categorical, ContinuousCDF, Dirichlet, Empirical, Multinomial, MultivariateNormal, MultivariateStudent};
use statrs::statistics::{Data, Distribution};

fn rows(m: &DMatrix<f64>) -> Vec<Vec<f64>> {
    (0..m.nrows()).map(|i| (0..m.ncols()).map(|j| m[(i, j)]).collect()).collect()
}
fn vecof(v: &DVector<f64>) -> Vec<f64> {
    v.iter().copied().collect()
}

pub fn dispatch(id: &str, a: &[Arg]) -> Option<String> {
    Some(match id {
        "vec::mvn::sample" | "vec::mvn::chol" | "vec::mvn::acc" => {
            let d = match MultivariateNormal::new(a[0].fl(), a[1].fl()) {
                Ok(d) => d,
                Err(e) => return Some(ctor_err(&e)),
            };
            match id {
                "vec::mvn::sample" => {
                    let mut rng = ScriptRng::new(a[2].il());
                    let v: DVector<f64> = RandDist::sample(&d, &mut rng);
                    rep(&(vecof(&v), rng.used as i64))
                }
                "vec::mvn::chol" => rep(&rows(&d.clone_cov_chol_decomp())),
                _ => rep(&(vecof(d.mu()), rows(d.cov()), rows(d.precision()))),
            }
        }
        "vec::mvt::sample" | "vec::mvt::chol" | "vec::mvt::acc" | "vec::mvt::acc2" => {
            let d = match MultivariateStudent::new(a[0].fl(), a[1].fl(), a[2].f()) {
                Ok(d) => d,
                Err(e) => return Some(ctor_err(&e)),
            };
            match id {
                "vec::mvt::sample" => {
                    let mut rng = ScriptRng::new(a[3].il());
                    let v: DVector<f64> = RandDist::sample(&d, &mut rng);
                    rep(&(vecof(&v), rng.used as i64))
                }
                "vec::mvt::chol" => rep(&rows(d.scale_chol_decomp())),
                "vec::mvt::acc" => rep(&(vecof(d.location()), rows(d.scale()), rows(d.precision()))),
                _ => rep(&(d.freedom(), d.ln_pdf_const(), d.dim() as i64)),
            }
        }
        "vec::dirichlet::sample" | "vec::dirichlet::acc" => {
            let d = match Dirichlet::new(a[0].fl()) {
                Ok(d) => d,
                Err(e) => return Some(ctor_err(&e)),
            };
            match id {
                "vec::dirichlet::sample" => {
                    let mut rng = ScriptRng::new(a[1].il());
                    let v: DVector<f64> = RandDist::sample(&d, &mut rng);
                    rep(&(vecof(&v), rng.used as i64))
                }
                _ => rep(&vecof(d.alpha())),
            }
        }
        "vec::multinomial::sample_u64" | "vec::multinomial::sample_f64" | "vec::multinomial::n" => {
            let d = match Multinomial::new(a[0].fl(), a[1].i() as u64) {
                Ok(d) => d,
                Err(e) => return Some(ctor_err(&e)),
            };
            match id {
                "vec::multinomial::sample_u64" => {
                    let mut rng = ScriptRng::new(a[2].il());
                    let v: DVector<u64> = RandDist::sample(&d, &mut rng);
                    rep(&(v.iter().map(|x| *x as i64).collect::<Vec<i64>>(), rng.used as i64))
                }
                "vec::multinomial::sample_f64" => {
                    let mut rng = ScriptRng::new(a[2].il());
                    let v: DVector<f64> = RandDist::sample(&d, &mut rng);
                    rep(&(vecof(&v), rng.used as i64))
                }
                _ => rep(&(d.n() as i64)),
            }
        }
        "vec::categorical::sample_usize" | "vec::categorical::sample_u64" | "vec::categorical::sample_f64" => {
            let d = match Categorical::new(&a[0].fl()) {
                Ok(d) => d,
                Err(e) => return Some(ctor_err(&e)),
            };
            let mut rng = ScriptRng::new(a[1].il());
            match id {
                "vec::categorical::sample_usize" => {
                    let v: usize = RandDist::sample(&d, &mut rng);
                    rep(&(v as i64, rng.used as i64))
                }
                "vec::categorical::sample_u64" => {
                    let v: u64 = RandDist::sample(&d, &mut rng);
                    rep(&(v as i64, rng.used as i64))
                }
                _ => {
                    let v: f64 = RandDist::sample(&d, &mut rng);
                    rep(&(v, rng.used as i64))
                }
            }
        }
        "vec::data::sample" => {
            let d = Data::new(a[0].fl());
            let mut rng = ScriptRng::new(a[1].il());
            let v: f64 = RandDist::sample(&d, &mut rng);
            rep(&(v, rng.used as i64))
        }
        "vec::empirical::inverse_cdf" => {
            let e: Empirical = a[0].fl().into_iter().collect();
            rep(&e.inverse_cdf(a[1].f()))
        }
        "vec::empirical::sample" => {
            let e: Empirical = a[0].fl().into_iter().collect();
            let mut rng = ScriptRng::new(a[1].il());
            let v: f64 = RandDist::sample(&e, &mut rng);
            rep(&(v, rng.used as i64))
        }
        "vec::empirical::std_dev" => {
            let e: Empirical = a[0].fl().into_iter().collect();
            rep(&e.std_dev())
        }
        _ => return None,
    })
}

/// `harness gen-hand vsamplers <tier> <seed>`
pub fn gen(tier: &str, seed: u64) {
    use crate::rng::Sm;
    let mut r = Sm::new(seed ^ 0x76656373);
    let thorough = tier == "thorough";
    let emit = |id: &str, a: &[Arg]| println!("{} {}", id, a.iter().map(|x| x.render()).collect::<Vec<_>>().join(" "));
    let words = |r: &mut Sm, i: usize, n: usize| -> Vec<i128> {
        let first = match i % 6 {
            0 => 0u64,
            1 => u64::MAX,
            2 => 1u64 << 63,
            _ => r.next(),
        };
        let mut w = vec![first as i128];
        for _ in 0..n {
            w.push(r.next() as i128);
        }
        w
    };
    let n_cases = if thorough { 500 } else { 70 };
    for i in 0..n_cases {
        let dim = 1 + (i % 5);
        let a: Vec<f64> = (0..dim * dim).map(|_| r.range(-2.0, 2.0)).collect();
        let eps = 10f64.powf(r.range(-6.0, 0.0));
        let mut cov = vec![0.0; dim * dim];
        for p in 0..dim {
            for q in 0..dim {
                let mut s = 0.0;
                for k in 0..dim {
                    s += a[p * dim + k] * a[q * dim + k];
                }
                cov[p * dim + q] = s + if p == q { eps } else { 0.0 };
            }
        }
        for p in 0..dim {
            for q in 0..p {
                cov[p * dim + q] = cov[q * dim + p];
            }
        }
        if i % 19 == 0 {
            cov[0] = -1.0; // rejected by the constructor
        }
        let mean: Vec<f64> = (0..dim).map(|_| r.range(-10.0, 10.0)).collect();
        let nu = match i % 5 {
            0 => f64::INFINITY,
            1 => 0.5,
            2 => 3.0,
            _ => r.log_range(0.5, 100.0),
        };
        for k in 0..3 {
            let w = words(&mut r, i + k, 400);
            emit("vec::mvn::sample", &[Arg::FL(mean.clone()), Arg::FL(cov.clone()), Arg::IL(w.clone())]);
            emit("vec::mvt::sample", &[Arg::FL(mean.clone()), Arg::FL(cov.clone()), Arg::F(nu), Arg::IL(w)]);
        }
        emit("vec::mvn::chol", &[Arg::FL(mean.clone()), Arg::FL(cov.clone())]);
        emit("vec::mvn::acc", &[Arg::FL(mean.clone()), Arg::FL(cov.clone())]);
        emit("vec::mvt::chol", &[Arg::FL(mean.clone()), Arg::FL(cov.clone()), Arg::F(nu)]);
        emit("vec::mvt::acc", &[Arg::FL(mean.clone()), Arg::FL(cov.clone()), Arg::F(nu)]);
        emit("vec::mvt::acc2", &[Arg::FL(mean.clone()), Arg::FL(cov.clone()), Arg::F(nu)]);
        // Dirichlet / Multinomial / Categorical
        let k = 2 + (i % 4);
        let alpha: Vec<f64> = (0..k).map(|_| r.log_range(0.05, 50.0)).collect();
        emit("vec::dirichlet::acc", &[Arg::FL(alpha.clone())]);
        let p: Vec<f64> = (0..k).map(|j| if (i + j) % 5 == 0 { 0.0 } else { r.range(0.1, 3.0) }).collect();
        let n = r.below(12) as i128;
        emit("vec::multinomial::n", &[Arg::FL(p.clone()), Arg::I(n)]);
        for kk in 0..3 {
            let w = words(&mut r, i + kk, 1300);
            emit("vec::dirichlet::sample", &[Arg::FL(alpha.clone()), Arg::IL(w.clone())]);
            emit("vec::multinomial::sample_u64", &[Arg::FL(p.clone()), Arg::I(n), Arg::IL(w.clone())]);
            emit("vec::multinomial::sample_f64", &[Arg::FL(p.clone()), Arg::I(n), Arg::IL(w.clone())]);
            emit("vec::categorical::sample_usize", &[Arg::FL(p.clone()), Arg::IL(w.clone())]);
            emit("vec::categorical::sample_u64", &[Arg::FL(p.clone()), Arg::IL(w.clone())]);
            emit("vec::categorical::sample_f64", &[Arg::FL(p.clone()), Arg::IL(w)]);
        }
        // Data::sample / Empirical
        let len = if i % 9 == 0 { 0 } else { 1 + r.below(12) as usize };
        let pool: Vec<f64> = (0..(2 + r.below(5))).map(|_| match r.below(6) {
            0 => r.range(-1.0, 1.0) * 1e6,
            1 => r.range(-1.0, 1.0) * 1e-3,
            2 => 0.0,
            3 => -0.0,
            _ => (r.below(9) as f64) - 4.0,
        }).collect();
        let data: Vec<f64> = (0..len).map(|_| *r.pick(&pool)).collect();
        for kk in 0..3 {
            let w = words(&mut r, i + kk, 40);
            emit("vec::data::sample", &[Arg::FL(data.clone()), Arg::IL(w.clone())]);
            emit("vec::empirical::sample", &[Arg::FL(data.clone()), Arg::IL(w)]);
        }
        emit("vec::empirical::std_dev", &[Arg::FL(data.clone())]);
        for pq in [0.0, 1.0, 0.5, 1e-9, 1.0 - 1e-9, 0.25, f64::NAN] {
            emit("vec::empirical::inverse_cdf", &[Arg::FL(data.clone()), Arg::F(pq)]);
        }
        for _ in 0..4 {
            emit("vec::empirical::inverse_cdf", &[Arg::FL(data.clone()), Arg::F(r.range(0.0, 1.0))]);
        }
    }
}
