//! harness — calls the real statrs code in-process.
//!   harness impl            : read request lines on stdin, write one reply line each
//!   harness gen <suite> ... : write request lines for a correspondence suite
//!   harness search <prop>   : evaluate the property's statement directly on the implementation
mod gen;
mod gen_dispatch;
mod hand;
mod hand_samplers;
mod hand_mv;
mod hand_vec;
mod hand_ranktests;
mod proto;
mod rng;
mod search;
mod search_mods;
mod search_c19;
mod search_c10;
mod search_c09;
mod search_c07;
mod search_c20;
mod search_c12;
mod search_c11;
mod search_c06;
mod search_c18;
mod search_c17;
mod search_c16;
mod search_c08;
mod search_c05;
mod search_c04;
mod search_c03;
mod search_c15;
mod search_c14;
mod search_c13;

use proto::*;
use std::io::{BufRead, Write};
use std::sync::atomic::{AtomicU64, Ordering};
use std::sync::Arc;

pub fn call(id: &str, args: &[Arg]) -> String {
    let r = std::panic::catch_unwind(std::panic::AssertUnwindSafe(|| {
        if let Some(r) = hand::dispatch(id, args) {
            return r;
        }
        match gen_dispatch::dispatch(id, args) {
            Some(r) => r,
            None => "bad-op".to_string(),
        }
    }));
    match r {
        Ok(s) => s,
        Err(_) => "panic".to_string(),
    }
}

/// Call with a timeout (used by generators and searches); a timed-out call leaks its thread.
pub fn call_timeout(id: &str, args: &[Arg], ms: u64) -> String {
    let (tx, rx) = std::sync::mpsc::channel();
    let id2 = id.to_string();
    let a2 = args.to_vec();
    std::thread::spawn(move || {
        let r = call(&id2, &a2);
        let _ = tx.send(r);
    });
    match rx.recv_timeout(std::time::Duration::from_millis(ms)) {
        Ok(r) => r,
        Err(_) => {
            HANGS.lock().unwrap().push(format!("{} {}", id, args.iter().map(|x| x.render()).collect::<Vec<_>>().join(" ")));
            "hang".to_string()
        }
    }
}
pub static HANGS: std::sync::Mutex<Vec<String>> = std::sync::Mutex::new(Vec::new());

fn run_impl() {
    std::panic::set_hook(Box::new(|_| {}));
    let stdin = std::io::stdin();
    let mut out = std::io::BufWriter::new(std::io::stdout());
    // watchdog: if one request runs for more than WATCHDOG_S seconds, report `hang` and exit(3);
    // the orchestrator restarts us after that line.
    let started = Arc::new(AtomicU64::new(0));
    let limit: u64 = std::env::var("WATCHDOG_S").ok().and_then(|s| s.parse().ok()).unwrap_or(10);
    {
        let started = started.clone();
        std::thread::spawn(move || loop {
            std::thread::sleep(std::time::Duration::from_millis(200));
            let s = started.load(Ordering::SeqCst);
            if s != 0 {
                let now = std::time::SystemTime::now().duration_since(std::time::UNIX_EPOCH).unwrap().as_secs();
                if now > s + limit {
                    println!("hang");
                    std::process::exit(3);
                }
            }
        });
    }
    let mut n = 0u64;
    for line in stdin.lock().lines() {
        let line = line.unwrap();
        let line = line.trim();
        if line.is_empty() {
            continue;
        }
        let reply = match parse_line(line) {
            None => "bad-op".to_string(),
            Some((id, args)) => {
                out.flush().unwrap();
                let now = std::time::SystemTime::now().duration_since(std::time::UNIX_EPOCH).unwrap().as_secs();
                started.store(now, Ordering::SeqCst);
                let r = call(&id, &args);
                started.store(0, Ordering::SeqCst);
                r
            }
        };
        writeln!(out, "{}", reply).unwrap();
        n += 1;
        if n % 256 == 0 {
            out.flush().unwrap();
        }
    }
    out.flush().unwrap();
}

fn main() {
    let args: Vec<String> = std::env::args().collect();
    match args.get(1).map(|s| s.as_str()) {
        Some("impl") => run_impl(),
        Some("gen") => gen::main(&args[2..]),
        Some("search") => search::main(&args[2..]),
        Some("replay") => search::replay(&args[2..]),
        Some("gen-hand") => {
            let suite = args.get(2).map(|s| s.as_str()).unwrap_or("");
            let tier = args.get(3).map(|s| s.as_str()).unwrap_or("quick");
            let seed: u64 = args.get(4).and_then(|s| s.parse().ok()).unwrap_or(1);
            hand::gen(suite, tier, seed);
        }
        _ => {
            eprintln!("usage: harness impl | gen <suite> <tier> <seed> <signatures.json> | search <prop> <tier> <seed> <outdir>");
            std::process::exit(2);
        }
    }
}
