//! Line protocol (see lean/Statrs/Driver/Proto.lean).
#[derive(Clone, Debug)]
pub enum Arg {
    F(f64),
    I(i128),
    B(bool),
    FL(Vec<f64>),
    IL(Vec<i128>),
}
impl Arg {
    pub fn f(&self) -> f64 {
        match self {
            Arg::F(x) => *x,
            _ => panic!("arg type"),
        }
    }
    pub fn i(&self) -> i128 {
        match self {
            Arg::I(x) => *x,
            _ => panic!("arg type"),
        }
    }
    pub fn b(&self) -> bool {
        match self {
            Arg::B(x) => *x,
            _ => panic!("arg type"),
        }
    }
    pub fn fl(&self) -> Vec<f64> {
        match self {
            Arg::FL(x) => x.clone(),
            _ => panic!("arg type"),
        }
    }
    pub fn il(&self) -> Vec<i128> {
        match self {
            Arg::IL(x) => x.clone(),
            _ => panic!("arg type"),
        }
    }
    pub fn render(&self) -> String {
        match self {
            Arg::F(x) => format!("f:{:016x}", x.to_bits()),
            Arg::I(x) => format!("i:{}", x),
            Arg::B(x) => format!("b:{}", if *x { 1 } else { 0 }),
            Arg::FL(v) => format!("F:{}", v.iter().map(|x| format!("{:016x}", x.to_bits())).collect::<Vec<_>>().join(",")),
            Arg::IL(v) => format!("I:{}", v.iter().map(|x| x.to_string()).collect::<Vec<_>>().join(",")),
        }
    }
}

pub fn parse_arg(tok: &str) -> Option<Arg> {
    let (tag, rest) = tok.split_at(2.min(tok.len()));
    match tag {
        "f:" => u64::from_str_radix(rest, 16).ok().map(|b| Arg::F(f64::from_bits(b))),
        "i:" => rest.parse::<i128>().ok().map(Arg::I),
        "b:" => Some(Arg::B(rest == "1")),
        "F:" => {
            if rest.is_empty() {
                return Some(Arg::FL(vec![]));
            }
            rest.split(',').map(|h| u64::from_str_radix(h, 16).ok().map(f64::from_bits)).collect::<Option<Vec<_>>>().map(Arg::FL)
        }
        "I:" => {
            if rest.is_empty() {
                return Some(Arg::IL(vec![]));
            }
            rest.split(',').map(|h| h.parse::<i128>().ok()).collect::<Option<Vec<_>>>().map(Arg::IL)
        }
        _ => None,
    }
}

pub fn parse_line(line: &str) -> Option<(String, Vec<Arg>)> {
    let mut it = line.split_whitespace();
    let id = it.next()?.to_string();
    let mut args = vec![];
    for t in it {
        args.push(parse_arg(t)?);
    }
    Some((id, args))
}

pub fn fbits(x: f64) -> String {
    if x.is_nan() {
        "7ff8000000000000".to_string()
    } else {
        format!("{:016x}", x.to_bits())
    }
}

pub trait Rep {
    fn rep(&self) -> String;
}
pub fn rep<T: Rep>(x: &T) -> String {
    x.rep()
}
impl Rep for f64 {
    fn rep(&self) -> String {
        format!("f:{}", fbits(*self))
    }
}
macro_rules! int_rep {
    ($($t:ty),*) => {$(impl Rep for $t { fn rep(&self) -> String { format!("i:{}", self) } })*};
}
int_rep!(u64, i64, usize, i32, u32, u8, isize);
impl Rep for bool {
    fn rep(&self) -> String {
        format!("b:{}", if *self { 1 } else { 0 })
    }
}
impl Rep for () {
    fn rep(&self) -> String {
        "unit".into()
    }
}
impl<T: Rep> Rep for Option<T> {
    fn rep(&self) -> String {
        match self {
            Some(v) => format!("some({})", v.rep()),
            None => "none".into(),
        }
    }
}
pub fn variant_name<E: std::fmt::Debug>(e: &E) -> String {
    let s = format!("{:?}", e);
    s.split(|c: char| c == '(' || c == ' ' || c == '{').next().unwrap_or("").to_string()
}
impl<T: Rep, E: std::fmt::Debug> Rep for Result<T, E> {
    fn rep(&self) -> String {
        match self {
            Ok(v) => format!("ok({})", v.rep()),
            Err(e) => format!("err({})", variant_name(e)),
        }
    }
}
impl<A: Rep, B: Rep> Rep for (A, B) {
    fn rep(&self) -> String {
        format!("({},{})", self.0.rep(), self.1.rep())
    }
}
impl<A: Rep, B: Rep, C: Rep> Rep for (A, B, C) {
    fn rep(&self) -> String {
        format!("({},({},{}))", self.0.rep(), self.1.rep(), self.2.rep())
    }
}
impl<T: Rep> Rep for Vec<T> {
    fn rep(&self) -> String {
        format!("[{}]", self.iter().map(|x| x.rep()).collect::<Vec<_>>().join(","))
    }
}
impl<T: Rep> Rep for &[T] {
    fn rep(&self) -> String {
        format!("[{}]", self.iter().map(|x| x.rep()).collect::<Vec<_>>().join(","))
    }
}
macro_rules! struct_rep {
    ($($t:ty),*) => {$(impl Rep for $t { fn rep(&self) -> String { "struct".into() } })*};
}
pub(crate) use struct_rep;
macro_rules! enum_rep {
    ($($t:ty),*) => {$(impl Rep for $t { fn rep(&self) -> String { variant_name(self) } })*};
}
pub(crate) use enum_rep;

pub fn ctor_err<E: std::fmt::Debug>(e: &E) -> String {
    format!("ctor-err({})", variant_name(e))
}
