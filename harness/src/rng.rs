//! SplitMix64: the single source of randomness (seeded from VERIF_SEED).
#[derive(Clone)]
pub struct Sm(pub u64);
impl Sm {
    pub fn new(seed: u64) -> Sm {
        Sm(seed ^ 0x9E3779B97F4A7C15)
    }
    pub fn next(&mut self) -> u64 {
        self.0 = self.0.wrapping_add(0x9E3779B97F4A7C15);
        let mut z = self.0;
        z = (z ^ (z >> 30)).wrapping_mul(0xBF58476D1CE4E5B9);
        z = (z ^ (z >> 27)).wrapping_mul(0x94D049BB133111EB);
        z ^ (z >> 31)
    }
    pub fn unit(&mut self) -> f64 {
        (self.next() >> 11) as f64 / (1u64 << 53) as f64
    }
    pub fn below(&mut self, n: u64) -> u64 {
        if n == 0 {
            0
        } else {
            self.next() % n
        }
    }
    pub fn range(&mut self, lo: f64, hi: f64) -> f64 {
        lo + (hi - lo) * self.unit()
    }
    pub fn log_range(&mut self, lo: f64, hi: f64) -> f64 {
        (lo.ln() + (hi.ln() - lo.ln()) * self.unit()).exp()
    }
    pub fn pick<'a, T>(&mut self, v: &'a [T]) -> &'a T {
        &v[self.below(v.len() as u64) as usize]
    }
}
