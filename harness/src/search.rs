//! Failing-input search: the property statements evaluated directly on the implementation
//! (tolerances exactly as written in properties.jsonl).  Prints one JSON object per line:
//!   {"kind":"violation","site":..,"what":..,"case":[request lines],"observed":..,"required":..}
//!   {"kind":"stats","evaluations":N,...}
use crate::gen::*;
use crate::proto::*;
use crate::rng::Sm;
use serde_json::json;
use std::collections::BTreeMap;

pub struct Ctx {
    pub evals: u64,
    pub nviol: u64,
    pub sites: BTreeMap<String, u64>,
    pub thorough: bool,
    pub r: Sm,
    pub sigs: Vec<serde_json::Value>,
}

pub fn req(id: &str, a: &[Arg]) -> String {
    format!("{} {}", id, a.iter().map(|x| x.render()).collect::<Vec<_>>().join(" "))
}

impl Ctx {
    pub fn call(&mut self, id: &str, a: &[Arg]) -> String {
        self.evals += 1;
        crate::call_timeout(id, a, 10_000)
    }
    pub fn callf(&mut self, id: &str, a: &[Arg]) -> Option<f64> {
        reply_f(&self.call(id, a))
    }
    pub fn violation<C: Into<serde_json::Value>>(&mut self, site: &str, what: &str, case: C, observed: String, required: &str) {
        let case: serde_json::Value = case.into();
        let n = self.sites.entry(site.to_string()).or_default();
        *n += 1;
        self.nviol += 1;
        if *n <= 3 {
            println!("{}", json!({"kind":"violation","site":site,"what":what,"case":case,"observed":observed,"required":required}));
        }
    }
    pub fn families(&self, method: &str) -> Vec<(String, Vec<String>, Vec<String>, Vec<String>)> {
        // (family, ctor types, ctor names, method param types)
        let mut v = vec![];
        for s in &self.sigs {
            if s["method"].as_str() == Some(method) && s["self"].is_string() {
                let fam = s["self"].as_str().unwrap().to_string();
                let strs = |x: &serde_json::Value| -> Vec<String> { x.as_array().map(|a| a.iter().map(|y| y.as_str().unwrap_or("").to_string()).collect()).unwrap_or_default() };
                if strs(&s["ctor"]).is_empty() {
                    continue;
                }
                v.push((fam, strs(&s["ctor"]), strs(&s["ctor_names"]), strs(&s["params"])));
            }
        }
        v
    }
    pub fn has(&self, id: &str) -> bool {
        self.sigs.iter().any(|s| s["id"].as_str() == Some(id))
    }
}

/// coarse class of an argument, part of a finding's site so that a different failure of the same
/// function is still reported
pub fn xclass(a: &Arg) -> String {
    match a {
        Arg::F(x) => {
            let x = *x;
            if x.is_nan() {
                "nan".into()
            } else if x == f64::INFINITY {
                "+inf".into()
            } else if x == f64::NEG_INFINITY {
                "-inf".into()
            } else if x == 0.0 {
                "zero".into()
            } else if x.abs() < f64::MIN_POSITIVE {
                "subnormal".into()
            } else if x.abs() >= 1e300 {
                "huge".into()
            } else if x.abs() < 1e-300 {
                "tiny".into()
            } else {
                "ordinary".into()
            }
        }
        Arg::I(k) => {
            if *k >= (1i128 << 31) {
                "k>=2^31".into()
            } else {
                "int".into()
            }
        }
        _ => "other".into(),
    }
}
/// tags for special constructor parameters (infinite, or probability 0/1)
pub fn ptags(t: &[Arg], names: &[String]) -> String {
    let mut v = vec![];
    for (a, n) in t.iter().zip(names.iter()) {
        if let Arg::F(x) = a {
            if x.is_infinite() {
                v.push(format!("{}=inf", n));
            } else if n == "p" && (*x == 0.0 || *x == 1.0) {
                v.push(format!("p={}", x));
            }
        }
    }
    if v.is_empty() {
        String::new()
    } else {
        format!(" [{}]", v.join(","))
    }
}

pub fn fmt(x: f64) -> String {
    format!("{:e} (0x{:016x})", x, x.to_bits())
}

/// constructed core-domain parameter tuples of a family
pub fn tuples(cx: &mut Ctx, fam: &str, ct: &[String], cn: &[String], n: usize) -> Vec<Vec<Arg>> {
    tuples_ext(cx, fam, ct, cn, n).into_iter().map(|x| x.0).collect()
}
/// (tuple, generated from the extended domain?)
pub fn tuples_ext(cx: &mut Ctx, fam: &str, ct: &[String], cn: &[String], n: usize) -> Vec<(Vec<Arg>, bool)> {
    let mut out = vec![];
    for t in corner_tuples(fam) {
        if t.len() == ct.len() && cx.call(&format!("{}::new", fam), &t).starts_with("ok") {
            out.push((t, false));
        }
    }
    let n = n + out.len();
    let mut tries = 0;
    while out.len() < n && tries < 4 * n {
        tries += 1;
        let ext = cx.thorough && tries % 2 == 1;
        let t = ctor_tuple(&mut cx.r, fam, ct, cn, ext, false);
        if cx.call(&format!("{}::new", fam), &t).starts_with("ok") {
            out.push((t, ext));
        }
    }
    out
}

fn arg_of(t: &str, xf: f64, xi: i128) -> Arg {
    if t == "f" {
        Arg::F(xf)
    } else {
        Arg::I(xi)
    }
}

/// C01: cdf is a proper distribution function.  C02: sf is its complement.
fn c01_c02(cx: &mut Ctx, which: &str) {
    let n_t = if cx.thorough { 60 } else { 10 };
    for (fam, ct, cn, pt) in cx.families("cdf") {
        let is_disc = pt.get(0).map(|t| t != "f").unwrap_or(false);
        let signed = pt.get(0).map(|t| t.starts_with("i:i")).unwrap_or(false);
        let id_cdf = format!("{}::cdf", fam);
        let id_sf = format!("{}::sf", fam);
        for (t, ext) in tuples_ext(cx, &fam, &ct, &cn, n_t) {
            let fam_site = if ext { format!("[ext] {}", fam) } else { fam.clone() };
            let mn = cx.call(&format!("{}::min", fam), &t);
            let mx = cx.call(&format!("{}::max", fam), &t);
            // argument list (sorted)
            let mut pts: Vec<(f64, Arg)> = vec![];
            if is_disc {
                let mut ks = x_pool_i(&mut cx.r, &fam, &t, signed);
                if let (Some(a), Some(b)) = (reply_i(&mn), reply_i(&mx)) {
                    let hi = b.min(a + 5000);
                    let step = ((hi - a) / 200).max(1);
                    let mut k = a - 2;
                    while k <= hi + 2 {
                        if signed || k >= 0 {
                            ks.push(k);
                        }
                        k += if k < a + 40 || k > hi - 40 { 1 } else { step };
                    }
                }
                ks.sort();
                ks.dedup();
                for k in ks {
                    pts.push((k as f64, Arg::I(k)));
                }
            } else {
                let mut inv_hangs = false;
                let mut xs = x_pool_f(&mut cx.r, &fam, &t, &mut inv_hangs);
                xs.retain(|x| !x.is_nan() && (x.is_infinite() || *x == 0.0 || x.abs() >= f64::MIN_POSITIVE));
                xs.sort_by(|a, b| a.partial_cmp(b).unwrap());
                xs.dedup();
                for x in xs {
                    pts.push((x, Arg::F(x)));
                }
            }
            let mut prev: Option<(f64, f64, Arg)> = None; // (x, cdf, arg)
            let mut prev_sf: Option<(f64, f64, Arg)> = None;
            for (x, a) in pts {
                let mut args = t.clone();
                args.push(a.clone());
                let rc = cx.call(&id_cdf, &args);
                let c = match reply_f(&rc) {
                    Some(c) => c,
                    None => {
                        if which == "C01" {
                            cx.violation(&format!("{}::cdf {} @x={}{}", fam_site, rc, xclass(&a), ptags(&t, &cn)), "cdf did not return a number", vec![req(&id_cdf, &args)], rc.clone(), "a number in [0,1]");
                        }
                        continue;
                    }
                };
                if which == "C01" {
                    if c.is_nan() || c < 0.0 || c > 1.0 {
                        let kind = if c.is_nan() { "NaN" } else if c > 1.0 { ">1" } else { "<0" };
                        cx.violation(&format!("{}::cdf {}", fam_site, kind), "cdf outside [0,1]", vec![req(&id_cdf, &args)], fmt(c), "0 <= cdf <= 1, not NaN");
                    }
                    if let Some((px, pc, pa)) = &prev {
                        if *px < x && c < pc - 1e-11 {
                            let mut a0 = t.clone();
                            a0.push(pa.clone());
                            cx.violation(&format!("{}::cdf decreasing", fam_site), "cdf decreases by more than 1e-11", vec![req(&id_cdf, &a0), req(&id_cdf, &args)], format!("{} then {}", fmt(*pc), fmt(c)), "cdf(x) <= cdf(y) + 1e-11 for x < y");
                        }
                    }
                    // support ends
                    let (mnf, mxf) = (reply_f(&mn).or(reply_i(&mn).map(|v| v as f64)), reply_f(&mx).or(reply_i(&mx).map(|v| v as f64)));
                    if let Some(m) = mnf {
                        if x < m && c != 0.0 {
                            cx.violation(&format!("{}::cdf below-min", fam_site), "cdf nonzero below the support minimum", vec![req(&id_cdf, &args)], fmt(c), "cdf(x) = 0 for x < min");
                        }
                    }
                    if let Some(m) = mxf {
                        if x >= m && c != 1.0 {
                            cx.violation(&format!("{}::cdf at-max", fam_site), "cdf not 1 at/above the support maximum", vec![req(&id_cdf, &args)], fmt(c), "cdf(x) = 1 for x >= max");
                        }
                    }
                    if !c.is_nan() {
                        prev = Some((x, c, a.clone()));
                    }
                } else {
                    let rs = cx.call(&id_sf, &args);
                    let s = match reply_f(&rs) {
                        Some(s) => s,
                        None => {
                            cx.violation(&format!("{}::sf {} @x={}{}", fam_site, rs, xclass(&a), ptags(&t, &cn)), "sf did not return a number", vec![req(&id_sf, &args)], rs.clone(), "a number in [0,1]");
                            continue;
                        }
                    };
                    if s.is_nan() || s < 0.0 || s > 1.0 {
                        let kind = if s.is_nan() { "NaN" } else if s > 1.0 { ">1" } else { "<0" };
                        cx.violation(&format!("{}::sf {}", fam_site, kind), "sf outside [0,1]", vec![req(&id_sf, &args)], fmt(s), "0 <= sf <= 1, not NaN");
                    }
                    if let Some((px, ps, pa)) = &prev_sf {
                        if *px < x && s > ps + 1e-11 {
                            let mut a0 = t.clone();
                            a0.push(pa.clone());
                            cx.violation(&format!("{}::sf increasing", fam_site), "sf increases by more than 1e-11", vec![req(&id_sf, &a0), req(&id_sf, &args)], format!("{} then {}", fmt(*ps), fmt(s)), "sf(x) >= sf(y) - 1e-11 for x < y");
                        }
                    }
                    // complement identity: not asserted at the ULP neighbours of a finite end point (property text);
                    // asserted at quantile levels 1e-6..1-1e-6, at/outside the end points and at every lattice point
                    let in_levels = c >= 1e-6 && c <= 1.0 - 1e-6;
                    let at_ends = c == 0.0 || c == 1.0;
                    let (mnf, mxf) = (reply_f(&mn), reply_f(&mx));
                    let near = |m: Option<f64>| m.map(|m| m.is_finite() && x != m && (x == next_up(m) || x == next_down(m) || x == next_up(next_up(m)) || x == next_down(next_down(m)))).unwrap_or(false);
                    let ulp_neighbour = !is_disc && (near(mnf) || near(mxf));
                    let small = if !is_disc && x.abs() < 1e-8 && x != 0.0 { " @|x|<1e-8" } else if !is_disc && x.abs() > 1e8 { " @|x|>1e8" } else { "" };
                    if (in_levels || at_ends || is_disc) && !ulp_neighbour && (c + s - 1.0).abs() > 1e-8 {
                        cx.violation(&format!("{}::sf complement{}", fam_site, small), "cdf + sf differs from 1 by more than 1e-8", vec![req(&id_cdf, &args), req(&id_sf, &args)], format!("cdf={} sf={}", fmt(c), fmt(s)), "|cdf(x)+sf(x)-1| <= 1e-8");
                    }
                    if !s.is_nan() {
                        prev_sf = Some((x, s, a.clone()));
                    }
                }
            }
            let _ = arg_of;
        }
    }
}

pub fn main(args: &[String]) {
    std::panic::set_hook(Box::new(|_| {}));
    let prop = args.get(0).map(|s| s.as_str()).unwrap_or("");
    if prop == "--replay" {
        return;
    }
    let tier = args.get(1).map(|s| s.as_str()).unwrap_or("quick");
    let seed: u64 = args.get(2).and_then(|s| s.parse().ok()).unwrap_or(1);
    let sig_path = std::env::var("VERIF_SIGS").unwrap_or("/verif/lean/Statrs/Gen/signatures.json".into());
    let sigs: Vec<serde_json::Value> = std::fs::read_to_string(&sig_path).ok().and_then(|s| serde_json::from_str(&s).ok()).unwrap_or_default();
    let mut cx = Ctx { evals: 0, nviol: 0, sites: BTreeMap::new(), thorough: tier == "thorough", r: Sm::new(seed ^ 0x5ea4c4), sigs };
    match prop {
        "C01" => c01_c02(&mut cx, "C01"),
        "C02" => c01_c02(&mut cx, "C02"),
        _ => crate::search_mods::run(prop, &mut cx),
    }
    println!("{}", json!({"kind":"stats","evaluations":cx.evals,"violations":cx.nviol,"sites":cx.sites,
        "hangs": crate::HANGS.lock().unwrap().clone()}));
    std::process::exit(0);
}

/// `harness replay <prop> <json list of request lines>`: re-evaluate the requests of a recorded case
pub fn replay(args: &[String]) {
    std::panic::set_hook(Box::new(|_| {}));
    let prop = args.get(0).cloned().unwrap_or_default();
    let v: serde_json::Value = args.get(1).and_then(|s| serde_json::from_str(s).ok()).unwrap_or(serde_json::Value::Null);
    match &v {
        serde_json::Value::Array(a) if a.iter().all(|x| x.is_string()) => {
            for l in a {
                let l = l.as_str().unwrap();
                if let Some((id, a)) = parse_line(l) {
                    println!("{}  =>  {}", l, crate::call_timeout(&id, &a, 10_000));
                }
            }
        }
        other => println!("{}", crate::search_mods::replay(&prop, other)),
    }
    std::process::exit(0);
}
