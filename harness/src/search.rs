//! Failing-input search: the property statements evaluated directly on the implementation.
pub fn main(_args: &[String]) {
    eprintln!("search: not built yet");
}
