//! C03 — density and mass functions are the derivative / increments of the cdf.
//!
//! The first half of this file is the typed layer shared by search_c03/c04/c05/c08
//! (`crate::search_c03::{Obj, CObj, DObj, make, all_tuples, pool_c, pool_d, guard, …}`): every
//! univariate family of statrs behind two object-safe traits, built from the same constructor
//! tuples the generic string dispatch uses (`tuples_ext`), plus Categorical and Empirical which the
//! string dispatch cannot reach.  The second half is the C03 search itself.
use crate::gen::{next_down, next_up};
use crate::proto::{parse_arg, Arg};
use crate::rng::Sm;
use crate::search::{fmt, tuples_ext, Ctx};
use serde_json::{json, Value};
use statrs::distribution::*;
use statrs::statistics::{Max, Median, Min, Mode};
use std::panic::{catch_unwind, AssertUnwindSafe};
use std::sync::Arc;

// ------------------------------------------------------------------------------------------------
// shared typed layer
// ------------------------------------------------------------------------------------------------

/// a continuous-cdf family (argument type f64)
pub trait CObj: Send + Sync {
    fn cdf(&self, x: f64) -> f64;
    #[allow(dead_code)]
    fn sf(&self, x: f64) -> f64;
    fn inv(&self, p: f64) -> f64;
    fn pdf(&self, x: f64) -> Option<f64>;
    fn ln_pdf(&self, x: f64) -> Option<f64>;
    fn min(&self) -> f64;
    fn max(&self) -> f64;
    /// None: the family does not implement Median
    fn median(&self) -> Option<f64>;
    /// None: the family does not implement Mode; Some(None): mode() returned None
    fn mode(&self) -> Option<Option<f64>>;
}
/// a discrete family (argument type u64 or i64, passed as i128; `tlo..=thi` is the argument type's range)
pub trait DObj: Send + Sync {
    fn tlo(&self) -> i128;
    fn thi(&self) -> i128;
    fn cdf(&self, k: i128) -> f64;
    fn sf(&self, k: i128) -> f64;
    fn inv(&self, p: f64) -> i128;
    fn pmf(&self, k: i128) -> f64;
    fn ln_pmf(&self, k: i128) -> f64;
    fn min(&self) -> i128;
    fn max(&self) -> i128;
    fn median(&self) -> Option<f64>;
    fn mode(&self) -> Option<Option<f64>>;
}

macro_rules! c_pdf {
    (y, $s:expr, $x:expr) => {
        Some(Continuous::pdf($s, $x))
    };
    (n, $s:expr, $x:expr) => {{
        let _ = $x;
        None
    }};
}
macro_rules! c_lnpdf {
    (y, $s:expr, $x:expr) => {
        Some(Continuous::ln_pdf($s, $x))
    };
    (n, $s:expr, $x:expr) => {{
        let _ = $x;
        None
    }};
}
macro_rules! c_median {
    (y, $s:expr) => {
        Some(Median::median($s))
    };
    (n, $s:expr) => {
        None
    };
}
macro_rules! c_mode {
    (o, $s:expr) => {{
        let m: Option<f64> = Mode::mode($s);
        Some(m)
    }};
    (p, $s:expr) => {{
        let m: f64 = Mode::mode($s);
        Some(Some(m))
    }};
    (u, $s:expr) => {{
        let m: Option<u64> = Mode::mode($s);
        Some(m.map(|v| v as f64))
    }};
    (i, $s:expr) => {{
        let m: Option<i64> = Mode::mode($s);
        Some(m.map(|v| v as f64))
    }};
    (n, $s:expr) => {
        None
    };
}
macro_rules! cobj {
    ($t:ty, $pdf:tt, $med:tt, $mode:tt) => {
        impl CObj for $t {
            fn cdf(&self, x: f64) -> f64 {
                ContinuousCDF::cdf(self, x)
            }
            fn sf(&self, x: f64) -> f64 {
                ContinuousCDF::sf(self, x)
            }
            fn inv(&self, p: f64) -> f64 {
                ContinuousCDF::inverse_cdf(self, p)
            }
            fn pdf(&self, x: f64) -> Option<f64> {
                c_pdf!($pdf, self, x)
            }
            fn ln_pdf(&self, x: f64) -> Option<f64> {
                c_lnpdf!($pdf, self, x)
            }
            fn min(&self) -> f64 {
                Min::min(self)
            }
            fn max(&self) -> f64 {
                Max::max(self)
            }
            fn median(&self) -> Option<f64> {
                c_median!($med, self)
            }
            fn mode(&self) -> Option<Option<f64>> {
                c_mode!($mode, self)
            }
        }
    };
}
cobj!(Beta, y, n, o);
cobj!(Cauchy, y, y, o);
cobj!(Chi, y, n, o);
cobj!(ChiSquared, y, y, o);
cobj!(Dirac, n, y, o);
cobj!(Empirical, n, n, n);
cobj!(Erlang, y, n, o);
cobj!(Exp, y, y, o);
cobj!(FisherSnedecor, y, n, o);
cobj!(Gamma, y, n, o);
cobj!(Gumbel, y, y, p);
cobj!(InverseGamma, y, n, o);
cobj!(Laplace, y, y, o);
cobj!(Levy, y, y, o);
cobj!(LogNormal, y, y, o);
cobj!(Normal, y, y, o);
cobj!(Pareto, y, y, o);
cobj!(StudentsT, y, y, o);
cobj!(Triangular, y, y, o);
cobj!(Uniform, y, y, o);
cobj!(Weibull, y, y, o);

macro_rules! dobj {
    ($t:ty, $k:ty, $med:tt, $mode:tt) => {
        impl DObj for $t {
            fn tlo(&self) -> i128 {
                <$k>::MIN as i128
            }
            fn thi(&self) -> i128 {
                <$k>::MAX as i128
            }
            fn cdf(&self, k: i128) -> f64 {
                DiscreteCDF::cdf(self, k as $k)
            }
            fn sf(&self, k: i128) -> f64 {
                DiscreteCDF::sf(self, k as $k)
            }
            fn inv(&self, p: f64) -> i128 {
                DiscreteCDF::inverse_cdf(self, p) as i128
            }
            fn pmf(&self, k: i128) -> f64 {
                Discrete::pmf(self, k as $k)
            }
            fn ln_pmf(&self, k: i128) -> f64 {
                Discrete::ln_pmf(self, k as $k)
            }
            fn min(&self) -> i128 {
                let m: $k = Min::min(self);
                m as i128
            }
            fn max(&self) -> i128 {
                let m: $k = Max::max(self);
                m as i128
            }
            fn median(&self) -> Option<f64> {
                c_median!($med, self)
            }
            fn mode(&self) -> Option<Option<f64>> {
                c_mode!($mode, self)
            }
        }
    };
}
dobj!(Bernoulli, u64, y, u);
dobj!(Binomial, u64, y, u);
dobj!(Categorical, u64, y, n);
dobj!(DiscreteUniform, i64, y, i);
dobj!(Geometric, u64, y, u);
dobj!(Hypergeometric, u64, n, u);
dobj!(NegativeBinomial, u64, n, o);
dobj!(Poisson, u64, y, u);

#[derive(Clone)]
pub enum Obj {
    C(Arc<dyn CObj>),
    D(Arc<dyn DObj>),
}

fn u(a: &Arg) -> Option<u64> {
    match a {
        Arg::I(x) if *x >= 0 && *x <= u64::MAX as i128 => Some(*x as u64),
        _ => None,
    }
}
fn i(a: &Arg) -> Option<i64> {
    match a {
        Arg::I(x) if *x >= i64::MIN as i128 && *x <= i64::MAX as i128 => Some(*x as i64),
        _ => None,
    }
}
fn f(a: &Arg) -> Option<f64> {
    match a {
        Arg::F(x) => Some(*x),
        _ => None,
    }
}

/// construct a family from its constructor tuple (None: constructor refused / wrong arity)
pub fn make(fam: &str, a: &[Arg]) -> Option<Obj> {
    let r = catch_unwind(AssertUnwindSafe(|| -> Option<Obj> {
        macro_rules! c {
            ($e:expr) => {
                $e.ok().map(|d| Obj::C(Arc::new(d)))
            };
        }
        macro_rules! d {
            ($e:expr) => {
                $e.ok().map(|d| Obj::D(Arc::new(d)))
            };
        }
        let g = |k: usize| a.get(k);
        match fam {
            "Bernoulli" => d!(Bernoulli::new(f(g(0)?)?)),
            "Beta" => c!(Beta::new(f(g(0)?)?, f(g(1)?)?)),
            "Binomial" => d!(Binomial::new(f(g(0)?)?, u(g(1)?)?)),
            "Categorical" => match g(0)? {
                Arg::FL(v) => d!(Categorical::new(v)),
                _ => None,
            },
            "Cauchy" => c!(Cauchy::new(f(g(0)?)?, f(g(1)?)?)),
            "Chi" => c!(Chi::new(u(g(0)?)?)),
            "ChiSquared" => c!(ChiSquared::new(f(g(0)?)?)),
            "Dirac" => c!(Dirac::new(f(g(0)?)?)),
            "DiscreteUniform" => d!(DiscreteUniform::new(i(g(0)?)?, i(g(1)?)?)),
            "Empirical" => match g(0)? {
                Arg::FL(v) if !v.is_empty() && v.iter().all(|x| !x.is_nan()) => Some(Obj::C(Arc::new(v.iter().cloned().collect::<Empirical>()))),
                _ => None,
            },
            "Erlang" => c!(Erlang::new(u(g(0)?)?, f(g(1)?)?)),
            "Exp" => c!(Exp::new(f(g(0)?)?)),
            "FisherSnedecor" => c!(FisherSnedecor::new(f(g(0)?)?, f(g(1)?)?)),
            "Gamma" => c!(Gamma::new(f(g(0)?)?, f(g(1)?)?)),
            "Geometric" => d!(Geometric::new(f(g(0)?)?)),
            "Gumbel" => c!(Gumbel::new(f(g(0)?)?, f(g(1)?)?)),
            "Hypergeometric" => d!(Hypergeometric::new(u(g(0)?)?, u(g(1)?)?, u(g(2)?)?)),
            "InverseGamma" => c!(InverseGamma::new(f(g(0)?)?, f(g(1)?)?)),
            "Laplace" => c!(Laplace::new(f(g(0)?)?, f(g(1)?)?)),
            "Levy" => c!(Levy::new(f(g(0)?)?, f(g(1)?)?)),
            "LogNormal" => c!(LogNormal::new(f(g(0)?)?, f(g(1)?)?)),
            "NegativeBinomial" => d!(NegativeBinomial::new(f(g(0)?)?, f(g(1)?)?)),
            "Normal" => c!(Normal::new(f(g(0)?)?, f(g(1)?)?)),
            "Pareto" => c!(Pareto::new(f(g(0)?)?, f(g(1)?)?)),
            "Poisson" => d!(Poisson::new(f(g(0)?)?)),
            "StudentsT" => c!(StudentsT::new(f(g(0)?)?, f(g(1)?)?, f(g(2)?)?)),
            "Triangular" => c!(Triangular::new(f(g(0)?)?, f(g(1)?)?, f(g(2)?)?)),
            "Uniform" => c!(Uniform::new(f(g(0)?)?, f(g(1)?)?)),
            "Weibull" => c!(Weibull::new(f(g(0)?)?, f(g(1)?)?)),
            _ => None,
        }
    }));
    r.ok().flatten()
}

/// one constructed distribution of the sweep
#[derive(Clone)]
pub struct Tup {
    pub fam: String,
    pub ctor: Vec<Arg>,
    pub names: Vec<String>,
    pub ext: bool,
    pub obj: Obj,
}
impl Tup {
    /// "[ext] Fam" for extended-domain tuples
    pub fn site(&self) -> String {
        if self.ext {
            format!("[ext] {}", self.fam)
        } else {
            self.fam.clone()
        }
    }
    pub fn ctor_json(&self) -> Value {
        Value::Array(self.ctor.iter().map(|a| Value::String(a.render())).collect())
    }
    pub fn pf(&self, name: &str) -> Option<f64> {
        self.names.iter().position(|n| n == name).and_then(|k| match &self.ctor[k] {
            Arg::F(x) => Some(*x),
            Arg::I(x) => Some(*x as f64),
            _ => None,
        })
    }
    /// human-readable parameters for `what`/observed strings
    pub fn show(&self) -> String {
        let mut v = vec![];
        for (k, a) in self.ctor.iter().enumerate() {
            let n = self.names.get(k).cloned().unwrap_or_default();
            v.push(match a {
                Arg::F(x) => format!("{}={:e}", n, x),
                Arg::I(x) => format!("{}={}", n, x),
                Arg::FL(x) => format!("{}={:?}", n, x),
                other => format!("{}={}", n, other.render()),
            });
        }
        format!("{}({})", self.fam, v.join(", "))
    }
}

fn gen_categorical(r: &mut Sm) -> Vec<f64> {
    let len = 1 + r.below(8) as usize;
    let mut v: Vec<f64> = (0..len)
        .map(|_| match r.below(6) {
            0 | 1 => 0.0,
            2 => 1.0,
            3 => 0.5,
            _ => r.log_range(1e-3, 10.0),
        })
        .collect();
    if v.iter().all(|x| *x == 0.0) {
        let k = r.below(len as u64) as usize;
        v[k] = 1.0;
    }
    v
}
fn gen_empirical(r: &mut Sm) -> Vec<f64> {
    let len = 1 + r.below(12) as usize;
    let mode = r.below(5);
    let off = *r.pick(&[0.0, 1.0, -100.0, 100.0, 1e4]);
    if mode == 4 {
        // a cluster near 0 and one far outlier: the sample range is much larger than max(1, |Q(p)|) for most p,
        // which is where a quantile search bracketed by [min, max] instead of the doubling bracket loses the bound
        let mut v: Vec<f64> = (0..len).map(|_| r.below(4) as f64).collect();
        let s = if r.below(2) == 0 { 1.0 } else { -1.0 };
        v.push(s * r.log_range(1e3, 1e6));
        return v;
    }
    let mut v = vec![];
    for _ in 0..len {
        let x = match mode {
            0 => (r.below(7) as f64) - 3.0,
            1 => off + r.range(-1.0, 1.0),
            2 => r.range(-1.0, 1.0) * r.log_range(1e-3, 1e3),
            _ => off + r.below(4) as f64 * 0.25,
        };
        v.push(x);
    }
    v
}

/// All families x `n` constructed core-domain tuples each (extended-domain tuples in the thorough
/// tier are marked `ext`).  `want` filters families.
pub fn all_tuples(cx: &mut Ctx, n: usize, want: &dyn Fn(&str) -> bool) -> Vec<Tup> {
    let mut out = vec![];
    let mut seen: Vec<String> = vec![];
    for (fam, ct, cn, _) in cx.families("cdf") {
        if seen.contains(&fam) || !want(&fam) {
            continue;
        }
        seen.push(fam.clone());
        for (t, ext) in tuples_ext(cx, &fam, &ct, &cn, n) {
            if let Some(obj) = make(&fam, &t) {
                out.push(Tup { fam: fam.clone(), ctor: t, names: cn.clone(), ext, obj });
            }
        }
        // thorough tier: populations beyond the generator's range (the property names population > 1030), as
        // extended-domain tuples
        if fam == "Hypergeometric" && cx.thorough {
            for (pop, succ, draws) in [(1031i128, 515i128, 343i128), (1100, 30, 1000), (1500, 700, 600), (2000, 1000, 1000)] {
                let t = vec![Arg::I(pop), Arg::I(succ), Arg::I(draws)];
                if let Some(obj) = make(&fam, &t) {
                    out.push(Tup { fam: fam.clone(), ctor: t, names: cn.clone(), ext: true, obj });
                }
            }
        }
    }
    for fam in ["Categorical", "Empirical"] {
        if !want(fam) {
            continue;
        }
        for i in 0..n {
            let v = if fam == "Categorical" {
                gen_categorical(&mut cx.r)
            } else if i == 0 {
                vec![0.0, 1.0, 2.0, 3.0, 1000.0] // cluster + far outlier (see gen_empirical, mode 4): always present
            } else {
                gen_empirical(&mut cx.r)
            };
            let t = vec![Arg::FL(v)];
            if let Some(obj) = make(fam, &t) {
                out.push(Tup { fam: fam.to_string(), ctor: t, names: vec![if fam == "Categorical" { "prob_mass".to_string() } else { "data".to_string() }], ext: false, obj });
            }
        }
    }
    out
}

/// rebuild a tuple from a recorded case (`{"fam":..,"ctor":[rendered args],..}`)
pub fn tup_of_case(case: &Value) -> Option<Tup> {
    let fam = case["fam"].as_str()?.to_string();
    let ctor: Vec<Arg> = case["ctor"].as_array()?.iter().map(|s| s.as_str().and_then(parse_arg)).collect::<Option<Vec<_>>>()?;
    let obj = make(&fam, &ctor)?;
    let names = case["names"].as_array().map(|a| a.iter().map(|s| s.as_str().unwrap_or("").to_string()).collect()).unwrap_or_default();
    Some(Tup { fam, ctor, names, ext: false, obj })
}
pub fn jf(x: f64) -> Value {
    Value::String(Arg::F(x).render())
}
pub fn ji(k: i128) -> Value {
    Value::String(Arg::I(k).render())
}
pub fn vf(v: &Value) -> Option<f64> {
    match parse_arg(v.as_str()?)? {
        Arg::F(x) => Some(x),
        _ => None,
    }
}
pub fn vi(v: &Value) -> Option<i128> {
    match parse_arg(v.as_str()?)? {
        Arg::I(x) => Some(x),
        _ => None,
    }
}
/// base of a case object
pub fn case_of(t: &Tup, chk: &str) -> Value {
    json!({"chk": chk, "fam": t.fam, "ctor": t.ctor_json(), "names": t.names, "show": t.show()})
}

/// result of a guarded call
#[derive(Clone, Debug, PartialEq)]
pub enum Out<T> {
    Ok(T),
    Panic,
    Hang,
    /// not evaluated (after several hangs of the same object)
    Skipped,
}
impl<T> Out<T> {
    pub fn ok(self) -> Option<T> {
        match self {
            Out::Ok(v) => Some(v),
            _ => None,
        }
    }
}
pub fn out_str(o: &Out<f64>) -> String {
    match o {
        Out::Ok(v) => fmt(*v),
        Out::Panic => "panic".into(),
        Out::Hang => "hang".into(),
        Out::Skipped => "not evaluated".into(),
    }
}
/// catch_unwind only (for calls that always terminate)
pub fn catch<T>(f: impl FnOnce() -> T) -> Out<T> {
    match catch_unwind(AssertUnwindSafe(f)) {
        Ok(v) => Out::Ok(v),
        Err(_) => Out::Panic,
    }
}
/// run on a thread with a timeout (a timed-out call leaks its thread)
pub fn guard<T: Send + 'static>(ms: u64, f: impl FnOnce() -> T + Send + 'static) -> Out<T> {
    let (tx, rx) = std::sync::mpsc::channel();
    std::thread::spawn(move || {
        let r = catch_unwind(AssertUnwindSafe(f));
        let _ = tx.send(r);
    });
    match rx.recv_timeout(std::time::Duration::from_millis(ms)) {
        Ok(Ok(v)) => Out::Ok(v),
        Ok(Err(_)) => Out::Panic,
        Err(_) => Out::Hang,
    }
}
/// inverse_cdf of a continuous family at several levels (one thread for the batch; on a hang each
/// level is retried on its own thread so that the hanging level is identified)
/// number of objects per (family, parameter corner) whose inverse_cdf has hung in this process; after two,
/// inverse_cdf is not called any more for that class (every hang leaks spinning threads)
static HUNG: std::sync::Mutex<Vec<(String, u32)>> = std::sync::Mutex::new(Vec::new());
fn hung_key(t: &Tup) -> String {
    format!("{} {}", t.site(), corner(t).join(","))
}
fn hung_count(t: &Tup) -> u32 {
    let k = hung_key(t);
    HUNG.lock().unwrap().iter().find(|e| e.0 == k).map(|e| e.1).unwrap_or(0)
}
fn hung_note(t: &Tup) {
    let k = hung_key(t);
    let mut g = HUNG.lock().unwrap();
    match g.iter_mut().find(|e| e.0 == k) {
        Some(e) => e.1 += 1,
        None => g.push((k, 1)),
    }
}

pub fn inv_batch_c(t: &Tup, o: &Arc<dyn CObj>, ps: &[f64]) -> Vec<Out<f64>> {
    if hung_count(t) >= 2 {
        return ps.iter().map(|_| Out::Skipped).collect();
    }
    let o2 = o.clone();
    let ps2 = ps.to_vec();
    match guard(3000, move || ps2.iter().map(|p| catch(|| o2.inv(*p))).collect::<Vec<_>>()) {
        Out::Ok(v) => v,
        _ => {
            // level by level (levels of the grid range first); the first hanging level ends the object (2 leaked threads)
            let mut out: Vec<Out<f64>> = ps.iter().map(|_| Out::Skipped).collect();
            let mut order: Vec<usize> = (0..ps.len()).collect();
            order.sort_by_key(|k| (!(ps[*k] >= 1e-6 && ps[*k] <= 1.0 - 1e-6), *k));
            let mut hangs = 0;
            hung_note(t);
            for k in order {
                if hangs >= 1 {
                    break;
                }
                let o3 = o.clone();
                let p = ps[k];
                let r = guard(1000, move || o3.inv(p));
                if r == Out::Hang {
                    hangs += 1;
                    crate::HANGS.lock().unwrap().push(format!("{} inverse_cdf({:e})", t.show(), p));
                }
                out[k] = r;
            }
            out
        }
    }
}
pub fn inv_batch_d(t: &Tup, o: &Arc<dyn DObj>, ps: &[f64]) -> Vec<Out<i128>> {
    if hung_count(t) >= 2 {
        return ps.iter().map(|_| Out::Skipped).collect();
    }
    let o2 = o.clone();
    let ps2 = ps.to_vec();
    match guard(3000, move || ps2.iter().map(|p| catch(|| o2.inv(*p))).collect::<Vec<_>>()) {
        Out::Ok(v) => v,
        _ => {
            // level by level (levels of the grid range first); the first hanging level ends the object (2 leaked threads)
            let mut out: Vec<Out<i128>> = ps.iter().map(|_| Out::Skipped).collect();
            let mut order: Vec<usize> = (0..ps.len()).collect();
            order.sort_by_key(|k| (!(ps[*k] >= 1e-6 && ps[*k] <= 1.0 - 1e-6), *k));
            let mut hangs = 0;
            hung_note(t);
            for k in order {
                if hangs >= 1 {
                    break;
                }
                let o3 = o.clone();
                let p = ps[k];
                let r = guard(1000, move || o3.inv(p));
                if r == Out::Hang {
                    hangs += 1;
                    crate::HANGS.lock().unwrap().push(format!("{} inverse_cdf({:e})", t.show(), p));
                }
                out[k] = r;
            }
            out
        }
    }
}

/// quantile levels of the property text: 1e-6 … 1-1e-6
pub const LEVELS: [f64; 15] = [1e-6, 1e-5, 1e-4, 1e-3, 1e-2, 0.1, 0.25, 0.5, 0.75, 0.9, 0.99, 0.999, 1.0 - 1e-4, 1.0 - 1e-5, 1.0 - 1e-6];

/// the object's own quantile grid; None if inverse_cdf hangs, panics or returns NaN at a level
pub fn quantile_grid(t: &Tup, o: &Arc<dyn CObj>) -> Option<Vec<f64>> {
    let mut v = vec![];
    for r in inv_batch_c(t, o, &LEVELS) {
        match r {
            Out::Ok(x) if !x.is_nan() => v.push(x),
            _ => return None,
        }
    }
    Some(v)
}

fn ordinary(x: f64) -> bool {
    !x.is_nan() && (x.is_infinite() || x == 0.0 || x.abs() >= f64::MIN_POSITIVE)
}

/// generated arguments of a continuous family (the C01 pool: quantile grid and ULP neighbours,
/// support end points and neighbours, median, mode, special values, a few random values);
/// sorted, without NaN and subnormals
pub fn pool_c(r: &mut Sm, o: &Arc<dyn CObj>, grid: Option<&Vec<f64>>) -> Vec<f64> {
    let mut v: Vec<f64> = vec![];
    if let Some(g) = grid {
        for x in g {
            v.push(*x);
            if r.below(3) == 0 {
                v.push(next_up(*x));
            }
        }
    }
    for m in [catch(|| o.min()), catch(|| o.max())] {
        if let Out::Ok(x) = m {
            v.push(x);
            v.push(next_up(x));
            v.push(next_down(x));
        }
    }
    if let Out::Ok(Some(x)) = catch(|| o.median()) {
        v.push(x);
    }
    if let Out::Ok(Some(Some(x))) = catch(|| o.mode()) {
        v.push(x);
        v.push(next_up(x));
        v.push(next_down(x));
    }
    v.extend_from_slice(&[0.0, -0.0, 1.0, -1.0, 0.5, f64::INFINITY, f64::NEG_INFINITY, 1e300, -1e300]);
    for _ in 0..6 {
        let s = if r.below(2) == 0 { 1.0 } else { -1.0 };
        v.push(match r.below(8) {
            0 => 0.0,
            1 => 1.0,
            2 => -1.0,
            _ => s * r.log_range(1e-3, 1e3),
        });
    }
    v.retain(|x| ordinary(*x));
    v.sort_by(|a, b| a.partial_cmp(b).unwrap());
    v.dedup_by(|a, b| a.to_bits() == b.to_bits());
    v
}

/// support window of a discrete family: every k in [min-2, min(max, min+cap)+2] that the argument
/// type can represent, plus a few far arguments (2^31 neighbourhood, 2^32, 2^53, type maximum)
pub fn pool_d(r: &mut Sm, o: &Arc<dyn DObj>, cap: i128) -> (Vec<i128>, i128, i128) {
    let (tlo, thi) = (o.tlo(), o.thi());
    let mn = catch(|| o.min()).ok().unwrap_or(0);
    let mx = catch(|| o.max()).ok().unwrap_or(0);
    let hi = mx.min(mn.saturating_add(cap));
    let mut v: Vec<i128> = ((mn - 2)..=(hi + 2)).collect();
    for d in [-2i128, -1, 0, 1, 2] {
        v.push(mx.saturating_add(d));
    }
    v.extend_from_slice(&[(1i128 << 31) - 1, 1i128 << 31, (1i128 << 31) + 1, (1i128 << 32) + 5, 1i128 << 53, thi - 1, thi]);
    for _ in 0..4 {
        v.push(r.below(300) as i128);
    }
    v.retain(|k| *k >= tlo && *k <= thi);
    v.sort();
    v.dedup();
    (v, mn, hi)
}

/// is `k` a point of the mathematical support?  (min..=max, minus the points that carry exactly zero
/// mass at boundary parameters: p=0 / p=1, zero-probability categories)
pub fn in_support_d(t: &Tup, o: &Arc<dyn DObj>, k: i128) -> bool {
    let (mn, mx) = (o.min(), o.max());
    if k < mn || k > mx {
        return false;
    }
    match t.fam.as_str() {
        "Bernoulli" | "Binomial" => {
            let p = t.pf("p").unwrap_or(0.5);
            let n = if t.fam == "Bernoulli" { 1 } else { t.pf("n").unwrap_or(0.0) as i128 };
            if p == 0.0 {
                k == 0
            } else if p == 1.0 {
                k == n
            } else {
                true
            }
        }
        "Geometric" => {
            if t.pf("p") == Some(1.0) {
                k == 1
            } else {
                true
            }
        }
        "NegativeBinomial" => {
            if t.pf("p") == Some(1.0) {
                k == 0
            } else {
                true
            }
        }
        "Categorical" => match &t.ctor[0] {
            Arg::FL(v) => v.get(k as usize).map(|m| *m > 0.0).unwrap_or(false),
            _ => true,
        },
        _ => true,
    }
}

/// coarse parameter class of a tuple (only corners; empty for interior parameters)
pub fn corner(t: &Tup) -> Vec<String> {
    let mut v: Vec<String> = vec![];
    for (a, n) in t.ctor.iter().zip(t.names.iter()) {
        let x = match a {
            Arg::F(x) => *x,
            Arg::I(x) => *x as f64,
            _ => continue,
        };
        let shape_like = n.starts_with("shape") || n.starts_with("freedom") || n == "r";
        if x.is_infinite() {
            v.push(format!("{}=inf", n));
        } else if n == "p" && (x == 0.0 || x == 1.0) {
            v.push(format!("p={}", x));
        } else if shape_like && x <= 1.0 {
            // one label whichever shape-like parameter (shape, shape_a/b, freedom, freedom_1/2, r) is small
            if !v.iter().any(|t| t == "shape<=1") {
                v.push("shape<=1".into());
            }
        } else if (n == "n" || n == "population" || n == "draws" || n == "successes") && x == 0.0 {
            v.push(format!("{}=0", n));
        }
    }
    if t.fam == "Triangular" {
        if t.pf("mode") == t.pf("min") {
            v.push("mode=min".into());
        } else if t.pf("mode") == t.pf("max") {
            v.push("mode=max".into());
        }
    }
    if t.fam == "Categorical" {
        if let Arg::FL(m) = &t.ctor[0] {
            if m.iter().any(|x| *x == 0.0) {
                v.push("zero-mass".into());
            }
        }
    }
    v
}

/// Buffer of findings of one module run.  The site of a finding is `base` plus a coarse parameter
/// class, and the class is appended only when every finding of that base site lies in a parameter
/// corner (then the tags common to all of them are used; if there is no common tag, each finding
/// keeps its own tags).  A failure that also happens for interior parameters is reported under the
/// plain base site.
#[derive(Default)]
pub struct Findings {
    v: Vec<(String, Vec<String>, String, Value, String, String)>,
}
impl Findings {
    pub fn new() -> Findings {
        Findings { v: vec![] }
    }
    pub fn add(&mut self, base: String, corner: Vec<String>, what: String, case: Value, observed: String, required: &str) {
        self.v.push((base, corner, what, case, observed, required.to_string()));
    }
    pub fn flush(&mut self, cx: &mut Ctx) {
        use std::collections::BTreeMap;
        let mut common: BTreeMap<String, Option<Vec<String>>> = BTreeMap::new();
        for (base, corner, ..) in &self.v {
            let e = common.entry(base.clone()).or_insert(None);
            *e = Some(match e.take() {
                None => corner.clone(),
                Some(prev) => prev.into_iter().filter(|t| corner.contains(t)).collect(),
            });
        }
        let mut any_interior: BTreeMap<String, bool> = BTreeMap::new();
        for (base, corner, ..) in &self.v {
            let e = any_interior.entry(base.clone()).or_insert(false);
            if corner.is_empty() {
                *e = true;
            }
        }
        for (base, corner, what, case, observed, required) in self.v.drain(..) {
            let tags: Vec<String> = if any_interior[&base] {
                vec![]
            } else {
                match &common[&base] {
                    Some(c) if !c.is_empty() => c.clone(),
                    _ => {
                        // argument-class tags ("p<1e-6") are kept only when shared by all findings of the site
                        let strong: Vec<String> = corner.iter().filter(|t| !t.starts_with("p<") && !t.starts_with("p>")).cloned().collect();
                        if strong.is_empty() {
                            corner
                        } else {
                            strong
                        }
                    }
                }
            };
            let site = if tags.is_empty() { base } else { format!("{} @{}", base, tags.join(",")) };
            cx.violation(&site, &what, case, observed, &required);
        }
    }
}

// ------------------------------------------------------------------------------------------------
// adaptive Gauss–Kronrod (G7, K15)
// ------------------------------------------------------------------------------------------------

const XGK: [f64; 8] = [
    0.991455371120812639206854697526329,
    0.949107912342758524526189684047851,
    0.864864423359769072789712788640926,
    0.741531185599394439863864773280788,
    0.586087235467691130294144838258730,
    0.405845151377397166906606412076961,
    0.207784955007898467600689403773245,
    0.000000000000000000000000000000000,
];
const WGK: [f64; 8] = [
    0.022935322010529224963732008058970,
    0.063092092629978553290700663189204,
    0.104790010322250183839876322541518,
    0.140653259715525918745189590510238,
    0.169004726639267902826583426598550,
    0.190350578064785409913256402421014,
    0.204432940075298892414161999234649,
    0.209482141084727828012999174891714,
];
const WG: [f64; 4] = [0.129484966168869693270611432679082, 0.279705391489276667901467771423780, 0.381830050505118944950369775488975, 0.417959183673469387755102040816327];

#[derive(Clone, Debug)]
pub struct Quad {
    pub val: f64,
    pub err: f64,
    /// converged: err <= 1e-9 * |val|
    pub ok: bool,
    pub pieces: usize,
    /// an abscissa at which the integrand was NaN / infinite / panicked
    pub bad: Option<f64>,
}

fn gk15(f: &dyn Fn(f64) -> f64, a: f64, b: f64, bad: &mut Option<f64>) -> (f64, f64) {
    let c = 0.5 * (a + b);
    let h = 0.5 * (b - a);
    let mut ev = |x: f64| -> f64 {
        let y = f(x);
        if !y.is_finite() && bad.is_none() {
            *bad = Some(x);
        }
        y
    };
    let fc = ev(c);
    let mut k = fc * WGK[7];
    let mut g = fc * WG[3];
    for j in 0..7 {
        let dx = h * XGK[j];
        let s = ev(c - dx) + ev(c + dx);
        k += WGK[j] * s;
        if j % 2 == 1 {
            g += WG[j / 2] * s;
        }
    }
    (k * h, ((k - g) * h).abs())
}

/// globally adaptive G7K15 over [a,b] (a<b finite), initial pieces split at `breaks`
pub fn integrate_plain(f: &dyn Fn(f64) -> f64, a: f64, b: f64, breaks: &[f64], max_pieces: usize) -> Quad {
    let mut pts = vec![a];
    let mut br: Vec<f64> = breaks.iter().cloned().filter(|x| *x > a && *x < b).collect();
    br.sort_by(|x, y| x.partial_cmp(y).unwrap());
    br.dedup();
    pts.extend(br);
    pts.push(b);
    let mut bad = None;
    let mut iv: Vec<(f64, f64, f64, f64)> = vec![]; // (a, b, val, err)
    for w in pts.windows(2) {
        let (v, e) = gk15(f, w[0], w[1], &mut bad);
        iv.push((w[0], w[1], v, e));
    }
    loop {
        // Neumaier-free: the number of pieces is small, sum in order of magnitude is unnecessary at 1e-9
        let val: f64 = iv.iter().map(|x| x.2).sum();
        let err: f64 = iv.iter().map(|x| x.3).sum();
        if bad.is_some() {
            return Quad { val, err, ok: false, pieces: iv.len(), bad };
        }
        if err <= 1e-9 * val.abs() {
            return Quad { val, err, ok: true, pieces: iv.len(), bad };
        }
        if iv.len() >= max_pieces {
            return Quad { val, err, ok: false, pieces: iv.len(), bad };
        }
        // split the piece with the largest error that can still be split
        let mut best: Option<usize> = None;
        for (k, x) in iv.iter().enumerate() {
            let m = 0.5 * (x.0 + x.1);
            if !(m > x.0 && m < x.1) {
                continue;
            }
            if best.map(|b| x.3 > iv[b].3).unwrap_or(true) {
                best = Some(k);
            }
        }
        let k = match best {
            Some(k) if iv[k].3 > 0.0 => k,
            _ => return Quad { val, err, ok: false, pieces: iv.len(), bad },
        };
        let (pa, pb, _, _) = iv[k];
        let m = 0.5 * (pa + pb);
        let (v1, e1) = gk15(f, pa, m, &mut bad);
        let (v2, e2) = gk15(f, m, pb, &mut bad);
        iv[k] = (pa, m, v1, e1);
        iv.push((m, pb, v2, e2));
    }
}

/// ∫_a^b f with a logarithmic change of variable when [a,b] spans more than a factor 16 on one side
/// of `shift` (the finite support minimum, else 0): x = shift ± e^t
pub fn integrate(f: &dyn Fn(f64) -> f64, a: f64, b: f64, shift: f64, breaks: &[f64]) -> Quad {
    let max_pieces = 3000;
    let (ua, ub) = (a - shift, b - shift);
    if ua > 0.0 && ub > 0.0 && ub / ua > 16.0 && (shift == 0.0 || (ua.min(ub) > 1e-9 * shift.abs())) {
        let g = |t: f64| {
            let e = t.exp();
            f(shift + e) * e
        };
        let br: Vec<f64> = breaks.iter().filter(|x| **x - shift > 0.0).map(|x| (*x - shift).ln()).collect();
        return integrate_plain(&g, ua.ln(), ub.ln(), &br, max_pieces);
    }
    if ua < 0.0 && ub < 0.0 && ua / ub > 16.0 && (shift == 0.0 || (ua.abs().min(ub.abs()) > 1e-9 * shift.abs())) {
        // x = shift - e^t, t from ln(-ub) to ln(-ua)
        let g = |t: f64| {
            let e = t.exp();
            f(shift - e) * e
        };
        let br: Vec<f64> = breaks.iter().filter(|x| shift - **x > 0.0).map(|x| (shift - *x).ln()).collect();
        return integrate_plain(&g, (-ub).ln(), (-ua).ln(), &br, max_pieces);
    }
    integrate_plain(f, a, b, breaks, max_pieces)
}

// ------------------------------------------------------------------------------------------------
// C03 checks
// ------------------------------------------------------------------------------------------------

/// pointwise statement for a continuous density at x: (kind, observed, required) of the first failure
fn point_c(o: &Arc<dyn CObj>, x: f64) -> Option<(&'static str, String, &'static str)> {
    let (mn, mx) = (catch(|| o.min()).ok()?, catch(|| o.max()).ok()?);
    let p = match catch(|| o.pdf(x)) {
        Out::Ok(Some(p)) => p,
        Out::Ok(None) => return None,
        _ => return Some(("panic", "panic".into(), "pdf(x) returns a number")),
    };
    if p.is_nan() {
        return Some(("NaN", fmt(p), "pdf(x) is never NaN"));
    }
    if x.is_infinite() && p != 0.0 {
        return Some(("nonzero at infinity", fmt(p), "pdf(+-inf) = 0 exactly"));
    }
    if (x < mn || x > mx) && p != 0.0 {
        return Some(("nonzero outside support", fmt(p), "pdf(x) = 0 exactly for x < min or x > max"));
    }
    if p < 0.0 {
        return Some(("negative", fmt(p), "pdf(x) >= 0"));
    }
    if x > mn && x < mx && p.is_infinite() {
        return Some(("infinite inside support", fmt(p), "pdf(x) finite for min < x < max"));
    }
    None
}

fn xcls(x: f64, mn: f64, mx: f64) -> &'static str {
    if x == f64::INFINITY {
        " @x=+inf"
    } else if x == f64::NEG_INFINITY {
        " @x=-inf"
    } else if x == mn {
        " @x=min"
    } else if x == mx {
        " @x=max"
    } else if x < mn {
        " @x<min"
    } else if x > mx {
        " @x>max"
    } else if x.abs() >= 1e300 {
        " @|x|>=1e300"
    } else {
        ""
    }
}

/// the interval statement: ∫_a^b pdf  vs  cdf(b) - cdf(a), 2e-6 relative
/// returns (violated?, conclusive?, observed)
fn interval_c(o: &Arc<dyn CObj>, a: f64, b: f64) -> (bool, bool, String, Option<f64>) {
    let o2 = o.clone();
    let fun = move |x: f64| -> f64 {
        match catch(|| o2.pdf(x)) {
            Out::Ok(Some(p)) => p,
            _ => f64::NAN,
        }
    };
    let (ca, cb) = match (catch(|| o.cdf(a)), catch(|| o.cdf(b))) {
        (Out::Ok(x), Out::Ok(y)) if !x.is_nan() && !y.is_nan() => (x, y),
        _ => return (false, false, "cdf not a number".into(), None),
    };
    let d = cb - ca;
    let mn = catch(|| o.min()).ok().unwrap_or(f64::NEG_INFINITY);
    let shift = if mn.is_finite() { mn } else { 0.0 };
    let mut breaks = vec![];
    if let Out::Ok(Some(Some(m))) = catch(|| o.mode()) {
        breaks.push(m);
    }
    if let Out::Ok(Some(m)) = catch(|| o.median()) {
        breaks.push(m);
    }
    let q = integrate(&fun, a, b, shift, &breaks);
    let obs = format!("integral={:e} (+-{:e}, {} pieces) cdf(b)-cdf(a)={:e} [a={} b={}]", q.val, q.err, q.pieces, d, fmt(a), fmt(b));
    if let Some(x) = q.bad {
        // a non-finite density value inside (a,b) is reported by the pointwise check at that x
        return (false, false, format!("pdf not finite at x={}", fmt(x)), Some(x));
    }
    if !q.ok {
        return (false, false, obs, None);
    }
    // the quadrature evaluates the density at abscissae rounded to f64: where the density changes by more than
    // 1e-7 relative between neighbouring floats (an end point of the support a few ulps away) the integral is
    // not trustworthy to 2e-6 and nothing is concluded
    for x in [a, b, 0.5 * (a + b)] {
        let f0 = fun(x);
        for y in [next_up(x), next_down(x)] {
            let f1 = fun(y);
            if !((f1 - f0).abs() <= 1e-7 * f0.abs().max(f64::MIN_POSITIVE)) {
                return (false, false, format!("{} [density not resolved at f64 spacing near x={}]", obs, fmt(x)), None);
            }
        }
    }
    // rounding of the two cdf values themselves (each correctly representable only to half an ulp of 1)
    let slack = 4.0 * f64::EPSILON;
    let bad = (q.val - d).abs() > 2e-6 * q.val.abs().max(d.abs()) + slack + q.err;
    (bad, true, obs, None)
}

fn run_cont(cx: &mut Ctx, fs: &mut Findings, t: &Tup, o: &Arc<dyn CObj>) {
    if matches!(catch(|| o.pdf(0.5)), Out::Ok(None)) {
        return; // no density (Dirac, Empirical)
    }
    let grid = quantile_grid(t, o);
    let xs = pool_c(&mut cx.r, o, grid.as_ref());
    let (mn, mx) = match (catch(|| o.min()), catch(|| o.max())) {
        (Out::Ok(a), Out::Ok(b)) => (a, b),
        _ => return,
    };
    for x in xs {
        cx.evals += 1;
        if let Some((kind, obs, req)) = point_c(o, x) {
            let mut c = case_of(t, "cpoint");
            c["x"] = jf(x);
            fs.add(format!("{}::pdf {}{}", t.site(), kind, xcls(x, mn, mx)), corner(t), format!("{} pdf at x={:e}", t.show(), x), c, obs, req);
        }
    }
    // interval statement over consecutive quantile-grid points
    if let Some(g) = grid {
        let mut g: Vec<f64> = g.into_iter().filter(|x| x.is_finite()).collect();
        g.sort_by(|a, b| a.partial_cmp(b).unwrap());
        g.dedup();
        for w in g.windows(2) {
            cx.evals += 1;
            let (bad, conclusive, obs, bad_x) = interval_c(o, w[0], w[1]);
            if let Some(x) = bad_x {
                // the integrator met a non-finite density value strictly inside (a,b): pointwise statement at that x
                // (subnormal arguments are not part of the generated argument pools)
                if !ordinary(x) {
                    continue;
                }
                if let Some((kind, obs, req)) = point_c(o, x) {
                    let mut c = case_of(t, "cpoint");
                    c["x"] = jf(x);
                    fs.add(format!("{}::pdf {}{}", t.site(), kind, xcls(x, mn, mx)), corner(t), format!("{} pdf at x={:e}", t.show(), x), c, obs, req);
                }
            }
            let _ = conclusive;
            if bad {
                let mut c = case_of(t, "cint");
                c["a"] = jf(w[0]);
                c["b"] = jf(w[1]);
                let mut tags = corner(t);
                if catch(|| o.cdf(w[1])).ok().map(|c| c <= 1e-3).unwrap_or(false) {
                    tags.push("lower-tail".into());
                } else if catch(|| o.cdf(w[0])).ok().map(|c| c >= 1.0 - 1e-3).unwrap_or(false) {
                    tags.push("upper-tail".into());
                }
                fs.add(
                    format!("{}::pdf integral != cdf difference", t.site()),
                    tags,
                    format!("{} integral of pdf over [{:e},{:e}]", t.show(), w[0], w[1]),
                    c,
                    obs,
                    "|∫_a^b pdf - (cdf(b)-cdf(a))| <= 2e-6 relative",
                );
            }
        }
    }
}

/// pointwise statement for a mass function at k
fn point_d(t: &Tup, o: &Arc<dyn DObj>, k: i128) -> Option<(String, String, &'static str)> {
    let (mn, mx) = (catch(|| o.min()).ok()?, catch(|| o.max()).ok()?);
    let kc = if k >= (1i128 << 31) { " @k>=2^31" } else { "" };
    let p = match catch(|| o.pmf(k)) {
        Out::Ok(p) => p,
        _ => return Some((format!("pmf panic{}", kc), "panic".into(), "pmf(k) returns a number in [0,1]")),
    };
    if p.is_nan() || p < 0.0 || p > 1.0 {
        let kind = if p.is_nan() { "NaN" } else if p > 1.0 { ">1" } else { "<0" };
        return Some((format!("pmf {}{}", kind, kc), fmt(p), "0 <= pmf(k) <= 1, not NaN"));
    }
    if (k < mn || k > mx) && p != 0.0 {
        return Some((format!("pmf nonzero off support{}", kc), fmt(p), "pmf(k) = 0 for k < min or k > max"));
    }
    if k >= mn && k <= mx {
        // increment of the cdf
        let c1 = match catch(|| o.cdf(k)) {
            Out::Ok(c) => c,
            _ => return Some((format!("cdf panic{}", kc), "cdf(k) panicked".into(), "pmf(k) = cdf(k) - cdf(k-1) to 1e-9")),
        };
        let c0 = if k - 1 < o.tlo() || k - 1 < mn {
            0.0
        } else {
            match catch(|| o.cdf(k - 1)) {
                Out::Ok(c) => c,
                _ => return Some((format!("cdf panic{}", kc), "cdf(k-1) panicked".into(), "pmf(k) = cdf(k) - cdf(k-1) to 1e-9")),
            }
        };
        if c1.is_nan() || c0.is_nan() {
            return None; // C01's finding
        }
        if (p - (c1 - c0)).abs() > 1e-9 {
            let _ = t;
            return Some((format!("pmf != cdf increment{}", kc), format!("pmf={} cdf(k)={} cdf(k-1)={} diff={:e}", fmt(p), fmt(c1), fmt(c0), p - (c1 - c0)), "|pmf(k) - (cdf(k) - cdf(k-1))| <= 1e-9"));
        }
    }
    None
}

/// sum of the mass function over the support window [mn, hi]; returns (sum, covered tail mass or None)
fn sum_d(o: &Arc<dyn DObj>, mn: i128, hi: i128, mx: i128) -> Option<(f64, Option<f64>)> {
    // Neumaier summation
    let (mut s, mut c) = (0.0f64, 0.0f64);
    let mut k = mn;
    while k <= hi {
        let p = catch(|| o.pmf(k)).ok()?;
        if p.is_nan() {
            return None;
        }
        let t = s + p;
        if s.abs() >= p.abs() {
            c += (s - t) + p;
        } else {
            c += (p - t) + s;
        }
        s = t;
        k += 1;
    }
    let total = s + c;
    if hi >= mx {
        Some((total, Some(0.0)))
    } else {
        let tail = catch(|| o.sf(hi)).ok()?;
        Some((total, if tail.is_nan() { None } else { Some(tail) }))
    }
}

fn run_disc(cx: &mut Ctx, fs: &mut Findings, t: &Tup, o: &Arc<dyn DObj>) {
    let cap: i128 = if cx.thorough { 20000 } else { 3000 };
    let (ks, mn, hi) = pool_d(&mut cx.r, o, cap);
    let mx = catch(|| o.max()).ok().unwrap_or(hi);
    for k in ks {
        cx.evals += 1;
        if let Some((kind, obs, req)) = point_d(t, o, k) {
            let mut c = case_of(t, "dpoint");
            c["k"] = ji(k);
            fs.add(format!("{}::{}", t.site(), kind), corner(t), format!("{} at k={}", t.show(), k), c, obs, req);
        }
    }
    cx.evals += 1;
    if let Some((s, tail)) = sum_d(o, mn, hi, mx) {
        let mut bad = s > 1.0 + 1e-9;
        if let Some(tl) = tail {
            if tl <= 1e-10 && s < 1.0 - 1e-9 - tl {
                bad = true;
            }
        }
        if bad {
            let mut c = case_of(t, "dsum");
            c["lo"] = ji(mn);
            c["hi"] = ji(hi);
            fs.add(
                format!("{}::pmf sum != 1", t.site()),
                corner(t),
                format!("{} sum of pmf over k={}..={}", t.show(), mn, hi),
                c,
                format!("sum={} (sum-1={:e}), mass beyond the window (sf)={:?}", fmt(s), s - 1.0, tail),
                "|sum over the support of pmf - 1| <= 1e-9",
            );
        }
    }
}

pub fn run(cx: &mut Ctx) {
    let n = if cx.thorough { 200 } else { 10 };
    let tups = all_tuples(cx, n, &|_| true);
    let mut fs = Findings::new();
    for t in tups {
        match &t.obj {
            Obj::C(o) => run_cont(cx, &mut fs, &t, o),
            Obj::D(o) => run_disc(cx, &mut fs, &t, o),
        }
    }
    fs.flush(cx);
}

pub fn replay(case: &Value) -> String {
    let t = match tup_of_case(case) {
        Some(t) => t,
        None => return format!("cannot rebuild the distribution of case {}", case),
    };
    let chk = case["chk"].as_str().unwrap_or("");
    match (&t.obj, chk) {
        (Obj::C(o), "cpoint") => {
            let x = vf(&case["x"]).unwrap_or(f64::NAN);
            let p = catch(|| o.pdf(x).unwrap_or(f64::NAN));
            match point_c(o, x) {
                Some((kind, obs, req)) => format!("observed {} pdf({:e}) = {} [{}] / required {}", t.show(), x, obs, kind, req),
                None => format!("observed {} pdf({:e}) = {} / required: holds", t.show(), x, out_str(&p)),
            }
        }
        (Obj::C(o), "cint") => {
            let (a, b) = (vf(&case["a"]).unwrap_or(f64::NAN), vf(&case["b"]).unwrap_or(f64::NAN));
            let (bad, conclusive, obs, _) = interval_c(o, a, b);
            format!("observed {} {} / required |∫_a^b pdf - (cdf(b)-cdf(a))| <= 2e-6 relative: {}", t.show(), obs, if bad { "VIOLATED" } else if conclusive { "holds" } else { "inconclusive" })
        }
        (Obj::D(o), "dpoint") => {
            let k = vi(&case["k"]).unwrap_or(0);
            match point_d(&t, o, k) {
                Some((kind, obs, req)) => format!("observed {} k={}: {} [{}] / required {}", t.show(), k, obs, kind, req),
                None => format!("observed {} k={}: pmf={} / required: holds", t.show(), k, out_str(&catch(|| o.pmf(k)))),
            }
        }
        (Obj::D(o), "dsum") => {
            let (lo, hi) = (vi(&case["lo"]).unwrap_or(0), vi(&case["hi"]).unwrap_or(0));
            let mx = catch(|| o.max()).ok().unwrap_or(hi);
            match sum_d(o, lo, hi, mx) {
                Some((s, tail)) => format!("observed {} sum pmf over {}..={} = {} (sum-1={:e}, mass beyond window={:?}) / required |sum - 1| <= 1e-9", t.show(), lo, hi, fmt(s), s - 1.0, tail),
                None => format!("observed {}: pmf panicked or NaN inside the window / required |sum - 1| <= 1e-9", t.show()),
            }
        }
        _ => format!("unknown C03 case {}", case),
    }
}
