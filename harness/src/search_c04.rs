//! C04 — log-densities are the logarithm of the densities.
//!
//! For every univariate family x constructed parameter tuple x generated argument (the C01/C03
//! argument pools of `search_c03`: quantile grid, support end points and ULP neighbours, median,
//! mode, special values; for discrete families the whole support window plus far arguments):
//!   * ln_pdf / ln_pmf is never NaN,
//!   * where the plain density is a normal positive float:  |ln_f - ln(f)| <= 1e-9 relative
//!     (relative to max(|ln_f|, |ln f|); plus 4 eps absolute for the rounding of f itself, since
//!     ln(f) of a correctly rounded f near 1 carries an absolute error of half an ulp of f),
//!   * where the plain density is 0 and the point is outside the support: exactly -inf,
//!   * where the plain density is 0 inside the support (underflow): not +inf, not NaN.
//! Multivariate: Multinomial exhaustively (every weak composition of n <= 6 into k <= 4 parts and
//! the neighbouring off-support vectors, probability vectors over a small lattice containing zeros,
//! called through the statrs API directly), Dirichlet / MultivariateNormal / MultivariateStudent on
//! seeded random parameters and arguments.
//! Uses the typed layer of `crate::search_c03`.
use crate::search::{fmt, Ctx};
use crate::search_c03::{all_tuples, Findings, case_of, catch, corner, in_support_d, ji, jf, out_str, pool_c, pool_d, quantile_grid, tup_of_case, vf, vi, CObj, DObj, Obj, Out, Tup};
use nalgebra::DVector;
use serde_json::{json, Value};
use statrs::distribution::{Continuous, Dirichlet, Discrete, Multinomial, MultivariateNormal, MultivariateStudent};
use std::sync::Arc;

const REQ_NAN: &str = "ln-density is never NaN";
const REQ_REL: &str = "|ln_density - ln(density)| <= 1e-9 relative where density is a normal positive float";
const REQ_OFF: &str = "ln-density = -inf where density = 0 outside the support";
const REQ_UNDER: &str = "ln-density not +inf where the density underflowed to 0 inside the support";

/// the statement for one pair (density value p, log-density value l); `outside`: the point is
/// outside the support.  Returns (failure kind, required) or None.
pub fn judge(p: f64, l: f64, outside: bool) -> Option<(&'static str, &'static str)> {
    if l.is_nan() {
        return Some(("NaN", REQ_NAN));
    }
    if p.is_finite() && p >= f64::MIN_POSITIVE {
        let lp = p.ln();
        let tol = 1e-9 * l.abs().max(lp.abs()) + 4.0 * f64::EPSILON;
        if !((l - lp).abs() <= tol) {
            return Some(("!= ln(density)", REQ_REL));
        }
        return None;
    }
    if p == 0.0 {
        if outside && l != f64::NEG_INFINITY {
            return Some(("not -inf off support", REQ_OFF));
        }
        if !outside && l == f64::INFINITY {
            return Some(("+inf where density is 0", REQ_UNDER));
        }
    }
    None
}

fn xcls(x: f64, mn: f64, mx: f64) -> &'static str {
    if x == f64::INFINITY {
        " @x=+inf"
    } else if x == f64::NEG_INFINITY {
        " @x=-inf"
    } else if x == mn {
        " @x=min"
    } else if x == mx {
        " @x=max"
    } else if x < mn {
        " @x<min"
    } else if x > mx {
        " @x>max"
    } else if x.abs() >= 1e300 {
        " @|x|>=1e300"
    } else {
        ""
    }
}

/// evaluate the statement at x; returns (kind, observed, required)
fn point_c(o: &Arc<dyn CObj>, x: f64) -> Option<(String, String, &'static str)> {
    let (mn, mx) = (catch(|| o.min()).ok()?, catch(|| o.max()).ok()?);
    let l = match catch(|| o.ln_pdf(x)) {
        Out::Ok(Some(l)) => l,
        Out::Ok(None) => return None,
        _ => return Some(("panic".into(), "ln_pdf panicked".into(), REQ_NAN)),
    };
    let p = match catch(|| o.pdf(x)) {
        Out::Ok(Some(p)) => p,
        _ => f64::NAN, // C03's finding; only the NaN rule applies
    };
    let outside = x < mn || x > mx;
    judge(p, l, outside).map(|(k, r)| (k.to_string(), format!("ln_pdf={} pdf={} ln(pdf)={:e}", fmt(l), fmt(p), p.ln()), r))
}

fn point_d(t: &Tup, o: &Arc<dyn DObj>, k: i128) -> Option<(String, String, &'static str)> {
    let l = match catch(|| o.ln_pmf(k)) {
        Out::Ok(l) => l,
        _ => return Some(("panic".into(), "ln_pmf panicked".into(), REQ_NAN)),
    };
    let p = match catch(|| o.pmf(k)) {
        Out::Ok(p) => p,
        _ => f64::NAN,
    };
    let outside = !catch(|| in_support_d(t, o, k)).ok()?;
    judge(p, l, outside).map(|(kd, r)| (kd.to_string(), format!("ln_pmf={} pmf={} ln(pmf)={:e}", fmt(l), fmt(p), p.ln()), r))
}

fn run_uni(cx: &mut Ctx, fs: &mut Findings) {
    let n = if cx.thorough { 200 } else { 10 };
    let cap: i128 = if cx.thorough { 20000 } else { 3000 };
    let tups = all_tuples(cx, n, &|f| f != "Dirac" && f != "Empirical");
    for t in tups {
        match &t.obj {
            Obj::C(o) => {
                let grid = quantile_grid(&t, o);
                let xs = pool_c(&mut cx.r, o, grid.as_ref());
                let (mn, mx) = match (catch(|| o.min()), catch(|| o.max())) {
                    (Out::Ok(a), Out::Ok(b)) => (a, b),
                    _ => continue,
                };
                for x in xs {
                    cx.evals += 1;
                    if let Some((kind, obs, req)) = point_c(o, x) {
                        let mut c = case_of(&t, "cpoint");
                        c["x"] = jf(x);
                        fs.add(format!("{}::ln_pdf {}{}", t.site(), kind, xcls(x, mn, mx)), corner(&t), format!("{} at x={:e}", t.show(), x), c, obs, req);
                    }
                }
            }
            Obj::D(o) => {
                let (ks, _, _) = pool_d(&mut cx.r, o, cap);
                let (mn, mx) = match (catch(|| o.min()), catch(|| o.max())) {
                    (Out::Ok(a), Out::Ok(b)) => (a, b),
                    _ => continue,
                };
                for k in ks {
                    cx.evals += 1;
                    if let Some((kind, obs, req)) = point_d(&t, o, k) {
                        let mut c = case_of(&t, "dpoint");
                        c["k"] = ji(k);
                        let kc = if k >= (1i128 << 31) {
                            " @k>=2^31"
                        } else if k < mn {
                            " @k<min"
                        } else if k > mx {
                            " @k>max"
                        } else {
                            ""
                        };
                        fs.add(format!("{}::ln_pmf {}{}", t.site(), kind, kc), corner(&t), format!("{} at k={}", t.show(), k), c, obs, req);
                    }
                }
            }
        }
    }
}

// ---------------------------------------------------------------------------------------------
// multivariate families (statrs API called directly)
// ---------------------------------------------------------------------------------------------

fn jfl(v: &[f64]) -> Value {
    Value::Array(v.iter().map(|x| jf(*x)).collect())
}
fn vfl(v: &Value) -> Option<Vec<f64>> {
    v.as_array()?.iter().map(vf).collect()
}
fn vil(v: &Value) -> Option<Vec<u64>> {
    v.as_array()?.iter().map(|x| vi(x).map(|k| k as u64)).collect()
}

/// Multinomial: (pmf, ln_pmf, outside support?)
fn multinomial_eval(p: &[f64], n: u64, x: &[u64]) -> Option<(Out<f64>, Out<f64>, bool)> {
    let d = catch(|| Multinomial::new(p.to_vec(), n)).ok()?.ok()?;
    let xv = DVector::from_vec(x.to_vec());
    let pm = catch(|| d.pmf(&xv));
    let lp = catch(|| d.ln_pmf(&xv));
    let outside = x.iter().sum::<u64>() != n || p.iter().zip(x.iter()).any(|(pi, xi)| *pi == 0.0 && *xi > 0);
    Some((pm, lp, outside))
}

fn multinomial_judge(p: &[f64], n: u64, x: &[u64]) -> Option<(String, String, &'static str)> {
    let (pm, lp, outside) = multinomial_eval(p, n, x)?;
    let l = match lp {
        Out::Ok(l) => l,
        _ => return Some(("panic".into(), "ln_pmf panicked".into(), REQ_NAN)),
    };
    let pv = pm.clone().ok().unwrap_or(f64::NAN);
    judge(pv, l, outside).map(|(k, r)| (k.to_string(), format!("ln_pmf={} pmf={} ln(pmf)={:e}", fmt(l), out_str(&pm), pv.ln()), r))
}

/// every weak composition of n into k parts
fn compositions(n: u64, k: usize) -> Vec<Vec<u64>> {
    if k == 1 {
        return vec![vec![n]];
    }
    let mut out = vec![];
    for first in 0..=n {
        for mut rest in compositions(n - first, k - 1) {
            let mut v = vec![first];
            v.append(&mut rest);
            out.push(v);
        }
    }
    out
}

fn run_multinomial(cx: &mut Ctx) {
    let lattice: Vec<f64> = if cx.thorough { vec![0.0, 1.0, 2.0, 0.5, 1e-3] } else { vec![0.0, 1.0, 0.5] };
    for k in 2..=4usize {
        // all weight vectors over the lattice (not all zero), plus seeded random ones
        let mut pvs: Vec<Vec<f64>> = vec![];
        let total = lattice.len().pow(k as u32);
        for code in 0..total {
            let mut c = code;
            let mut v = vec![];
            for _ in 0..k {
                v.push(lattice[c % lattice.len()]);
                c /= lattice.len();
            }
            if v.iter().any(|x| *x > 0.0) {
                pvs.push(v);
            }
        }
        for _ in 0..(if cx.thorough { 40 } else { 8 }) {
            pvs.push((0..k).map(|_| if cx.r.below(5) == 0 { 0.0 } else { cx.r.log_range(1e-3, 10.0) }).collect());
        }
        for pv in pvs {
            for n in 0..=6u64 {
                let mut xs = compositions(n, k);
                // off-support neighbours: total n+1 and (n>0) n-1
                xs.extend(compositions(n + 1, k).into_iter().step_by(3));
                if n > 0 {
                    xs.extend(compositions(n - 1, k).into_iter().step_by(3));
                }
                for x in xs {
                    cx.evals += 1;
                    if let Some((kind, obs, req)) = multinomial_judge(&pv, n, &x) {
                        let zero = pv.iter().zip(x.iter()).any(|(p, xi)| *p == 0.0 && *xi == 0);
                        let tag = if x.iter().sum::<u64>() != n {
                            " @sum(x)!=n"
                        } else if zero {
                            " @p_i=0,x_i=0"
                        } else if pv.iter().any(|p| *p == 0.0) {
                            " @p_i=0"
                        } else {
                            ""
                        };
                        let c = json!({"chk":"multinomial","p":jfl(&pv),"n":n,"x":x.iter().map(|v| ji(*v as i128)).collect::<Vec<_>>(),"show":format!("Multinomial(p={:?}, n={}) x={:?}", pv, n, x)});
                        cx.violation(&format!("Multinomial::ln_pmf {}{}", kind, tag), &format!("Multinomial(p={:?}, n={}) at x={:?}", pv, n, x), c, obs, req);
                    }
                }
            }
        }
    }
}

fn dirichlet_judge(alpha: &[f64], x: &[f64]) -> Option<(String, String, &'static str)> {
    let d = catch(|| Dirichlet::new(alpha.to_vec())).ok()?.ok()?;
    let xv = DVector::from_vec(x.to_vec());
    let l = match catch(|| d.ln_pdf(&xv)) {
        Out::Ok(l) => l,
        // the documented contract of Dirichlet::ln_pdf is to panic outside the open simplex; the
        // generated arguments are inside it, so a panic means the argument was refused
        _ => return Some(("panic".into(), "ln_pdf panicked".into(), REQ_NAN)),
    };
    let p = catch(|| d.pdf(&xv)).ok().unwrap_or(f64::NAN);
    judge(p, l, false).map(|(k, r)| (k.to_string(), format!("ln_pdf={} pdf={} ln(pdf)={:e}", fmt(l), fmt(p), p.ln()), r))
}

fn spd(r: &mut crate::rng::Sm, dim: usize) -> Vec<f64> {
    // A A^T + eps I, column-major, exactly symmetric
    let a: Vec<f64> = (0..dim * dim).map(|_| r.range(-2.0, 2.0)).collect();
    let mut m = vec![0.0; dim * dim];
    for i in 0..dim {
        for j in 0..=i {
            let mut s = 0.0;
            for k in 0..dim {
                s += a[i * dim + k] * a[j * dim + k];
            }
            if i == j {
                s += 0.1;
            }
            m[i * dim + j] = s;
            m[j * dim + i] = s;
        }
    }
    m
}

fn mvn_judge(mean: &[f64], cov: &[f64], x: &[f64]) -> Option<(String, String, &'static str)> {
    let d = catch(|| MultivariateNormal::new(mean.to_vec(), cov.to_vec())).ok()?.ok()?;
    let xv = DVector::from_vec(x.to_vec());
    let l = match catch(|| d.ln_pdf(&xv)) {
        Out::Ok(l) => l,
        _ => return Some(("panic".into(), "ln_pdf panicked".into(), REQ_NAN)),
    };
    let p = catch(|| d.pdf(&xv)).ok().unwrap_or(f64::NAN);
    judge(p, l, false).map(|(k, r)| (k.to_string(), format!("ln_pdf={} pdf={} ln(pdf)={:e}", fmt(l), fmt(p), p.ln()), r))
}
fn mvt_judge(loc: &[f64], scale: &[f64], freedom: f64, x: &[f64]) -> Option<(String, String, &'static str)> {
    let d = catch(|| MultivariateStudent::new(loc.to_vec(), scale.to_vec(), freedom)).ok()?.ok()?;
    let xv = DVector::from_vec(x.to_vec());
    let l = match catch(|| d.ln_pdf(&xv)) {
        Out::Ok(l) => l,
        _ => return Some(("panic".into(), "ln_pdf panicked".into(), REQ_NAN)),
    };
    let p = catch(|| d.pdf(&xv)).ok().unwrap_or(f64::NAN);
    judge(p, l, false).map(|(k, r)| (k.to_string(), format!("ln_pdf={} pdf={} ln(pdf)={:e}", fmt(l), fmt(p), p.ln()), r))
}

fn run_mv_cont(cx: &mut Ctx) {
    let reps = if cx.thorough { 2000 } else { 200 };
    for _ in 0..reps {
        // Dirichlet
        let k = 2 + cx.r.below(3) as usize;
        let alpha: Vec<f64> = (0..k)
            .map(|_| match cx.r.below(6) {
                0 => 1.0,
                1 => 0.5,
                _ => cx.r.log_range(0.05, 50.0),
            })
            .collect();
        for _ in 0..4 {
            let w: Vec<f64> = (0..k).map(|_| cx.r.log_range(1e-4, 1.0)).collect();
            let s: f64 = w.iter().sum();
            let x: Vec<f64> = w.iter().map(|v| v / s).collect();
            if x.iter().any(|v| !(*v > 0.0 && *v < 1.0)) {
                continue;
            }
            cx.evals += 1;
            if let Some((kind, obs, req)) = dirichlet_judge(&alpha, &x) {
                let c = json!({"chk":"dirichlet","alpha":jfl(&alpha),"x":jfl(&x),"show":format!("Dirichlet(alpha={:?}) x={:?}", alpha, x)});
                cx.violation(&format!("Dirichlet::ln_pdf {}", kind), &format!("Dirichlet(alpha={:?}) at x={:?}", alpha, x), c, obs, req);
            }
        }
        // MVN / MVT
        let dim = 1 + cx.r.below(3) as usize;
        let mean: Vec<f64> = (0..dim).map(|_| *cx.r.pick(&[0.0, 1.0, -100.0, 100.0]) + cx.r.range(-1.0, 1.0)).collect();
        let cov = spd(&mut cx.r, dim);
        let freedom = match cx.r.below(6) {
            0 => f64::INFINITY,
            1 => 1.0,
            _ => cx.r.log_range(0.5, 200.0),
        };
        for j in 0..4 {
            let spread = [0.1, 1.0, 10.0, 100.0][j];
            let x: Vec<f64> = mean.iter().map(|m| m + cx.r.range(-1.0, 1.0) * spread).collect();
            cx.evals += 2;
            if let Some((kind, obs, req)) = mvn_judge(&mean, &cov, &x) {
                let c = json!({"chk":"mvn","mean":jfl(&mean),"cov":jfl(&cov),"x":jfl(&x),"show":format!("MultivariateNormal(mean={:?}, cov={:?}) x={:?}", mean, cov, x)});
                cx.violation(&format!("MultivariateNormal::ln_pdf {}", kind), &format!("MultivariateNormal(mean={:?}, cov={:?}) at x={:?}", mean, cov, x), c, obs, req);
            }
            if let Some((kind, obs, req)) = mvt_judge(&mean, &cov, freedom, &x) {
                let c = json!({"chk":"mvt","loc":jfl(&mean),"scale":jfl(&cov),"freedom":jf(freedom),"x":jfl(&x),"show":format!("MultivariateStudent(loc={:?}, scale={:?}, freedom={:e}) x={:?}", mean, cov, freedom, x)});
                let tag = if freedom.is_infinite() { " @freedom=inf" } else { "" };
                cx.violation(&format!("MultivariateStudent::ln_pdf {}{}", kind, tag), &format!("MultivariateStudent(loc={:?}, scale={:?}, freedom={:e}) at x={:?}", mean, cov, freedom, x), c, obs, req);
            }
        }
    }
}

pub fn run(cx: &mut Ctx) {
    let mut fs = Findings::new();
    run_uni(cx, &mut fs);
    fs.flush(cx);
    run_multinomial(cx);
    run_mv_cont(cx);
}

pub fn replay(case: &Value) -> String {
    let chk = case["chk"].as_str().unwrap_or("");
    let show = case["show"].as_str().unwrap_or("").to_string();
    let fin = |r: Option<(String, String, &'static str)>| -> String {
        match r {
            Some((kind, obs, req)) => format!("observed {}: {} [{}] / required {}", show, obs, kind, req),
            None => format!("observed {}: statement holds / required ln-density = ln(density) (1e-9 rel), -inf off support, never NaN", show),
        }
    };
    match chk {
        "cpoint" | "dpoint" => {
            let t = match tup_of_case(case) {
                Some(t) => t,
                None => return format!("cannot rebuild the distribution of case {}", case),
            };
            match (&t.obj, chk) {
                (Obj::C(o), "cpoint") => {
                    let x = vf(&case["x"]).unwrap_or(f64::NAN);
                    match point_c(o, x) {
                        Some((kind, obs, req)) => format!("observed {} x={:e}: {} [{}] / required {}", t.show(), x, obs, kind, req),
                        None => format!("observed {} x={:e}: ln_pdf={} pdf={} / required: holds", t.show(), x, out_str(&catch(|| o.ln_pdf(x).unwrap_or(f64::NAN))), out_str(&catch(|| o.pdf(x).unwrap_or(f64::NAN)))),
                    }
                }
                (Obj::D(o), "dpoint") => {
                    let k = vi(&case["k"]).unwrap_or(0);
                    match point_d(&t, o, k) {
                        Some((kind, obs, req)) => format!("observed {} k={}: {} [{}] / required {}", t.show(), k, obs, kind, req),
                        None => format!("observed {} k={}: ln_pmf={} pmf={} / required: holds", t.show(), k, out_str(&catch(|| o.ln_pmf(k))), out_str(&catch(|| o.pmf(k)))),
                    }
                }
                _ => format!("unknown C04 case {}", case),
            }
        }
        "multinomial" => match (vfl(&case["p"]), case["n"].as_u64(), vil(&case["x"])) {
            (Some(p), Some(n), Some(x)) => fin(multinomial_judge(&p, n, &x)),
            _ => format!("malformed C04 case {}", case),
        },
        "dirichlet" => match (vfl(&case["alpha"]), vfl(&case["x"])) {
            (Some(a), Some(x)) => fin(dirichlet_judge(&a, &x)),
            _ => format!("malformed C04 case {}", case),
        },
        "mvn" => match (vfl(&case["mean"]), vfl(&case["cov"]), vfl(&case["x"])) {
            (Some(m), Some(c), Some(x)) => fin(mvn_judge(&m, &c, &x)),
            _ => format!("malformed C04 case {}", case),
        },
        "mvt" => match (vfl(&case["loc"]), vfl(&case["scale"]), vf(&case["freedom"]), vfl(&case["x"])) {
            (Some(m), Some(c), Some(f), Some(x)) => fin(mvt_judge(&m, &c, f, &x)),
            _ => format!("malformed C04 case {}", case),
        },
        _ => format!("unknown C04 case {}", case),
    }
}
