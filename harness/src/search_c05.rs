//! C05 — inverse_cdf is the quantile function of the same distribution.
//!
//! For every univariate family with an `inverse_cdf` (all `ContinuousCDF` / `DiscreteCDF`
//! implementors, including those that use the trait defaults) x constructed parameter tuples x p on
//! the grid 1e-6 … 1-1e-6 plus seeded random p in (0,1):
//!   * the call returns (no panic, no hang), the result is not NaN and lies in [min, max];
//!   * round trip by tolerance class, exactly as the property lists them:
//!       closed forms (Normal, LogNormal, Cauchy, Exp, Laplace, Gumbel, Levy, Pareto, Triangular,
//!         Uniform, Weibull):                          |cdf(inverse_cdf(p)) - p| <= 1e-9
//!       iterative (Beta, Gamma, ChiSquared, Erlang, FisherSnedecor, StudentsT):
//!                                                     <= max(1e-6*min(p,1-p), 1e-10)
//!       generic bisection fallback (Chi, InverseGamma, Dirac, Empirical, harness-defined cdfs):
//!                                                     |r - Q(p)| <= 2^-15 * max(1, |Q(p)|)
//!         with Q(p) = inf{x : cdf(x) >= p} located independently by bisection over the bit patterns
//!         of f64 on the implementation's cdf (closed form for the harness-defined cdfs);
//!       discrete: the result k satisfies cdf(k) >= p and (k = min or cdf(k-1) < p);
//!   * monotonicity over all ordered pairs p < q of the evaluated levels, beyond the stated accuracy
//!     (cdf-space classes: cdf(x_p) - cdf(x_q) may not exceed tol(p)+tol(q) when x_p > x_q;
//!      bisection class: x_p - x_q may not exceed the sum of the two bounds; discrete: k_p <= k_q).
//! Trait defaults: every non-decreasing step cdf with levels in {0,1/4,..,1} on a lattice of <= 8
//! points (exhaustive; lattice offsets 0,1,3,5 for u64 and -3,0 for i64) against brute force, and
//! smooth harness-defined cdfs (logistic, shifted exponential, Cauchy, uniform; shifted/scaled).
//! Uses the typed layer of `crate::search_c03`.
use crate::search::{fmt, Ctx};
use crate::search_c03::{all_tuples, case_of, catch, corner, guard, inv_batch_c, inv_batch_d, jf, tup_of_case, vf, CObj, DObj, Findings, Obj, Out, Tup, LEVELS};
use serde_json::{json, Value};
use statrs::distribution::{ContinuousCDF, DiscreteCDF};
use statrs::statistics::{Max, Min};
use std::sync::Arc;

#[derive(Clone, Copy, PartialEq, Debug)]
pub enum Class {
    Closed,
    Iter,
    Bisect,
}
pub fn class_of(fam: &str) -> Class {
    match fam {
        "Normal" | "LogNormal" | "Cauchy" | "Exp" | "Laplace" | "Gumbel" | "Levy" | "Pareto" | "Triangular" | "Uniform" | "Weibull" => Class::Closed,
        "Beta" | "Gamma" | "ChiSquared" | "Erlang" | "FisherSnedecor" | "StudentsT" => Class::Iter,
        _ => Class::Bisect,
    }
}
fn tol_cdf(c: Class, p: f64) -> f64 {
    match c {
        Class::Closed => 1e-9,
        Class::Iter => (1e-6 * p.min(1.0 - p)).max(1e-10),
        Class::Bisect => 0.0,
    }
}
const B15: f64 = 1.0 / 32768.0;
/// the bound of the property plus the rounding of the oracle's own quantile / of the mid-point arithmetic
fn tol_x(q: f64) -> f64 {
    (B15 + 8.0 * f64::EPSILON) * q.abs().max(1.0)
}

/// order-preserving map f64 -> i64 (no NaN)
fn key(x: f64) -> i64 {
    let b = x.to_bits() as i64;
    if b < 0 {
        i64::MIN - b
    } else {
        b
    }
}
fn unkey(k: i64) -> f64 {
    if k < 0 {
        f64::from_bits((i64::MIN - k) as u64)
    } else {
        f64::from_bits(k as u64)
    }
}
/// Q(p) = the smallest f64 x with cdf(x) >= p, by bisection over bit patterns (cdf assumed monotone, C01)
pub fn true_quantile(cdf: &dyn Fn(f64) -> f64, p: f64) -> Option<f64> {
    let (mut lo, mut hi) = (key(f64::NEG_INFINITY), key(f64::INFINITY));
    if !(cdf(f64::INFINITY) >= p) {
        return None;
    }
    if cdf(f64::NEG_INFINITY) >= p {
        return Some(f64::NEG_INFINITY);
    }
    // invariant: cdf(lo) < p <= cdf(hi)
    // (differences in i128: key(+inf) - key(-inf) does not fit an i64, and the harness is built with overflow checks)
    while (hi as i128) - (lo as i128) > 1 {
        let mid = ((lo as i128) + ((hi as i128) - (lo as i128)) / 2) as i64;
        let c = cdf(unkey(mid));
        if c.is_nan() {
            return None;
        }
        if c >= p {
            hi = mid;
        } else {
            lo = mid;
        }
    }
    Some(unkey(hi))
}

fn pcls(p: f64) -> &'static str {
    if p < 1e-6 {
        " @p<1e-6"
    } else if p > 1.0 - 1e-6 {
        " @p>1-1e-6"
    } else {
        ""
    }
}
/// corner tags of a tuple plus the class of p when p lies outside the grid range 1e-6..1-1e-6
fn corner_p(t: &Tup, p: f64, q: Option<f64>) -> Vec<String> {
    let mut c = corner(t);
    if p < 1e-6 {
        c.push("p<1e-6".into());
    }
    if p > 1.0 - 1e-6 || q.map(|q| q > 1.0 - 1e-6).unwrap_or(false) {
        c.push("p>1-1e-6".into());
    }
    c
}

/// pointwise statement for a continuous family: (kind, observed, required)
fn point_c(fam: &str, o: &Arc<dyn CObj>, p: f64, r: &Out<f64>) -> Option<(String, String, String)> {
    let class = class_of(fam);
    let x = match r {
        Out::Ok(x) => *x,
        Out::Panic => return Some(("panic".into(), "inverse_cdf panicked".into(), "inverse_cdf(p) returns a number for p in (0,1)".into())),
        Out::Hang => return Some(("hang".into(), "inverse_cdf did not return within the time limit".into(), "inverse_cdf(p) returns a number for p in (0,1)".into())),
        Out::Skipped => return None,
    };
    if x.is_nan() {
        return Some(("NaN".into(), fmt(x), "inverse_cdf(p) is never NaN for p in (0,1)".into()));
    }
    let (mn, mx) = (catch(|| o.min()).ok()?, catch(|| o.max()).ok()?);
    if x < mn || x > mx {
        return Some(("outside [min,max]".into(), format!("inverse_cdf={} min={} max={}", fmt(x), fmt(mn), fmt(mx)), "min <= inverse_cdf(p) <= max".into()));
    }
    match class {
        Class::Closed | Class::Iter => {
            let c = catch(|| o.cdf(x)).ok()?;
            if c.is_nan() {
                return None; // C01's finding
            }
            let tol = tol_cdf(class, p);
            // not demanded beyond the resolution of f64: accepted when p lies between the cdf values at the
            // two neighbouring floats of x (no float can then do better than x or a neighbour)
            let resolved = |x: f64| -> bool {
                let (a, b) = (crate::gen::next_down(x), crate::gen::next_up(x));
                match (catch(|| o.cdf(a)), catch(|| o.cdf(b))) {
                    (Out::Ok(ca), Out::Ok(cb)) => ca <= p && p <= cb && (cb - ca) > tol,
                    _ => false,
                }
            };
            if (c - p).abs() > tol && !resolved(x) {
                let side = if c < p { "below" } else { "above" };
                return Some(("round trip".to_string(), format!("inverse_cdf={} cdf(inverse_cdf)={} is {} p={:e} by {:e} (tol {:e})", fmt(x), fmt(c), side, p, (c - p).abs(), tol), if class == Class::Closed { "|cdf(inverse_cdf(p)) - p| <= 1e-9".into() } else { "|cdf(inverse_cdf(p)) - p| <= max(1e-6*min(p,1-p), 1e-10)".into() }));
            }
        }
        Class::Bisect => {
            let o2 = o.clone();
            let q = catch(|| true_quantile(&|x| o2.cdf(x), p)).ok()??;
            if q.is_finite() && (x - q).abs() > tol_x(q) {
                return Some(("bisection off".into(), format!("inverse_cdf={} true quantile={} |diff|={:e} bound={:e}", fmt(x), fmt(q), (x - q).abs(), tol_x(q)), "|inverse_cdf(p) - Q(p)| <= 2^-15 * max(1,|Q(p)|)".into()));
            }
        }
    }
    None
}

/// monotonicity for an ordered pair p<q with results xp, xq
fn pair_c(fam: &str, o: &Arc<dyn CObj>, p: f64, q: f64, xp: f64, xq: f64) -> Option<(String, String)> {
    if !(xp > xq) {
        return None;
    }
    let class = class_of(fam);
    match class {
        Class::Closed | Class::Iter => {
            let (cp, cq) = (catch(|| o.cdf(xp)).ok()?, catch(|| o.cdf(xq)).ok()?);
            let tol = tol_cdf(class, p) + tol_cdf(class, q);
            if cp - cq > tol {
                return Some((format!("inverse_cdf({:e})={} > inverse_cdf({:e})={}; cdf values {:e} > {:e} (allowed slack {:e})", p, fmt(xp), q, fmt(xq), cp, cq, tol), "inverse_cdf never decreases as p increases beyond its stated accuracy".into()));
            }
        }
        Class::Bisect => {
            let tol = tol_x(xp) + tol_x(xq);
            if xp - xq > tol {
                return Some((format!("inverse_cdf({:e})={} > inverse_cdf({:e})={} (allowed slack {:e})", p, fmt(xp), q, fmt(xq), tol), "inverse_cdf never decreases as p increases beyond its stated accuracy".into()));
            }
        }
    }
    None
}

fn point_d(o: &Arc<dyn DObj>, p: f64, r: &Out<i128>) -> Option<(String, String, String)> {
    let k = match r {
        Out::Ok(k) => *k,
        Out::Panic => return Some(("panic".into(), "inverse_cdf panicked".into(), "inverse_cdf(p) returns the smallest k with cdf(k) >= p".into())),
        Out::Hang => return Some(("hang".into(), "inverse_cdf did not return within the time limit".into(), "inverse_cdf(p) returns the smallest k with cdf(k) >= p".into())),
        Out::Skipped => return None,
    };
    let (mn, mx) = (catch(|| o.min()).ok()?, catch(|| o.max()).ok()?);
    if k < mn || k > mx {
        return Some(("outside [min,max]".into(), format!("inverse_cdf={} min={} max={}", k, mn, mx), "min <= inverse_cdf(p) <= max".into()));
    }
    let c = catch(|| o.cdf(k)).ok()?;
    if c.is_nan() {
        return None;
    }
    if c < p {
        return Some(("cdf(k) < p".into(), format!("k={} cdf(k)={} p={:e}", k, fmt(c), p), "cdf(inverse_cdf(p)) >= p".into()));
    }
    if k > mn {
        let c0 = catch(|| o.cdf(k - 1)).ok()?;
        if c0 >= p {
            return Some(("not minimal".into(), format!("k={} cdf(k-1)={} >= p={:e}", k, fmt(c0), p), "inverse_cdf(p) is the smallest k with cdf(k) >= p".into()));
        }
    }
    None
}

fn levels(cx: &mut Ctx) -> Vec<f64> {
    let mut ps: Vec<f64> = LEVELS.to_vec();
    let n = if cx.thorough { 40 } else { 12 };
    for j in 0..n {
        let p = if j % 2 == 0 {
            cx.r.unit()
        } else {
            let t = cx.r.log_range(1e-9, 0.5);
            if cx.r.below(2) == 0 {
                t
            } else {
                1.0 - t
            }
        };
        if p > 0.0 && p < 1.0 {
            ps.push(p);
        }
    }
    ps.sort_by(|a, b| a.partial_cmp(b).unwrap());
    ps.dedup();
    ps
}

fn run_families(cx: &mut Ctx, fs: &mut Findings) {
    let n = if cx.thorough { 200 } else { 10 };
    let tups = all_tuples(cx, n, &|_| true);
    for t in tups {
        let ps = levels(cx);
        match &t.obj {
            Obj::C(o) => {
                let rs = inv_batch_c(&t, o, &ps);
                // a hang is reported once per tuple, at a grid level if there is one
                let hang_at = rs.iter().zip(ps.iter()).position(|(r, p)| *r == Out::Hang && *p >= 1e-6 && *p <= 1.0 - 1e-6).or(rs.iter().position(|r| *r == Out::Hang));
                for (j, (p, r)) in ps.iter().zip(rs.iter()).enumerate() {
                    cx.evals += 1;
                    if *r == Out::Hang && hang_at != Some(j) {
                        continue;
                    }
                    if let Some((kind, obs, req)) = point_c(&t.fam, o, *p, r) {
                        let mut c = case_of(&t, "cpoint");
                        c["p"] = jf(*p);
                        fs.add(format!("{}::inverse_cdf {}", t.site(), kind), corner_p(&t, *p, None), format!("{} inverse_cdf({:e})", t.show(), p), c, obs, &req);
                    }
                }
                for a in 0..ps.len() {
                    for b in (a + 1)..ps.len() {
                        if let (Out::Ok(xa), Out::Ok(xb)) = (&rs[a], &rs[b]) {
                            if xa.is_nan() || xb.is_nan() {
                                continue;
                            }
                            cx.evals += 1;
                            if let Some((obs, req)) = pair_c(&t.fam, o, ps[a], ps[b], *xa, *xb) {
                                let mut c = case_of(&t, "cpair");
                                c["p"] = jf(ps[a]);
                                c["q"] = jf(ps[b]);
                                fs.add(format!("{}::inverse_cdf decreasing", t.site()), corner_p(&t, ps[a], Some(ps[b])), format!("{} inverse_cdf at p={:e} < q={:e}", t.show(), ps[a], ps[b]), c, obs, &req);
                            }
                        }
                    }
                }
            }
            Obj::D(o) => {
                let rs = inv_batch_d(&t, o, &ps);
                // a hang is reported once per tuple, at a grid level if there is one
                let hang_at = rs.iter().zip(ps.iter()).position(|(r, p)| *r == Out::Hang && *p >= 1e-6 && *p <= 1.0 - 1e-6).or(rs.iter().position(|r| *r == Out::Hang));
                for (j, (p, r)) in ps.iter().zip(rs.iter()).enumerate() {
                    cx.evals += 1;
                    if *r == Out::Hang && hang_at != Some(j) {
                        continue;
                    }
                    if let Some((kind, obs, req)) = point_d(o, *p, r) {
                        let mut c = case_of(&t, "dpoint");
                        c["p"] = jf(*p);
                        fs.add(format!("{}::inverse_cdf {}", t.site(), kind), corner_p(&t, *p, None), format!("{} inverse_cdf({:e})", t.show(), p), c, obs, &req);
                    }
                }
                for a in 0..ps.len() {
                    for b in (a + 1)..ps.len() {
                        if let (Out::Ok(ka), Out::Ok(kb)) = (&rs[a], &rs[b]) {
                            cx.evals += 1;
                            if ka > kb {
                                let mut c = case_of(&t, "dpair");
                                c["p"] = jf(ps[a]);
                                c["q"] = jf(ps[b]);
                                fs.add(
                                    format!("{}::inverse_cdf decreasing", t.site()),
                                    corner_p(&t, ps[a], Some(ps[b])),
                                    format!("{} inverse_cdf at p={:e} < q={:e}", t.show(), ps[a], ps[b]),
                                    c,
                                    format!("inverse_cdf({:e})={} > inverse_cdf({:e})={}", ps[a], ka, ps[b], kb),
                                    "inverse_cdf never decreases as p increases",
                                );
                            }
                        }
                    }
                }
            }
        }
    }
}

// ---------------------------------------------------------------------------------------------
// harness-defined distributions exercising the trait-default implementations
// ---------------------------------------------------------------------------------------------

/// step cdf on the lattice min..min+levels.len()-1 (argument type u64)
#[derive(Clone, Debug)]
pub struct StepU {
    pub min: u64,
    pub levels: Vec<f64>,
}
impl Min<u64> for StepU {
    fn min(&self) -> u64 {
        self.min
    }
}
impl Max<u64> for StepU {
    fn max(&self) -> u64 {
        self.min + self.levels.len() as u64 - 1
    }
}
impl DiscreteCDF<u64, f64> for StepU {
    fn cdf(&self, x: u64) -> f64 {
        if x < self.min {
            0.0
        } else if (x - self.min) as usize >= self.levels.len() {
            1.0
        } else {
            self.levels[(x - self.min) as usize]
        }
    }
}
/// the same on i64
#[derive(Clone, Debug)]
pub struct StepI {
    pub min: i64,
    pub levels: Vec<f64>,
}
impl Min<i64> for StepI {
    fn min(&self) -> i64 {
        self.min
    }
}
impl Max<i64> for StepI {
    fn max(&self) -> i64 {
        self.min + self.levels.len() as i64 - 1
    }
}
impl DiscreteCDF<i64, f64> for StepI {
    fn cdf(&self, x: i64) -> f64 {
        if x < self.min {
            0.0
        } else if (x - self.min) as usize >= self.levels.len() {
            1.0
        } else {
            self.levels[(x - self.min) as usize]
        }
    }
}

/// brute force: offset of the smallest lattice point with level >= p
fn step_expected(levels: &[f64], p: f64) -> usize {
    levels.iter().position(|l| *l >= p).unwrap_or(levels.len() - 1)
}

/// result of the default discrete inverse_cdf on a step cdf: (observed offset from min or failure, expected offset)
fn step_eval(signed: bool, min: i64, levels: &[f64], p: f64) -> (Out<i128>, i128) {
    let exp = min as i128 + step_expected(levels, p) as i128;
    let lv = levels.to_vec();
    let r = if signed {
        guard(2000, move || DiscreteCDF::inverse_cdf(&StepI { min, levels: lv }, p) as i128)
    } else {
        guard(2000, move || DiscreteCDF::inverse_cdf(&StepU { min: min as u64, levels: lv }, p) as i128)
    };
    (r, exp)
}

fn nondecreasing(len: usize, from: usize, out: &mut Vec<Vec<usize>>, cur: &mut Vec<usize>) {
    if cur.len() == len - 1 {
        let mut v = cur.clone();
        v.push(4);
        out.push(v);
        return;
    }
    for l in from..=4 {
        cur.push(l);
        nondecreasing(len, l, out, cur);
        cur.pop();
    }
}

const STEP_PS: [f64; 9] = [1e-6, 0.125, 0.25, 0.375, 0.5, 0.625, 0.75, 0.875, 1.0 - 1e-6];

const STEP_LATTICES: [(bool, i64); 6] = [(false, 0), (false, 1), (false, 3), (false, 5), (true, -3), (true, 0)];

/// all lattices x all levels of p for one level sequence on one thread; falls back to one thread per
/// evaluation when something does not return
fn step_batch(levels: &[f64]) -> Vec<(bool, i64, f64, Out<i128>, i128)> {
    let lv = levels.to_vec();
    let direct = guard(5000, move || {
        let mut out = vec![];
        for (signed, min) in STEP_LATTICES {
            for p in STEP_PS {
                let exp = min as i128 + step_expected(&lv, p) as i128;
                let r = if signed {
                    catch(|| DiscreteCDF::inverse_cdf(&StepI { min, levels: lv.clone() }, p) as i128)
                } else {
                    catch(|| DiscreteCDF::inverse_cdf(&StepU { min: min as u64, levels: lv.clone() }, p) as i128)
                };
                out.push((signed, min, p, r, exp));
            }
        }
        out
    });
    match direct {
        Out::Ok(v) => v,
        _ => {
            let mut out = vec![];
            for (signed, min) in STEP_LATTICES {
                for p in STEP_PS {
                    let (r, exp) = step_eval(signed, min, levels, p);
                    out.push((signed, min, p, r, exp));
                }
            }
            out
        }
    }
}

fn run_step(cx: &mut Ctx) {
    for len in 1..=8usize {
        let mut seqs = vec![];
        nondecreasing(len, 0, &mut seqs, &mut vec![]);
        for s in seqs {
            let levels: Vec<f64> = s.iter().map(|l| *l as f64 / 4.0).collect();
            for (signed, min, p, r, exp) in step_batch(&levels) {
                cx.evals += 1;
                let ok = matches!(&r, Out::Ok(k) if *k == exp);
                if !ok {
                    let plateau = levels.iter().filter(|l| **l == levels[(exp - min as i128) as usize]).count() > 1;
                    let kind = match &r {
                        Out::Ok(_) => "not the smallest k",
                        Out::Panic => "panic",
                        _ => "hang",
                    };
                    let tag = if matches!(r, Out::Ok(_)) && plateau {
                        " @plateau"
                    } else if min > 2 {
                        " @min>2"
                    } else {
                        ""
                    };
                    let ty = if signed { "i64" } else { "u64" };
                    let c = json!({"chk":"step","signed":signed,"min":min,"levels":levels.iter().map(|l| jf(*l)).collect::<Vec<_>>(),"p":jf(p)});
                    cx.violation(
                        &format!("DiscreteCDF::inverse_cdf (default) {}{}", kind, tag),
                        &format!("default DiscreteCDF<{},f64>::inverse_cdf on the step cdf min={} levels={:?} at p={:e}", ty, min, levels, p),
                        c,
                        match &r {
                            Out::Ok(k) => format!("returned {} expected {}", k, exp),
                            Out::Panic => format!("panicked; expected {}", exp),
                            _ => format!("did not return; expected {}", exp),
                        },
                        "inverse_cdf(p) is the smallest k with cdf(k) >= p",
                    );
                }
            }
        }
    }
}

/// smooth harness-defined cdfs using the default continuous inverse_cdf
#[derive(Clone, Copy, Debug)]
pub struct Smooth {
    pub kind: u8, // 0 logistic, 1 shifted exponential, 2 Cauchy, 3 uniform on [m, m+s]
    pub m: f64,
    pub s: f64,
}
impl Min<f64> for Smooth {
    fn min(&self) -> f64 {
        match self.kind {
            1 | 3 => self.m,
            _ => f64::NEG_INFINITY,
        }
    }
}
impl Max<f64> for Smooth {
    fn max(&self) -> f64 {
        match self.kind {
            3 => self.m + self.s,
            _ => f64::INFINITY,
        }
    }
}
impl ContinuousCDF<f64, f64> for Smooth {
    fn cdf(&self, x: f64) -> f64 {
        let z = (x - self.m) / self.s;
        match self.kind {
            0 => 1.0 / (1.0 + (-z).exp()),
            1 => {
                if z <= 0.0 {
                    0.0
                } else {
                    -(-z).exp_m1()
                }
            }
            2 => 0.5 + z.atan() / std::f64::consts::PI,
            _ => z.clamp(0.0, 1.0),
        }
    }
}
impl Smooth {
    /// the true quantile in closed form
    pub fn q(&self, p: f64) -> f64 {
        match self.kind {
            0 => self.m + self.s * (p / (1.0 - p)).ln(),
            1 => self.m - self.s * (-p).ln_1p(),
            2 => self.m + self.s * (std::f64::consts::PI * (p - 0.5)).tan(),
            _ => self.m + self.s * p,
        }
    }
    pub fn name(&self) -> &'static str {
        ["logistic", "shifted exponential", "Cauchy", "uniform"][self.kind as usize % 4]
    }
}

fn smooth_eval(d: Smooth, p: f64) -> (Out<f64>, f64) {
    (guard(2000, move || ContinuousCDF::inverse_cdf(&d, p)), d.q(p))
}

fn run_smooth(cx: &mut Ctx) {
    let ms = [0.0, 1.0, -1.0, 0.3, -37.5, 100.0, -100.0, 1e4];
    let ss = [1e-3, 1e-2, 1.0, 10.0, 1e3];
    for kind in 0..4u8 {
        for m in ms {
            for s in ss {
                let d = Smooth { kind, m, s };
                let ps = levels(cx);
                let ps2 = ps.clone();
                let batch: Vec<(Out<f64>, f64)> = match guard(5000, move || ps2.iter().map(|p| (catch(|| ContinuousCDF::inverse_cdf(&d, *p)), d.q(*p))).collect::<Vec<_>>()) {
                    Out::Ok(v) => v,
                    _ => ps.iter().map(|p| smooth_eval(d, *p)).collect(),
                };
                for (p, (r, q)) in ps.into_iter().zip(batch.into_iter()) {
                    cx.evals += 1;
                    let bad = match &r {
                        Out::Ok(x) => !((x - q).abs() <= tol_x(q)),
                        _ => true,
                    };
                    if bad {
                        let kindstr = match &r {
                            Out::Ok(x) if x.is_nan() => "NaN",
                            Out::Ok(_) => "bisection off",
                            Out::Panic => "panic",
                            _ => "hang",
                        };
                        let c = json!({"chk":"smooth","kind":kind,"m":jf(m),"s":jf(s),"p":jf(p)});
                        cx.violation(
                            &format!("ContinuousCDF::inverse_cdf (default) {} [{}]{}", kindstr, d.name(), pcls(p)),
                            &format!("default ContinuousCDF::inverse_cdf on the {} cdf m={:e} s={:e} at p={:e}", d.name(), m, s, p),
                            c,
                            match &r {
                                Out::Ok(x) => format!("returned {} true quantile {} |diff|={:e} bound={:e}", fmt(*x), fmt(q), (x - q).abs(), tol_x(q)),
                                Out::Panic => "panicked".into(),
                                _ => "did not return".into(),
                            },
                            "|inverse_cdf(p) - Q(p)| <= 2^-15 * max(1,|Q(p)|)",
                        );
                    }
                }
            }
        }
    }
}

/// the oracles of this module on inputs with known answers: a panic or a wrong value here means the CHECK is broken
/// (such a defect once disabled the generic-bisection bound silently, DESIGN A.6), and is reported as a violation
fn self_test(cx: &mut Ctx) {
    let cases: Vec<(&str, Box<dyn Fn(f64) -> f64>, f64, f64)> = vec![
        ("logistic p=0.5", Box::new(|x: f64| 1.0 / (1.0 + (-x).exp())), 0.5, 0.0),
        ("step at -243772.25 p=0.25", Box::new(|x: f64| if x < -243772.25 { 0.0 } else if x < 1.0 { 0.25 } else { 1.0 }), 0.25, -243772.25),
        ("step at 1000 p=0.9", Box::new(|x: f64| if x < 0.0 { 0.0 } else if x < 1000.0 { 0.8 } else { 1.0 }), 0.9, 1000.0),
    ];
    for (name, f, p, want) in cases {
        let got = catch(|| true_quantile(&*f, p));
        let ok = matches!(got, Out::Ok(Some(q)) if (q - want).abs() <= 1e-12 * want.abs().max(1.0));
        cx.evals += 1;
        if !ok {
            cx.violation("HARNESS self-test true_quantile", name, json!({"chk": "selftest", "name": name}), format!("{:?}", got.ok()), "the oracle returns the known quantile");
        }
    }
}

pub fn run(cx: &mut Ctx) {
    self_test(cx);
    let mut fs = Findings::new();
    run_families(cx, &mut fs);
    fs.flush(cx);
    run_step(cx);
    run_smooth(cx);
}

pub fn replay(case: &Value) -> String {
    let chk = case["chk"].as_str().unwrap_or("");
    match chk {
        "step" => {
            let signed = case["signed"].as_bool().unwrap_or(false);
            let min = case["min"].as_i64().unwrap_or(0);
            let levels: Vec<f64> = case["levels"].as_array().map(|a| a.iter().filter_map(vf).collect()).unwrap_or_default();
            let p = vf(&case["p"]).unwrap_or(f64::NAN);
            if levels.is_empty() {
                return format!("malformed C05 case {}", case);
            }
            let (r, exp) = step_eval(signed, min, &levels, p);
            format!("observed default DiscreteCDF::inverse_cdf(min={}, levels={:?}, p={:e}) = {:?} / required the smallest k with cdf(k) >= p = {}", min, levels, p, r, exp)
        }
        "smooth" => {
            let d = Smooth { kind: case["kind"].as_u64().unwrap_or(0) as u8, m: vf(&case["m"]).unwrap_or(0.0), s: vf(&case["s"]).unwrap_or(1.0) };
            let p = vf(&case["p"]).unwrap_or(f64::NAN);
            let (r, q) = smooth_eval(d, p);
            format!("observed default ContinuousCDF::inverse_cdf on {} m={:e} s={:e} p={:e} = {:?}, true quantile {:e}, bound {:e} / required |inverse_cdf(p) - Q(p)| <= 2^-15*max(1,|Q(p)|)", d.name(), d.m, d.s, p, r, q, tol_x(q))
        }
        _ => {
            let t = match tup_of_case(case) {
                Some(t) => t,
                None => return format!("cannot rebuild the distribution of case {}", case),
            };
            let p = vf(&case["p"]).unwrap_or(f64::NAN);
            match (&t.obj, chk) {
                (Obj::C(o), "cpoint") => {
                    let r = inv_batch_c(&t, o, &[p]).remove(0);
                    match point_c(&t.fam, o, p, &r) {
                        Some((kind, obs, req)) => format!("observed {} inverse_cdf({:e}): {} [{}] / required {}", t.show(), p, obs, kind, req),
                        None => format!("observed {} inverse_cdf({:e}) = {:?} / required: holds", t.show(), p, r),
                    }
                }
                (Obj::C(o), "cpair") => {
                    let q = vf(&case["q"]).unwrap_or(f64::NAN);
                    let rs = inv_batch_c(&t, o, &[p, q]);
                    match (&rs[0], &rs[1]) {
                        (Out::Ok(a), Out::Ok(b)) => match pair_c(&t.fam, o, p, q, *a, *b) {
                            Some((obs, req)) => format!("observed {} {} / required {}", t.show(), obs, req),
                            None => format!("observed {} inverse_cdf({:e})={} inverse_cdf({:e})={} / required non-decreasing: holds", t.show(), p, fmt(*a), q, fmt(*b)),
                        },
                        other => format!("observed {} inverse_cdf did not return numbers: {:?}", t.show(), other),
                    }
                }
                (Obj::D(o), "dpoint") => {
                    let r = inv_batch_d(&t, o, &[p]).remove(0);
                    match point_d(o, p, &r) {
                        Some((kind, obs, req)) => format!("observed {} inverse_cdf({:e}): {} [{}] / required {}", t.show(), p, obs, kind, req),
                        None => format!("observed {} inverse_cdf({:e}) = {:?} / required: holds", t.show(), p, r),
                    }
                }
                (Obj::D(o), "dpair") => {
                    let q = vf(&case["q"]).unwrap_or(f64::NAN);
                    let rs = inv_batch_d(&t, o, &[p, q]);
                    format!("observed {} inverse_cdf({:e})={:?} inverse_cdf({:e})={:?} / required inverse_cdf never decreases as p increases", t.show(), p, rs[0], q, rs[1])
                }
                _ => format!("unknown C05 case {}", case),
            }
        }
    }
}
