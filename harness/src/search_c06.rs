//! C06 — random variates follow the distribution they are drawn from.
//!
//! Cases (all replayable; floats are stored as 16-hex-digit bit patterns):
//!  * `strat`  scripted RNG: for each of 4096 equally spaced 64-bit words w_i = i*2^52 + 2^51 one variate is drawn
//!             from a scripted `RngCore` whose first word is w_i (later words: SplitMix filler; `next_u32` = high
//!             half).  Never NaN, within [min,max].  For the inverse-transform samplers (Cauchy, Gumbel, Laplace,
//!             Levy, Pareto, Weibull, Triangular, Uniform, Geometric, Categorical, Bernoulli, DiscreteUniform,
//!             Empirical) and strata that consumed exactly one word: with u = (w>>11)*2^-53 the sample x
//!             must satisfy cdf(x-) - 1e-9 <= t <= cdf(x) + 1e-9 for t = u or t = 1-u (cdf(x-) = cdf(x) for
//!             continuous laws, i.e. |cdf(x) - t| <= 1e-9).  Edge words 0, 2^11, MAX-2^11+1.., MAX: not NaN, in range.
//!  * `gof`    `StdRng::seed_from_u64(seed)`, n draws (4e3 quick / 2e4 thorough): never NaN; within [min,max];
//!             equal seeds => bit-equal values (first 512 draws); every output-type variant (u64/f64/bool/i64/usize)
//!             yields the same values from the same stream; goodness of fit at significance 1e-9 against the
//!             object's own cdf by the Dvoretzky-Kiefer-Wolfowitz-Massart bound P(sup|F_n-F| > D) <= 2 exp(-2 n D^2)
//!             (valid for every n and for discrete laws), and for integer-valued laws additionally every cell
//!             count against n*pmf(k) by Bernstein's inequality with a union bound over the cells
//!             (|c - n p| <= L/3 + sqrt(L^2/9 + 2 L n p (1-p)), L = ln(2*cells/1e-9); a cell with n*p < 1e-9/cells
//!             must be empty).  Each draw runs under a 10 s watchdog (termination) and `catch_unwind`.
//!  * `vec`    Dirichlet (components >= 0, |sum-1| <= 1e-9), Multinomial (u64 and f64 variants equal, counts sum
//!             to n), MultivariateNormal, MultivariateStudent: sample mean within 6 theoretical standard errors of
//!             the closed-form mean, sample covariance (about the closed-form mean) within 6 estimated standard
//!             errors of the closed-form covariance (Student: mean for nu >= 5, covariance for nu >= 12).
//!  * `zig`    ziggurat tables (parsed from /repo/src/distribution/ziggurat_tables.rs at compile time, the module
//!             is private): F[i] = pdf(X[i]) and all 256 strips have equal area (relative 1e-9; tail by numerical
//!             integration).
use crate::search::Ctx;
use rand::distributions::Distribution as RandDist;
use rand::rngs::StdRng;
use rand::{RngCore, SeedableRng};
use serde_json::{json, Value};
use statrs::distribution::*;
use statrs::statistics::Data;
use std::panic::{catch_unwind, AssertUnwindSafe};
use std::rc::Rc;
use std::sync::atomic::{AtomicU64, Ordering};
use std::sync::Arc;

const ZIG_SRC: &str = include_str!("/repo/src/distribution/ziggurat_tables.rs");

pub struct Finding {
    pub site: String,
    pub what: String,
    pub observed: String,
    pub required: String,
}
fn finding(site: String, what: &str, observed: String, required: String) -> Finding {
    Finding { site, what: what.to_string(), observed, required }
}
fn fm(x: f64) -> String {
    format!("{:e} (0x{:016x})", x, x.to_bits())
}
fn hx(x: f64) -> Value {
    json!(format!("{:016x}", x.to_bits()))
}
fn unhx(v: &Value) -> f64 {
    f64::from_bits(u64::from_str_radix(v.as_str().unwrap_or("7ff8000000000000"), 16).unwrap_or(0x7ff8000000000000))
}
fn next_down(x: f64) -> f64 {
    if x.is_nan() || x == f64::NEG_INFINITY {
        return x;
    }
    if x == 0.0 {
        return -f64::from_bits(1);
    }
    let b = x.to_bits();
    f64::from_bits(if x > 0.0 { b - 1 } else { b + 1 })
}

/// scripted generator: a programmed word sequence, then a SplitMix filler
struct Script {
    words: Vec<u64>,
    pos: usize,
    fill: u64,
    pub consumed: usize,
}
impl Script {
    fn new(words: Vec<u64>) -> Script {
        let fill = words.iter().fold(0x1234_5678_9abc_def0u64, |a, w| a.rotate_left(7) ^ w);
        Script { words, pos: 0, fill, consumed: 0 }
    }
}
impl RngCore for Script {
    fn next_u32(&mut self) -> u32 {
        (self.next_u64() >> 32) as u32
    }
    fn next_u64(&mut self) -> u64 {
        self.consumed += 1;
        if self.pos < self.words.len() {
            self.pos += 1;
            return self.words[self.pos - 1];
        }
        self.fill = self.fill.wrapping_add(0x9E3779B97F4A7C15);
        let mut z = self.fill;
        z = (z ^ (z >> 30)).wrapping_mul(0xBF58476D1CE4E5B9);
        z = (z ^ (z >> 27)).wrapping_mul(0x94D049BB133111EB);
        z ^ (z >> 31)
    }
    fn fill_bytes(&mut self, dest: &mut [u8]) {
        for ch in dest.chunks_mut(8) {
            let w = self.next_u64().to_le_bytes();
            ch.copy_from_slice(&w[..ch.len()]);
        }
    }
    fn try_fill_bytes(&mut self, dest: &mut [u8]) -> Result<(), rand::Error> {
        self.fill_bytes(dest);
        Ok(())
    }
}

type Sampler = Box<dyn Fn(&mut dyn RngCore) -> f64>;
/// a univariate distribution object seen through closures (integers are carried as f64)
struct Obj {
    sample: Sampler,
    variants: Vec<(&'static str, Sampler)>,
    cdf: Box<dyn Fn(f64) -> f64>,
    cdf_left: Box<dyn Fn(f64) -> f64>,
    pmf: Option<Box<dyn Fn(f64) -> f64>>,
    min: f64,
    max: f64,
    one_word: bool,
    primary: &'static str,
}

fn cont<D>(d: D, one_word: bool) -> Obj
where
    D: ContinuousCDF<f64, f64> + RandDist<f64> + 'static,
{
    let d = Rc::new(d);
    let (a, b, c) = (d.clone(), d.clone(), d.clone());
    Obj { sample: Box::new(move |r| a.sample(r)), variants: vec![], cdf: Box::new(move |x| b.cdf(x)), cdf_left: Box::new(move |x| c.cdf(x)), pmf: None, min: d.min(), max: d.max(), one_word, primary: "f64" }
}
/// real-valued step law (Empirical, Dirac): left limit through the preceding float
fn step<D>(d: D, one_word: bool) -> Obj
where
    D: ContinuousCDF<f64, f64> + RandDist<f64> + 'static,
{
    let d = Rc::new(d);
    let (a, b, c) = (d.clone(), d.clone(), d.clone());
    Obj { sample: Box::new(move |r| a.sample(r)), variants: vec![], cdf: Box::new(move |x| b.cdf(x)), cdf_left: Box::new(move |x| c.cdf(next_down(x))), pmf: None, min: d.min(), max: d.max(), one_word, primary: "f64" }
}
fn disc_u64<D>(d: Rc<D>, sample: Sampler, primary: &'static str, one_word: bool) -> Obj
where
    D: DiscreteCDF<u64, f64> + Discrete<u64, f64> + 'static,
{
    let (b, c, e) = (d.clone(), d.clone(), d.clone());
    let mn = d.min();
    Obj {
        sample,
        variants: vec![],
        cdf: Box::new(move |x| b.cdf(x as u64)),
        cdf_left: Box::new(move |x| if x <= mn as f64 || x < 1.0 { 0.0 } else { c.cdf(x as u64 - 1) }),
        pmf: Some(Box::new(move |x| e.pmf(x as u64))),
        min: d.min() as f64,
        max: d.max() as f64,
        one_word,
        primary,
    }
}
fn s_u64<D: RandDist<u64> + 'static>(d: &Rc<D>) -> Sampler {
    let d = d.clone();
    Box::new(move |r| RandDist::<u64>::sample(&*d, r) as f64)
}
fn s_f64<D: RandDist<f64> + 'static>(d: &Rc<D>) -> Sampler {
    let d = d.clone();
    Box::new(move |r| RandDist::<f64>::sample(&*d, r))
}

/// Data<Vec<f64>> has no cdf: the law is the empirical law of the slice (computed here)
fn data_obj(v: Vec<f64>) -> Obj {
    let d = Rc::new(Data::new(v.clone()));
    let mut s = v.clone();
    s.sort_by(|a, b| a.partial_cmp(b).unwrap());
    let n = s.len() as f64;
    let (s1, s2) = (s.clone(), s.clone());
    Obj {
        sample: Box::new(move |r| RandDist::<f64>::sample(&*d, r)),
        variants: vec![],
        cdf: Box::new(move |x| s1.iter().filter(|&&y| y <= x).count() as f64 / n),
        cdf_left: Box::new(move |x| s2.iter().filter(|&&y| y < x).count() as f64 / n),
        pmf: None,
        min: s[0],
        max: s[s.len() - 1],
        one_word: false, // `choose` indexes the slice in its given (unsorted) order: not an inverse transform
        primary: "f64",
    }
}

/// construct a family member from a flat parameter list; None if the constructor rejects it
fn build(fam: &str, p: &[f64]) -> Option<Obj> {
    let g = |i: usize| p.get(i).copied().unwrap_or(f64::NAN);
    Some(match fam {
        "Bernoulli" => {
            let d = Rc::new(Bernoulli::new(g(0)).ok()?);
            let d1 = d.clone();
            let mut o = disc_u64(d.clone(), Box::new(move |r| if RandDist::<bool>::sample(&*d1, r) { 1.0 } else { 0.0 }), "bool", true);
            o.variants.push(("f64", s_f64(&d)));
            o
        }
        "Beta" => cont(Beta::new(g(0), g(1)).ok()?, false),
        "Binomial" => {
            let d = Rc::new(Binomial::new(g(0), g(1) as u64).ok()?);
            let mut o = disc_u64(d.clone(), s_u64(&d), "u64", false);
            o.variants.push(("f64", s_f64(&d)));
            o
        }
        "Categorical" => {
            let d = Rc::new(Categorical::new(p).ok()?);
            let d1 = d.clone();
            let mut o = disc_u64(d.clone(), Box::new(move |r| RandDist::<usize>::sample(&*d1, r) as f64), "usize", true);
            o.variants.push(("u64", s_u64(&d)));
            o.variants.push(("f64", s_f64(&d)));
            o
        }
        "Cauchy" => cont(Cauchy::new(g(0), g(1)).ok()?, true),
        "Chi" => cont(Chi::new(g(0) as u64).ok()?, false),
        "ChiSquared" => cont(ChiSquared::new(g(0)).ok()?, false),
        "Dirac" => step(Dirac::new(g(0)).ok()?, false),
        "DiscreteUniform" => {
            let d = Rc::new(DiscreteUniform::new(g(0) as i64, g(1) as i64).ok()?);
            let (a, b, c, e) = (d.clone(), d.clone(), d.clone(), d.clone());
            let mn = d.min();
            Obj {
                sample: Box::new(move |r| RandDist::<i64>::sample(&*a, r) as f64),
                variants: vec![("f64", s_f64(&d))],
                cdf: Box::new(move |x| b.cdf(x as i64)),
                cdf_left: Box::new(move |x| if x <= mn as f64 { 0.0 } else { c.cdf(x as i64 - 1) }),
                pmf: Some(Box::new(move |x| e.pmf(x as i64))),
                min: d.min() as f64,
                max: d.max() as f64,
                one_word: true,
                primary: "i64",
            }
        }
        "Empirical" => {
            if p.is_empty() {
                return None;
            }
            step(p.iter().copied().collect::<Empirical>(), true)
        }
        "Erlang" => cont(Erlang::new(g(0) as u64, g(1)).ok()?, false),
        "Exp" => cont(Exp::new(g(0)).ok()?, false),
        "FisherSnedecor" => cont(FisherSnedecor::new(g(0), g(1)).ok()?, false),
        "Gamma" => cont(Gamma::new(g(0), g(1)).ok()?, false),
        "Geometric" => {
            let d = Rc::new(Geometric::new(g(0)).ok()?);
            let mut o = disc_u64(d.clone(), s_u64(&d), "u64", true);
            o.variants.push(("f64", s_f64(&d)));
            o
        }
        "Gumbel" => cont(Gumbel::new(g(0), g(1)).ok()?, true),
        "Hypergeometric" => {
            let d = Rc::new(Hypergeometric::new(g(0) as u64, g(1) as u64, g(2) as u64).ok()?);
            let mut o = disc_u64(d.clone(), s_u64(&d), "u64", false);
            o.variants.push(("f64", s_f64(&d)));
            o
        }
        "InverseGamma" => cont(InverseGamma::new(g(0), g(1)).ok()?, false),
        "Laplace" => cont(Laplace::new(g(0), g(1)).ok()?, true),
        "Levy" => cont(Levy::new(g(0), g(1)).ok()?, true),
        "LogNormal" => cont(LogNormal::new(g(0), g(1)).ok()?, false),
        "NegativeBinomial" => {
            let d = Rc::new(NegativeBinomial::new(g(0), g(1)).ok()?);
            disc_u64(d.clone(), s_u64(&d), "u64", false)
        }
        "Normal" => cont(Normal::new(g(0), g(1)).ok()?, false),
        "Pareto" => cont(Pareto::new(g(0), g(1)).ok()?, true),
        "Poisson" => {
            let d = Rc::new(Poisson::new(g(0)).ok()?);
            let mut o = disc_u64(d.clone(), s_u64(&d), "u64", false);
            o.variants.push(("f64", s_f64(&d)));
            o
        }
        "StudentsT" => cont(StudentsT::new(g(0), g(1), g(2)).ok()?, false),
        "Triangular" => cont(Triangular::new(g(0), g(1), g(2)).ok()?, true),
        "Uniform" => cont(Uniform::new(g(0), g(1)).ok()?, true),
        "Weibull" => cont(Weibull::new(g(0), g(1)).ok()?, true),
        "Data" => {
            if p.is_empty() || p.iter().any(|x| x.is_nan()) {
                return None;
            }
            data_obj(p.to_vec())
        }
        _ => return None,
    })
}

/// coarse parameter class for the site key
fn pclass(fam: &str, p: &[f64]) -> String {
    let g = |i: usize| p.get(i).copied().unwrap_or(f64::NAN);
    match fam {
        "Hypergeometric" => (if g(2) == 0.0 { " @draws=0" } else { "" }).into(),
        "Gamma" | "ChiSquared" | "InverseGamma" | "Beta" | "FisherSnedecor" | "StudentsT" => {
            let sh = match fam {
                "ChiSquared" => g(0) / 2.0,
                "Beta" => g(0).min(g(1)),
                "FisherSnedecor" => g(0).min(g(1)) / 2.0,
                "StudentsT" => g(2) / 2.0,
                _ => g(0),
            };
            (if sh < 1.0 { " @shape<1" } else { " @shape>=1" }).into()
        }
        "Poisson" => (if g(0) < 30.0 { " @lambda<30" } else { " @lambda>=30" }).into(),
        "Bernoulli" | "Geometric" => (if g(0) == 0.0 { " @p=0" } else if g(0) == 1.0 { " @p=1" } else { "" }).into(),
        "Binomial" => (if g(0) == 0.0 { " @p=0" } else if g(0) == 1.0 { " @p=1" } else if g(1) == 0.0 { " @n=0" } else { "" }).into(),
        "NegativeBinomial" => (if g(1) == 1.0 { " @p=1" } else if g(0) < 1.0 { " @r<1" } else { "" }).into(),
        _ => String::new(),
    }
}

fn draw(o: &Sampler, r: &mut dyn RngCore) -> Result<f64, ()> {
    catch_unwind(AssertUnwindSafe(|| o(r))).map_err(|_| ())
}

fn eval_strat(fam: &str, p: &[f64], prog: &AtomicU64) -> Vec<Finding> {
    let mut out = vec![];
    let o = match build(fam, p) {
        Some(o) => o,
        None => return out,
    };
    let cls = pclass(fam, p);
    let mut words: Vec<(u64, bool)> = (0..4096u64).map(|i| ((i << 52) + (1 << 51), true)).collect();
    for w in [0u64, 1 << 11, (1 << 11) - 1, u64::MAX, u64::MAX - (1 << 11), u64::MAX - (1 << 11) + 1, 1 << 63, (1 << 63) - 1] {
        words.push((w, false));
    }
    let (mut f_nan, mut f_rng, mut f_cdf, mut f_pan) = (false, false, 0usize, false);
    let mut first_cdf: Option<String> = None;
    for (w, stratum) in words {
        prog.fetch_add(1, Ordering::Relaxed);
        let mut rng = Script::new(vec![w]);
        let x = match draw(&o.sample, &mut rng) {
            Ok(x) => x,
            Err(()) => {
                if !f_pan {
                    f_pan = true;
                    out.push(finding(format!("{}::sample<{}> panic{}", fam, o.primary, cls), "sampler panics", format!("first word 0x{:016x}: panic", w), "a variate".into()));
                }
                continue;
            }
        };
        if x.is_nan() {
            if !f_nan {
                f_nan = true;
                out.push(finding(format!("{}::sample<{}> NaN{}", fam, o.primary, cls), "sampler returns NaN", format!("first word 0x{:016x}: NaN", w), "never NaN".into()));
            }
            continue;
        }
        if !(x >= o.min && x <= o.max) && !f_rng {
            f_rng = true;
            out.push(finding(format!("{}::sample<{}> outside [min,max]{}", fam, o.primary, cls), "variate outside the support", format!("first word 0x{:016x}: {}", w, fm(x)), format!("{:e} <= x <= {:e}", o.min, o.max)));
        }
        if stratum && o.one_word && rng.consumed == 1 {
            let u = (w >> 11) as f64 / 9007199254740992.0;
            let (c, cl) = ((o.cdf)(x), (o.cdf_left)(x));
            let inb = |t: f64| t >= cl - 1e-9 && t <= c + 1e-9;
            if !(inb(u) || inb(1.0 - u)) {
                f_cdf += 1;
                if first_cdf.is_none() {
                    first_cdf = Some(format!("first word 0x{:016x} (u = {:?}): x = {}, cdf(x-) = {:?}, cdf(x) = {:?}", w, u, fm(x), cl, c));
                }
            }
        }
    }
    if let Some(s) = first_cdf {
        out.push(finding(format!("{}::sample<{}> cdf(x) != u|1-u (scripted){}", fam, o.primary, cls), "inverse-transform sampler does not map the uniform u to the u- or (1-u)-quantile", format!("{} of 4096 strata fail; {}", f_cdf, s), "cdf(x-) - 1e-9 <= u (or 1-u) <= cdf(x) + 1e-9".into()));
    }
    out
}

fn eval_gof(fam: &str, p: &[f64], n: usize, seed: u64, prog: &AtomicU64) -> Vec<Finding> {
    let mut out = vec![];
    let o = match build(fam, p) {
        Some(o) => o,
        None => return out,
    };
    let cls = pclass(fam, p);
    let mut rng = StdRng::seed_from_u64(seed);
    let mut xs: Vec<f64> = Vec::with_capacity(n);
    for i in 0..n {
        prog.fetch_add(1, Ordering::Relaxed);
        match draw(&o.sample, &mut rng) {
            Ok(x) => xs.push(x),
            Err(()) => {
                out.push(finding(format!("{}::sample<{}> panic{}", fam, o.primary, cls), "sampler panics", format!("draw {} of StdRng::seed_from_u64({}): panic", i, seed), "a variate".into()));
                return out;
            }
        }
    }
    if let Some(i) = xs.iter().position(|x| x.is_nan()) {
        let cnt = xs.iter().filter(|x| x.is_nan()).count();
        out.push(finding(format!("{}::sample<{}> NaN{}", fam, o.primary, cls), "sampler returns NaN", format!("{} of {} draws are NaN (first at draw {})", cnt, n, i), "never NaN".into()));
        return out;
    }
    if let Some(i) = xs.iter().position(|&x| !(x >= o.min && x <= o.max)) {
        out.push(finding(format!("{}::sample<{}> outside [min,max]{}", fam, o.primary, cls), "variate outside the support", format!("draw {}: {}", i, fm(xs[i])), format!("{:e} <= x <= {:e}", o.min, o.max)));
    }
    // determinism and output-type variants
    let m = n.min(512);
    let mut r2 = StdRng::seed_from_u64(seed);
    for i in 0..m {
        prog.fetch_add(1, Ordering::Relaxed);
        match draw(&o.sample, &mut r2) {
            Ok(y) if y.to_bits() == xs[i].to_bits() => {}
            other => {
                out.push(finding(format!("{}::sample<{}> not a function of the stream{}", fam, o.primary, cls), "equal seeds give different values", format!("draw {}: {:?} vs {:e}", i, other, xs[i]), "identical values".into()));
                break;
            }
        }
    }
    for (name, s) in &o.variants {
        let mut r3 = StdRng::seed_from_u64(seed);
        for i in 0..m {
            prog.fetch_add(1, Ordering::Relaxed);
            match draw(s, &mut r3) {
                Ok(y) if y == xs[i] => {}
                other => {
                    out.push(finding(format!("{}::sample<{}> differs from sample<{}>{}", fam, name, o.primary, cls), "output-type variants disagree on the same stream", format!("draw {}: {:?} vs {:e}", i, other, xs[i]), "identical values".into()));
                    break;
                }
            }
        }
    }
    // goodness of fit: DKW
    let mut s = xs.clone();
    s.sort_by(|a, b| a.partial_cmp(b).unwrap());
    let nf = n as f64;
    let mut d_max = 0.0f64;
    let mut d_at = f64::NAN;
    let mut i = 0;
    let mut cdf_nan = false;
    while i < n {
        let v = s[i];
        let mut j = i;
        while j < n && s[j] == v {
            j += 1;
        }
        prog.fetch_add(1, Ordering::Relaxed);
        let (c, cl) = ((o.cdf)(v), (o.cdf_left)(v));
        if c.is_nan() || cl.is_nan() {
            if !cdf_nan {
                cdf_nan = true;
                out.push(finding(format!("{} cdf NaN at a sampled point{}", fam, cls), "cdf is NaN at a value produced by the sampler", format!("cdf({}) = {:?}", fm(v), c), "a probability".into()));
            }
        } else {
            let d1 = (j as f64 / nf - c).abs();
            let d2 = (i as f64 / nf - cl).abs();
            if d1.max(d2) > d_max {
                d_max = d1.max(d2);
                d_at = v;
            }
        }
        i = j;
    }
    let pb = 2.0 * (-2.0 * nf * d_max * d_max).exp();
    if pb < 1e-9 {
        // a supremum attained where the object's cdf is exactly 0 or 1 strictly inside the sampled range (the cdf
        // saturates early, e.g. a flush-to-zero shortcut) is a different failure from a wrong law in the bulk
        let (c_at, cl_at) = ((o.cdf)(d_at), (o.cdf_left)(d_at));
        let sat = (c_at == 0.0 && d_at > s[0]) || (cl_at == 1.0 && d_at < s[n - 1]) || (c_at == 1.0 && d_at < s[n - 1]) || (c_at == 0.0 && d_at >= s[0] && d_max > 1.0 / nf);
        let cls = format!("{}{}", cls, if sat { " [cdf is exactly 0 or 1 at the sup point]" } else { "" });
        out.push(finding(format!("{}::sample<{}> KS reject{}", fam, o.primary, cls), "empirical cdf of the draws deviates from the object's cdf (DKW bound below 1e-9)", format!("n = {}, sup|F_n - F| = {:.5} at x = {:e}, DKW p <= {:e}", n, d_max, d_at, pb), "2 exp(-2 n D^2) >= 1e-9".into()));
    }
    // cell counts for integer-valued laws
    if let Some(pmf) = &o.pmf {
        let lo = (s[0] - 2.0).max(o.min);
        let hi = (s[n - 1] + 2.0).min(o.max);
        if hi - lo <= 20000.0 {
            let cells = (hi - lo) as usize + 1;
            let l = (2.0 * cells as f64 / 1e-9).ln();
            let mut worst: Option<(f64, f64, f64, f64)> = None;
            let mut idx = 0;
            for c in 0..cells {
                let k = lo + c as f64;
                let mut cnt = 0.0;
                while idx < n && s[idx] < k {
                    idx += 1;
                }
                while idx < n && s[idx] == k {
                    cnt += 1.0;
                    idx += 1;
                }
                prog.fetch_add(1, Ordering::Relaxed);
                let pk = pmf(k);
                if !(pk >= 0.0 && pk <= 1.0 + 1e-12) {
                    continue; // pmf defects belong to other properties
                }
                let e = nf * pk;
                let t = l / 3.0 + (l * l / 9.0 + 2.0 * l * e * (1.0 - pk).max(0.0)).sqrt();
                let dev = (cnt - e).abs();
                let bad = dev > t || (cnt >= 1.0 && e < 1e-9 / cells as f64);
                if bad && worst.map(|w| dev / t > w.3).unwrap_or(true) {
                    worst = Some((k, cnt, e, dev / t));
                }
            }
            if let Some((k, cnt, e, _)) = worst {
                out.push(finding(format!("{}::sample<{}> cell count reject{}", fam, o.primary, cls), "count of a value deviates from n*pmf beyond the Bernstein bound at level 1e-9 (union over cells)", format!("n = {}, value {}: observed {} expected {:.4} ({} cells)", n, k, cnt, e, cells), "|count - n pmf(k)| within the bound".into()));
            }
        }
    }
    out
}

// ------------------------------------------------------------------------------------------------ vector variates
struct Moments {
    n: usize,
    d: usize,
    sum: Vec<f64>,
    rows: Vec<Vec<f64>>,
}
fn judge_moments(fam: &str, mo: &Moments, mean: &[f64], cov: &[f64], check_mean: bool, check_cov: bool) -> Vec<Finding> {
    let mut out = vec![];
    let (n, d) = (mo.n as f64, mo.d);
    if check_mean {
        for i in 0..d {
            let m = mo.sum[i] / n;
            let se = (cov[i * d + i].max(0.0) / n).sqrt();
            let tol = 6.0 * se + 1e-12 * mean[i].abs().max(1.0);
            if !((m - mean[i]).abs() <= tol) {
                out.push(finding(format!("{}::sample mean off", fam), "sample mean further than 6 standard errors from the distribution mean", format!("component {}: sample mean {:e} over {} draws", i, m, mo.n), format!("{:e} +- 6*{:e}", mean[i], se)));
                break;
            }
        }
    }
    if check_cov {
        'outer: for i in 0..d {
            for j in i..d {
                let mut s1 = 0.0;
                let mut s2 = 0.0;
                for r in &mo.rows {
                    let t = (r[i] - mean[i]) * (r[j] - mean[j]);
                    s1 += t;
                    s2 += t * t;
                }
                let c = s1 / n;
                let var_t = (s2 / n - c * c).max(0.0);
                let se = (var_t / n).sqrt();
                let tol = 6.0 * se + 1e-12 * cov[i * d + j].abs().max(1.0);
                if !((c - cov[i * d + j]).abs() <= tol) {
                    out.push(finding(format!("{}::sample covariance off", fam), "sample covariance further than 6 standard errors from the distribution covariance", format!("entry ({},{}): sample {:e} over {} draws", i, j, c, mo.n), format!("{:e} +- 6*{:e}", cov[i * d + j], se)));
                    break 'outer;
                }
            }
        }
    }
    out
}

fn eval_vec(case: &Value, prog: &AtomicU64) -> Vec<Finding> {
    let mut out = vec![];
    let fam = case["fam"].as_str().unwrap_or("");
    let p: Vec<f64> = case["p"].as_array().map(|a| a.iter().map(unhx).collect()).unwrap_or_default();
    let n = case["n"].as_u64().unwrap_or(0) as usize;
    let seed = case["seed"].as_u64().unwrap_or(0);
    let d = case["d"].as_u64().unwrap_or(0) as usize;
    let mut rng = StdRng::seed_from_u64(seed);
    let mut mo = Moments { n, d, sum: vec![0.0; d], rows: Vec::with_capacity(n) };
    macro_rules! collect {
        ($dist:expr, $ty:ty, $check:expr) => {{
            let dist = $dist;
            for i in 0..n {
                prog.fetch_add(1, Ordering::Relaxed);
                let v: Vec<f64> = match catch_unwind(AssertUnwindSafe(|| RandDist::<$ty>::sample(&dist, &mut rng))) {
                    Ok(v) => v.iter().map(|&x| x as f64).collect(),
                    Err(_) => {
                        out.push(finding(format!("{}::sample panic", fam), "sampler panics", format!("draw {}", i), "a vector".into()));
                        return out;
                    }
                };
                if v.len() != d {
                    out.push(finding(format!("{}::sample wrong dimension", fam), "wrong length", format!("{}", v.len()), format!("{}", d)));
                    return out;
                }
                if v.iter().any(|x| x.is_nan()) {
                    out.push(finding(format!("{}::sample NaN", fam), "NaN component", format!("draw {}: {:?}", i, v), "never NaN".into()));
                    return out;
                }
                #[allow(clippy::redundant_closure_call)]
                if let Some(f) = ($check)(i, &v) {
                    if !out.iter().any(|o: &Finding| o.site == f.site) {
                        out.push(f);
                    }
                }
                for k in 0..d {
                    mo.sum[k] += v[k];
                }
                mo.rows.push(v);
            }
        }};
    }
    match fam {
        "Dirichlet" => {
            let alpha = p.clone();
            let dist = match Dirichlet::new(alpha.clone()) {
                Ok(x) => x,
                Err(_) => return out,
            };
            out.extend(det_check::<nalgebra::DVector<f64>, _>(fam, &dist, seed));
            collect!(dist, nalgebra::DVector<f64>, |i: usize, v: &Vec<f64>| {
                let s: f64 = v.iter().sum();
                if v.iter().any(|&x| x < 0.0) || (s - 1.0).abs() > 1e-9 {
                    Some(finding("Dirichlet::sample not on the simplex".into(), "components do not sum to 1 (or are negative)", format!("draw {}: {:?} (sum {:e})", i, v, s), "x_i >= 0, |sum - 1| <= 1e-9".into()))
                } else {
                    None
                }
            });
            let a0: f64 = alpha.iter().sum();
            let mean: Vec<f64> = alpha.iter().map(|a| a / a0).collect();
            let mut cov = vec![0.0; d * d];
            for i in 0..d {
                for j in 0..d {
                    cov[i * d + j] = (if i == j { alpha[i] * a0 } else { 0.0 } - alpha[i] * alpha[j]) / (a0 * a0 * (a0 + 1.0));
                }
            }
            out.extend(judge_moments(fam, &mo, &mean, &cov, true, true));
        }
        "Multinomial" => {
            let nn = p[d] as u64;
            let probs = p[..d].to_vec();
            let dist = match Multinomial::new(probs.clone(), nn) {
                Ok(x) => x,
                Err(_) => return out,
            };
            // u64 and f64 variants on the same stream
            {
                let mut ra = StdRng::seed_from_u64(seed);
                let mut rb = StdRng::seed_from_u64(seed);
                for i in 0..n.min(256) {
                    prog.fetch_add(1, Ordering::Relaxed);
                    let a = catch_unwind(AssertUnwindSafe(|| RandDist::<nalgebra::DVector<u64>>::sample(&dist, &mut ra)));
                    let b = catch_unwind(AssertUnwindSafe(|| RandDist::<nalgebra::DVector<f64>>::sample(&dist, &mut rb)));
                    match (a, b) {
                        (Ok(a), Ok(b)) => {
                            if a.len() != b.len() || a.iter().zip(b.iter()).any(|(&x, &y)| x as f64 != y) {
                                out.push(finding("Multinomial::sample<OVector<f64>> differs from sample<OVector<u64>>".into(), "output-type variants disagree on the same stream", format!("draw {}: {:?} vs {:?}", i, a.as_slice(), b.as_slice()), "identical counts".into()));
                                break;
                            }
                        }
                        _ => {
                            out.push(finding("Multinomial::sample panic".into(), "sampler panics", format!("draw {}", i), "a vector".into()));
                            return out;
                        }
                    }
                }
            }
            out.extend(det_check::<nalgebra::DVector<u64>, _>(fam, &dist, seed));
            collect!(dist, nalgebra::DVector<u64>, |i: usize, v: &Vec<f64>| {
                let s: f64 = v.iter().sum();
                if s != nn as f64 {
                    Some(finding("Multinomial::sample counts do not sum to n".into(), "counts do not sum to n", format!("draw {}: {:?}", i, v), format!("sum = {}", nn)))
                } else {
                    None
                }
            });
            let tot: f64 = probs.iter().sum();
            let q: Vec<f64> = probs.iter().map(|x| x / tot).collect();
            let mean: Vec<f64> = q.iter().map(|x| x * nn as f64).collect();
            let mut cov = vec![0.0; d * d];
            for i in 0..d {
                for j in 0..d {
                    cov[i * d + j] = nn as f64 * (if i == j { q[i] } else { 0.0 } - q[i] * q[j]);
                }
            }
            out.extend(judge_moments(fam, &mo, &mean, &cov, true, true));
        }
        "MultivariateNormal" => {
            let mean = p[..d].to_vec();
            let cov = p[d..d + d * d].to_vec();
            let dist = match MultivariateNormal::new(mean.clone(), cov.clone()) {
                Ok(x) => x,
                Err(_) => return out,
            };
            out.extend(det_check::<nalgebra::DVector<f64>, _>(fam, &dist, seed));
            collect!(dist, nalgebra::DVector<f64>, |_i: usize, _v: &Vec<f64>| -> Option<Finding> { None });
            out.extend(judge_moments(fam, &mo, &mean, &cov, true, true));
        }
        "MultivariateStudent" => {
            let mean = p[..d].to_vec();
            let scale = p[d..d + d * d].to_vec();
            let nu = p[d + d * d];
            let dist = match MultivariateStudent::new(mean.clone(), scale.clone(), nu) {
                Ok(x) => x,
                Err(_) => return out,
            };
            out.extend(det_check::<nalgebra::DVector<f64>, _>(fam, &dist, seed));
            collect!(dist, nalgebra::DVector<f64>, |_i: usize, _v: &Vec<f64>| -> Option<Finding> { None });
            if nu >= 5.0 {
                let cov: Vec<f64> = scale.iter().map(|s| s * nu / (nu - 2.0)).collect();
                out.extend(judge_moments(fam, &mo, &mean, &cov, true, nu >= 12.0));
            }
        }
        _ => {}
    }
    out
}

/// equal seeds => equal vectors
fn det_check<T: PartialEq + std::fmt::Debug, D: RandDist<T>>(fam: &str, dist: &D, seed: u64) -> Option<Finding> {
    let mut a = StdRng::seed_from_u64(seed);
    let mut b = StdRng::seed_from_u64(seed);
    for i in 0..64 {
        let x = catch_unwind(AssertUnwindSafe(|| dist.sample(&mut a))).ok()?;
        let y = catch_unwind(AssertUnwindSafe(|| dist.sample(&mut b))).ok()?;
        if x != y {
            return Some(finding(format!("{}::sample not a function of the stream", fam), "equal seeds give different values", format!("draw {}: {:?} vs {:?}", i, x, y), "identical values".into()));
        }
    }
    None
}

// ------------------------------------------------------------------------------------------------ ziggurat tables
fn parse_table(name: &str) -> Vec<f64> {
    let key = format!("pub static {}:", name);
    let start = match ZIG_SRC.find(&key) {
        Some(s) => s,
        None => return vec![],
    };
    let rest = &ZIG_SRC[start..];
    let eq = rest.find('=').unwrap_or(0);
    let open = eq + rest[eq..].find('[').unwrap_or(0);
    let close = open + rest[open..].find(']').unwrap_or(0);
    rest[open + 1..close].split(',').filter_map(|t| t.trim().parse::<f64>().ok()).collect()
}
fn parse_const(name: &str) -> f64 {
    let key = format!("pub const {}: f64 =", name);
    ZIG_SRC.find(&key).and_then(|s| ZIG_SRC[s + key.len()..].split(';').next()).and_then(|t| t.trim().parse::<f64>().ok()).unwrap_or(f64::NAN)
}
fn eval_zig() -> Vec<Finding> {
    let mut out = vec![];
    for (nm, xs, fs, r, pdf, tail) in [
        ("NORM", parse_table("ZIG_NORM_X"), parse_table("ZIG_NORM_F"), parse_const("ZIG_NORM_R"), (|x: f64| (-x * x / 2.0).exp()) as fn(f64) -> f64, {
            // Simpson integration of exp(-x^2/2) over [r, r+40]
            let r = parse_const("ZIG_NORM_R");
            let m = 400000usize;
            let h = 40.0 / m as f64;
            let f = |x: f64| (-x * x / 2.0).exp();
            let mut s = f(r) + f(r + 40.0);
            for k in 1..m {
                s += f(r + k as f64 * h) * if k % 2 == 1 { 4.0 } else { 2.0 };
            }
            s * h / 3.0
        }),
        ("EXP", parse_table("ZIG_EXP_X"), parse_table("ZIG_EXP_F"), parse_const("ZIG_EXP_R"), (|x: f64| (-x).exp()) as fn(f64) -> f64, (-parse_const("ZIG_EXP_R")).exp()),
    ] {
        if xs.len() != 257 || fs.len() != 257 || !r.is_finite() {
            out.push(finding(format!("ziggurat {} tables unreadable", nm), "could not parse the tables", format!("{} / {} entries", xs.len(), fs.len()), "257 entries each".into()));
            continue;
        }
        if xs[1] != r || xs[256] != 0.0 {
            out.push(finding(format!("ziggurat {} X[1] != R or X[256] != 0", nm), "table end points", format!("X[1] = {:?}, R = {:?}, X[256] = {:?}", xs[1], r, xs[256]), "X[1] = R, X[256] = 0".into()));
        }
        for i in 0..257 {
            // F[0] belongs to the virtual base strip x[0] = V/f(R): rand stores pdf(x[0]) there as well
            let e = pdf(xs[i]);
            if !((fs[i] - e).abs() <= 1e-9 * e.max(f64::MIN_POSITIVE)) {
                out.push(finding(format!("ziggurat {} F != pdf(X)", nm), "F[i] differs from pdf(X[i])", format!("i = {}: F = {:e}, pdf(X) = {:e}", i, fs[i], e), "equal to 1e-9 relative".into()));
                break;
            }
        }
        // base strip: V = R*f(R) + tail = X[0]*f(R); layers i = 1..255: X[i]*(F[i+1]-F[i]) = V
        let v = r * pdf(r) + tail;
        let v0 = xs[0] * pdf(r);
        if !((v - v0).abs() <= 1e-9 * v) {
            out.push(finding(format!("ziggurat {} base strip area", nm), "X[0]*pdf(R) differs from R*pdf(R) + tail area", format!("{:e} vs {:e}", v0, v), "equal to 1e-9 relative".into()));
        }
        for i in 1..256 {
            let a = xs[i] * (fs[i + 1] - fs[i]);
            if !((a - v).abs() <= 1e-9 * v) {
                out.push(finding(format!("ziggurat {} unequal strip areas", nm), "a layer's area differs from the common strip area", format!("layer {}: {:e} vs V = {:e}", i, a, v), "equal to 1e-9 relative".into()));
                break;
            }
        }
    }
    out
}

// ------------------------------------------------------------------------------------------------ driver
fn eval_inner(case: &Value, prog: &AtomicU64) -> Vec<Finding> {
    let fam = case["fam"].as_str().unwrap_or("").to_string();
    let p: Vec<f64> = case["p"].as_array().map(|a| a.iter().map(unhx).collect()).unwrap_or_default();
    match case["k"].as_str().unwrap_or("") {
        "strat" => eval_strat(&fam, &p, prog),
        "gof" => eval_gof(&fam, &p, case["n"].as_u64().unwrap_or(0) as usize, case["seed"].as_u64().unwrap_or(0), prog),
        "vec" => eval_vec(case, prog),
        "zig" => eval_zig(),
        k => vec![finding("C06 bad case".into(), "unknown case kind", k.to_string(), String::new())],
    }
}

/// run the case on a worker thread; a stall of 10 s without progress (one draw / one cdf call) is a hang
pub fn eval(case: &Value) -> Vec<Finding> {
    let prog = Arc::new(AtomicU64::new(0));
    let (tx, rx) = std::sync::mpsc::channel();
    let (c2, p2) = (case.clone(), prog.clone());
    std::thread::Builder::new()
        .stack_size(16 << 20)
        .spawn(move || {
            let r = catch_unwind(AssertUnwindSafe(|| eval_inner(&c2, &p2)));
            let _ = tx.send(r);
        })
        .unwrap();
    let mut last = 0u64;
    let mut since = std::time::Instant::now();
    loop {
        match rx.recv_timeout(std::time::Duration::from_millis(50)) {
            Ok(Ok(v)) => return v,
            Ok(Err(_)) => return vec![finding(format!("{} case panic outside the sampler", case["fam"].as_str().unwrap_or("?")), "panic in cdf/pmf/constructor while judging", "panic".into(), String::new())],
            Err(_) => {
                let now = prog.load(Ordering::Relaxed);
                if now != last {
                    last = now;
                    since = std::time::Instant::now();
                } else if since.elapsed().as_secs() >= 10 {
                    let fam = case["fam"].as_str().unwrap_or("?");
                    let p: Vec<f64> = case["p"].as_array().map(|a| a.iter().map(unhx).collect()).unwrap_or_default();
                    return vec![finding(format!("{}::sample hang{}", fam, pclass(fam, &p)), "no progress for 10 s (sampler or cdf call does not return)", format!("stalled after {} steps", now), "every sampler terminates".into())];
                }
            }
        }
    }
}

fn submit(cx: &mut Ctx, case: Value) {
    cx.evals += 1;
    for f in eval(&case) {
        cx.violation(&f.site, &f.what, case.clone(), f.observed, &f.required);
    }
}

fn grid() -> Vec<(&'static str, Vec<Vec<f64>>)> {
    let big = (1u64 << 40) as f64;
    vec![
        ("Bernoulli", vec![vec![0.0], vec![0.001], vec![0.1], vec![0.5], vec![0.9], vec![1.0]]),
        ("Beta", vec![vec![0.5, 0.5], vec![1.0, 1.0], vec![2.0, 5.0], vec![0.1, 3.0], vec![30.0, 40.0], vec![500.0, 2.0]]),
        ("Binomial", vec![vec![0.5, 10.0], vec![0.1, 100.0], vec![0.9, 50.0], vec![0.3, 1.0], vec![0.5, 0.0], vec![0.0, 10.0], vec![1.0, 10.0], vec![0.02, 1000.0]]),
        ("Categorical", vec![vec![1.0, 1.0, 1.0], vec![0.1, 0.2, 0.7], vec![0.0, 1.0, 0.0, 3.0], vec![5.0], vec![1e-3, 1.0, 1e3], vec![1.0; 50]]),
        ("Cauchy", vec![vec![0.0, 1.0], vec![-5.0, 0.1], vec![100.0, 30.0]]),
        ("Chi", vec![vec![1.0], vec![2.0], vec![5.0], vec![30.0]]),
        ("ChiSquared", vec![vec![0.5], vec![1.0], vec![2.0], vec![7.5], vec![100.0]]),
        ("Dirac", vec![vec![0.0], vec![-3.5]]),
        ("DiscreteUniform", vec![vec![0.0, 1.0], vec![-5.0, 5.0], vec![10.0, 10.0], vec![-1000.0, 1000.0], vec![-big, big]]),
        ("Empirical", vec![vec![1.0, 2.0, 3.0], vec![0.5], vec![-1.0, -1.0, 2.0, 10.0, 10.0, 10.0], vec![0.0, 1e-3, 1e3, -1e3]]),
        ("Erlang", vec![vec![1.0, 1.0], vec![3.0, 0.5], vec![20.0, 4.0]]),
        ("Exp", vec![vec![0.1], vec![1.0], vec![50.0]]),
        ("FisherSnedecor", vec![vec![1.0, 1.0], vec![5.0, 2.0], vec![10.0, 20.0], vec![0.5, 3.0], vec![100.0, 100.0]]),
        ("Gamma", vec![vec![0.1, 1.0], vec![0.5, 2.0], vec![1.0, 1.0], vec![2.5, 0.1], vec![30.0, 3.0], vec![1000.0, 1.0]]),
        ("Geometric", vec![vec![1e-6], vec![0.01], vec![0.3], vec![0.5], vec![0.99], vec![1.0]]),
        ("Gumbel", vec![vec![0.0, 1.0], vec![5.0, 2.0], vec![-3.0, 0.1]]),
        ("Hypergeometric", vec![vec![10.0, 5.0, 3.0], vec![50.0, 10.0, 20.0], vec![100.0, 100.0, 10.0], vec![20.0, 0.0, 5.0], vec![10.0, 5.0, 10.0], vec![10.0, 5.0, 0.0], vec![0.0, 0.0, 0.0], vec![1000.0, 300.0, 500.0]]),
        ("InverseGamma", vec![vec![0.5, 1.0], vec![3.0, 2.0], vec![10.0, 0.1]]),
        ("Laplace", vec![vec![0.0, 1.0], vec![-2.0, 0.5], vec![10.0, 100.0]]),
        ("Levy", vec![vec![0.0, 1.0], vec![-1.0, 0.1], vec![5.0, 10.0]]),
        ("LogNormal", vec![vec![0.0, 1.0], vec![-2.0, 0.25], vec![3.0, 2.0]]),
        ("NegativeBinomial", vec![vec![1.0, 0.5], vec![5.0, 0.3], vec![0.5, 0.9], vec![20.0, 0.1], vec![3.0, 1.0], vec![2.5, 0.01]]),
        ("Normal", vec![vec![0.0, 1.0], vec![-5.0, 0.1], vec![1e6, 1e3]]),
        ("Pareto", vec![vec![1.0, 1.0], vec![2.0, 0.5], vec![0.1, 10.0]]),
        ("Poisson", vec![vec![0.1], vec![1.0], vec![5.0], vec![29.9], vec![30.0], vec![100.0], vec![1e4]]),
        ("StudentsT", vec![vec![0.0, 1.0, 1.0], vec![0.0, 1.0, 0.5], vec![2.0, 3.0, 5.0], vec![0.0, 1.0, 100.0]]),
        ("Triangular", vec![vec![0.0, 1.0, 0.5], vec![-1.0, 3.0, -1.0], vec![0.0, 10.0, 10.0], vec![2.0, 5.0, 3.0]]),
        ("Uniform", vec![vec![0.0, 1.0], vec![-5.0, 5.0], vec![1e6, 1e6 + 1.0], vec![-1e300, 1e300]]),
        ("Weibull", vec![vec![1.0, 1.0], vec![0.5, 2.0], vec![5.0, 0.1], vec![20.0, 3.0]]),
        ("Data", vec![vec![1.0, 2.0, 3.0], vec![7.0], vec![-1.0, -1.0, 2.0, 10.0, 10.0, 10.0], (0..97).map(|i| (i * i % 31) as f64).collect()]),
    ]
}

fn random_tuple(cx: &mut Ctx, fam: &str) -> Option<Vec<f64>> {
    let r = &mut cx.r;
    Some(match fam {
        "Bernoulli" | "Geometric" => vec![r.unit().max(1e-4)],
        "Beta" => vec![r.log_range(0.05, 200.0), r.log_range(0.05, 200.0)],
        "Binomial" => vec![r.unit(), r.below(300) as f64],
        "Categorical" => (0..1 + r.below(12)).map(|_| r.unit()).collect(),
        "Cauchy" | "Laplace" | "Gumbel" => vec![r.range(-100.0, 100.0), r.log_range(1e-3, 1e3)],
        "Normal" => vec![r.range(-100.0, 100.0), r.log_range(1e-3, 1e3)],
        "LogNormal" => vec![r.range(-5.0, 5.0), r.log_range(0.05, 3.0)],
        "Chi" => vec![(1 + r.below(60)) as f64],
        "ChiSquared" => vec![r.log_range(0.2, 300.0)],
        "DiscreteUniform" => {
            let a = r.below(2001) as f64 - 1000.0;
            vec![a, a + r.below(500) as f64]
        }
        "Empirical" | "Data" => (0..1 + r.below(40)).map(|_| (r.below(41) as f64 - 20.0) * 0.25).collect(),
        "Erlang" => vec![(1 + r.below(40)) as f64, r.log_range(0.01, 100.0)],
        "Exp" => vec![r.log_range(1e-3, 1e3)],
        "FisherSnedecor" => vec![r.log_range(0.3, 200.0), r.log_range(0.3, 200.0)],
        "Gamma" | "InverseGamma" => vec![r.log_range(0.05, 500.0), r.log_range(0.01, 100.0)],
        "Hypergeometric" => {
            let n = 1 + r.below(400);
            let k = r.below(n + 1);
            let d = 1 + r.below(n);
            vec![n as f64, k as f64, d as f64]
        }
        "Levy" => vec![r.range(-10.0, 10.0), r.log_range(0.01, 100.0)],
        "NegativeBinomial" => vec![r.log_range(0.2, 50.0), r.range(0.02, 0.98)],
        "Pareto" => vec![r.log_range(0.01, 100.0), r.log_range(0.2, 20.0)],
        "Poisson" => vec![r.log_range(0.05, 5000.0)],
        "StudentsT" => vec![r.range(-10.0, 10.0), r.log_range(0.1, 10.0), r.log_range(0.3, 200.0)],
        "Triangular" => {
            let a = r.range(-10.0, 10.0);
            let w = r.log_range(0.01, 100.0);
            vec![a, a + w, a + w * r.unit()]
        }
        "Uniform" => {
            let a = r.range(-100.0, 100.0);
            vec![a, a + r.log_range(1e-3, 1e3)]
        }
        "Weibull" => vec![r.log_range(0.2, 30.0), r.log_range(0.01, 100.0)],
        _ => return None,
    })
}

pub fn run(cx: &mut Ctx) {
    submit(cx, json!({"k":"zig"}));
    let n = if cx.thorough { 20000 } else { 4000 };
    let nrand = if cx.thorough { 60 } else { 6 };
    for (fam, tuples) in grid() {
        let mut all = tuples;
        for _ in 0..nrand {
            if let Some(t) = random_tuple(cx, fam) {
                all.push(t);
            }
        }
        for t in all {
            if build(fam, &t).is_none() {
                continue;
            }
            let ph: Vec<Value> = t.iter().map(|&x| hx(x)).collect();
            let show = if t.len() > 8 { format!("{}::new({:?}.. {} values)", fam, &t[..8], t.len()) } else { format!("{}::new{:?}", fam, t) };
            submit(cx, json!({"k":"strat","fam":fam,"p":ph,"_":show}));
            let seed = cx.r.next() >> 1;
            submit(cx, json!({"k":"gof","fam":fam,"p":ph,"n":n,"seed":seed,"_":show}));
        }
    }
    // vector families
    let mut vc: Vec<(&str, usize, Vec<f64>)> = vec![];
    for a in [vec![1.0, 1.0, 1.0], vec![0.5, 0.5], vec![2.0, 5.0, 10.0, 1.0], vec![0.1, 0.2, 0.3], vec![100.0, 200.0]] {
        vc.push(("Dirichlet", a.len(), a));
    }
    for (pr, nn) in [(vec![0.5, 0.5], 10.0), (vec![0.1, 0.2, 0.7], 100.0), (vec![1.0, 1.0, 1.0, 1.0], 7.0), (vec![0.3, 0.7], 0.0), (vec![1.0, 0.0], 5.0), (vec![0.25, 0.25, 0.5], 1.0)] {
        let d = pr.len();
        let mut p = pr;
        p.push(nn);
        vc.push(("Multinomial", d, p));
    }
    let covs: Vec<(Vec<f64>, Vec<f64>)> = vec![
        (vec![1.0], vec![4.0]),
        (vec![0.0, 0.0], vec![1.0, 0.5, 0.5, 2.0]),
        (vec![-1.0, 2.0, 10.0], vec![1.0, 0.0, 0.0, 0.0, 4.0, 0.0, 0.0, 0.0, 0.25]),
        (vec![0.0, 1.0, 2.0], vec![2.0, -0.5, 0.3, -0.5, 1.0, 0.2, 0.3, 0.2, 3.0]),
        (vec![1e3, -1e3], vec![1e-4, 0.0, 0.0, 1e4]),
    ];
    for (m, c) in &covs {
        let mut p = m.clone();
        p.extend(c.iter());
        vc.push(("MultivariateNormal", m.len(), p.clone()));
        for nu in [1.0, 3.0, 5.0, 12.0, 30.0] {
            let mut q = p.clone();
            q.push(nu);
            vc.push(("MultivariateStudent", m.len(), q));
        }
    }
    for (fam, d, p) in vc {
        let seed = cx.r.next() >> 1;
        submit(cx, json!({"k":"vec","fam":fam,"d":d,"p":p.iter().map(|&x| hx(x)).collect::<Vec<_>>(),"n":n,"seed":seed,"_":format!("{} {:?}", fam, p)}));
    }
}

pub fn replay(case: &Value) -> String {
    let fs = eval(case);
    if fs.is_empty() {
        return "no violation on replay".to_string();
    }
    fs.iter().map(|f| format!("[{}] observed {} / required {}", f.site, f.observed, f.required)).collect::<Vec<_>>().join("\n")
}
