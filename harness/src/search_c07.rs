//! C07 — reported moments and entropy are those of the density.
//!
//! For every univariate family × core-domain parameter tuple (random tuples from the C01 generator plus
//! the existence thresholds and their float neighbours plus degenerate parameters) every moment that the
//! implementation reports as a finite number (mean, variance, std_dev, skewness, entropy) is compared with
//! the corresponding integral / sum of the implementation's OWN pdf / pmf:
//!   * continuous: global adaptive Gauss–Kronrod (7,15) over the support, subdivided at the quantiles
//!     1e-12 … 1-1e-12 of the implementation's own cdf / sf (found by bisection on the float lattice, so the
//!     quality of `inverse_cdf` does not matter); the two pieces outside the 1e-12 cut are integrated with an
//!     exponential change of variable, so nothing is dropped silently.  A comparison is made only when the
//!     quadrature error estimate (|K15-G7| summed) is at least ten times below the tolerance; otherwise, and
//!     whenever the moment is within 0.5 of its existence threshold (tail index - order < 0.5), the case is
//!     counted in `SKIPPED` and not judged.
//!   * discrete: plain (compensated) sums over the support window, at most 2e5 terms, stopped when the
//!     implementation's sf is below 1e-13 and the terms have died out; otherwise skipped.
//!   * Dirac / Empirical have no pdf: their mass is the jump of their own cdf at each atom.
//! Tolerance (property text): 1e-6 relative, 1e-9 absolute near zero.  Documented approximations are held to
//! their documented truncation only: Poisson entropy is the asymptotic series up to the 1/λ³ term, its
//! truncation error is taken as the size of the last term kept, 19/(360 λ³); Gumbel skewness is documented
//! as "≈ 1.13955", i.e. 5e-6 absolute.
//! Also: variance ≥ 0, std_dev² = variance (1e-12 relative), no NaN, a finite value only if the moment
//! exists, and at the existence thresholds of StudentsT / FisherSnedecor / Pareto / InverseGamma the moment is
//! Some exactly when it exists.
use crate::gen::{next_down, next_up};
use crate::proto::{parse_arg, Arg};
use crate::search::{ptags, tuples_ext, Ctx};
use serde_json::{json, Value};
use statrs::distribution::*;
use statrs::statistics::{DiscreteDistribution, Distribution, Max, Min};
use std::panic::{catch_unwind, AssertUnwindSafe};
use std::sync::atomic::{AtomicU64, Ordering};

/// comparisons not judged (quadrature not certified / too close to the existence threshold / window too long)
pub static SKIPPED: AtomicU64 = AtomicU64::new(0);
pub static JUDGED: AtomicU64 = AtomicU64::new(0);

fn guard<T>(f: impl FnOnce() -> T) -> Option<T> {
    catch_unwind(AssertUnwindSafe(f)).ok()
}

// ---------------------------------------------------------------------------------------------
// a uniform view of the univariate laws
// ---------------------------------------------------------------------------------------------
#[derive(Clone, Copy, PartialEq)]
enum Kind {
    Cont,
    Lattice,
    Atoms,
}
trait Law {
    fn kind(&self) -> Kind;
    /// pdf(x) / pmf(k) / jump of the cdf at the atom x
    fn dens(&self, x: f64) -> f64;
    fn cdf(&self, x: f64) -> f64;
    fn sf(&self, x: f64) -> f64;
    fn lo(&self) -> f64;
    fn hi(&self) -> f64;
    fn atoms(&self) -> Vec<f64> {
        vec![]
    }
    /// interior points where the density is not smooth (kinks): they must be subdivision points, an open
    /// quadrature rule does not see a kink hidden between a segment end and its first node
    fn breaks(&self) -> Vec<f64> {
        vec![]
    }
    /// mean, variance, std_dev, skewness, entropy (None in the outer Option = the call panicked)
    fn moments(&self) -> [Option<Option<f64>>; 5];
}
const MOM: [&str; 5] = ["mean", "variance", "std_dev", "skewness", "entropy"];

macro_rules! moments_of {
    ($d:expr, $tr:ident) => {
        [
            guard(|| $tr::mean($d)),
            guard(|| $tr::variance($d)),
            guard(|| $tr::std_dev($d)),
            guard(|| $tr::skewness($d)),
            guard(|| $tr::entropy($d)),
        ]
    };
}

struct C<T>(T, Vec<f64>);
impl<T: Continuous<f64, f64> + ContinuousCDF<f64, f64> + Distribution<f64>> Law for C<T> {
    fn kind(&self) -> Kind {
        Kind::Cont
    }
    fn dens(&self, x: f64) -> f64 {
        self.0.pdf(x)
    }
    fn cdf(&self, x: f64) -> f64 {
        self.0.cdf(x)
    }
    fn sf(&self, x: f64) -> f64 {
        self.0.sf(x)
    }
    fn lo(&self) -> f64 {
        self.0.min()
    }
    fn hi(&self) -> f64 {
        self.0.max()
    }
    fn breaks(&self) -> Vec<f64> {
        self.1.clone()
    }
    fn moments(&self) -> [Option<Option<f64>>; 5] {
        moments_of!(&self.0, Distribution)
    }
}
fn as_u64(x: f64) -> Option<u64> {
    if x >= 0.0 && x < 1.8e19 && x == x.trunc() {
        Some(x as u64)
    } else {
        None
    }
}
struct DU<T>(T);
impl<T: Discrete<u64, f64> + DiscreteCDF<u64, f64> + Distribution<f64>> Law for DU<T> {
    fn kind(&self) -> Kind {
        Kind::Lattice
    }
    fn dens(&self, x: f64) -> f64 {
        as_u64(x).map(|k| self.0.pmf(k)).unwrap_or(0.0)
    }
    fn cdf(&self, x: f64) -> f64 {
        as_u64(x).map(|k| self.0.cdf(k)).unwrap_or(f64::NAN)
    }
    fn sf(&self, x: f64) -> f64 {
        as_u64(x).map(|k| self.0.sf(k)).unwrap_or(f64::NAN)
    }
    fn lo(&self) -> f64 {
        self.0.min() as f64
    }
    fn hi(&self) -> f64 {
        self.0.max() as f64
    }
    fn moments(&self) -> [Option<Option<f64>>; 5] {
        moments_of!(&self.0, Distribution)
    }
}
struct NB(NegativeBinomial);
impl Law for NB {
    fn kind(&self) -> Kind {
        Kind::Lattice
    }
    fn dens(&self, x: f64) -> f64 {
        as_u64(x).map(|k| self.0.pmf(k)).unwrap_or(0.0)
    }
    fn cdf(&self, x: f64) -> f64 {
        as_u64(x).map(|k| self.0.cdf(k)).unwrap_or(f64::NAN)
    }
    fn sf(&self, x: f64) -> f64 {
        as_u64(x).map(|k| self.0.sf(k)).unwrap_or(f64::NAN)
    }
    fn lo(&self) -> f64 {
        self.0.min() as f64
    }
    fn hi(&self) -> f64 {
        self.0.max() as f64
    }
    fn moments(&self) -> [Option<Option<f64>>; 5] {
        moments_of!(&self.0, DiscreteDistribution)
    }
}
struct DI(DiscreteUniform);
impl Law for DI {
    fn kind(&self) -> Kind {
        Kind::Lattice
    }
    fn dens(&self, x: f64) -> f64 {
        self.0.pmf(x as i64)
    }
    fn cdf(&self, x: f64) -> f64 {
        self.0.cdf(x as i64)
    }
    fn sf(&self, x: f64) -> f64 {
        self.0.sf(x as i64)
    }
    fn lo(&self) -> f64 {
        Min::min(&self.0) as f64
    }
    fn hi(&self) -> f64 {
        Max::max(&self.0) as f64
    }
    fn moments(&self) -> [Option<Option<f64>>; 5] {
        moments_of!(&self.0, Distribution)
    }
}
/// laws without a density: the mass at an atom is the jump of the law's own cdf there
struct At<T>(T, Vec<f64>);
impl<T: ContinuousCDF<f64, f64> + Distribution<f64>> Law for At<T> {
    fn kind(&self) -> Kind {
        Kind::Atoms
    }
    fn dens(&self, x: f64) -> f64 {
        self.0.cdf(x) - self.0.cdf(next_down(x))
    }
    fn cdf(&self, x: f64) -> f64 {
        self.0.cdf(x)
    }
    fn sf(&self, x: f64) -> f64 {
        self.0.sf(x)
    }
    fn lo(&self) -> f64 {
        self.1.iter().cloned().fold(f64::INFINITY, f64::min)
    }
    fn hi(&self) -> f64 {
        self.1.iter().cloned().fold(f64::NEG_INFINITY, f64::max)
    }
    fn atoms(&self) -> Vec<f64> {
        self.1.clone()
    }
    fn moments(&self) -> [Option<Option<f64>>; 5] {
        moments_of!(&self.0, Distribution)
    }
}

fn build(fam: &str, a: &[Arg]) -> Option<Box<dyn Law>> {
    let f = |i: usize| -> f64 {
        match a.get(i) {
            Some(Arg::F(x)) => *x,
            Some(Arg::I(k)) => *k as f64,
            _ => f64::NAN,
        }
    };
    let u = |i: usize| -> u64 {
        match a.get(i) {
            Some(Arg::I(k)) => *k as u64,
            _ => 0,
        }
    };
    let s = |i: usize| -> i64 {
        match a.get(i) {
            Some(Arg::I(k)) => *k as i64,
            _ => 0,
        }
    };
    macro_rules! c {
        ($e:expr) => {
            $e.ok().map(|d| Box::new(C(d, vec![])) as Box<dyn Law>)
        };
        ($e:expr, $b:expr) => {
            $e.ok().map(|d| Box::new(C(d, $b)) as Box<dyn Law>)
        };
    }
    macro_rules! d {
        ($e:expr) => {
            $e.ok().map(|d| Box::new(DU(d)) as Box<dyn Law>)
        };
    }
    guard(|| match fam {
        "Beta" => c!(Beta::new(f(0), f(1))),
        "Cauchy" => c!(Cauchy::new(f(0), f(1))),
        "Chi" => c!(Chi::new(u(0))),
        "ChiSquared" => c!(ChiSquared::new(f(0))),
        "Erlang" => c!(Erlang::new(u(0), f(1))),
        "Exp" => c!(Exp::new(f(0))),
        "FisherSnedecor" => c!(FisherSnedecor::new(f(0), f(1))),
        "Gamma" => c!(Gamma::new(f(0), f(1))),
        "Gumbel" => c!(Gumbel::new(f(0), f(1))),
        "InverseGamma" => c!(InverseGamma::new(f(0), f(1))),
        "Laplace" => c!(Laplace::new(f(0), f(1)), vec![f(0)]),
        "Levy" => c!(Levy::new(f(0), f(1))),
        "LogNormal" => c!(LogNormal::new(f(0), f(1))),
        "Normal" => c!(Normal::new(f(0), f(1))),
        "Pareto" => c!(Pareto::new(f(0), f(1))),
        "StudentsT" => c!(StudentsT::new(f(0), f(1), f(2))),
        "Triangular" => c!(Triangular::new(f(0), f(1), f(2)), vec![f(2)]),
        "Uniform" => c!(Uniform::new(f(0), f(1))),
        "Weibull" => c!(Weibull::new(f(0), f(1))),
        "Bernoulli" => d!(Bernoulli::new(f(0))),
        "Binomial" => d!(Binomial::new(f(0), u(1))),
        "Geometric" => d!(Geometric::new(f(0))),
        "Hypergeometric" => d!(Hypergeometric::new(u(0), u(1), u(2))),
        "Poisson" => d!(Poisson::new(f(0))),
        "Categorical" => match a.get(0) {
            Some(Arg::FL(v)) => d!(Categorical::new(v)),
            _ => None,
        },
        "NegativeBinomial" => NegativeBinomial::new(f(0), f(1)).ok().map(|d| Box::new(NB(d)) as Box<dyn Law>),
        "DiscreteUniform" => DiscreteUniform::new(s(0), s(1)).ok().map(|d| Box::new(DI(d)) as Box<dyn Law>),
        "Dirac" => Dirac::new(f(0)).ok().map(|d| Box::new(At(d, vec![f(0)])) as Box<dyn Law>),
        "Empirical" => match a.get(0) {
            Some(Arg::FL(v)) if !v.is_empty() => {
                let e: Empirical = v.iter().cloned().collect();
                let mut at: Vec<f64> = v.iter().cloned().filter(|x| !x.is_nan()).collect();
                at.sort_by(|p, q| p.partial_cmp(q).unwrap());
                at.dedup();
                Some(Box::new(At(e, at)) as Box<dyn Law>)
            }
            _ => None,
        },
        _ => None,
    })
    .flatten()
}

/// tail index α (density ~ |x|^(-α-1)): the moment of order k exists iff k < α
fn tail_index(fam: &str, a: &[Arg]) -> Option<f64> {
    let f = |i: usize| match a.get(i) {
        Some(Arg::F(x)) => *x,
        _ => f64::NAN,
    };
    match fam {
        "StudentsT" => Some(f(2)),
        "FisherSnedecor" => Some(f(1) / 2.0),
        "Pareto" => Some(f(1)),
        "InverseGamma" => Some(f(0)),
        "Cauchy" => Some(1.0),
        "Levy" => Some(0.5),
        _ => None,
    }
}
/// families whose doc states `None` exactly below the threshold: Some is required when the moment exists
fn threshold_family(fam: &str) -> bool {
    matches!(fam, "StudentsT" | "FisherSnedecor" | "Pareto" | "InverseGamma")
}
/// moment order used for existence (entropy: 0)
const ORDER: [f64; 5] = [1.0, 2.0, 2.0, 3.0, 0.0];

// ---------------------------------------------------------------------------------------------
// quantiles of the implementation's cdf by bisection on the float lattice
// ---------------------------------------------------------------------------------------------
fn key(x: f64) -> i128 {
    let b = x.to_bits() as i64;
    (if b >= 0 { b } else { i64::MIN.wrapping_sub(b) }) as i128
}
fn unkey(k: i128) -> f64 {
    if k >= 0 {
        f64::from_bits(k as u64)
    } else {
        f64::from_bits(((-k) as u64) | (1u64 << 63))
    }
}
/// smallest x in [lo,hi] with pred(x) true, pred monotone false→true (best effort otherwise)
fn bisect(lo: f64, hi: f64, pred: &dyn Fn(f64) -> bool) -> f64 {
    let (mut a, mut b) = (key(lo.max(-f64::MAX)), key(hi.min(f64::MAX)));
    if pred(unkey(a)) {
        return unkey(a);
    }
    while b - a > 1 {
        let m = a + (b - a) / 2;
        if pred(unkey(m)) {
            b = m;
        } else {
            a = m;
        }
    }
    unkey(b)
}

// ---------------------------------------------------------------------------------------------
// Gauss–Kronrod (7,15), vector valued, global adaptive
// ---------------------------------------------------------------------------------------------
const XGK: [f64; 8] = [
    0.991455371120812639206854697526329,
    0.949107912342758524526189684047851,
    0.864864423359769072789712788640926,
    0.741531185599394439863864773280788,
    0.586087235467691130294144838258730,
    0.405845151377397166906606412076961,
    0.207784955007898467600689403773245,
    0.0,
];
const WGK: [f64; 8] = [
    0.022935322010529224963732008058970,
    0.063092092629978553290700663189204,
    0.104790010322250183839876322541518,
    0.140653259715525918745189590510238,
    0.169004726639267902826583426598550,
    0.190350578064785409913256402421014,
    0.204432940075298892414161999234649,
    0.209482141084727828012999174891714,
];
const WG: [f64; 4] = [0.129484966168869693270611432679082, 0.279705391489276667901467771423780, 0.381830050505118944950369775488975, 0.417959183673469387755102040816327];

const NC: usize = 5; // ∫f, ∫(x-c)f, ∫(x-c)²f, ∫(x-c)³f, -∫f ln f

#[derive(Clone, Copy, Debug)]
enum Piece {
    Lin(f64, f64),
    /// 0 < a < b, sign
    Log(f64, f64, f64),
    /// [a, +inf) / (-inf, a]: x = a ± s·(e^v - 1), v = 4t/(1-t)
    Tail(f64, f64, f64),
    /// finite support end e, width w, sign (+1: [e, e+w], -1: [e-w, e]): x = e ± w·e^{-v}, v = t/(1-t)
    End(f64, f64, f64),
}
impl Piece {
    /// (x, |dx/dt|)
    fn map(&self, t: f64) -> (f64, f64) {
        match *self {
            Piece::Lin(a, b) => (a + (b - a) * t, b - a),
            Piece::Log(a, b, sg) => {
                let l = (b / a).ln();
                let u = if sg > 0.0 { t } else { 1.0 - t };
                let x = a * (u * l).exp();
                (sg * x, x * l)
            }
            Piece::Tail(a, s, sg) => {
                let v = 4.0 * t / (1.0 - t);
                let dv = 4.0 / ((1.0 - t) * (1.0 - t));
                (a + sg * s * v.exp_m1(), s * v.exp() * dv)
            }
            Piece::End(e, w, sg) => {
                let v = t / (1.0 - t);
                let dv = 1.0 / ((1.0 - t) * (1.0 - t));
                let ev = (-v).exp();
                (e + sg * w * ev, w * ev * dv)
            }
        }
    }
}

#[derive(Clone)]
struct Seg {
    p: usize,
    a: f64,
    b: f64,
    val: [f64; NC],
    err: [f64; NC],
    abs: [f64; NC],
    bad: bool,
}

struct Integ<'a> {
    law: &'a dyn Law,
    c: f64,
    need: [bool; NC],
    pieces: Vec<Piece>,
    evals: u64,
    /// per piece: the non-finite density value met nearest to the bulk (x, distance key)
    nonfinite: Vec<Option<(f64, f64)>>,
}
impl<'a> Integ<'a> {
    fn g(&mut self, p: usize, t: f64, bad: &mut bool) -> [f64; NC] {
        let (x, jac) = self.pieces[p].map(t);
        let mut out = [0.0; NC];
        if !x.is_finite() || !(jac > 0.0) || !jac.is_finite() {
            // beyond the representable range: e^v overflowed (density there is below anything that matters)
            return out;
        }
        self.evals += 1;
        let fx = self.law.dens(x);
        if fx == 0.0 {
            return out;
        }
        // Outside the 1e-12 / 1-1e-12 quantile cut (Tail / End pieces) a non-finite density (overflow in the
        // implementation's pdf far out in the tail, or the pole at a support end onto which x was rounded)
        // contributes nothing: the support is cut there.  Inside the cut it makes the integral uncertified.
        let outer = match self.pieces[p] {
            Piece::Tail(..) => true,
            Piece::End(e, _, _) => {
                if x == e {
                    return out;
                }
                true
            }
            _ => false,
        };
        if outer && !fx.is_finite() {
            // remember the non-finite point nearest to the bulk; `missing` bounds what may have been lost
            let inner = match self.pieces[p] {
                Piece::Tail(a, _, _) => (x - a).abs(),
                Piece::End(e, _, _) => -(x - e).abs(),
                _ => 0.0,
            };
            match self.nonfinite[p] {
                Some((_, d)) if d <= inner => {}
                _ => self.nonfinite[p] = Some((x, inner)),
            }
            return out;
        }
        let w = fx * jac;
        let dx = x - self.c;
        let cand = [w, dx * w, dx * dx * w, dx * dx * dx * w, -w * fx.ln()];
        for k in 0..NC {
            if self.need[k] {
                if cand[k].is_finite() {
                    out[k] = cand[k];
                } else {
                    *bad = true;
                }
            }
        }
        out
    }
    fn gk(&mut self, p: usize, a: f64, b: f64) -> Seg {
        let (h, m) = ((b - a) / 2.0, (a + b) / 2.0);
        let mut bad = false;
        // node values: index 0..7 left, 7 centre, 8..15 right (weights WGK[j], WGK[7], WGK[j-8])
        let mut fv = [[0.0f64; NC]; 15];
        let mut wv = [0.0f64; 15];
        fv[7] = self.g(p, m, &mut bad);
        wv[7] = WGK[7];
        for j in 0..7 {
            let d = h * XGK[j];
            fv[j] = self.g(p, m - d, &mut bad);
            fv[8 + j] = self.g(p, m + d, &mut bad);
            wv[j] = WGK[j];
            wv[8 + j] = WGK[j];
        }
        let mut s = Seg { p, a, b, val: [0.0; NC], err: [0.0; NC], abs: [0.0; NC], bad };
        for k in 0..NC {
            let mut k15 = 0.0;
            let mut ab = 0.0;
            for i in 0..15 {
                k15 += wv[i] * fv[i][k];
                ab += wv[i] * fv[i][k].abs();
            }
            let mut g7 = WG[3] * fv[7][k];
            for j in [1usize, 3, 5] {
                g7 += WG[j / 2] * (fv[j][k] + fv[8 + j][k]);
            }
            // QUADPACK qk15 error estimate
            let mean = k15 * 0.5;
            let mut asc = 0.0;
            for i in 0..15 {
                asc += wv[i] * (fv[i][k] - mean).abs();
            }
            let (resabs, resasc) = (ab * h, asc * h);
            let mut err = ((k15 - g7) * h).abs();
            if resasc != 0.0 && err != 0.0 {
                err = resasc * (1.0f64).min((200.0 * err / resasc).powf(1.5));
            }
            if resabs > f64::MIN_POSITIVE / (50.0 * f64::EPSILON) {
                err = err.max(50.0 * f64::EPSILON * resabs);
            }
            s.val[k] = k15 * h;
            s.err[k] = err;
            s.abs[k] = resabs;
        }
        s
    }
    /// returns (values, error bounds, L1 norms, clean?)
    fn run(&mut self, max_segs: usize) -> ([f64; NC], [f64; NC], [f64; NC], bool) {
        let mut segs: Vec<Seg> = vec![];
        for p in 0..self.pieces.len() {
            // start with two halves so that a feature in the middle is not hit by the centre node only
            segs.push(self.gk(p, 0.0, 0.5));
            segs.push(self.gk(p, 0.5, 1.0));
        }
        let tolq = 1e-12;
        loop {
            let mut tot = [0.0; NC];
            let mut err = [0.0; NC];
            let mut ab = [0.0; NC];
            for s in &segs {
                for k in 0..NC {
                    tot[k] += s.val[k];
                    err[k] += s.err[k];
                    ab[k] += s.abs[k];
                }
            }
            let done = (0..NC).all(|k| !self.need[k] || err[k] <= tolq * ab[k]);
            if done || segs.len() >= max_segs {
                let bad = segs.iter().any(|s| s.bad);
                // compensated re-summation, small terms first
                for k in 0..NC {
                    let mut v: Vec<f64> = segs.iter().map(|s| s.val[k]).collect();
                    v.sort_by(|x, y| x.abs().partial_cmp(&y.abs()).unwrap_or(std::cmp::Ordering::Equal));
                    tot[k] = v.iter().sum();
                    err[k] += 1e-15 * ab[k];
                }
                return (tot, err, ab, !bad);
            }
            // refine the segment with the largest scaled error
            let mut best = 0usize;
            let mut bs = -1.0;
            for (i, s) in segs.iter().enumerate() {
                let mut sc: f64 = 0.0;
                for k in 0..NC {
                    if self.need[k] && ab[k] > 0.0 {
                        sc = sc.max(s.err[k] / ab[k]);
                    }
                }
                if s.b - s.a < 1e-13 {
                    sc = 0.0;
                }
                if sc > bs {
                    bs = sc;
                    best = i;
                }
            }
            if bs <= 0.0 {
                let bad = segs.iter().any(|s| s.bad);
                return (tot, err, ab, !bad);
            }
            let s = segs.swap_remove(best);
            let m = (s.a + s.b) / 2.0;
            let l = self.gk(s.p, s.a, m);
            let r = self.gk(s.p, m, s.b);
            segs.push(l);
            segs.push(r);
        }
    }
}

/// the partition of the support
fn pieces_for(law: &dyn Law) -> Option<Vec<Piece>> {
    let (lo, hi) = (law.lo(), law.hi());
    if lo.is_nan() || hi.is_nan() || !(lo < hi) {
        return None;
    }
    let levels = [1e-12, 1e-9, 1e-6, 1e-4, 1e-2, 0.1, 0.3, 0.5];
    let mut nodes: Vec<f64> = vec![];
    for p in levels {
        nodes.push(bisect(lo, hi, &|x| law.cdf(x) >= p));
        nodes.push(bisect(lo, hi, &|x| law.sf(x) <= p));
    }
    nodes.extend(law.breaks());
    nodes.retain(|x| x.is_finite() && *x > lo && *x < hi);
    nodes.sort_by(|a, b| a.partial_cmp(b).unwrap());
    nodes.dedup();
    if nodes.is_empty() {
        return None;
    }
    let mut ps = vec![];
    let first = nodes[0];
    let last = *nodes.last().unwrap();
    // local tail scales
    let s_lo = if nodes.len() > 1 { (nodes[1] - nodes[0]).abs() } else { 1.0 };
    let s_hi = if nodes.len() > 1 { (last - nodes[nodes.len() - 2]).abs() } else { 1.0 };
    let fix = |s: f64, at: f64| if s > 0.0 && s.is_finite() { s } else { at.abs().max(1.0) * 0.1 };
    if lo.is_finite() {
        ps.push(Piece::End(lo, first - lo, 1.0));
    } else {
        ps.push(Piece::Tail(first, fix(s_lo, first), -1.0));
    }
    for w in nodes.windows(2) {
        let (a, b) = (w[0], w[1]);
        if a > 0.0 && b / a > 4.0 {
            ps.push(Piece::Log(a, b, 1.0));
        } else if b < 0.0 && a / b > 4.0 {
            ps.push(Piece::Log(-b, -a, -1.0));
        } else if a < 0.0 && b > 0.0 {
            ps.push(Piece::Lin(a, 0.0));
            ps.push(Piece::Lin(0.0, b));
        } else {
            ps.push(Piece::Lin(a, b));
        }
    }
    if hi.is_finite() {
        ps.push(Piece::End(hi, hi - last, -1.0));
    } else {
        ps.push(Piece::Tail(last, fix(s_hi, last), 1.0));
    }
    Some(ps)
}

/// integrals / sums of the law's own density about the centre c: (values, error bounds, certified?)
fn integrals(law: &dyn Law, c: f64, need: [bool; NC]) -> Option<([f64; NC], [f64; NC], bool)> {
    match law.kind() {
        Kind::Cont => {
            let pieces = pieces_for(law)?;
            let np = pieces.len();
            let mut it = Integ { law, c, need, pieces, evals: 0, nonfinite: vec![None; np] };
            let (v, mut e, ab, mut clean) = it.run(1500);
            // Where the implementation's pdf was not finite outside the quantile cut the region beyond that
            // point was dropped.  Bound what it could have contributed by the implementation's own tail mass
            // there: for a tail decaying at least like x^-(k+1.5) the k-th partial moment beyond X is at most
            // 8·|X-c|^k·P(beyond X); for a finite support end |x-c| is bounded.
            // A finite support end e != 0 cannot be approached closer than one ulp: the mass the law's own cdf / sf
            // puts on that last ulp (e.g. the pole of Beta(a, 1/2) at 1) is not seen by the quadrature.
            let mut lost: Vec<(usize, f64)> = it.nonfinite.iter().enumerate().filter_map(|(p, nf)| nf.map(|(x, _)| (p, x))).collect();
            for (p, pc) in it.pieces.iter().enumerate() {
                if let Piece::End(en, _, sg) = pc {
                    if *en != 0.0 && !lost.iter().any(|(q, _)| *q == p) {
                        lost.push((p, if *sg > 0.0 { next_up(*en) } else { next_down(*en) }));
                    }
                }
            }
            for (p, x) in lost.iter().map(|(p, x)| (*p, x)) {
                {
                    let (mass, reach, factor) = match it.pieces[p] {
                        Piece::Tail(_, _, sg) => (if sg > 0.0 { law.sf(*x) } else { law.cdf(*x) }, (x - c).abs(), 8.0),
                        Piece::End(en, _, sg) => (if sg > 0.0 { law.cdf(*x) } else { law.sf(*x) }, (x - c).abs().max((en - c).abs()), 1.0),
                        _ => (0.0, 0.0, 0.0),
                    };
                    if !(mass >= 0.0) || !reach.is_finite() {
                        clean = false;
                        continue;
                    }
                    if mass == 0.0 {
                        continue;
                    }
                    let lg = mass.ln().abs() + reach.max(f64::MIN_POSITIVE).ln().abs() + 40.0;
                    let add = [mass, factor * mass * reach, factor * mass * reach * reach, factor * mass * reach * reach * reach, factor * mass * lg];
                    for k in 0..NC {
                        if need[k] {
                            if add[k].is_finite() {
                                e[k] += add[k];
                            } else {
                                clean = false;
                            }
                        }
                    }
                }
            }
            // the pdf values themselves carry rounding noise (ln_gamma, powf, ln x - mu …): never claim the
            // integral to better than 1e-11 of its L1 norm
            for k in 0..NC {
                e[k] = e[k].max(1e-11 * ab[k]);
            }
            let cert = clean && (0..NC).all(|k| !need[k] || e[k] <= 1e-8 * ab[k]);
            Some((v, e, cert))
        }
        Kind::Lattice | Kind::Atoms => {
            let mut complete = true;
            let mut acc = [0.0f64; NC];
            let mut comp = [0.0f64; NC];
            let mut ab = [0.0f64; NC];
            let mut clean = true;
            let add = |x: f64, acc: &mut [f64; NC], comp: &mut [f64; NC], ab: &mut [f64; NC], clean: &mut bool| -> [f64; NC] {
                let p = law.dens(x);
                let mut cand = [0.0; NC];
                if p == 0.0 {
                    return cand;
                }
                let dx = x - c;
                cand = [p, dx * p, dx * dx * p, dx * dx * dx * p, -p * p.ln()];
                for k in 0..NC {
                    if !need[k] {
                        cand[k] = 0.0;
                        continue;
                    }
                    if !cand[k].is_finite() {
                        *clean = false;
                        cand[k] = 0.0;
                        continue;
                    }
                    // Neumaier
                    let t = acc[k] + cand[k];
                    if acc[k].abs() >= cand[k].abs() {
                        comp[k] += (acc[k] - t) + cand[k];
                    } else {
                        comp[k] += (cand[k] - t) + acc[k];
                    }
                    acc[k] = t;
                    ab[k] += cand[k].abs();
                }
                cand
            };
            if law.kind() == Kind::Atoms {
                for x in law.atoms() {
                    add(x, &mut acc, &mut comp, &mut ab, &mut clean);
                }
            } else {
                let (lo, hi) = (law.lo(), law.hi());
                if !lo.is_finite() {
                    return None;
                }
                let mut k = lo;
                let mut n = 0u64;
                let mut quiet = 0u32;
                loop {
                    let term = add(k, &mut acc, &mut comp, &mut ab, &mut clean);
                    n += 1;
                    if k >= hi {
                        break;
                    }
                    if n >= 200_000 {
                        complete = false;
                        break;
                    }
                    // tail bound: every needed term has been below 1e-19 of its running absolute sum for 64
                    // consecutive lattice points beyond the centre, and the implementation's sf is below 1e-13
                    if k > c && (0..NC).all(|j| term[j].abs() <= 1e-19 * ab[j]) {
                        quiet += 1;
                    } else {
                        quiet = 0;
                    }
                    if quiet >= 64 && law.sf(k) < 1e-13 {
                        break;
                    }
                    k += 1.0;
                }
            }
            let mut v = [0.0; NC];
            let mut e = [0.0; NC];
            for k in 0..NC {
                v[k] = acc[k] + comp[k];
                e[k] = 1e-12 * ab[k];
            }
            Some((v, e, clean && complete))
        }
    }
}

// ---------------------------------------------------------------------------------------------
// the check of one law
// ---------------------------------------------------------------------------------------------
pub struct Finding {
    pub site: String,
    pub what: String,
    pub observed: String,
    pub required: String,
    pub moment: String,
}

fn hx(x: f64) -> String {
    format!("{:e} (0x{:016x})", x, x.to_bits())
}

/// property tolerance: 1e-6 relative, 1e-9 absolute near zero; `extra` = documented truncation error
fn tol(v: f64, extra: f64) -> f64 {
    (1e-6 * v.abs()).max(1e-9).max(extra)
}

fn check_law(fam: &str, args: &[Arg], tag: &str, ext: bool) -> Vec<Finding> {
    let mut out = vec![];
    let law = match build(fam, args) {
        Some(l) => l,
        None => return out,
    };
    let law: &dyn Law = law.as_ref();
    let m = law.moments();
    macro_rules! push {
        ($moment:expr, $kind:expr, $what:expr, $observed:expr, $required:expr) => {{
            let (moment, kind, what, observed, required): (&str, &str, &str, String, &str) = ($moment, $kind, $what, $observed, $required);
            out.push(Finding { site: format!("{}{}::{} {}{}", if ext { "[ext] " } else { "" }, fam, moment, kind, tag), what: what.to_string(), observed, required: required.to_string(), moment: moment.to_string() });
        }};
    }
    let val = |i: usize| -> Option<f64> { m[i].and_then(|o| o) };
    // --- no NaN, variance >= 0, std_dev² = variance
    for i in 0..5 {
        if let Some(v) = val(i) {
            if v.is_nan() {
                push!(MOM[i], "NaN", "a moment of a constructed distribution is NaN", hx(v), "not NaN");
            }
        }
    }
    if let Some(v) = val(1) {
        if v < 0.0 {
            push!("variance", "< 0", "negative variance", hx(v), "variance >= 0");
        }
    }
    if let (Some(v), Some(s)) = (val(1), val(2)) {
        if v.is_finite() && s.is_finite() && !((s * s - v).abs() <= 1e-12 * v.abs().max(s * s)) {
            push!("std_dev", "^2 != variance", "std_dev squared differs from variance by more than 1e-12 relative", format!("std_dev={} variance={}", hx(s), hx(v)), "std_dev^2 = variance (1e-12 relative)");
        } else if v.is_finite() != s.is_finite() && !v.is_nan() && !s.is_nan() {
            push!("std_dev", "^2 != variance", "one of std_dev / variance is infinite and the other is not", format!("std_dev={} variance={}", hx(s), hx(v)), "std_dev^2 = variance");
        }
    }
    // --- existence
    let alpha = tail_index(fam, args);
    let mut comparable = [false; 5];
    for i in 0..5 {
        let exists = match alpha {
            Some(a) => ORDER[i] < a,
            None => true,
        };
        match m[i] {
            Some(Some(v)) if v.is_finite() => {
                if !exists {
                    push!(MOM[i], "finite but diverges", "a finite value is reported for a moment that does not exist", hx(v), "None or infinite when the moment diverges");
                } else {
                    let margin = alpha.map(|a| a - ORDER[i]).unwrap_or(f64::INFINITY);
                    if margin >= 0.5 || i == 4 {
                        comparable[i] = true;
                    } else {
                        SKIPPED.fetch_add(1, Ordering::Relaxed);
                    }
                }
            }
            Some(None) => {
                if exists && threshold_family(fam) && i != 4 {
                    push!(MOM[i], "None but exists", "None is reported for a moment that exists", "None".into(), "Some(finite) when the moment exists");
                }
            }
            _ => {}
        }
    }
    if !comparable.iter().any(|b| *b) {
        return out;
    }
    // --- integrals of the law's own density
    let c = match val(0) {
        Some(v) if v.is_finite() && comparable[0] => v,
        _ => {
            // a central point of the law
            let (lo, hi) = (law.lo(), law.hi());
            if law.kind() == Kind::Cont {
                bisect(lo, hi, &|x| law.cdf(x) >= 0.5)
            } else if lo.is_finite() {
                lo
            } else {
                0.0
            }
        }
    };
    let need = [true, comparable[0] || comparable[1] || comparable[2] || comparable[3], comparable[1] || comparable[2] || comparable[3], comparable[3], comparable[4]];
    let res = guard(|| integrals(law, c, need)).flatten();
    let (v, e, cert) = match res {
        Some(r) => r,
        None => {
            SKIPPED.fetch_add(comparable.iter().filter(|b| **b).count() as u64, Ordering::Relaxed);
            return out;
        }
    };
    let unit = if law.kind() == Kind::Cont { "integral of pdf" } else if law.kind() == Kind::Lattice { "sum of pmf" } else { "sum over cdf jumps" };
    // density's own moments (literal: ∫x f, ∫(x-μ)² f, ∫(x-μ)³ f / σ³, -∫ f ln f)
    let mean_i = c * v[0] + v[1];
    let e_mean = c.abs() * e[0] + e[1];
    let d = mean_i - c;
    let var_i = v[2] - 2.0 * d * v[1] + d * d * v[0];
    let e_var = e[2] + 2.0 * d.abs() * e[1] + d * d * e[0] + 2.0 * e_mean * (v[1].abs() + d.abs() * v[0].abs());
    let m3_i = v[3] - 3.0 * d * v[2] + 3.0 * d * d * v[1] - d * d * d * v[0];
    let e_m3 = e[3] + 3.0 * d.abs() * e[2] + 3.0 * d * d * e[1] + d.abs().powi(3) * e[0] + 3.0 * e_mean * (v[2].abs() + 2.0 * d.abs() * v[1].abs() + d * d);
    let sd_i = var_i.max(0.0).sqrt();
    let dens_val = [mean_i, var_i, sd_i, m3_i / (sd_i * sd_i * sd_i), v[4]];
    let dens_err = [
        e_mean,
        e_var,
        if sd_i > 0.0 { e_var / (2.0 * sd_i) } else { f64::INFINITY },
        if sd_i > 0.0 { e_m3 / (sd_i * sd_i * sd_i) + 1.5 * (m3_i / (sd_i * sd_i * sd_i)).abs() * e_var / var_i } else { f64::INFINITY },
        e[4],
    ];
    if std::env::var("C07_DUMP").is_ok() {
        eprintln!("DUMP {} v={:?} e={:?} cert={} dens_val={:?} dens_err={:?} reported={:?}", fam, v, e, cert, dens_val, dens_err, m);
    }
    for i in 0..5 {
        if !comparable[i] {
            continue;
        }
        let r = val(i).unwrap();
        let (iv, ie) = (dens_val[i], dens_err[i]);
        // documented approximations
        let extra = match (fam, MOM[i]) {
            ("Poisson", "entropy") => match args.get(0) {
                Some(Arg::F(l)) => 19.0 / (360.0 * l * l * l),
                _ => 0.0,
            },
            ("Gumbel", "skewness") => 5e-6,
            _ => 0.0,
        };
        if (i == 2 || i == 3) && !(var_i > 0.0) {
            // degenerate law: the standardised moment is 0/0, nothing to compare
            SKIPPED.fetch_add(1, Ordering::Relaxed);
            continue;
        }
        if !iv.is_finite() || !ie.is_finite() {
            SKIPPED.fetch_add(1, Ordering::Relaxed);
            continue;
        }
        let t = tol(iv, extra);
        let diff = (r - iv).abs();
        if cert && 10.0 * ie <= t && diff - 10.0 * ie > t {
            JUDGED.fetch_add(1, Ordering::Relaxed);
            let what = format!("reported {} differs from the {} by more than the tolerance", MOM[i], unit);
            let masstag = if (v[0] - 1.0).abs() > 1e-10 { " (total mass != 1)" } else { "" };
            push!(MOM[i], &format!("!= {}{}", unit, masstag), &what, format!("reported {} ; {} = {} (quadrature error <= {:e})", hx(r), unit, hx(iv), ie), &format!("|reported - {}| <= max(1e-6 relative, 1e-9{})", unit, if extra > 0.0 { format!(", documented truncation {:e}", extra) } else { String::new() }));
        } else if cert && 10.0 * ie <= t {
            if std::env::var("C07_STATS").is_ok() {
                eprintln!("OK {} {} r={:e} iv={:e} ie={:e} t={:e}", fam, MOM[i], r, iv, ie, t);
            }
            JUDGED.fetch_add(1, Ordering::Relaxed);
        } else {
            if std::env::var("C07_STATS").is_ok() {
                eprintln!("SKIP {} {} {:?} cert={} iv={:e} ie={:e} t={:e}", fam, MOM[i], args.iter().map(|a| a.render()).collect::<Vec<_>>(), cert, iv, ie, t);
            }
            SKIPPED.fetch_add(1, Ordering::Relaxed);
        }
    }
    out
}

// ---------------------------------------------------------------------------------------------
// generators
// ---------------------------------------------------------------------------------------------
fn special_tuples(fam: &str, r: &mut crate::rng::Sm) -> Vec<Vec<Arg>> {
    let nb = |x: f64| vec![next_down(x), x, next_up(x)];
    let mut v: Vec<Vec<Arg>> = vec![];
    match fam {
        "StudentsT" => {
            for t in [1.0, 2.0, 3.0] {
                for dof in nb(t) {
                    v.push(vec![Arg::F(0.0), Arg::F(1.0), Arg::F(dof)]);
                    v.push(vec![Arg::F(r.range(-100.0, 100.0)), Arg::F(r.log_range(1e-2, 1e2)), Arg::F(dof)]);
                }
            }
            for dof in [0.5, 1.5, 2.5, 3.5, 4.0, f64::INFINITY] {
                v.push(vec![Arg::F(0.0), Arg::F(1.0), Arg::F(dof)]);
            }
        }
        "FisherSnedecor" => {
            for t in [2.0, 4.0, 6.0] {
                for d2 in nb(t) {
                    v.push(vec![Arg::F(1.0), Arg::F(d2)]);
                    v.push(vec![Arg::F(r.log_range(0.5, 200.0)), Arg::F(d2)]);
                }
            }
            for d2 in [1.0, 3.0, 5.0, 7.0, 8.0] {
                v.push(vec![Arg::F(3.0), Arg::F(d2)]);
            }
        }
        "Pareto" => {
            for t in [1.0, 2.0, 3.0] {
                for sh in nb(t) {
                    v.push(vec![Arg::F(1.0), Arg::F(sh)]);
                    v.push(vec![Arg::F(r.log_range(1e-2, 1e2)), Arg::F(sh)]);
                }
            }
            for sh in [0.5, 1.5, 2.5, 3.5, 4.0] {
                v.push(vec![Arg::F(1.0), Arg::F(sh)]);
            }
        }
        "InverseGamma" => {
            for t in [1.0, 2.0, 3.0] {
                for sh in nb(t) {
                    v.push(vec![Arg::F(sh), Arg::F(1.0)]);
                    v.push(vec![Arg::F(sh), Arg::F(r.log_range(1e-2, 1e2))]);
                }
            }
            for sh in [0.5, 1.5, 2.5, 3.5, 4.0] {
                v.push(vec![Arg::F(sh), Arg::F(1.0)]);
            }
        }
        "Bernoulli" => {
            for p in [0.0, 1.0, 0.5, next_down(1.0), 5e-324] {
                v.push(vec![Arg::F(p)]);
            }
        }
        "Binomial" => {
            for p in [0.0, 1.0, 0.5, 0.3, next_down(1.0)] {
                for n in [0i128, 1, 5] {
                    v.push(vec![Arg::F(p), Arg::I(n)]);
                }
            }
        }
        "Geometric" => {
            for p in [1.0, next_down(1.0), 0.5] {
                v.push(vec![Arg::F(p)]);
            }
        }
        "NegativeBinomial" => {
            for rr in [1.0, 2.5] {
                for p in [1.0, next_down(1.0), 0.5] {
                    v.push(vec![Arg::F(rr), Arg::F(p)]);
                }
            }
        }
        "Hypergeometric" => {
            for t in [[0i128, 0, 0], [1, 0, 0], [1, 1, 1], [2, 1, 1], [5, 0, 3], [5, 5, 2], [5, 2, 0], [5, 2, 5], [3, 1, 2]] {
                v.push(t.iter().map(|x| Arg::I(*x)).collect());
            }
        }
        "Chi" => {
            for k in [1i128, 2, 299, 300, 301, 350] {
                v.push(vec![Arg::I(k)]);
            }
        }
        "Poisson" => {
            for l in [0.1, 1.0, 5.0, 50.0] {
                v.push(vec![Arg::F(l)]);
            }
        }
        "DiscreteUniform" => {
            v.push(vec![Arg::I(3), Arg::I(3)]);
        }
        _ => {}
    }
    v
}

fn vector_laws(cx: &mut Ctx, n: usize) -> Vec<(String, Vec<Arg>)> {
    let mut v = vec![];
    for _ in 0..n {
        let len = 1 + cx.r.below(6) as usize;
        let pm: Vec<f64> = (0..len).map(|_| if cx.r.below(5) == 0 { 0.0 } else { cx.r.log_range(1e-2, 10.0) }).collect();
        if pm.iter().sum::<f64>() > 0.0 {
            v.push(("Categorical".to_string(), vec![Arg::FL(pm)]));
        }
        let len = 1 + cx.r.below(8) as usize;
        let mut data: Vec<f64> = (0..len).map(|_| (cx.r.range(-10.0, 10.0) * 4.0).round() / 4.0).collect();
        if cx.r.below(3) == 0 && len > 1 {
            data[0] = data[1]; // a tie
        }
        v.push(("Empirical".to_string(), vec![Arg::FL(data)]));
    }
    // mass at large indices with a small spread (mean^2 / variance ~ 1e9): a variance computed as E[X^2] - E[X]^2 cancels
    {
        let mut far = vec![0.0; 50_000];
        far[49_997] = 1.0;
        far[49_998] = 3.0;
        far[49_999] = 2.0;
        v.push(("Categorical".to_string(), vec![Arg::FL(far)]));
        let mut bump = vec![0.0; 40_000];
        for (k, w) in [1.0, 4.0, 6.0, 4.0, 1.0].iter().enumerate() {
            bump[31_000 + k] = *w;
        }
        v.push(("Categorical".to_string(), vec![Arg::FL(bump)]));
    }
    v.push(("Categorical".to_string(), vec![Arg::FL(vec![1.0])]));
    v.push(("Categorical".to_string(), vec![Arg::FL(vec![0.0, 2.0])]));
    v.push(("Empirical".to_string(), vec![Arg::FL(vec![1.5])]));
    v.push(("Empirical".to_string(), vec![Arg::FL(vec![2.0, 2.0])]));
    v
}

/// `ptags` plus a class for probabilities within 1e-9 of 1 (cancellation in 1-p is a different failure)
fn ptags2(t: &[Arg], names: &[String]) -> String {
    let mut s = ptags(t, names);
    for (a, n) in t.iter().zip(names.iter()) {
        if let Arg::F(x) = a {
            if n == "p" && *x < 1.0 && *x > 1.0 - 1e-9 {
                s.push_str(" [p~1]");
            }
        }
    }
    s
}

fn case_json(fam: &str, args: &[Arg], moment: &str) -> Value {
    json!({"fam": fam, "args": args.iter().map(|a| a.render()).collect::<Vec<_>>(), "moment": moment})
}

fn report(cx: &mut Ctx, fam: &str, args: &[Arg], fs: Vec<Finding>) {
    for f in fs {
        cx.violation(&f.site, &f.what, case_json(fam, args, &f.moment), f.observed, &f.required);
    }
}

pub fn run(cx: &mut Ctx) {
    let n_t = if cx.thorough { 400 } else { 30 };
    let mut fams = cx.families("mean");
    fams.sort_by(|a, b| a.0.cmp(&b.0));
    fams.dedup_by(|a, b| a.0 == b.0);
    for (fam, ct, cn, _) in fams {
        let mut tuples: Vec<(Vec<Arg>, bool)> = special_tuples(&fam, &mut cx.r).into_iter().map(|t| (t, false)).collect();
        tuples.extend(tuples_ext(cx, &fam, &ct, &cn, n_t));
        for (t, ext) in tuples {
            cx.evals += 1;
            let tag = ptags2(&t, &cn);
            let fs = check_law(&fam, &t, &tag, ext);
            report(cx, &fam, &t, fs);
        }
    }
    for (fam, t) in vector_laws(cx, if cx.thorough { 1000 } else { 60 }) {
        cx.evals += 1;
        let tag = match (&fam[..], &t[0]) {
            ("Empirical", Arg::FL(v)) if v.len() == 1 => " @n=1",
            _ => "",
        };
        let fs = check_law(&fam, &t, tag, false);
        report(cx, &fam, &t, fs);
    }
    if std::env::var("C07_STATS").is_ok() {
        eprintln!("C07 judged={} skipped={}", JUDGED.load(Ordering::Relaxed), SKIPPED.load(Ordering::Relaxed));
    }
}

pub fn replay(case: &Value) -> String {
    let fam = case["fam"].as_str().unwrap_or("");
    let args: Vec<Arg> = case["args"].as_array().map(|a| a.iter().filter_map(|s| s.as_str().and_then(parse_arg)).collect()).unwrap_or_default();
    let moment = case["moment"].as_str().unwrap_or("");
    let law = match build(fam, &args) {
        Some(l) => l,
        None => return format!("observed: {}::new failed / required: a constructed distribution", fam),
    };
    let m = law.moments();
    let idx = MOM.iter().position(|x| *x == moment).unwrap_or(0);
    let fs = check_law(fam, &args, "", false);
    let mine: Vec<&Finding> = fs.iter().filter(|f| f.moment == moment).collect();
    if mine.is_empty() {
        format!("observed: {}::{} = {:?} — consistent with its own density / required: (no violation on replay)", fam, moment, m[idx])
    } else {
        mine.iter().map(|f| format!("[{}] observed: {} / required: {}", f.site, f.observed, f.required)).collect::<Vec<_>>().join(" ;; ")
    }
}
