//! C08 — median, mode, min and max locate the same distribution as cdf and pdf.
//!
//! For every univariate family x constructed parameter tuple:
//!   * median(): two-sided test  cdf(m) >= 0.5 - 1e-9  and  cdf(just below m) <= 0.5 + 1e-9
//!     ("just below": the preceding float for continuous families, the preceding lattice point for
//!     discrete ones; a non-integer discrete median m is evaluated at floor(m) on both sides).
//!     Families whose median is a documented approximation (Binomial floor(np), Poisson
//!     floor(lambda+1/3-0.02/lambda), ChiSquared Wilson–Hilferty / k-2/3): Q(0.4) <= m <= Q(0.6),
//!     evaluated on the implementation's cdf.
//!   * mode(): no generated argument of C03 (quantile grid, end points, special values, random
//!     values), no point of a local scan mode ± IQR*2^-j (j = 0..40) and, for discrete families, no
//!     lattice point of the support window has a density exceeding (by more than 1e-9 relative) the
//!     largest density in a small neighbourhood of mode() (mode, its float neighbours, mode*(1±1e-9);
//!     lattice: floor(mode) ..= ceil(mode)); mode() is not NaN and lies in [min,max].
//!   * min()/max(): density and cdf are exactly 0 below min, density 0 and cdf 1 above max and
//!     cdf(max) = 1; tightness for finite end points: just inside the 1e-6 / 1e-30 / 1e-100 lower
//!     quantiles (1-1e-6 / 1-1e-12 upper) located on the implementation's cdf there is still
//!     positive density or 0 < cdf < 1; discrete: pmf(min) > 0 and pmf(max) > 0 unless the mass
//!     merely underflowed (ln_pmf finite).  Tightness of infinite end points is not checkable in
//!     floating point and is not asserted.
//! Uses the typed layer of `crate::search_c03` and `true_quantile` of `crate::search_c05`.
use crate::gen::{next_down, next_up};
use crate::search::{fmt, Ctx};
use crate::search_c03::{all_tuples, case_of, catch, corner, ji, jf, pool_c, pool_d, quantile_grid, tup_of_case, vf, vi, CObj, DObj, Findings, Obj, Out, Tup};
use crate::search_c05::true_quantile;
use serde_json::Value;
use std::sync::Arc;

pub fn approx_median(fam: &str) -> bool {
    matches!(fam, "Binomial" | "Poisson" | "ChiSquared")
}

type Fail = (String, String, &'static str); // (kind, observed, required)

const REQ_MED: &str = "cdf(median) >= 0.5 - 1e-9 and cdf(just below median) <= 0.5 + 1e-9";
const REQ_BAND: &str = "Q(0.4) <= median <= Q(0.6) for documented approximations";
const REQ_MODE: &str = "pdf/pmf attains its supremum over the support in a small neighbourhood of mode()";
const REQ_MIN: &str = "min()/max() are the tightest bounds of {density > 0}; cdf = 0 below min, = 1 from max on";

// ------------------------------------------------------------------------------------------------
// median
// ------------------------------------------------------------------------------------------------

fn median_c(fam: &str, o: &Arc<dyn CObj>) -> Option<Fail> {
    let m = match catch(|| o.median()) {
        Out::Ok(Some(m)) => m,
        Out::Ok(None) => return None,
        _ => return Some(("median panic".into(), "median() panicked".into(), REQ_MED)),
    };
    if m.is_nan() {
        return Some(("median NaN".into(), fmt(m), REQ_MED));
    }
    let at = catch(|| o.cdf(m)).ok()?;
    let below = catch(|| o.cdf(next_down(m))).ok()?;
    if at.is_nan() || below.is_nan() {
        return None;
    }
    if approx_median(fam) {
        if at < 0.4 || below > 0.6 {
            // sub-class by how far off the approximation is, so that a recorded finding in one class does not hide another
            let how = if at == 0.0 { "cdf(median)=0" } else if at < 0.2 { "cdf(median)<0.2" } else if at < 0.4 { "cdf(median) in [0.2,0.4)" } else if below >= 1.0 { "cdf(median-)=1" } else { "cdf(median-)>0.6" };
            return Some((format!("median outside the 40%-60% quantile band [{}]", how), format!("median={} cdf(median)={:e}", fmt(m), at), REQ_BAND));
        }
        return None;
    }
    if at < 0.5 - 1e-9 {
        return Some(("median below the 0.5-quantile".into(), format!("median={} cdf(median)={} (0.5-cdf={:e})", fmt(m), fmt(at), 0.5 - at), REQ_MED));
    }
    if below > 0.5 + 1e-9 {
        return Some(("median above the 0.5-quantile".into(), format!("median={} cdf(just below)={} (cdf-0.5={:e})", fmt(m), fmt(below), below - 0.5), REQ_MED));
    }
    None
}

fn cdf_d(o: &Arc<dyn DObj>, k: i128) -> Option<f64> {
    if k < o.tlo() {
        Some(0.0)
    } else if k > o.thi() {
        Some(1.0)
    } else {
        catch(|| o.cdf(k)).ok()
    }
}

fn median_d(fam: &str, o: &Arc<dyn DObj>) -> Option<Fail> {
    let m = match catch(|| o.median()) {
        Out::Ok(Some(m)) => m,
        Out::Ok(None) => return None,
        _ => return Some(("median panic".into(), "median() panicked".into(), REQ_MED)),
    };
    if m.is_nan() || m.is_infinite() {
        return Some(("median NaN".into(), fmt(m), REQ_MED));
    }
    let fl = m.floor() as i128;
    let ce = m.ceil() as i128;
    let at = cdf_d(o, fl)?;
    let below = cdf_d(o, ce - 1)?;
    if at.is_nan() || below.is_nan() {
        return None;
    }
    if approx_median(fam) {
        // Q(0.4) <= m  <=>  cdf(floor m) >= 0.4 ;  m <= Q(0.6)  <=>  cdf(ceil m - 1) < 0.6
        if at < 0.4 || below >= 0.6 {
            return Some(("median outside the 40%-60% quantile band".into(), format!("median={:e} cdf(median)={:e} cdf(median-1)={:e}", m, at, below), REQ_BAND));
        }
        return None;
    }
    if at < 0.5 - 1e-9 {
        return Some(("median below the 0.5-quantile".into(), format!("median={:e} cdf(floor median)={} (0.5-cdf={:e})", m, fmt(at), 0.5 - at), REQ_MED));
    }
    if below > 0.5 + 1e-9 {
        return Some(("median above the 0.5-quantile".into(), format!("median={:e} cdf(just below)={} (cdf-0.5={:e})", m, fmt(below), below - 0.5), REQ_MED));
    }
    None
}

// ------------------------------------------------------------------------------------------------
// mode
// ------------------------------------------------------------------------------------------------

fn pdf_of(o: &Arc<dyn CObj>, x: f64) -> f64 {
    match catch(|| o.pdf(x)) {
        Out::Ok(Some(p)) => p,
        _ => f64::NAN,
    }
}

/// largest density in the small neighbourhood of the claimed mode
fn mode_level_c(o: &Arc<dyn CObj>, m: f64) -> f64 {
    let mut best = f64::NEG_INFINITY;
    for x in [m, next_up(m), next_down(m), m * (1.0 + 1e-9), m * (1.0 - 1e-9), m + 1e-300, m - 1e-300] {
        let p = pdf_of(o, x);
        if !p.is_nan() && p > best {
            best = p;
        }
    }
    best
}

/// the claimed mode, or a failure about mode() itself; Ok(None): nothing to check
fn mode_value_c(o: &Arc<dyn CObj>) -> Result<Option<f64>, Fail> {
    let m = match catch(|| o.mode()) {
        Out::Ok(Some(Some(m))) => m,
        Out::Ok(_) => return Ok(None),
        _ => return Err(("mode panic".into(), "mode() panicked".into(), REQ_MODE)),
    };
    if m.is_nan() {
        return Err(("mode NaN".into(), fmt(m), REQ_MODE));
    }
    let (mn, mx) = match (catch(|| o.min()), catch(|| o.max())) {
        (Out::Ok(a), Out::Ok(b)) => (a, b),
        _ => return Ok(None),
    };
    if m < mn || m > mx {
        return Err(("mode outside [min,max]".into(), format!("mode={} min={} max={}", fmt(m), fmt(mn), fmt(mx)), REQ_MODE));
    }
    Ok(Some(m))
}

/// comparison of one argument with the mode level
fn mode_at_c(o: &Arc<dyn CObj>, x: f64) -> Option<Fail> {
    let m = match mode_value_c(o) {
        Ok(Some(m)) => m,
        _ => return None,
    };
    let level = mode_level_c(o, m);
    let p = pdf_of(o, x);
    if !p.is_finite() || level == f64::NEG_INFINITY {
        return None; // non-finite densities are C03's findings
    }
    if p > level * (1.0 + 1e-9) && p > level + f64::MIN_POSITIVE {
        let z = if level == 0.0 { " @pdf(mode)=0" } else { "" };
        return Some((format!("mode not a maximum of pdf{}", z), format!("mode={} pdf near mode={:e} but pdf({})={:e}", fmt(m), level, fmt(x), p), REQ_MODE));
    }
    None
}

fn pmf_of(o: &Arc<dyn DObj>, k: i128) -> f64 {
    if k < o.tlo() || k > o.thi() {
        return 0.0;
    }
    catch(|| o.pmf(k)).ok().unwrap_or(f64::NAN)
}
fn mode_value_d(o: &Arc<dyn DObj>) -> Result<Option<f64>, Fail> {
    let m = match catch(|| o.mode()) {
        Out::Ok(Some(Some(m))) => m,
        Out::Ok(_) => return Ok(None),
        _ => return Err(("mode panic".into(), "mode() panicked".into(), REQ_MODE)),
    };
    if m.is_nan() || m.is_infinite() {
        return Err(("mode NaN".into(), fmt(m), REQ_MODE));
    }
    let (mn, mx) = match (catch(|| o.min()), catch(|| o.max())) {
        (Out::Ok(a), Out::Ok(b)) => (a, b),
        _ => return Ok(None),
    };
    if (m.ceil() as i128) < mn || (m.floor() as i128) > mx {
        return Err(("mode outside [min,max]".into(), format!("mode={:e} min={} max={}", m, mn, mx), REQ_MODE));
    }
    Ok(Some(m))
}
fn mode_level_d(o: &Arc<dyn DObj>, m: f64) -> f64 {
    let mut best = f64::NEG_INFINITY;
    // lattice families: the claimed mode itself (an adjacent lattice point is a different point of the support,
    // not an end-point convention; exact ties such as Poisson(λ ∈ ℕ) at λ and λ−1 have equal mass and pass)
    for k in (m.floor() as i128)..=(m.ceil() as i128) {
        let p = pmf_of(o, k);
        if !p.is_nan() && p > best {
            best = p;
        }
    }
    best
}
fn mode_at_d(o: &Arc<dyn DObj>, k: i128) -> Option<Fail> {
    let m = match mode_value_d(o) {
        Ok(Some(m)) => m,
        _ => return None,
    };
    let level = mode_level_d(o, m);
    let p = pmf_of(o, k);
    if !p.is_finite() || level == f64::NEG_INFINITY {
        return None;
    }
    if p > level * (1.0 + 1e-9) && p > level + f64::MIN_POSITIVE {
        let far = if k >= (1i128 << 31) {
            " @k>=2^31"
        } else if level == 0.0 {
            " @pmf(mode)=0"
        } else {
            ""
        };
        return Some((format!("mode not a maximum of pmf{}", far), format!("mode={:e} pmf near mode={:e} but pmf({})={:e}", m, level, k, p), REQ_MODE));
    }
    None
}

// ------------------------------------------------------------------------------------------------
// min / max
// ------------------------------------------------------------------------------------------------

/// guard side of min/max at one argument x outside [min,max] (or x = max)
fn bounds_at_c(o: &Arc<dyn CObj>, x: f64) -> Option<Fail> {
    let (mn, mx) = (catch(|| o.min()).ok()?, catch(|| o.max()).ok()?);
    if mn.is_nan() || mx.is_nan() || mn > mx {
        return Some(("min/max invalid".into(), format!("min={} max={}", fmt(mn), fmt(mx)), REQ_MIN));
    }
    let c = catch(|| o.cdf(x)).ok()?;
    let p = match catch(|| o.pdf(x)) {
        Out::Ok(Some(p)) => Some(p),
        _ => None,
    };
    if x < mn {
        if c != 0.0 && !c.is_nan() {
            return Some(("cdf > 0 below min".into(), format!("min={} cdf({})={}", fmt(mn), fmt(x), fmt(c)), REQ_MIN));
        }
        if let Some(p) = p {
            if p != 0.0 && !p.is_nan() {
                return Some(("pdf > 0 below min".into(), format!("min={} pdf({})={}", fmt(mn), fmt(x), fmt(p)), REQ_MIN));
            }
        }
    }
    if x >= mx && c != 1.0 && !c.is_nan() {
        return Some(("cdf < 1 at/above max".into(), format!("max={} cdf({})={}", fmt(mx), fmt(x), fmt(c)), REQ_MIN));
    }
    if x > mx {
        if let Some(p) = p {
            if p != 0.0 && !p.is_nan() {
                return Some(("pdf > 0 above max".into(), format!("max={} pdf({})={}", fmt(mx), fmt(x), fmt(p)), REQ_MIN));
            }
        }
    }
    None
}

/// tightness of finite end points
fn tight_c(o: &Arc<dyn CObj>) -> Option<Fail> {
    let (mn, mx) = (catch(|| o.min()).ok()?, catch(|| o.max()).ok()?);
    let o2 = o.clone();
    let cdf = move |x: f64| catch(|| o2.cdf(x)).ok().unwrap_or(f64::NAN);
    let alive = |x: f64| -> Option<bool> {
        let c = catch(|| o.cdf(x)).ok()?;
        let p = match catch(|| o.pdf(x)) {
            Out::Ok(Some(p)) => p,
            _ => 0.0,
        };
        if c.is_nan() || p.is_nan() {
            return None;
        }
        // a density that has merely underflowed (very concentrated laws: LogNormal(0, 2e-4) at 0.989 is 50 sigma out)
        // is still positive mathematically: the log-density, where the family has one, decides
        let l = match catch(|| o.ln_pdf(x)) {
            Out::Ok(Some(l)) => l,
            _ => f64::NEG_INFINITY,
        };
        Some(p > 0.0 || (c > 0.0 && c < 1.0) || (l.is_finite()))
    };
    if mn.is_finite() {
        for p in [1e-6, 1e-30, 1e-100] {
            let q = match catch(|| true_quantile(&cdf, p)) {
                Out::Ok(Some(q)) => q,
                _ => continue,
            };
            if !(q.is_finite() && q > mn) {
                continue;
            }
            let x = mn + (q - mn) * 0.99;
            if !(x > mn && x < q) {
                continue;
            }
            if alive(x) == Some(false) {
                return Some(("min not tight".into(), format!("min={} but no density and cdf = 0 at x={} just inside the {:e}-quantile {}", fmt(mn), fmt(x), p, fmt(q)), REQ_MIN));
            }
        }
    }
    if mx.is_finite() {
        for p in [1e-6, 1e-12] {
            let u = match catch(|| true_quantile(&cdf, 1.0 - p)) {
                Out::Ok(Some(u)) => u,
                _ => continue,
            };
            if !(u.is_finite() && u < mx) {
                continue;
            }
            // u is the smallest x with cdf >= 1-p; a point just above it is still inside a tight support
            let x = mx - (mx - u) * 0.99;
            if !(x > u && x < mx) {
                continue;
            }
            if alive(x) == Some(false) {
                return Some(("max not tight".into(), format!("max={} but no density and cdf = 1 at x={} just beyond the {:e}-quantile {}", fmt(mx), fmt(x), 1.0 - p, fmt(u)), REQ_MIN));
            }
        }
    }
    None
}

fn bounds_at_d(o: &Arc<dyn DObj>, k: i128) -> Option<Fail> {
    let (mn, mx) = (catch(|| o.min()).ok()?, catch(|| o.max()).ok()?);
    if mn > mx {
        return Some(("min/max invalid".into(), format!("min={} max={}", mn, mx), REQ_MIN));
    }
    let c = catch(|| o.cdf(k)).ok()?;
    let p = catch(|| o.pmf(k)).ok()?;
    if k < mn {
        if c != 0.0 && !c.is_nan() {
            return Some(("cdf > 0 below min".into(), format!("min={} cdf({})={}", mn, k, fmt(c)), REQ_MIN));
        }
        if p != 0.0 && !p.is_nan() {
            return Some(("pmf > 0 below min".into(), format!("min={} pmf({})={}", mn, k, fmt(p)), REQ_MIN));
        }
    }
    if k >= mx && c != 1.0 && !c.is_nan() {
        return Some(("cdf < 1 at/above max".into(), format!("max={} cdf({})={}", mx, k, fmt(c)), REQ_MIN));
    }
    if k > mx && p != 0.0 && !p.is_nan() {
        return Some(("pmf > 0 above max".into(), format!("max={} pmf({})={}", mx, k, fmt(p)), REQ_MIN));
    }
    None
}

fn tight_d(o: &Arc<dyn DObj>) -> Option<Fail> {
    let (mn, mx) = (catch(|| o.min()).ok()?, catch(|| o.max()).ok()?);
    let dead = |k: i128| -> bool {
        let p = catch(|| o.pmf(k));
        let l = catch(|| o.ln_pmf(k));
        // zero mass according to both forms (a finite ln_pmf means the mass merely underflowed)
        matches!(p, Out::Ok(p) if p == 0.0) && !matches!(l, Out::Ok(l) if l.is_finite())
    };
    if dead(mn) {
        return Some(("min not tight".into(), format!("min={} but pmf(min)=0 and ln_pmf(min)={:?}", mn, catch(|| o.ln_pmf(mn))), REQ_MIN));
    }
    if mx < o.thi() && dead(mx) {
        return Some(("max not tight".into(), format!("max={} but pmf(max)=0 and ln_pmf(max)={:?}", mx, catch(|| o.ln_pmf(mx))), REQ_MIN));
    }
    None
}

// ------------------------------------------------------------------------------------------------

fn add(fs: &mut Findings, t: &Tup, chk: &str, what: &str, f: Fail, extra: Option<(&str, Value)>) {
    let mut c = case_of(t, chk);
    if let Some((k, v)) = extra {
        c[k] = v;
    }
    let (kind, obs, req) = f;
    fs.add(format!("{}::{}", t.site(), kind), corner(t), format!("{} {}", t.show(), what), c, obs, req);
}

pub fn run(cx: &mut Ctx) {
    let n = if cx.thorough { 200 } else { 10 };
    let cap: i128 = if cx.thorough { 20000 } else { 3000 };
    let tups = all_tuples(cx, n, &|_| true);
    let mut fs = Findings::new();
    for t in tups {
        match &t.obj {
            Obj::C(o) => {
                cx.evals += 1;
                if let Some(mut f) = median_c(&t.fam, o) {
                    // the band failures of a documented approximation depend on where the parameter lies relative to
                    // the formula's own cut-over: class them by the first parameter as well
                    if f.0.contains("quantile band") {
                        if let Some(crate::proto::Arg::F(k)) = t.ctor.first() {
                            let b = if *k <= 0.3 { "<=0.3" } else if *k <= 0.5 { "(0.3,0.5]" } else if *k <= 1.0 { "(0.5,1]" } else if *k <= 2.0 { "(1,2]" } else { ">2" };
                            f.0 = format!("{} {{{}{}}}", f.0, t.names.first().map(|s| s.as_str()).unwrap_or("p0"), b);
                        }
                    }
                    add(&mut fs, &t, "cmedian", "median()", f, None);
                }
                let grid = quantile_grid(&t, o);
                let xs = pool_c(&mut cx.r, o, grid.as_ref());
                // mode
                match mode_value_c(o) {
                    Err(f) => add(&mut fs, &t, "cmode", "mode()", f, None),
                    Ok(None) => {}
                    Ok(Some(m)) => {
                        let mut pts = xs.clone();
                        let iqr = grid.as_ref().map(|g| g[8] - g[6]).filter(|w| w.is_finite() && *w > 0.0).unwrap_or(m.abs().max(1.0));
                        for j in 0..=40 {
                            let h = iqr * 0.5f64.powi(j);
                            pts.push(m + h);
                            pts.push(m - h);
                        }
                        let (mn, mx) = (catch(|| o.min()).ok().unwrap_or(f64::NEG_INFINITY), catch(|| o.max()).ok().unwrap_or(f64::INFINITY));
                        for x in pts {
                            if !(x >= mn && x <= mx) || x.is_infinite() {
                                continue;
                            }
                            cx.evals += 1;
                            if let Some(f) = mode_at_c(o, x) {
                                add(&mut fs, &t, "cmodeat", &format!("mode() vs pdf({:e})", x), f, Some(("x", jf(x))));
                            }
                        }
                    }
                }
                // min / max
                let (mn, mx) = match (catch(|| o.min()), catch(|| o.max())) {
                    (Out::Ok(a), Out::Ok(b)) => (a, b),
                    _ => {
                        add(&mut fs, &t, "cbounds", "min()/max()", ("min/max panic".into(), "min() or max() panicked".into(), REQ_MIN), Some(("x", jf(0.0))));
                        continue;
                    }
                };
                let mut outside: Vec<f64> = xs.iter().cloned().filter(|x| *x < mn || *x >= mx).collect();
                if mn.is_finite() {
                    outside.extend_from_slice(&[next_down(mn), mn - 1e-9 * mn.abs().max(1.0), mn - 1.0, mn - 1e6]);
                }
                if mx.is_finite() {
                    outside.extend_from_slice(&[mx, next_up(mx), mx + 1e-9 * mx.abs().max(1.0), mx + 1.0, mx + 1e6]);
                }
                for x in outside {
                    cx.evals += 1;
                    if let Some(f) = bounds_at_c(o, x) {
                        add(&mut fs, &t, "cbounds", &format!("min()/max() vs x={:e}", x), f, Some(("x", jf(x))));
                    }
                }
                cx.evals += 1;
                if let Some(f) = tight_c(o) {
                    add(&mut fs, &t, "ctight", "tightness of min()/max()", f, None);
                }
            }
            Obj::D(o) => {
                cx.evals += 1;
                if let Some(f) = median_d(&t.fam, o) {
                    add(&mut fs, &t, "dmedian", "median()", f, None);
                }
                let (ks, _, _) = pool_d(&mut cx.r, o, cap);
                match mode_value_d(o) {
                    Err(f) => add(&mut fs, &t, "dmode", "mode()", f, None),
                    Ok(None) => {}
                    Ok(Some(_)) => {
                        for k in &ks {
                            cx.evals += 1;
                            if let Some(f) = mode_at_d(o, *k) {
                                add(&mut fs, &t, "dmodeat", &format!("mode() vs pmf({})", k), f, Some(("k", ji(*k))));
                            }
                        }
                    }
                }
                let (mn, mx) = match (catch(|| o.min()), catch(|| o.max())) {
                    (Out::Ok(a), Out::Ok(b)) => (a, b),
                    _ => continue,
                };
                for k in ks.iter().filter(|k| **k < mn || **k >= mx) {
                    cx.evals += 1;
                    if let Some(f) = bounds_at_d(o, *k) {
                        add(&mut fs, &t, "dbounds", &format!("min()/max() vs k={}", k), f, Some(("k", ji(*k))));
                    }
                }
                cx.evals += 1;
                if let Some(f) = tight_d(o) {
                    add(&mut fs, &t, "dtight", "tightness of min()/max()", f, None);
                }
            }
        }
    }
    fs.flush(cx);
}

pub fn replay(case: &Value) -> String {
    let t = match tup_of_case(case) {
        Some(t) => t,
        None => return format!("cannot rebuild the distribution of case {}", case),
    };
    let chk = case["chk"].as_str().unwrap_or("");
    let fin = |r: Option<Fail>, dflt: &str| -> String {
        match r {
            Some((kind, obs, req)) => format!("observed {}: {} [{}] / required {}", t.show(), obs, kind, req),
            None => format!("observed {}: statement holds / required {}", t.show(), dflt),
        }
    };
    match (&t.obj, chk) {
        (Obj::C(o), "cmedian") => fin(median_c(&t.fam, o), REQ_MED),
        (Obj::C(o), "cmode") => fin(mode_value_c(o).err(), REQ_MODE),
        (Obj::C(o), "cmodeat") => fin(mode_at_c(o, vf(&case["x"]).unwrap_or(f64::NAN)), REQ_MODE),
        (Obj::C(o), "cbounds") => fin(bounds_at_c(o, vf(&case["x"]).unwrap_or(f64::NAN)), REQ_MIN),
        (Obj::C(o), "ctight") => fin(tight_c(o), REQ_MIN),
        (Obj::D(o), "dmedian") => fin(median_d(&t.fam, o), REQ_MED),
        (Obj::D(o), "dmode") => fin(mode_value_d(o).err(), REQ_MODE),
        (Obj::D(o), "dmodeat") => fin(mode_at_d(o, vi(&case["k"]).unwrap_or(0)), REQ_MODE),
        (Obj::D(o), "dbounds") => fin(bounds_at_d(o, vi(&case["k"]).unwrap_or(0)), REQ_MIN),
        (Obj::D(o), "dtight") => fin(tight_d(o), REQ_MIN),
        _ => format!("unknown C08 case {}", case),
    }
}
