//! C09 — constructors accept exactly the documented parameter domain.
//!
//! For every constructor the documented domain is written down as a list of clauses taken from the
//! `# Errors` section of its doc comment in /repo/src/distribution/*.rs (the sentence is quoted next to each
//! clause).  A tuple is inside the domain iff it violates no clause.  The documented error variant of a clause
//! is the variant of the family's error enum whose doc comment describes that clause (an empty list = the enum
//! documents no variant for it, then any `Err` is accepted).
//! Checked on the FULL cross product of the special-value lattice per parameter, plus seeded random tuples:
//!   * verdict: `Ok` inside the domain, `Err` outside;
//!   * the variant of an `Err` is one of the variants documented for the violated clauses;
//!   * no panic;
//!   * the accessors of an `Ok` value return bit-for-bit the given parameters (normalised probabilities for
//!     Multinomial / Categorical, compared with p_i / Σp to 1e-14 relative).
//! Vector / matrix families: every vector of length 0..3 (quick) / 0..4 (thorough) over the element lattice;
//! matrices: full lattice cross product in dimension 0..1 (quick) / 0..2 (thorough) incl. asymmetric ones,
//! sampled lattice matrices, structured A·Aᵀ matrices, singular and indefinite matrices up to dimension 4;
//! positive-definiteness is decided in exact rational arithmetic (pivots of the symmetric elimination).
use crate::gen::{next_down, next_up, SPECIAL_F};
use crate::search::Ctx;
use nalgebra::{DMatrix, DVector};
use num_rational::BigRational;
use num_traits::{Signed, Zero};
use serde_json::{json, Value};
use statrs::distribution::*;
use statrs::statistics::{Distribution, Mode};
use std::panic::{catch_unwind, AssertUnwindSafe};

const LAT_U: [u64; 4] = [0, 1, 2, u64::MAX];
const LAT_I: [i64; 5] = [i64::MIN, -1, 0, 1, i64::MAX];

#[derive(Clone, Copy, Debug, PartialEq)]
pub enum P {
    F(f64),
    U(u64),
    I(i64),
}
impl P {
    fn f(&self) -> f64 {
        match self {
            P::F(x) => *x,
            P::U(x) => *x as f64,
            P::I(x) => *x as f64,
        }
    }
    fn u(&self) -> u64 {
        match self {
            P::U(x) => *x,
            _ => 0,
        }
    }
    fn i(&self) -> i64 {
        match self {
            P::I(x) => *x,
            _ => 0,
        }
    }
    fn same(&self, o: &P) -> bool {
        match (self, o) {
            (P::F(a), P::F(b)) => a.to_bits() == b.to_bits(),
            (P::U(a), P::U(b)) => a == b,
            (P::I(a), P::I(b)) => a == b,
            _ => false,
        }
    }
    fn show(&self) -> String {
        match self {
            P::F(x) => format!("{:e}", x),
            P::U(x) => format!("{}u", x),
            P::I(x) => format!("{}i", x),
        }
    }
    fn to_json(&self) -> Value {
        match self {
            P::F(x) => json!(format!("f:{:016x}", x.to_bits())),
            P::U(x) => json!(format!("u:{}", x)),
            P::I(x) => json!(format!("i:{}", x)),
        }
    }
    fn from_json(v: &Value) -> Option<P> {
        let s = v.as_str()?;
        let (t, r) = s.split_at(2);
        match t {
            "f:" => u64::from_str_radix(r, 16).ok().map(|b| P::F(f64::from_bits(b))),
            "u:" => r.parse().ok().map(P::U),
            "i:" => r.parse().ok().map(P::I),
            _ => None,
        }
    }
}
fn fclass(x: f64) -> &'static str {
    if x.is_nan() {
        "NaN"
    } else if x == f64::INFINITY {
        "+inf"
    } else if x == f64::NEG_INFINITY {
        "-inf"
    } else if x == 0.0 {
        if x.is_sign_negative() {
            "-0"
        } else {
            "0"
        }
    } else if x.abs() < f64::MIN_POSITIVE {
        "subnormal"
    } else if x.abs() >= 1e300 {
        "huge"
    } else if x < 0.0 {
        "negative"
    } else {
        "positive"
    }
}
fn pclass(p: &P) -> String {
    match p {
        P::F(x) => fclass(*x).to_string(),
        P::U(x) => {
            if *x == 0 {
                "0".into()
            } else if *x >= 1u64 << 53 {
                ">=2^53".into()
            } else {
                "positive".into()
            }
        }
        P::I(x) => {
            if *x == i64::MIN {
                "i64::MIN".into()
            } else if *x == i64::MAX {
                "i64::MAX".into()
            } else {
                "ordinary".into()
            }
        }
    }
}

#[derive(Debug)]
pub enum Out {
    /// accessor values in parameter order (None = no accessor for this parameter)
    Ok(Vec<(&'static str, P)>),
    Err(String),
    Panic,
}
fn vn<E: std::fmt::Debug>(e: &E) -> String {
    crate::proto::variant_name(e)
}

pub struct Clause {
    /// short stable id, part of the site
    id: &'static str,
    /// the sentence of the `# Errors` section this clause is taken from
    quote: &'static str,
    /// true iff the tuple violates the clause (=> documented Err)
    bad: fn(&[P]) -> bool,
    /// variants of the error enum whose doc comment describes this clause
    variants: &'static [&'static str],
    /// true: taken from the `# Errors` section (decides the verdict); false: documented only in the error enum's
    /// variant docs (does not decide the verdict, but explains a returned variant)
    doc: bool,
}
#[derive(Clone, Copy)]
enum K {
    F,
    U,
    I,
}
pub struct Fam {
    name: &'static str,
    names: &'static [&'static str],
    kinds: &'static [K],
    clauses: Vec<Clause>,
    run: fn(&[P]) -> Out,
}

fn nan(x: f64) -> bool {
    x.is_nan()
}
fn inf(x: f64) -> bool {
    x.is_infinite()
}

macro_rules! out {
    ($e:expr, $d:ident => [$(($n:expr, $v:expr)),*]) => {
        match $e {
            Ok($d) => Out::Ok(vec![$(($n, $v)),*]),
            Err(e) => Out::Err(vn(&e)),
        }
    };
}

fn families() -> Vec<Fam> {
    use K::*;
    let mut v: Vec<Fam> = vec![];
    // ---- Bernoulli: "Returns an error if `p` is `NaN`, less than `0.0` or greater than `1.0`"
    v.push(Fam {
        name: "Bernoulli",
        names: &["p"],
        kinds: &[F],
        clauses: vec![
            // BinomialError::ProbabilityInvalid: "The probability is NaN or not in `[0, 1]`."
            Clause { id: "p NaN", quote: "Returns an error if `p` is `NaN`", bad: |p| nan(p[0].f()), variants: &["ProbabilityInvalid"], doc: true },
            Clause { id: "p<0", quote: "… less than `0.0`", bad: |p| p[0].f() < 0.0, variants: &["ProbabilityInvalid"], doc: true },
            Clause { id: "p>1", quote: "… or greater than `1.0`", bad: |p| p[0].f() > 1.0, variants: &["ProbabilityInvalid"], doc: true },
        ],
        run: |p| out!(Bernoulli::new(p[0].f()), d => [("p", P::F(d.p())), ("n", P::U(d.n()))]),
    });
    // ---- Beta: "Returns an error if `shape_a` or `shape_b` are `NaN` or infinite. Also returns an error if `shape_a <= 0.0` or `shape_b <= 0.0`"
    v.push(Fam {
        name: "Beta",
        names: &["shape_a", "shape_b"],
        kinds: &[F, F],
        clauses: vec![
            // BetaError::ShapeAInvalid "Shape A is NaN, infinite, zero or negative." / ShapeBInvalid likewise
            Clause { id: "shape_a NaN/inf", quote: "Returns an error if `shape_a` or `shape_b` are `NaN` or infinite.", bad: |p| nan(p[0].f()) || inf(p[0].f()), variants: &["ShapeAInvalid"], doc: true },
            Clause { id: "shape_b NaN/inf", quote: "Returns an error if `shape_a` or `shape_b` are `NaN` or infinite.", bad: |p| nan(p[1].f()) || inf(p[1].f()), variants: &["ShapeBInvalid"], doc: true },
            Clause { id: "shape_a<=0", quote: "Also returns an error if `shape_a <= 0.0` or `shape_b <= 0.0`", bad: |p| p[0].f() <= 0.0, variants: &["ShapeAInvalid"], doc: true },
            Clause { id: "shape_b<=0", quote: "Also returns an error if `shape_a <= 0.0` or `shape_b <= 0.0`", bad: |p| p[1].f() <= 0.0, variants: &["ShapeBInvalid"], doc: true },
        ],
        run: |p| out!(Beta::new(p[0].f(), p[1].f()), d => [("shape_a", P::F(d.shape_a())), ("shape_b", P::F(d.shape_b()))]),
    });
    // ---- Binomial: "Returns an error if `p` is `NaN`, less than `0.0`, greater than `1.0`, or if `n` is less than `0`"
    v.push(Fam {
        name: "Binomial",
        names: &["p", "n"],
        kinds: &[F, U],
        clauses: vec![
            Clause { id: "p NaN", quote: "Returns an error if `p` is `NaN`", bad: |p| nan(p[0].f()), variants: &["ProbabilityInvalid"], doc: true },
            Clause { id: "p<0", quote: "… less than `0.0`", bad: |p| p[0].f() < 0.0, variants: &["ProbabilityInvalid"], doc: true },
            Clause { id: "p>1", quote: "… greater than `1.0`", bad: |p| p[0].f() > 1.0, variants: &["ProbabilityInvalid"], doc: true },
            // "or if `n` is less than `0`": impossible for u64
        ],
        run: |p| out!(Binomial::new(p[0].f(), p[1].u()), d => [("p", P::F(d.p())), ("n", P::U(d.n()))]),
    });
    // ---- location/scale families with identical wording:
    // Cauchy / Gumbel / Laplace: "Returns an error if location or scale are `NaN` or `scale <= 0.0`"
    fn loc_scale_clauses() -> Vec<Clause> {
        vec![
            // *Error::LocationInvalid "The location is NaN." ; ScaleInvalid "The scale is NaN, zero or less than zero."
            Clause { id: "location NaN", quote: "Returns an error if location or scale are `NaN`", bad: |p| nan(p[0].f()), variants: &["LocationInvalid"], doc: true },
            Clause { id: "scale NaN", quote: "Returns an error if location or scale are `NaN`", bad: |p| nan(p[1].f()), variants: &["ScaleInvalid"], doc: true },
            Clause { id: "scale<=0", quote: "… or `scale <= 0.0`", bad: |p| p[1].f() <= 0.0, variants: &["ScaleInvalid"], doc: true },
        ]
    }
    v.push(Fam { name: "Cauchy", names: &["location", "scale"], kinds: &[F, F], clauses: loc_scale_clauses(), run: |p| out!(Cauchy::new(p[0].f(), p[1].f()), d => [("location", P::F(d.location())), ("scale", P::F(d.scale()))]) });
    v.push(Fam { name: "Gumbel", names: &["location", "scale"], kinds: &[F, F], clauses: loc_scale_clauses(), run: |p| out!(Gumbel::new(p[0].f(), p[1].f()), d => [("location", P::F(d.location())), ("scale", P::F(d.scale()))]) });
    v.push(Fam { name: "Laplace", names: &["location", "scale"], kinds: &[F, F], clauses: loc_scale_clauses(), run: |p| out!(Laplace::new(p[0].f(), p[1].f()), d => [("location", P::F(d.location())), ("scale", P::F(d.scale()))]) });
    // LogNormal: "Returns an error if `location` or `scale` are `NaN`. Returns an error if `scale <= 0.0`"
    v.push(Fam { name: "LogNormal", names: &["location", "scale"], kinds: &[F, F], clauses: loc_scale_clauses(), run: |p| out!(LogNormal::new(p[0].f(), p[1].f()), d => [("location", P::F(d.location())), ("scale", P::F(d.scale()))]) });
    // ---- Normal: "Returns an error if `mean` or `std_dev` are `NaN` or if `std_dev <= 0.0`"
    v.push(Fam {
        name: "Normal",
        names: &["mean", "std_dev"],
        kinds: &[F, F],
        clauses: vec![
            // NormalError::MeanInvalid "The mean is NaN." ; StandardDeviationInvalid "The standard deviation is NaN, zero or less than zero."
            Clause { id: "mean NaN", quote: "Returns an error if `mean` or `std_dev` are `NaN`", bad: |p| nan(p[0].f()), variants: &["MeanInvalid"], doc: true },
            Clause { id: "std_dev NaN", quote: "Returns an error if `mean` or `std_dev` are `NaN`", bad: |p| nan(p[1].f()), variants: &["StandardDeviationInvalid"], doc: true },
            Clause { id: "std_dev<=0", quote: "… or if `std_dev <= 0.0`", bad: |p| p[1].f() <= 0.0, variants: &["StandardDeviationInvalid"], doc: true },
        ],
        // Normal has no dedicated accessors: mean() / std_dev() of the statistics trait are documented as
        // "the same mean / standard deviation used to construct the distribution"
        run: |p| out!(Normal::new(p[0].f(), p[1].f()), d => [("mean", P::F(Distribution::mean(&d).unwrap_or(f64::NAN))), ("std_dev", P::F(Distribution::std_dev(&d).unwrap_or(f64::NAN)))]),
    });
    // ---- Chi: "Returns an error if `freedom` is equal to `0`."
    v.push(Fam {
        name: "Chi",
        names: &["freedom"],
        kinds: &[U],
        // ChiError::FreedomInvalid "The degrees of freedom are zero."
        clauses: vec![Clause { id: "freedom==0", quote: "Returns an error if `freedom` is equal to `0`.", bad: |p| p[0].u() == 0, variants: &["FreedomInvalid"], doc: true }],
        run: |p| out!(Chi::new(p[0].u()), d => [("freedom", P::U(d.freedom()))]),
    });
    // ---- ChiSquared: "Returns an error if `freedom` is `NaN` or less than or equal to `0.0`"  (error type GammaError)
    v.push(Fam {
        name: "ChiSquared",
        names: &["freedom"],
        kinds: &[F],
        clauses: vec![
            // GammaError::ShapeInvalid "The shape is NaN, zero or less than zero." (shape = freedom / 2)
            Clause { id: "freedom NaN", quote: "Returns an error if `freedom` is `NaN`", bad: |p| nan(p[0].f()), variants: &["ShapeInvalid"], doc: true },
            Clause { id: "freedom<=0", quote: "… or less than or equal to `0.0`", bad: |p| p[0].f() <= 0.0, variants: &["ShapeInvalid"], doc: true },
        ],
        run: |p| out!(ChiSquared::new(p[0].f()), d => [("freedom", P::F(d.freedom()))]),
    });
    // ---- Dirac: "Returns an error if `v` is not-a-number."
    v.push(Fam {
        name: "Dirac",
        names: &["v"],
        kinds: &[F],
        // DiracError::ValueInvalid "The value v is NaN."
        clauses: vec![Clause { id: "v NaN", quote: "Returns an error if `v` is not-a-number.", bad: |p| nan(p[0].f()), variants: &["ValueInvalid"], doc: true }],
        run: |p| out!(Dirac::new(p[0].f()), d => [("v", P::F(d.v()))]),
    });
    // ---- DiscreteUniform: "Returns an error if `max < min`"
    v.push(Fam {
        name: "DiscreteUniform",
        names: &["min", "max"],
        kinds: &[I, I],
        // DiscreteUniformError::MinMaxInvalid "The maximum is less than the minimum."
        clauses: vec![Clause { id: "max<min", quote: "Returns an error if `max < min`", bad: |p| p[1].i() < p[0].i(), variants: &["MinMaxInvalid"], doc: true }],
        run: |p| out!(DiscreteUniform::new(p[0].i(), p[1].i()), d => [("min", P::I(d.min())), ("max", P::I(d.max()))]),
    });
    // ---- Erlang: "Returns an error if `shape` or `rate` are `NaN`. Also returns an error if `shape == 0` or `rate <= 0.0`"
    v.push(Fam {
        name: "Erlang",
        names: &["shape", "rate"],
        kinds: &[U, F],
        clauses: vec![
            // GammaError::ShapeInvalid "The shape is NaN, zero or less than zero." ; RateInvalid "The rate is NaN, zero or less than zero."
            Clause { id: "rate NaN", quote: "Returns an error if `shape` or `rate` are `NaN`.", bad: |p| nan(p[1].f()), variants: &["RateInvalid"], doc: true },
            Clause { id: "shape==0", quote: "Also returns an error if `shape == 0`", bad: |p| p[0].u() == 0, variants: &["ShapeInvalid"], doc: true },
            Clause { id: "rate<=0", quote: "… or `rate <= 0.0`", bad: |p| p[1].f() <= 0.0, variants: &["RateInvalid"], doc: true },
        ],
        run: |p| out!(Erlang::new(p[0].u(), p[1].f()), d => [("shape", P::U(d.shape())), ("rate", P::F(d.rate()))]),
    });
    // ---- Exp: "Returns an error if rate is `NaN` or `rate <= 0.0`."
    v.push(Fam {
        name: "Exp",
        names: &["rate"],
        kinds: &[F],
        // ExpError::RateInvalid "The rate is NaN, zero or less than zero."
        clauses: vec![
            Clause { id: "rate NaN", quote: "Returns an error if rate is `NaN`", bad: |p| nan(p[0].f()), variants: &["RateInvalid"], doc: true },
            Clause { id: "rate<=0", quote: "… or `rate <= 0.0`.", bad: |p| p[0].f() <= 0.0, variants: &["RateInvalid"], doc: true },
        ],
        run: |p| out!(Exp::new(p[0].f()), d => [("rate", P::F(d.rate()))]),
    });
    // ---- FisherSnedecor: "Returns an error if `freedom_1` or `freedom_2` are `NaN`. Also returns an error if `freedom_1 <= 0.0` or `freedom_2 <= 0.0`"
    v.push(Fam {
        name: "FisherSnedecor",
        names: &["freedom_1", "freedom_2"],
        kinds: &[F, F],
        clauses: vec![
            // FisherSnedecorError::Freedom1Invalid "`freedom_1` is NaN, infinite, zero or less than zero." ; Freedom2Invalid likewise
            Clause { id: "freedom_1 NaN", quote: "Returns an error if `freedom_1` or `freedom_2` are `NaN`.", bad: |p| nan(p[0].f()), variants: &["Freedom1Invalid"], doc: true },
            Clause { id: "freedom_2 NaN", quote: "Returns an error if `freedom_1` or `freedom_2` are `NaN`.", bad: |p| nan(p[1].f()), variants: &["Freedom2Invalid"], doc: true },
            Clause { id: "freedom_1<=0", quote: "Also returns an error if `freedom_1 <= 0.0` or `freedom_2 <= 0.0`", bad: |p| p[0].f() <= 0.0, variants: &["Freedom1Invalid"], doc: true },
            Clause { id: "freedom_2<=0", quote: "Also returns an error if `freedom_1 <= 0.0` or `freedom_2 <= 0.0`", bad: |p| p[1].f() <= 0.0, variants: &["Freedom2Invalid"], doc: true },
            // only in the enum docs: "`freedom_1` is NaN, infinite, zero or less than zero."
            Clause { id: "freedom_1 infinite", quote: "Freedom1Invalid: \"`freedom_1` is NaN, infinite, zero or less than zero.\"", bad: |p| p[0].f() == f64::INFINITY, variants: &["Freedom1Invalid"], doc: false },
            Clause { id: "freedom_2 infinite", quote: "Freedom2Invalid: \"`freedom_2` is NaN, infinite, zero or less than zero.\"", bad: |p| p[1].f() == f64::INFINITY, variants: &["Freedom2Invalid"], doc: false },
        ],
        run: |p| out!(FisherSnedecor::new(p[0].f(), p[1].f()), d => [("freedom_1", P::F(d.freedom_1())), ("freedom_2", P::F(d.freedom_2()))]),
    });
    // ---- Gamma: "Returns an error if `shape` is 'NaN' or inf or `rate` is `NaN` or inf. Also returns an error if `shape <= 0.0` or `rate <= 0.0`"
    v.push(Fam {
        name: "Gamma",
        names: &["shape", "rate"],
        kinds: &[F, F],
        clauses: vec![
            // GammaError::ShapeInvalid "The shape is NaN, zero or less than zero." ; RateInvalid "The rate is NaN, zero or less than zero." ;
            // ShapeAndRateInfinite "The shape and rate are both infinite."  (no variant documents ONE infinite parameter)
            Clause { id: "shape NaN", quote: "Returns an error if `shape` is 'NaN' or inf", bad: |p| nan(p[0].f()), variants: &["ShapeInvalid"], doc: true },
            Clause { id: "shape inf", quote: "Returns an error if `shape` is 'NaN' or inf", bad: |p| p[0].f() == f64::INFINITY, variants: &["ShapeAndRateInfinite"], doc: true },
            Clause { id: "rate NaN", quote: "… or `rate` is `NaN` or inf.", bad: |p| nan(p[1].f()), variants: &["RateInvalid"], doc: true },
            Clause { id: "rate inf", quote: "… or `rate` is `NaN` or inf.", bad: |p| p[1].f() == f64::INFINITY, variants: &["ShapeAndRateInfinite"], doc: true },
            Clause { id: "shape<=0", quote: "Also returns an error if `shape <= 0.0` or `rate <= 0.0`", bad: |p| p[0].f() <= 0.0, variants: &["ShapeInvalid"], doc: true },
            Clause { id: "rate<=0", quote: "Also returns an error if `shape <= 0.0` or `rate <= 0.0`", bad: |p| p[1].f() <= 0.0, variants: &["RateInvalid"], doc: true },
        ],
        run: |p| out!(Gamma::new(p[0].f(), p[1].f()), d => [("shape", P::F(d.shape())), ("rate", P::F(d.rate()))]),
    });
    // ---- Geometric: "Returns an error if `p` is not in `(0, 1]`"
    v.push(Fam {
        name: "Geometric",
        names: &["p"],
        kinds: &[F],
        // GeometricError::ProbabilityInvalid "The probability is NaN or not in `(0, 1]`."
        clauses: vec![Clause { id: "p not in (0,1]", quote: "Returns an error if `p` is not in `(0, 1]`", bad: |p| !(p[0].f() > 0.0 && p[0].f() <= 1.0), variants: &["ProbabilityInvalid"], doc: true }],
        run: |p| out!(Geometric::new(p[0].f()), d => [("p", P::F(d.p()))]),
    });
    // ---- Hypergeometric: "If `successes > population` or `draws > population`."
    v.push(Fam {
        name: "Hypergeometric",
        names: &["population", "successes", "draws"],
        kinds: &[U, U, U],
        clauses: vec![
            // HypergeometricError::TooManySuccesses "The number of successes is greater than the population." ; TooManyDraws "The number of draws is greater than the population."
            Clause { id: "successes>population", quote: "If `successes > population`", bad: |p| p[1].u() > p[0].u(), variants: &["TooManySuccesses"], doc: true },
            Clause { id: "draws>population", quote: "… or `draws > population`.", bad: |p| p[2].u() > p[0].u(), variants: &["TooManyDraws"], doc: true },
        ],
        run: |p| out!(Hypergeometric::new(p[0].u(), p[1].u(), p[2].u()), d => [("population", P::U(d.population())), ("successes", P::U(d.successes())), ("draws", P::U(d.draws()))]),
    });
    // ---- InverseGamma: "Returns an error if `shape` or `rate` are `NaN`. Also returns an error if `shape` or `rate` are not in `(0, +inf)`"
    v.push(Fam {
        name: "InverseGamma",
        names: &["shape", "rate"],
        kinds: &[F, F],
        clauses: vec![
            // InverseGammaError::ShapeInvalid "The shape is NaN, infinite, zero or less than zero." ; RateInvalid likewise
            Clause { id: "shape NaN", quote: "Returns an error if `shape` or `rate` are `NaN`.", bad: |p| nan(p[0].f()), variants: &["ShapeInvalid"], doc: true },
            Clause { id: "rate NaN", quote: "Returns an error if `shape` or `rate` are `NaN`.", bad: |p| nan(p[1].f()), variants: &["RateInvalid"], doc: true },
            Clause { id: "shape not in (0,+inf)", quote: "Also returns an error if `shape` or `rate` are not in `(0, +inf)`", bad: |p| !(p[0].f() > 0.0 && p[0].f() < f64::INFINITY), variants: &["ShapeInvalid"], doc: true },
            Clause { id: "rate not in (0,+inf)", quote: "Also returns an error if `shape` or `rate` are not in `(0, +inf)`", bad: |p| !(p[1].f() > 0.0 && p[1].f() < f64::INFINITY), variants: &["RateInvalid"], doc: true },
        ],
        run: |p| out!(InverseGamma::new(p[0].f(), p[1].f()), d => [("shape", P::F(d.shape())), ("rate", P::F(d.rate()))]),
    });
    // ---- Levy: "Returns and error if `mu` is NaN or infinite or if `c` is NaN, infinite or nonpositive"
    v.push(Fam {
        name: "Levy",
        names: &["mu", "c"],
        kinds: &[F, F],
        clauses: vec![
            // LevyError::LocationInvalid "Location is NaN or infinite" ; ScaleInvalid "Scale is NaN, infinite or nonpositive"
            Clause { id: "mu NaN/inf", quote: "Returns and error if `mu` is NaN or infinite", bad: |p| !p[0].f().is_finite(), variants: &["LocationInvalid"], doc: true },
            Clause { id: "c NaN/inf/<=0", quote: "… or if `c` is NaN, infinite or nonpositive", bad: |p| !p[1].f().is_finite() || p[1].f() <= 0.0, variants: &["ScaleInvalid"], doc: true },
        ],
        run: |p| out!(Levy::new(p[0].f(), p[1].f()), d => [("mu", P::F(d.mu())), ("c", P::F(d.c()))]),
    });
    // ---- NegativeBinomial: "Returns an error if `p` is `NaN`, less than `0.0`, greater than `1.0`, or if `r` is `NaN` or less than `0`"
    v.push(Fam {
        name: "NegativeBinomial",
        names: &["r", "p"],
        kinds: &[F, F],
        clauses: vec![
            // NegativeBinomialError::RInvalid "`r` is NaN or less than zero." ; PInvalid "`p` is NaN or not in `[0, 1]`."
            Clause { id: "p NaN", quote: "Returns an error if `p` is `NaN`", bad: |p| nan(p[1].f()), variants: &["PInvalid"], doc: true },
            Clause { id: "p<0", quote: "… less than `0.0`", bad: |p| p[1].f() < 0.0, variants: &["PInvalid"], doc: true },
            Clause { id: "p>1", quote: "… greater than `1.0`", bad: |p| p[1].f() > 1.0, variants: &["PInvalid"], doc: true },
            Clause { id: "r NaN", quote: "… or if `r` is `NaN`", bad: |p| nan(p[0].f()), variants: &["RInvalid"], doc: true },
            Clause { id: "r<0", quote: "… or less than `0`", bad: |p| p[0].f() < 0.0, variants: &["RInvalid"], doc: true },
        ],
        run: |p| out!(NegativeBinomial::new(p[0].f(), p[1].f()), d => [("r", P::F(d.r())), ("p", P::F(d.p()))]),
    });
    // ---- Pareto: "Returns an error if any of `scale` or `shape` are `NaN`. Returns an error if `scale <= 0.0` or `shape <= 0.0`"
    v.push(Fam {
        name: "Pareto",
        names: &["scale", "shape"],
        kinds: &[F, F],
        clauses: vec![
            // ParetoError::ScaleInvalid "The scale is NaN, zero or less than zero." ; ShapeInvalid "The shape is NaN, zero or less than zero."
            Clause { id: "scale NaN", quote: "Returns an error if any of `scale` or `shape` are `NaN`.", bad: |p| nan(p[0].f()), variants: &["ScaleInvalid"], doc: true },
            Clause { id: "shape NaN", quote: "Returns an error if any of `scale` or `shape` are `NaN`.", bad: |p| nan(p[1].f()), variants: &["ShapeInvalid"], doc: true },
            Clause { id: "scale<=0", quote: "Returns an error if `scale <= 0.0` or `shape <= 0.0`", bad: |p| p[0].f() <= 0.0, variants: &["ScaleInvalid"], doc: true },
            Clause { id: "shape<=0", quote: "Returns an error if `scale <= 0.0` or `shape <= 0.0`", bad: |p| p[1].f() <= 0.0, variants: &["ShapeInvalid"], doc: true },
        ],
        run: |p| out!(Pareto::new(p[0].f(), p[1].f()), d => [("scale", P::F(d.scale())), ("shape", P::F(d.shape()))]),
    });
    // ---- Poisson: "Returns an error if `lambda` is `NaN` or `lambda <= 0.0`"
    v.push(Fam {
        name: "Poisson",
        names: &["lambda"],
        kinds: &[F],
        // PoissonError::LambdaInvalid "The lambda is NaN, zero or less than zero."
        clauses: vec![
            Clause { id: "lambda NaN", quote: "Returns an error if `lambda` is `NaN`", bad: |p| nan(p[0].f()), variants: &["LambdaInvalid"], doc: true },
            Clause { id: "lambda<=0", quote: "… or `lambda <= 0.0`", bad: |p| p[0].f() <= 0.0, variants: &["LambdaInvalid"], doc: true },
        ],
        run: |p| out!(Poisson::new(p[0].f()), d => [("lambda", P::F(d.lambda()))]),
    });
    // ---- StudentsT: "Returns an error if any of `location`, `scale`, or `freedom` are `NaN`. Returns an error if `scale <= 0.0` or `freedom <= 0.0`."
    v.push(Fam {
        name: "StudentsT",
        names: &["location", "scale", "freedom"],
        kinds: &[F, F, F],
        clauses: vec![
            // StudentsTError::LocationInvalid "The location is NaN." ; ScaleInvalid "The scale is NaN, zero or less than zero." ; FreedomInvalid "The degrees of freedom are NaN, zero or less than zero."
            Clause { id: "location NaN", quote: "Returns an error if any of `location`, `scale`, or `freedom` are `NaN`.", bad: |p| nan(p[0].f()), variants: &["LocationInvalid"], doc: true },
            Clause { id: "scale NaN", quote: "Returns an error if any of `location`, `scale`, or `freedom` are `NaN`.", bad: |p| nan(p[1].f()), variants: &["ScaleInvalid"], doc: true },
            Clause { id: "freedom NaN", quote: "Returns an error if any of `location`, `scale`, or `freedom` are `NaN`.", bad: |p| nan(p[2].f()), variants: &["FreedomInvalid"], doc: true },
            Clause { id: "scale<=0", quote: "Returns an error if `scale <= 0.0` or `freedom <= 0.0`.", bad: |p| p[1].f() <= 0.0, variants: &["ScaleInvalid"], doc: true },
            Clause { id: "freedom<=0", quote: "Returns an error if `scale <= 0.0` or `freedom <= 0.0`.", bad: |p| p[2].f() <= 0.0, variants: &["FreedomInvalid"], doc: true },
        ],
        run: |p| out!(StudentsT::new(p[0].f(), p[1].f(), p[2].f()), d => [("location", P::F(d.location())), ("scale", P::F(d.scale())), ("freedom", P::F(d.freedom()))]),
    });
    // ---- Triangular: "Returns an error if `min`, `max`, or `mode` are `NaN` or `±INF`. Returns an error if `max < mode`, `mode < min`, or `max == min`."
    v.push(Fam {
        name: "Triangular",
        names: &["min", "max", "mode"],
        kinds: &[F, F, F],
        clauses: vec![
            // TriangularError::MinInvalid "The minimum is NaN or infinite." ; MaxInvalid ; ModeInvalid ; ModeOutOfRange "The mode is less than the minimum or greater than the maximum." ; MinEqualsMax "The minimum equals the maximum."
            Clause { id: "min NaN/inf", quote: "Returns an error if `min`, `max`, or `mode` are `NaN` or `±INF`.", bad: |p| !p[0].f().is_finite(), variants: &["MinInvalid"], doc: true },
            Clause { id: "max NaN/inf", quote: "Returns an error if `min`, `max`, or `mode` are `NaN` or `±INF`.", bad: |p| !p[1].f().is_finite(), variants: &["MaxInvalid"], doc: true },
            Clause { id: "mode NaN/inf", quote: "Returns an error if `min`, `max`, or `mode` are `NaN` or `±INF`.", bad: |p| !p[2].f().is_finite(), variants: &["ModeInvalid"], doc: true },
            Clause { id: "max<mode", quote: "Returns an error if `max < mode`", bad: |p| p[1].f() < p[2].f(), variants: &["ModeOutOfRange"], doc: true },
            Clause { id: "mode<min", quote: "… `mode < min`", bad: |p| p[2].f() < p[0].f(), variants: &["ModeOutOfRange"], doc: true },
            Clause { id: "max==min", quote: "… or `max == min`.", bad: |p| p[1].f() == p[0].f(), variants: &["MinEqualsMax"], doc: true },
        ],
        run: |p| out!(Triangular::new(p[0].f(), p[1].f(), p[2].f()), d => [("min", P::F(d.min())), ("max", P::F(d.max())), ("mode", P::F(Mode::mode(&d).unwrap_or(f64::NAN)))]),
    });
    // ---- Uniform: "Returns an error if `min` or `max` are `NaN` or infinite. Returns an error if `min >= max`."
    v.push(Fam {
        name: "Uniform",
        names: &["min", "max"],
        kinds: &[F, F],
        clauses: vec![
            // UniformError::MinInvalid "The minimum is NaN or infinite." ; MaxInvalid ; MaxNotGreaterThanMin "The maximum is not greater than the minimum."
            Clause { id: "min NaN/inf", quote: "Returns an error if `min` or `max` are `NaN` or infinite.", bad: |p| !p[0].f().is_finite(), variants: &["MinInvalid"], doc: true },
            Clause { id: "max NaN/inf", quote: "Returns an error if `min` or `max` are `NaN` or infinite.", bad: |p| !p[1].f().is_finite(), variants: &["MaxInvalid"], doc: true },
            Clause { id: "min>=max", quote: "Returns an error if `min >= max`.", bad: |p| p[0].f() >= p[1].f(), variants: &["MaxNotGreaterThanMin"], doc: true },
        ],
        run: |p| out!(Uniform::new(p[0].f(), p[1].f()), d => [("min", P::F(d.min())), ("max", P::F(d.max()))]),
    });
    // ---- Weibull: "Returns an error if `shape` or `scale` are `NaN`. Returns an error if `shape <= 0.0` or `scale <= 0.0`"
    v.push(Fam {
        name: "Weibull",
        names: &["shape", "scale"],
        kinds: &[F, F],
        clauses: vec![
            // WeibullError::ShapeInvalid "The shape is NaN, zero or less than zero." ; ScaleInvalid "The scale is NaN, zero or less than zero."
            Clause { id: "shape NaN", quote: "Returns an error if `shape` or `scale` are `NaN`.", bad: |p| nan(p[0].f()), variants: &["ShapeInvalid"], doc: true },
            Clause { id: "scale NaN", quote: "Returns an error if `shape` or `scale` are `NaN`.", bad: |p| nan(p[1].f()), variants: &["ScaleInvalid"], doc: true },
            Clause { id: "shape<=0", quote: "Returns an error if `shape <= 0.0` or `scale <= 0.0`", bad: |p| p[0].f() <= 0.0, variants: &["ShapeInvalid"], doc: true },
            Clause { id: "scale<=0", quote: "Returns an error if `shape <= 0.0` or `scale <= 0.0`", bad: |p| p[1].f() <= 0.0, variants: &["ScaleInvalid"], doc: true },
        ],
        run: |p| out!(Weibull::new(p[0].f(), p[1].f()), d => [("shape", P::F(d.shape())), ("scale", P::F(d.scale()))]),
    });
    // ---- Dirichlet::new_with_param(alpha, n): "Returns an error if `alpha < = 0.0` or `alpha` is `NaN`, or if `n < 2`"
    v.push(Fam {
        name: "Dirichlet::new_with_param",
        names: &["alpha", "n"],
        kinds: &[F, U],
        clauses: vec![
            // DirichletError::AlphaTooShort "Alpha contains less than two elements." ; AlphaHasInvalidElements "Alpha contains an element that is NaN, infinite, zero or less than zero."
            Clause { id: "alpha<=0", quote: "Returns an error if `alpha < = 0.0`", bad: |p| p[0].f() <= 0.0, variants: &["AlphaHasInvalidElements"], doc: true },
            Clause { id: "alpha NaN", quote: "… or `alpha` is `NaN`", bad: |p| nan(p[0].f()), variants: &["AlphaHasInvalidElements"], doc: true },
            Clause { id: "n<2", quote: "… or if `n < 2`", bad: |p| p[1].u() < 2, variants: &["AlphaTooShort"], doc: true },
            // only in the enum docs: "Alpha contains an element that is NaN, infinite, zero or less than zero."
            Clause { id: "alpha infinite", quote: "AlphaHasInvalidElements: \"… an element that is NaN, infinite, zero or less than zero.\"", bad: |p| p[0].f() == f64::INFINITY, variants: &["AlphaHasInvalidElements"], doc: false },
        ],
        run: |p| {
            // n is capped: the lattice value u64::MAX would only test the allocator
            let n = p[1].u().min(5) as usize;
            match Dirichlet::new_with_param(p[0].f(), n) {
                Ok(d) => {
                    let a = d.alpha();
                    let all_same = a.len() == n && a.iter().all(|x| x.to_bits() == p[0].f().to_bits());
                    Out::Ok(vec![("alpha", P::F(if all_same { p[0].f() } else { f64::NAN })), ("n", P::U(a.len() as u64))])
                }
                Err(e) => Out::Err(vn(&e)),
            }
        },
    });
    v
}

// ---------------------------------------------------------------------------------------------
// scalar families
// ---------------------------------------------------------------------------------------------
fn lattice(k: K) -> Vec<P> {
    match k {
        K::F => SPECIAL_F.iter().map(|x| P::F(*x)).collect(),
        K::U => LAT_U.iter().map(|x| P::U(*x)).collect(),
        K::I => LAT_I.iter().map(|x| P::I(*x)).collect(),
    }
}
fn random_p(r: &mut crate::rng::Sm, k: K) -> P {
    match k {
        K::F => {
            let x = match r.below(10) {
                0 => *r.pick(&SPECIAL_F),
                1 => next_up(*r.pick(&[0.0, 1.0, -1.0, 0.5, 2.0])),
                2 => next_down(*r.pick(&[0.0, 1.0, -1.0, 0.5, 2.0, f64::INFINITY])),
                3 => f64::from_bits(r.next()),
                4 | 5 => r.unit(),
                6 => -r.log_range(1e-300, 1e300),
                _ => r.log_range(1e-300, 1e300),
            };
            P::F(x)
        }
        K::U => P::U(match r.below(6) {
            0 => *r.pick(&LAT_U),
            1 => r.next(),
            2 => (1u64 << 53) + r.below(1000),
            _ => r.below(1000),
        }),
        K::I => P::I(match r.below(5) {
            0 => *r.pick(&LAT_I),
            1 => r.next() as i64,
            _ => r.below(2000) as i64 - 1000,
        }),
    }
}

fn special_tag(fam: &Fam, p: &[P]) -> String {
    let mut v = vec![];
    for (n, x) in fam.names.iter().zip(p.iter()) {
        let c = pclass(x);
        if matches!(c.as_str(), "+inf" | "-inf" | "subnormal" | ">=2^53" | "i64::MIN" | "i64::MAX") {
            v.push(format!("{}={}", n, c));
        }
    }
    if v.is_empty() {
        String::new()
    } else {
        format!(" @{}", v[0])
    }
}

/// judge one tuple; returns (site, what, observed, required) for every violation
fn judge(fam: &Fam, p: &[P]) -> Vec<(String, String, String, String)> {
    let mut out = vec![];
    let ctor = if fam.name.contains("::") { fam.name.to_string() } else { format!("{}::new", fam.name) };
    let res = match catch_unwind(AssertUnwindSafe(|| (fam.run)(p))) {
        Ok(o) => o,
        Err(_) => Out::Panic,
    };
    let all_violated: Vec<&Clause> = fam.clauses.iter().filter(|c| (c.bad)(p)).collect();
    let violated: Vec<&Clause> = all_violated.iter().cloned().filter(|c| c.doc).collect();
    let enum_only: Vec<&Clause> = all_violated.iter().cloned().filter(|c| !c.doc).collect();
    let shown = p.iter().map(|x| x.show()).collect::<Vec<_>>().join(", ");
    match &res {
        Out::Panic => out.push((format!("{} panic{}", ctor, special_tag(fam, p)), "constructor panicked".into(), format!("panic on ({})", shown), "never panics".into())),
        Out::Ok(acc) => {
            if let Some(c) = violated.first() {
                out.push((
                    format!("{} Ok despite clause `{}`", ctor, c.id),
                    "constructor accepts a tuple outside its documented domain".into(),
                    format!("Ok on ({})", shown),
                    format!("Err — doc: \"{}\"", c.quote),
                ));
            } else {
                for (i, (name, val)) in acc.iter().enumerate() {
                    // accessor i corresponds to parameter i when it carries the parameter's name
                    let given = fam.names.iter().position(|n| n == name).map(|j| p[j]);
                    let given = match (fam.name, *name) {
                        ("Bernoulli", "n") => Some(P::U(1)),
                        ("Dirichlet::new_with_param", "n") => Some(P::U(p[1].u().min(5))),
                        _ => given,
                    };
                    let _ = i;
                    if let Some(g) = given {
                        if !g.same(val) {
                            out.push((
                                format!("{}::{} accessor != given @{}", fam.name, name, pclass(&g)),
                                "accessor of an Ok value does not return the given parameter".into(),
                                format!("constructed from ({}), {}() = {}", shown, name, val.show()),
                                format!("{}() = {} exactly", name, g.show()),
                            ));
                        }
                    }
                }
            }
        }
        Out::Err(var) => {
            if violated.is_empty() {
                let tag = match enum_only.iter().find(|c| c.variants.contains(&var.as_str())) {
                    Some(c) => format!(" (only the error enum documents `{}`)", c.id),
                    None => special_tag(fam, p),
                };
                out.push((
                    format!("{} Err({}) inside documented domain{}", ctor, var, tag),
                    "constructor rejects a tuple inside its documented domain".into(),
                    format!("Err({}) on ({})", var, shown),
                    "Ok — no clause of the `# Errors` section applies".into(),
                ));
            } else {
                let mut allowed: Vec<&str> = vec![];
                let mut undocumented = false;
                for c in &all_violated {
                    if c.variants.is_empty() {
                        undocumented = true;
                    }
                    allowed.extend(c.variants.iter());
                }
                if !undocumented && !allowed.contains(&var.as_str()) {
                    out.push((
                        format!("{} Err({}) but documented variant {:?}", ctor, var, allowed),
                        "constructor returns a different error variant than the documented one".into(),
                        format!("Err({}) on ({})", var, shown),
                        format!("one of {:?} (violated clauses: {})", allowed, violated.iter().map(|c| c.id).collect::<Vec<_>>().join("; ")),
                    ));
                }
            }
        }
    }
    out
}

fn scalar_case(fam: &Fam, p: &[P]) -> Value {
    json!({"kind": "scalar", "fam": fam.name, "params": p.iter().map(|x| x.to_json()).collect::<Vec<_>>()})
}

fn run_scalar(cx: &mut Ctx) {
    let fams = families();
    let n_rand = if cx.thorough { 20000 } else { 1500 };
    for fam in &fams {
        // full cross product of the lattice
        let lats: Vec<Vec<P>> = fam.kinds.iter().map(|k| lattice(*k)).collect();
        let mut idx = vec![0usize; lats.len()];
        loop {
            let p: Vec<P> = idx.iter().enumerate().map(|(i, j)| lats[i][*j]).collect();
            cx.evals += 1;
            for (site, what, obs, req) in judge(fam, &p) {
                cx.violation(&site, &what, scalar_case(fam, &p), obs, &req);
            }
            let mut k = 0;
            loop {
                if k == idx.len() {
                    break;
                }
                idx[k] += 1;
                if idx[k] < lats[k].len() {
                    break;
                }
                idx[k] = 0;
                k += 1;
            }
            if k == idx.len() {
                break;
            }
        }
        for _ in 0..n_rand {
            let p: Vec<P> = fam.kinds.iter().map(|k| random_p(&mut cx.r, *k)).collect();
            cx.evals += 1;
            for (site, what, obs, req) in judge(fam, &p) {
                cx.violation(&site, &what, scalar_case(fam, &p), obs, &req);
            }
        }
    }
    // parameterless constructors: Empirical::new "Note that this will always succeed and never return the Err variant";
    // Normal::standard "mean of 0 and a standard deviation of 1"; Uniform::standard / default "lower bound 0 and an upper bound of 1"
    cx.evals += 4;
    let fixed: Vec<(&str, bool)> = vec![
        ("Empirical::new", catch_unwind(|| Empirical::new().is_ok()).unwrap_or(false)),
        ("Normal::standard", catch_unwind(|| { let d = Normal::standard(); Distribution::mean(&d) == Some(0.0) && Distribution::std_dev(&d) == Some(1.0) }).unwrap_or(false)),
        ("Uniform::standard", catch_unwind(|| { let d = Uniform::standard(); d.min() == 0.0 && d.max() == 1.0 }).unwrap_or(false)),
        ("Uniform::default", catch_unwind(|| { let d = Uniform::default(); d.min() == 0.0 && d.max() == 1.0 }).unwrap_or(false)),
    ];
    for (name, ok) in fixed {
        if !ok {
            cx.violation(&format!("{} wrong", name), "parameterless constructor does not produce the documented distribution", json!({"kind": "fixed", "fam": name}), "mismatch or panic".into(), "documented parameters");
        }
    }
}

// ---------------------------------------------------------------------------------------------
// vector families: Categorical, Multinomial, Dirichlet
// ---------------------------------------------------------------------------------------------
fn fl_json(v: &[f64]) -> Value {
    json!(v.iter().map(|x| format!("{:016x}", x.to_bits())).collect::<Vec<_>>())
}
fn fl_from(v: &Value) -> Vec<f64> {
    v.as_array().map(|a| a.iter().filter_map(|s| s.as_str().and_then(|h| u64::from_str_radix(h, 16).ok()).map(f64::from_bits)).collect()).unwrap_or_default()
}
fn vshow(v: &[f64]) -> String {
    format!("[{}]", v.iter().map(|x| format!("{:e}", x)).collect::<Vec<_>>().join(", "))
}
fn vtag(v: &[f64]) -> String {
    for want in ["NaN", "+inf", "-inf", "huge", "subnormal"] {
        if v.iter().any(|x| fclass(*x) == want) {
            return format!(" @elements {}", want);
        }
    }
    String::new()
}
/// p_i / Σp computed without overflow (finite non-negative input, positive sum)
fn normalised(v: &[f64]) -> Vec<f64> {
    let m = v.iter().cloned().fold(0.0, f64::max);
    let q: Vec<f64> = v.iter().map(|x| x / m).collect();
    let s: f64 = q.iter().sum();
    q.iter().map(|x| x / s).collect()
}
fn close(a: f64, b: f64) -> bool {
    a == b || (a - b).abs() <= 1e-14 * b.abs().max(f64::MIN_POSITIVE)
}

type V4 = (String, String, String, String);

/// which: "Categorical" | "Multinomial::new" | "Multinomial::new_from_nalgebra"
fn judge_probs(which: &str, v: &[f64], n: u64) -> Vec<V4> {
    let mut out: Vec<V4> = vec![];
    let cat = which == "Categorical";
    // Categorical: "Returns an error if `prob_mass` is empty, the sum of the elements in `prob_mass` is 0, or any element is less than 0 or is `f64::NAN`"
    // Multinomial: "Returns an error if `p` is empty, the sum of the elements in `p` is 0, or any element in `p` is less than 0 or is `f64::NAN`"
    // variants — CategoricalError: ProbMassEmpty "The probability mass is empty." ; ProbMassSumZero "The probabilities sums up to zero." ;
    //            ProbMassHasInvalidElements "… at least one element which is NaN or less than zero."
    //            MultinomialError: NotEnoughProbabilities "Fewer than two probabilities." ; ProbabilitySumZero "The sum of all probabilities is zero." ;
    //            ProbabilityInvalid "At least one probability is NaN, infinite or less than zero."
    let mut violated: Vec<(&str, &str, &str)> = vec![]; // (id, quote, variant) — clauses of the `# Errors` section
    let mut enum_only: Vec<(&str, &str)> = vec![]; // (id, variant) — documented only in the error enum
    if v.is_empty() {
        violated.push(("empty", "Returns an error if `p` / `prob_mass` is empty", if cat { "ProbMassEmpty" } else { "NotEnoughProbabilities" }));
    }
    if !cat && v.len() == 1 {
        // MultinomialError::NotEnoughProbabilities "Fewer than two probabilities." — `# Errors` only says "empty"
        enum_only.push(("fewer than two probabilities", "NotEnoughProbabilities"));
    }
    if v.iter().any(|x| x.is_nan()) {
        violated.push(("element NaN", "… or any element … is `f64::NAN`", if cat { "ProbMassHasInvalidElements" } else { "ProbabilityInvalid" }));
    }
    if v.iter().any(|x| *x < 0.0) {
        violated.push(("element<0", "… or any element … is less than 0", if cat { "ProbMassHasInvalidElements" } else { "ProbabilityInvalid" }));
    }
    if !v.is_empty() && v.iter().all(|x| *x == 0.0) {
        // the sum of non-negative reals is 0 iff all are 0 (with negative or NaN elements another clause applies anyway)
        violated.push(("sum==0", "… the sum of the elements … is 0", if cat { "ProbMassSumZero" } else { "ProbabilitySumZero" }));
    }
    let res: Result<Result<(Vec<f64>, u64), String>, ()> = catch_unwind(AssertUnwindSafe(|| match which {
        "Categorical" => Categorical::new(v).map(|d| ((0..v.len() as u64).map(|i| d.pmf(i)).collect::<Vec<f64>>(), n)).map_err(|e| vn(&e)),
        "Multinomial::new" => Multinomial::new(v.to_vec(), n).map(|d| (d.p().iter().cloned().collect(), d.n())).map_err(|e| vn(&e)),
        _ => Multinomial::new_from_nalgebra(DVector::from_vec(v.to_vec()), n).map(|d| (d.p().iter().cloned().collect(), d.n())).map_err(|e| vn(&e)),
    }))
    .map_err(|_| ());
    let shown = if cat { vshow(v) } else { format!("{}, n={}", vshow(v), n) };
    match res {
        Err(()) => out.push((format!("{} panic{}", which, vtag(v)), "constructor panicked".into(), format!("panic on {}", shown), "never panics".into())),
        Ok(Ok((acc, nn))) => {
            if let Some((id, quote, _)) = violated.first() {
                out.push((format!("{} Ok despite clause `{}`", which, id), "constructor accepts a tuple outside its documented domain".into(), format!("Ok on {}", shown), format!("Err — doc: \"{}\"", quote)));
            } else {
                if nn != n {
                    out.push((format!("{} n accessor != given", which), "accessor does not return the given n".into(), format!("n() = {}", nn), format!("n() = {}", n)));
                }
                let acc_name = if cat { "pmf" } else { "p" };
                if acc.iter().any(|x| x.is_nan()) {
                    out.push((format!("{} {} accessor NaN{}", which, acc_name, vtag(v)), "normalised probabilities of an Ok value are NaN".into(), format!("{} -> {}", shown, vshow(&acc)), "the given probabilities divided by their sum".into()));
                } else if v.iter().all(|x| x.is_finite()) {
                    let want = normalised(v);
                    if acc.len() != want.len() || acc.iter().zip(want.iter()).any(|(a, b)| !close(*a, *b)) {
                        let over = if v.iter().sum::<f64>().is_infinite() { " @sum overflows" } else { "" };
                        out.push((format!("{} {} accessor not normalised{}", which, acc_name, if over.is_empty() { vtag(v) } else { over.to_string() }), "accessor does not return the normalised probabilities".into(), format!("{} -> {}", shown, vshow(&acc)), format!("{} (p_i / sum p, 1e-14 relative)", vshow(&want))));
                    }
                }
            }
        }
        Ok(Err(var)) => {
            if violated.is_empty() {
                let len = match enum_only.iter().find(|x| x.1 == var) {
                    Some(x) => format!(" (only the error enum documents `{}`)", x.0),
                    None => vtag(v),
                };
                out.push((format!("{} Err({}) inside documented domain{}", which, var, len), "constructor rejects a tuple inside its documented domain".into(), format!("Err({}) on {}", var, shown), "Ok — no clause of the `# Errors` section applies".into()));
            } else if !violated.iter().any(|(_, _, w)| *w == var) && !enum_only.iter().any(|x| x.1 == var) {
                let allowed: Vec<&str> = violated.iter().map(|x| x.2).collect();
                out.push((format!("{} Err({}) but documented variant {:?}", which, var, allowed), "constructor returns a different error variant than the documented one".into(), format!("Err({}) on {}", var, shown), format!("one of {:?}", allowed)));
            }
        }
    }
    out
}

/// which: "Dirichlet::new" | "Dirichlet::new_from_nalgebra"
fn judge_dirichlet(which: &str, v: &[f64]) -> Vec<V4> {
    let mut out: Vec<V4> = vec![];
    // Dirichlet::new: "Returns an error if any element `x` in alpha exist such that `x < = 0.0` or `x` is `NaN`, or if the length of alpha is less than 2"
    // Dirichlet::new_from_nalgebra: "Returns an error if vector has length less than 2 or if any element of alpha is NOT finite positive"
    // DirichletError: AlphaTooShort "Alpha contains less than two elements." ; AlphaHasInvalidElements "… an element that is NaN, infinite, zero or less than zero."
    let from_na = which != "Dirichlet::new";
    let mut violated: Vec<(&str, &str, &str)> = vec![];
    if v.len() < 2 {
        violated.push(("len<2", "… or if the length of alpha is less than 2", "AlphaTooShort"));
    }
    if v.iter().any(|x| *x <= 0.0) {
        violated.push(("element<=0", "Returns an error if any element `x` in alpha exist such that `x < = 0.0`", "AlphaHasInvalidElements"));
    }
    if v.iter().any(|x| x.is_nan()) {
        violated.push(("element NaN", "… or `x` is `NaN`", "AlphaHasInvalidElements"));
    }
    let mut enum_only: Vec<(&str, &str)> = vec![];
    if v.iter().any(|x| *x == f64::INFINITY) {
        if from_na {
            violated.push(("element not finite", "… or if any element of alpha is NOT finite positive", "AlphaHasInvalidElements"));
        } else {
            // DirichletError::AlphaHasInvalidElements "… NaN, infinite, zero or less than zero." — `# Errors` of `new` does not mention infinite
            enum_only.push(("element infinite", "AlphaHasInvalidElements"));
        }
    }
    let res = catch_unwind(AssertUnwindSafe(|| {
        if from_na {
            Dirichlet::new_from_nalgebra(DVector::from_vec(v.to_vec())).map(|d| d.alpha().iter().cloned().collect::<Vec<f64>>()).map_err(|e| vn(&e))
        } else {
            Dirichlet::new(v.to_vec()).map(|d| d.alpha().iter().cloned().collect::<Vec<f64>>()).map_err(|e| vn(&e))
        }
    }));
    let shown = vshow(v);
    match res {
        Err(_) => out.push((format!("{} panic{}", which, vtag(v)), "constructor panicked".into(), format!("panic on {}", shown), "never panics".into())),
        Ok(Ok(acc)) => {
            if let Some((id, quote, _)) = violated.first() {
                out.push((format!("{} Ok despite clause `{}`", which, id), "constructor accepts a tuple outside its documented domain".into(), format!("Ok on {}", shown), format!("Err — doc: \"{}\"", quote)));
            } else if acc.len() != v.len() || acc.iter().zip(v.iter()).any(|(a, b)| a.to_bits() != b.to_bits()) {
                out.push((format!("{} alpha accessor != given", which), "accessor does not return the given alpha".into(), format!("{} -> {}", shown, vshow(&acc)), "alpha() = the given vector exactly".into()));
            }
        }
        Ok(Err(var)) => {
            if violated.is_empty() {
                let tag = match enum_only.iter().find(|x| x.1 == var) {
                    Some(x) => format!(" (only the error enum documents `{}`)", x.0),
                    None => vtag(v),
                };
                out.push((format!("{} Err({}) inside documented domain{}", which, var, tag), "constructor rejects a tuple inside its documented domain".into(), format!("Err({}) on {}", var, shown), "Ok — no clause of the `# Errors` section applies".into()));
            } else if !violated.iter().any(|(_, _, w)| *w == var) && !enum_only.iter().any(|x| x.1 == var) {
                let allowed: Vec<&str> = violated.iter().map(|x| x.2).collect();
                out.push((format!("{} Err({}) but documented variant {:?}", which, var, allowed), "constructor returns a different error variant than the documented one".into(), format!("Err({}) on {}", var, shown), format!("one of {:?}", allowed)));
            }
        }
    }
    out
}

fn for_each_vector(max_len: usize, f: &mut dyn FnMut(&[f64])) {
    for len in 0..=max_len {
        let mut idx = vec![0usize; len];
        loop {
            let v: Vec<f64> = idx.iter().map(|j| SPECIAL_F[*j]).collect();
            f(&v);
            let mut k = 0;
            while k < len {
                idx[k] += 1;
                if idx[k] < SPECIAL_F.len() {
                    break;
                }
                idx[k] = 0;
                k += 1;
            }
            if k == len {
                break;
            }
        }
    }
}

fn random_vec(r: &mut crate::rng::Sm, len: usize, positive: bool) -> Vec<f64> {
    (0..len)
        .map(|_| match r.below(8) {
            0 => *r.pick(&SPECIAL_F),
            1 => 0.0,
            2 if !positive => -r.log_range(1e-3, 1e3),
            3 => r.log_range(1e-300, 1e300),
            _ => r.log_range(1e-3, 1e3),
        })
        .collect()
}

fn run_vectors(cx: &mut Ctx) {
    let max_len = if cx.thorough { 4 } else { 3 };
    let mut viol: Vec<(V4, Value)> = vec![];
    let mut evals = 0u64;
    for_each_vector(max_len, &mut |v: &[f64]| {
        evals += 3;
        for x in judge_probs("Categorical", v, 0) {
            viol.push((x, json!({"kind": "probs", "which": "Categorical", "v": fl_json(v), "n": 0})));
        }
        for w in ["Dirichlet::new", "Dirichlet::new_from_nalgebra"] {
            for x in judge_dirichlet(w, v) {
                viol.push((x, json!({"kind": "dirichlet", "which": w, "v": fl_json(v)})));
            }
        }
    });
    // Multinomial: vectors x the integer lattice (length 4 only with n in {0, 2} to keep the product finite in time)
    for_each_vector(max_len.min(3), &mut |v: &[f64]| {
        for n in LAT_U {
            for w in ["Multinomial::new", "Multinomial::new_from_nalgebra"] {
                evals += 1;
                for x in judge_probs(w, v, n) {
                    viol.push((x, json!({"kind": "probs", "which": w, "v": fl_json(v), "n": n.to_string()})));
                }
            }
        }
    });
    if max_len == 4 {
        for_each_vector(4, &mut |v: &[f64]| {
            if v.len() == 4 {
                evals += 1;
                for x in judge_probs("Multinomial::new", v, 2) {
                    viol.push((x, json!({"kind": "probs", "which": "Multinomial::new", "v": fl_json(v), "n": "2"})));
                }
            }
        });
    }
    cx.evals += evals;
    for ((site, what, obs, req), case) in viol {
        cx.violation(&site, &what, case, obs, &req);
    }
    // seeded random vectors
    let n_rand = if cx.thorough { 20000 } else { 2000 };
    for _ in 0..n_rand {
        let len = cx.r.below(5) as usize;
        let v = random_vec(&mut cx.r, len, false);
        let n = match cx.r.below(4) {
            0 => *cx.r.pick(&LAT_U),
            _ => cx.r.below(50),
        };
        cx.evals += 5;
        for w in ["Categorical", "Multinomial::new", "Multinomial::new_from_nalgebra"] {
            for (site, what, obs, req) in judge_probs(w, &v, n) {
                cx.violation(&site, &what, json!({"kind": "probs", "which": w, "v": fl_json(&v), "n": n.to_string()}), obs, &req);
            }
        }
        for w in ["Dirichlet::new", "Dirichlet::new_from_nalgebra"] {
            for (site, what, obs, req) in judge_dirichlet(w, &v) {
                cx.violation(&site, &what, json!({"kind": "dirichlet", "which": w, "v": fl_json(&v)}), obs, &req);
            }
        }
    }
}

// ---------------------------------------------------------------------------------------------
// matrix families: MultivariateNormal, MultivariateStudent
// ---------------------------------------------------------------------------------------------
#[derive(PartialEq, Debug, Clone, Copy)]
enum Pd {
    Definite,
    /// positive semi-definite, singular
    Singular,
    Indefinite,
    /// contains a non-finite entry: not a real matrix
    NonFinite,
}
/// exact classification of a symmetric n×n matrix given column-major
fn pd_exact(n: usize, m: &[f64]) -> Pd {
    if m.iter().any(|x| !x.is_finite()) {
        return Pd::NonFinite;
    }
    let mut a: Vec<Vec<BigRational>> = (0..n).map(|i| (0..n).map(|j| BigRational::from_float(m[j * n + i]).unwrap()).collect()).collect();
    // symmetric elimination; a zero pivot with a non-zero remaining row => indefinite, otherwise semi-definite
    let mut singular = false;
    let mut k = 0;
    let mut active: Vec<usize> = (0..n).collect();
    while k < active.len() {
        let i = active[k];
        let piv = a[i][i].clone();
        if piv.is_negative() {
            return Pd::Indefinite;
        }
        if piv.is_zero() {
            // PSD requires the whole row/column to vanish
            for &j in &active[k + 1..] {
                if !a[i][j].is_zero() {
                    return Pd::Indefinite;
                }
            }
            singular = true;
            active.remove(k);
            continue;
        }
        for idx in k + 1..active.len() {
            let r = active[idx];
            let f = a[r][i].clone() / piv.clone();
            if f.is_zero() {
                continue;
            }
            for jdx in k + 1..active.len() {
                let c = active[jdx];
                let t = f.clone() * a[i][c].clone();
                a[r][c] -= t;
            }
        }
        k += 1;
    }
    if singular {
        Pd::Singular
    } else {
        Pd::Definite
    }
}

fn is_sym(n: usize, m: &[f64]) -> bool {
    for i in 0..n {
        for j in 0..i {
            // the comparison the documentation speaks of is numeric equality (NaN is never equal)
            if !(m[j * n + i] == m[i * n + j]) {
                return false;
            }
        }
    }
    true
}

/// which: "MultivariateNormal::new" | "MultivariateNormal::new_from_nalgebra" | "MultivariateStudent::new" | "MultivariateStudent::new_from_nalgebra"
/// `rows`,`cols`: shape given to the matrix (for ::new the Vec is passed as is and the shape is ignored)
fn judge_mv(which: &str, mean: &[f64], rows: usize, cols: usize, mat: &[f64], freedom: f64) -> Vec<V4> {
    let mut out: Vec<V4> = vec![];
    let student = which.starts_with("MultivariateStudent");
    let via_vec = which.ends_with("::new");
    let n = mean.len();
    // MultivariateNormal::new / new_from_nalgebra: "Returns an error if the given covariance matrix is not symmetric or positive-definite"
    // MultivariateStudent::new: "Returns `StatsError::BadParams` if the scale matrix is not symmetric-positive definite and
    //                            `StatsError::ArgMustBePositive` if freedom is non-positive."
    // variant docs (both enums): CovInvalid/ScaleInvalid "… is asymmetric or contains a NaN." ; MeanInvalid/LocationInvalid "… contains a NaN." ;
    //   DimensionMismatch "The amount of rows in the vector of means is not equal to the amount of rows in the covariance matrix." ;
    //   CholeskyFailed "After all other validation, computing the Cholesky decomposition failed." ; FreedomInvalid "The degrees of freedom are NaN, zero or less than zero."
    let (mi, li, ci) = if student { ("ScaleInvalid", "LocationInvalid", "CholeskyFailed") } else { ("CovInvalid", "MeanInvalid", "CholeskyFailed") };
    let mut violated: Vec<(&str, &str, Vec<&str>)> = vec![];
    let square = rows == cols && mat.len() == rows * cols;
    if via_vec {
        if mat.len() != n * n {
            violated.push(("dimension mismatch", "DimensionMismatch: \"The amount of rows in the vector of means is not equal to the amount of rows in the covariance matrix.\"", vec!["DimensionMismatch", mi]));
        }
    } else if !square {
        violated.push(("not square", "… covariance matrix is not symmetric", vec![mi]));
    } else if rows != n {
        violated.push(("dimension mismatch", "DimensionMismatch: \"The amount of rows in the vector of means is not equal to the amount of rows in the covariance matrix.\"", vec!["DimensionMismatch"]));
    }
    if mean.iter().any(|x| x.is_nan()) {
        violated.push(("mean NaN", "MeanInvalid / LocationInvalid: \"The mean / location vector contains a NaN.\"", vec![li]));
    }
    if student && freedom.is_nan() {
        violated.push(("freedom NaN", "FreedomInvalid: \"The degrees of freedom are NaN, zero or less than zero.\"", vec!["FreedomInvalid"]));
    }
    if student && freedom <= 0.0 {
        violated.push(("freedom<=0", "… if freedom is non-positive.", vec!["FreedomInvalid"]));
    }
    let dim = if via_vec { n } else { rows };
    let shape_ok = if via_vec { mat.len() == n * n } else { square };
    let mut pdc = None;
    if shape_ok {
        if mat.iter().any(|x| x.is_nan()) {
            violated.push(("matrix NaN", "CovInvalid / ScaleInvalid: \"… is asymmetric or contains a NaN.\"", vec![mi]));
        } else if !is_sym(dim, mat) {
            violated.push(("asymmetric", "Returns an error if the given covariance matrix is not symmetric", vec![mi]));
        } else {
            let c = pd_exact(dim, mat);
            pdc = Some(c);
            match c {
                Pd::Definite => {}
                Pd::Singular => violated.push(("singular (semi-definite)", "Returns an error if the given covariance matrix is not … positive-definite", vec![ci])),
                Pd::Indefinite => violated.push(("indefinite", "Returns an error if the given covariance matrix is not … positive-definite", vec![ci])),
                Pd::NonFinite => violated.push(("infinite entry", "Returns an error if the given covariance matrix is not … positive-definite", vec![ci, mi])),
            }
        }
    }
    let _ = pdc;
    type Acc = (Vec<f64>, Vec<f64>, f64);
    let res: Result<Result<Acc, String>, ()> = catch_unwind(AssertUnwindSafe(|| match which {
        "MultivariateNormal::new" => MultivariateNormal::new(mean.to_vec(), mat.to_vec()).map(|d| (d.mu().iter().cloned().collect(), d.cov().iter().cloned().collect(), 0.0)).map_err(|e| vn(&e)),
        "MultivariateNormal::new_from_nalgebra" => MultivariateNormal::new_from_nalgebra(DVector::from_vec(mean.to_vec()), DMatrix::from_vec(rows, cols, mat.to_vec())).map(|d| (d.mu().iter().cloned().collect(), d.cov().iter().cloned().collect(), 0.0)).map_err(|e| vn(&e)),
        "MultivariateStudent::new" => MultivariateStudent::new(mean.to_vec(), mat.to_vec(), freedom).map(|d| (d.location().iter().cloned().collect(), d.scale().iter().cloned().collect(), d.freedom())).map_err(|e| vn(&e)),
        _ => MultivariateStudent::new_from_nalgebra(DVector::from_vec(mean.to_vec()), DMatrix::from_vec(rows, cols, mat.to_vec()), freedom).map(|d| (d.location().iter().cloned().collect(), d.scale().iter().cloned().collect(), d.freedom())).map_err(|e| vn(&e)),
    }))
    .map_err(|_| ());
    let shown = format!("mean {}, matrix {}x{} {}{}", vshow(mean), rows, cols, vshow(mat), if student { format!(", freedom {:e}", freedom) } else { String::new() });
    let mtag = {
        let mut t = vtag(mat);
        if t.is_empty() {
            t = vtag(mean).replace("elements", "mean elements");
        }
        t
    };
    match res {
        Err(()) => {
            let why = violated.first().map(|x| x.0).unwrap_or("inside domain");
            out.push((format!("{} panic ({})", which, why), "constructor panicked".into(), format!("panic on {}", shown), "never panics".into()))
        }
        Ok(Ok((m_acc, c_acc, f_acc))) => {
            if dim == 0 {
                // a 0-dimensional distribution: the documentation says nothing; only "no panic" is asserted
            } else if let Some((id, quote, _)) = violated.first() {
                out.push((format!("{} Ok despite clause `{}`", which, id), "constructor accepts a tuple outside its documented domain".into(), format!("Ok on {}", shown), format!("Err — doc: {}", quote)));
            } else {
                let same = |a: &[f64], b: &[f64]| a.len() == b.len() && a.iter().zip(b.iter()).all(|(x, y)| x.to_bits() == y.to_bits());
                if !same(&m_acc, mean) {
                    out.push((format!("{} mean accessor != given", which), "accessor does not return the given mean / location".into(), format!("{} -> {}", shown, vshow(&m_acc)), "the given vector exactly".into()));
                }
                if !same(&c_acc, mat) {
                    out.push((format!("{} matrix accessor != given", which), "accessor does not return the given matrix".into(), format!("{} -> {}", shown, vshow(&c_acc)), "the given matrix exactly".into()));
                }
                if student && f_acc.to_bits() != freedom.to_bits() {
                    out.push((format!("{} freedom accessor != given", which), "accessor does not return the given freedom".into(), format!("{} -> {:e}", shown, f_acc), "the given freedom exactly".into()));
                }
            }
        }
        Ok(Err(var)) => {
            if dim == 0 {
            } else if violated.is_empty() {
                out.push((format!("{} Err({}) inside documented domain{}", which, var, mtag), "constructor rejects a symmetric positive-definite matrix (exact rational test)".into(), format!("Err({}) on {}", var, shown), "Ok — symmetric positive-definite, no other clause applies".into()));
            } else if !violated.iter().any(|(_, _, w)| w.contains(&var.as_str())) {
                let allowed: Vec<&str> = violated.iter().flat_map(|x| x.2.clone()).collect();
                out.push((format!("{} Err({}) but documented variant {:?}", which, var, allowed), "constructor returns a different error variant than the documented one".into(), format!("Err({}) on {}", var, shown), format!("one of {:?} (violated: {})", allowed, violated.iter().map(|x| x.0).collect::<Vec<_>>().join("; "))));
            }
        }
    }
    out
}

const MV: [&str; 4] = ["MultivariateNormal::new", "MultivariateNormal::new_from_nalgebra", "MultivariateStudent::new", "MultivariateStudent::new_from_nalgebra"];

fn mv_case(which: &str, mean: &[f64], rows: usize, cols: usize, mat: &[f64], freedom: f64) -> Value {
    json!({"kind": "mv", "which": which, "mean": fl_json(mean), "rows": rows, "cols": cols, "mat": fl_json(mat), "freedom": format!("{:016x}", freedom.to_bits())})
}

fn run_matrices(cx: &mut Ctx) {
    let mut todo: Vec<(Vec<f64>, usize, usize, Vec<f64>, f64)> = vec![];
    let full_dim = if cx.thorough { 2 } else { 1 };
    // full lattice cross product of the matrix entries (incl. asymmetric), mean fixed at a benign value, freedom 3
    for d in 0..=full_dim {
        for_each_vector(d * d, &mut |m: &[f64]| {
            if m.len() == d * d {
                todo.push((vec![0.5; d], d, d, m.to_vec(), 3.0));
            }
        });
    }
    // full lattice of the mean with a benign matrix, and of freedom
    for d in 0..=3usize {
        let mut eye = vec![0.0; d * d];
        for i in 0..d {
            eye[i * d + i] = 2.0;
        }
        for_each_vector(d, &mut |mean: &[f64]| {
            if mean.len() == d {
                todo.push((mean.to_vec(), d, d, eye.clone(), 3.0));
            }
        });
        for f in SPECIAL_F {
            todo.push((vec![1.0; d], d, d, eye.clone(), f));
        }
    }
    // shape mismatches
    for (n, r, c) in [(2usize, 3usize, 3usize), (3, 2, 2), (2, 2, 3), (2, 3, 2), (0, 1, 1), (1, 0, 0), (2, 1, 1), (1, 2, 2), (4, 3, 3)] {
        let mut m = vec![0.0; r * c];
        for i in 0..r.min(c) {
            m[i * r + i] = 1.0;
        }
        todo.push((vec![0.0; n], r, c, m, 3.0));
    }
    // sampled: symmetric lattice matrices, A·Aᵀ + eps·I, rank-deficient A·Aᵀ, indefinite, tiny asymmetry
    let n_s = if cx.thorough { 20000 } else { 1500 };
    for _ in 0..n_s {
        let d = 1 + cx.r.below(4) as usize;
        let mut m = vec![0.0; d * d];
        let kind = cx.r.below(7);
        match kind {
            0 | 1 => {
                // symmetric with lattice entries
                for i in 0..d {
                    for j in 0..=i {
                        let x = *cx.r.pick(&SPECIAL_F);
                        m[j * d + i] = x;
                        m[i * d + j] = x;
                    }
                }
            }
            2 | 3 | 4 => {
                // A·Aᵀ (+ eps·I); kind 4: rank deficient
                let k = if kind == 4 { d.saturating_sub(1).max(1) } else { d };
                let a: Vec<f64> = (0..d * k).map(|_| (cx.r.range(-4.0, 4.0)).round()).collect();
                let eps = if kind == 2 { cx.r.log_range(1e-6, 1.0) } else { 0.0 };
                for i in 0..d {
                    for j in 0..d {
                        let mut s = 0.0;
                        for l in 0..k {
                            s += a[l * d + i] * a[l * d + j];
                        }
                        m[j * d + i] = s + if i == j { eps } else { 0.0 };
                    }
                }
            }
            5 => {
                // indefinite: diagonal with a negative entry, rotated by small integers
                for i in 0..d {
                    m[i * d + i] = if i == 0 { -cx.r.log_range(1e-3, 10.0) } else { cx.r.log_range(1e-3, 10.0) };
                }
                if d > 1 {
                    m[1] = 0.5;
                    m[d] = 0.5;
                }
            }
            _ => {
                // positive definite with one off-diagonal entry perturbed by one ulp (asymmetric)
                for i in 0..d {
                    m[i * d + i] = 2.0;
                }
                if d > 1 {
                    m[1] = 0.5;
                    m[d] = next_up(0.5);
                }
            }
        }
        let mean: Vec<f64> = (0..d).map(|_| if cx.r.below(10) == 0 { *cx.r.pick(&SPECIAL_F) } else { cx.r.range(-10.0, 10.0) }).collect();
        let f = if cx.r.below(4) == 0 { *cx.r.pick(&SPECIAL_F) } else { cx.r.log_range(0.5, 100.0) };
        todo.push((mean, d, d, m, f));
    }
    for (mean, r, c, m, f) in todo {
        for w in MV {
            cx.evals += 1;
            for (site, what, obs, req) in judge_mv(w, &mean, r, c, &m, f) {
                cx.violation(&site, &what, mv_case(w, &mean, r, c, &m, f), obs, &req);
            }
        }
    }
}

pub fn run(cx: &mut Ctx) {
    run_scalar(cx);
    run_vectors(cx);
    run_matrices(cx);
}

pub fn replay(case: &Value) -> String {
    let fmtv = |v: Vec<V4>| -> String {
        if v.is_empty() {
            "observed: verdict, variant and accessors as documented / required: (no violation on replay)".to_string()
        } else {
            v.iter().map(|(s, _, o, r)| format!("[{}] observed: {} / required: {}", s, o, r)).collect::<Vec<_>>().join(" ;; ")
        }
    };
    match case["kind"].as_str().unwrap_or("") {
        "scalar" => {
            let name = case["fam"].as_str().unwrap_or("");
            let p: Vec<P> = case["params"].as_array().map(|a| a.iter().filter_map(P::from_json).collect()).unwrap_or_default();
            for fam in families() {
                if fam.name == name && fam.kinds.len() == p.len() {
                    let v = judge(&fam, &p).into_iter().map(|(a, b, c, d)| (a, b, c, d)).collect();
                    return fmtv(v);
                }
            }
            format!("unknown family {}", name)
        }
        "probs" => {
            let n: u64 = case["n"].as_str().and_then(|s| s.parse().ok()).or(case["n"].as_u64()).unwrap_or(0);
            fmtv(judge_probs(case["which"].as_str().unwrap_or(""), &fl_from(&case["v"]), n))
        }
        "dirichlet" => fmtv(judge_dirichlet(case["which"].as_str().unwrap_or(""), &fl_from(&case["v"]))),
        "mv" => {
            let f = case["freedom"].as_str().and_then(|h| u64::from_str_radix(h, 16).ok()).map(f64::from_bits).unwrap_or(3.0);
            fmtv(judge_mv(case["which"].as_str().unwrap_or(""), &fl_from(&case["mean"]), case["rows"].as_u64().unwrap_or(0) as usize, case["cols"].as_u64().unwrap_or(0) as usize, &fl_from(&case["mat"]), f))
        }
        "fixed" => "parameterless constructor: re-run `harness search C09`".to_string(),
        _ => format!("unknown case {}", case),
    }
}
