//! C10 — related distributions agree on their common special cases.
//!
//! Every identity of the catalogue is a function `eval(pair, params, method, x) -> (A, [B…])` that calls the two
//! implementations at shared arguments; `A` must agree with `B` to 1e-9 relative OR 1e-12 absolute (pass if
//! either holds; equal infinities agree; a NaN / None / panic on one side only is a disagreement).
//! Where the identity goes through a transformed argument t(x) that is itself rounded (x², ln x, 1/x,
//! d1·x/(d1·x+d2), (x-l)/s) the reference side is evaluated at t and at its two float neighbours and `A` is
//! compared with the hull of those values, so that the rounding of the argument is not charged to the
//! implementation.  Location–scale triples are generated dyadic (s a power of two, l and z with few mantissa
//! bits) so that l+s·z is exact, plus general random triples with the hull rule.
//!
//! Catalogue (37 identities):
//!   ChiSquared(k)=Gamma(k/2,1/2); Erlang(k,r)=Gamma(k,r); Exp(r)=Gamma(1,r); Exp(r)=Weibull(1,1/r);
//!   Gamma(1,r)=Weibull(1,1/r); ChiSquared(2)=Exp(1/2); Erlang(1,r)=Exp(r); Bernoulli(p)=Binomial(p,1);
//!   Beta(1,1)=Uniform(0,1); StudentsT(l,s,1)=Cauchy(l,s); StudentsT(l,s,inf)=Normal(l,s); Chi(k)²~ChiSquared(k);
//!   LogNormal=exp(Normal); InverseGamma=1/Gamma; FisherSnedecor via Beta; Geometric via NegativeBinomial(1,p);
//!   Categorical via Multinomial(n=1); Dirac as degenerate limit of Bernoulli(0), Bernoulli(1), Binomial(0,n),
//!   Binomial(1,n), Binomial(p,0), DiscreteUniform(a,a), Geometric(1), NegativeBinomial(r,1), Hypergeometric(N,0,n),
//!   Hypergeometric(N,N,n), Hypergeometric(N,K,0), Categorical(e_i); location–scale equivariance of Normal, Cauchy,
//!   Laplace, Gumbel, Levy, StudentsT, Uniform, Triangular (cdf, sf, pdf·s, ln_pdf+ln s, inverse_cdf).
//! Methods: every method both sides define among cdf, sf, pdf/pmf, ln_pdf/ln_pmf, inverse_cdf, mean, variance,
//! entropy, skewness, median, mode (skewness is not compared in the Dirac limits: it is 0/0 there).
use crate::gen::{next_down, next_up, P_GRID};
use crate::search::Ctx;
use nalgebra::DVector;
use serde_json::{json, Value};
use statrs::distribution::*;
use statrs::statistics::*;
use std::panic::{catch_unwind, AssertUnwindSafe};

#[derive(Clone, Copy, Debug, PartialEq)]
pub enum V {
    F(f64),
    None,
    Panic,
    Hang,
    /// not defined on this side / argument outside the argument type
    NA,
}
fn g(f: impl FnOnce() -> f64) -> V {
    match catch_unwind(AssertUnwindSafe(f)) {
        Ok(x) => V::F(x),
        Err(_) => V::Panic,
    }
}
fn go(f: impl FnOnce() -> Option<f64>) -> V {
    match catch_unwind(AssertUnwindSafe(f)) {
        Ok(Some(x)) => V::F(x),
        Ok(None) => V::None,
        Err(_) => V::Panic,
    }
}
impl V {
    fn show(&self) -> String {
        match self {
            V::F(x) => format!("{:e} (0x{:016x})", x, x.to_bits()),
            o => format!("{:?}", o),
        }
    }
}

const FUNS: [&str; 5] = ["cdf", "sf", "pdf", "ln_pdf", "inverse_cdf"];
const SCALARS: [&str; 6] = ["mean", "variance", "entropy", "skewness", "median", "mode"];

/// standard methods of a continuous distribution
macro_rules! cm {
    ($d:expr, $m:expr, $x:expr) => {{
        let d = &$d;
        let x: f64 = $x;
        match $m {
            "cdf" => g(|| d.cdf(x)),
            "sf" => g(|| d.sf(x)),
            "pdf" => g(|| d.pdf(x)),
            "ln_pdf" => g(|| d.ln_pdf(x)),
            "inverse_cdf" => g(|| d.inverse_cdf(x)),
            "mean" => go(|| d.mean()),
            "variance" => go(|| d.variance()),
            "entropy" => go(|| d.entropy()),
            "skewness" => go(|| d.skewness()),
            "min" => g(|| d.min()),
            "max" => g(|| d.max()),
            _ => V::NA,
        }
    }};
}
/// the same plus median / Option<f64>-mode where the type has them
macro_rules! cmm {
    ($d:expr, $m:expr, $x:expr) => {{
        match $m {
            "median" => g(|| $d.median()),
            "mode" => go(|| $d.mode()),
            m => cm!($d, m, $x),
        }
    }};
}
macro_rules! cmo {
    // mode only
    ($d:expr, $m:expr, $x:expr) => {{
        match $m {
            "mode" => go(|| $d.mode()),
            m => cm!($d, m, $x),
        }
    }};
}
fn as_u(x: f64) -> Option<u64> {
    if x >= 0.0 && x < 1.8e19 && x == x.trunc() {
        Some(x as u64)
    } else {
        None
    }
}
/// standard methods of a discrete (u64) distribution implementing `Distribution`
macro_rules! dm {
    ($d:expr, $m:expr, $x:expr) => {{
        let d = &$d;
        let k = as_u($x);
        match ($m, k) {
            ("cdf", Some(k)) => g(|| d.cdf(k)),
            ("sf", Some(k)) => g(|| d.sf(k)),
            ("pdf", Some(k)) => g(|| d.pmf(k)),
            ("ln_pdf", Some(k)) => g(|| d.ln_pmf(k)),
            ("mean", _) => go(|| d.mean()),
            ("variance", _) => go(|| d.variance()),
            ("entropy", _) => go(|| d.entropy()),
            ("skewness", _) => go(|| d.skewness()),
            ("min", _) => g(|| d.min() as f64),
            ("max", _) => g(|| d.max() as f64),
            _ => V::NA,
        }
    }};
}
macro_rules! dmm {
    ($d:expr, $m:expr, $x:expr) => {{
        match $m {
            "median" => g(|| $d.median()),
            "mode" => go(|| $d.mode().map(|k| k as f64)),
            m => dm!($d, m, $x),
        }
    }};
}

fn dirac(v: f64, m: &str, x: f64) -> V {
    match Dirac::new(v) {
        Ok(d) => match m {
            "cdf" => g(|| d.cdf(x)),
            "sf" => g(|| d.sf(x)),
            // the mass function of the point mass, for comparison with pmf / ln_pmf of the degenerate discrete law
            "pdf" => V::F(if x == v { 1.0 } else { 0.0 }),
            "ln_pdf" => V::F(if x == v { 0.0 } else { f64::NEG_INFINITY }),
            "mean" => go(|| d.mean()),
            "variance" => go(|| d.variance()),
            "entropy" => go(|| d.entropy()),
            "median" => g(|| d.median()),
            "mode" => go(|| d.mode()),
            "min" => g(|| d.min()),
            "max" => g(|| d.max()),
            _ => V::NA,
        },
        Err(_) => V::NA,
    }
}

/// a·b of the reference side; an indeterminate form 0·inf means the identity says nothing at this argument
fn prod(a: impl FnOnce() -> f64, b: f64) -> V {
    match g(a) {
        V::F(a) => {
            if (a == 0.0 && b.is_infinite()) || (a.is_infinite() && b == 0.0) || b.is_nan() {
                V::NA
            } else {
                V::F(a * b)
            }
        }
        o => o,
    }
}

/// a + b in the log domain; inf - inf is indeterminate
fn lsum(a: impl FnOnce() -> f64, b: f64) -> V {
    match g(a) {
        V::F(a) => {
            if (a.is_infinite() && b.is_infinite() && a != b) || b.is_nan() {
                V::NA
            } else {
                V::F(a + b)
            }
        }
        o => o,
    }
}

/// b evaluated at t and its float neighbours (a subnormal t carries only a few bits: also at t/2 and 2t)
fn hull3(t: f64, f: impl Fn(f64) -> V) -> Vec<V> {
    let mut v = vec![f(t), f(next_down(t)), f(next_up(t))];
    if t != 0.0 && t.abs() < f64::MIN_POSITIVE {
        v.push(f(t / 2.0));
        v.push(f(t * 2.0));
    }
    v
}

macro_rules! ok {
    ($e:expr) => {
        match $e {
            Ok(d) => d,
            Err(_) => return (V::NA, vec![]),
        }
    };
}

pub const PAIRS: [&str; 37] = [
    "ChiSquared(k)=Gamma(k/2,1/2)",
    "Erlang(k,r)=Gamma(k,r)",
    "Exp(r)=Gamma(1,r)",
    "Exp(r)=Weibull(1,1/r)",
    "Gamma(1,r)=Weibull(1,1/r)",
    "ChiSquared(2)=Exp(1/2)",
    "Erlang(1,r)=Exp(r)",
    "Bernoulli(p)=Binomial(p,1)",
    "Beta(1,1)=Uniform(0,1)",
    "StudentsT(l,s,1)=Cauchy(l,s)",
    "StudentsT(l,s,inf)=Normal(l,s)",
    "Chi(k)^2~ChiSquared(k)",
    "LogNormal=exp(Normal)",
    "InverseGamma=1/Gamma",
    "FisherSnedecor~Beta",
    "Geometric(p)~NegativeBinomial(1,p)",
    "Categorical~Multinomial(n=1)",
    "Bernoulli(0)=Dirac(0)",
    "Bernoulli(1)=Dirac(1)",
    "Binomial(0,n)=Dirac(0)",
    "Binomial(1,n)=Dirac(n)",
    "Binomial(p,0)=Dirac(0)",
    "DiscreteUniform(a,a)=Dirac(a)",
    "Geometric(1)=Dirac(1)",
    "NegativeBinomial(r,1)=Dirac(0)",
    "Hypergeometric(N,0,n)=Dirac(0)",
    "Hypergeometric(N,N,n)=Dirac(n)",
    "Hypergeometric(N,K,0)=Dirac(0)",
    "Categorical(e_i)=Dirac(i)",
    "locscale Normal",
    "locscale Cauchy",
    "locscale Laplace",
    "locscale Gumbel",
    "locscale Levy",
    "locscale StudentsT",
    "locscale Uniform",
    "locscale Triangular",
];

/// location–scale: `x` is z; A = law(l,s) at l+s·z, B = standard law at z (hull over the neighbours of z when
/// the triple is not exact).  params: [l, s, exact(1/0), extra…]
macro_rules! locscale {
    ($p:expr, $m:expr, $z:expr, $mk:expr, $std:expr) => {{
        let (l, s, exact) = ($p[0], $p[1], $p[2] != 0.0);
        let a = ok!($mk);
        let b = ok!($std);
        let z: f64 = $z;
        let x = l + s * z;
        // width of the set of z whose image rounds to the same x
        let dz = if exact { 0.0 } else { 2.0 * (x.abs().max(l.abs()) * f64::EPSILON) / s + z.abs() * f64::EPSILON };
        let pts: Vec<f64> = if exact || !dz.is_finite() { vec![z] } else { vec![z, z - dz, z + dz] };
        match $m {
            "cdf" => (g(|| a.cdf(x)), pts.iter().map(|t| g(|| b.cdf(*t))).collect()),
            "sf" => (g(|| a.sf(x)), pts.iter().map(|t| g(|| b.sf(*t))).collect()),
            "pdf" => (g(|| a.pdf(x) * s), pts.iter().map(|t| g(|| b.pdf(*t))).collect()),
            "ln_pdf" => (g(|| a.ln_pdf(x) + s.ln()), pts.iter().map(|t| g(|| b.ln_pdf(*t))).collect()),
            // here `x` is a probability: quantile(l,s) = l + s·quantile(0,1)
            "inverse_cdf" => (g(|| a.inverse_cdf(z)), vec![g(|| l + s * b.inverse_cdf(z))]),
            _ => (V::NA, vec![]),
        }
    }};
}

/// One evaluation of an identity.  `p` = parameters of the shared sub-family, `x` = argument (ignored by scalar methods).
pub fn eval(pair: &str, p: &[f64], m: &str, x: f64) -> (V, Vec<V>) {
    let one = |v: V| vec![v];
    match pair {
        "ChiSquared(k)=Gamma(k/2,1/2)" => {
            let a = ok!(ChiSquared::new(p[0]));
            let b = ok!(Gamma::new(p[0] / 2.0, 0.5));
            match m {
                "median" => (g(|| a.median()), vec![V::NA]),
                m => (cmo!(a, m, x), one(cmo!(b, m, x))),
            }
        }
        "Erlang(k,r)=Gamma(k,r)" => {
            let a = ok!(Erlang::new(p[0] as u64, p[1]));
            let b = ok!(Gamma::new(p[0], p[1]));
            (cmo!(a, m, x), one(cmo!(b, m, x)))
        }
        "Exp(r)=Gamma(1,r)" => {
            let a = ok!(Exp::new(p[0]));
            let b = ok!(Gamma::new(1.0, p[0]));
            match m {
                "median" => (V::NA, vec![]),
                m => (cmo!(a, m, x), one(cmo!(b, m, x))),
            }
        }
        "Exp(r)=Weibull(1,1/r)" => {
            let a = ok!(Exp::new(p[0]));
            let b = ok!(Weibull::new(1.0, 1.0 / p[0]));
            (cmm!(a, m, x), one(cmm!(b, m, x)))
        }
        "Gamma(1,r)=Weibull(1,1/r)" => {
            let a = ok!(Gamma::new(1.0, p[0]));
            let b = ok!(Weibull::new(1.0, 1.0 / p[0]));
            match m {
                "median" => (V::NA, vec![]),
                m => (cmo!(a, m, x), one(cmo!(b, m, x))),
            }
        }
        "ChiSquared(2)=Exp(1/2)" => {
            let a = ok!(ChiSquared::new(2.0));
            let b = ok!(Exp::new(0.5));
            (cmm!(a, m, x), one(cmm!(b, m, x)))
        }
        "Erlang(1,r)=Exp(r)" => {
            let a = ok!(Erlang::new(1, p[0]));
            let b = ok!(Exp::new(p[0]));
            match m {
                "median" => (V::NA, vec![]),
                m => (cmo!(a, m, x), one(cmo!(b, m, x))),
            }
        }
        "Bernoulli(p)=Binomial(p,1)" => {
            let a = ok!(Bernoulli::new(p[0]));
            let b = ok!(Binomial::new(p[0], 1));
            (dmm!(a, m, x), one(dmm!(b, m, x)))
        }
        "Beta(1,1)=Uniform(0,1)" => {
            let a = ok!(Beta::new(1.0, 1.0));
            let b = ok!(Uniform::new(0.0, 1.0));
            match m {
                "median" => (V::NA, vec![]),
                // every point of [0,1] is a mode of the uniform law: the two sides may legitimately differ
                "mode" => (V::NA, vec![]),
                m => (cm!(a, m, x), one(cm!(b, m, x))),
            }
        }
        "StudentsT(l,s,1)=Cauchy(l,s)" => {
            let a = ok!(StudentsT::new(p[0], p[1], 1.0));
            let b = ok!(Cauchy::new(p[0], p[1]));
            (cmm!(a, m, x), one(cmm!(b, m, x)))
        }
        "StudentsT(l,s,inf)=Normal(l,s)" => {
            let a = ok!(StudentsT::new(p[0], p[1], f64::INFINITY));
            let b = ok!(Normal::new(p[0], p[1]));
            (cmm!(a, m, x), one(cmm!(b, m, x)))
        }
        "Chi(k)^2~ChiSquared(k)" => {
            // X ~ Chi(k)  =>  X² ~ ChiSquared(k):  F_chi(x) = F_chi2(x²), f_chi(x) = 2x f_chi2(x²), Q_chi(p) = sqrt(Q_chi2(p))
            let a = ok!(Chi::new(p[0] as u64));
            let b = ok!(ChiSquared::new(p[0]));
            if FUNS[..4].contains(&m) && !(x >= 0.0) {
                return (V::NA, vec![]);
            }
            let t = x * x;
            match m {
                "cdf" => (g(|| a.cdf(x)), hull3(t, |t| g(|| b.cdf(t)))),
                "sf" => (g(|| a.sf(x)), hull3(t, |t| g(|| b.sf(t)))),
                "pdf" => (g(|| a.pdf(x)), hull3(t, |t| prod(|| b.pdf(t), 2.0 * x))),
                "ln_pdf" => (g(|| a.ln_pdf(x)), hull3(t, |t| lsum(|| b.ln_pdf(t), (2.0 * x).ln()))),
                "inverse_cdf" => (g(|| a.inverse_cdf(x)), one(g(|| b.inverse_cdf(x).sqrt()))),
                // E X² = Var + mean² of Chi = mean of ChiSquared = k
                "mean" => (go(|| Some(a.variance()? + a.mean()? * a.mean()?)), one(go(|| b.mean()))),
                _ => (V::NA, vec![]),
            }
        }
        "LogNormal=exp(Normal)" => {
            let a = ok!(LogNormal::new(p[0], p[1]));
            let b = ok!(Normal::new(p[0], p[1]));
            if FUNS[..4].contains(&m) && !(x > 0.0) {
                return (V::NA, vec![]);
            }
            let t = x.ln();
            match m {
                "cdf" => (g(|| a.cdf(x)), hull3(t, |t| g(|| b.cdf(t)))),
                "sf" => (g(|| a.sf(x)), hull3(t, |t| g(|| b.sf(t)))),
                "pdf" => (g(|| a.pdf(x)), hull3(t, |t| g(|| b.pdf(t) / x))),
                "ln_pdf" => (g(|| a.ln_pdf(x)), hull3(t, |t| lsum(|| b.ln_pdf(t), -x.ln()))),
                "inverse_cdf" => (g(|| a.inverse_cdf(x)), one(g(|| b.inverse_cdf(x).exp()))),
                "median" => (g(|| a.median()), one(g(|| b.median().exp()))),
                // h(e^Y) = h(Y) + E Y
                "entropy" => (go(|| a.entropy()), one(go(|| Some(b.entropy()? + b.mean()?)))),
                _ => (V::NA, vec![]),
            }
        }
        "InverseGamma=1/Gamma" => {
            let a = ok!(InverseGamma::new(p[0], p[1]));
            let b = ok!(Gamma::new(p[0], p[1]));
            if FUNS[..4].contains(&m) && !(x > 0.0) {
                return (V::NA, vec![]);
            }
            let t = 1.0 / x;
            match m {
                "cdf" => (g(|| a.cdf(x)), hull3(t, |t| g(|| b.sf(t)))),
                "sf" => (g(|| a.sf(x)), hull3(t, |t| g(|| b.cdf(t)))),
                "pdf" => (g(|| a.pdf(x)), hull3(t, |t| prod(|| b.pdf(t), t * t))),
                "ln_pdf" => (g(|| a.ln_pdf(x)), hull3(t, |t| lsum(|| b.ln_pdf(t), 2.0 * t.ln()))),
                "inverse_cdf" => (g(|| a.inverse_cdf(x)), one(g(|| 1.0 / b.inverse_cdf(1.0 - x)))),
                _ => (V::NA, vec![]),
            }
        }
        "FisherSnedecor~Beta" => {
            // X ~ F(d1,d2)  =>  d1 X / (d1 X + d2) ~ Beta(d1/2, d2/2)
            let (d1, d2) = (p[0], p[1]);
            let a = ok!(FisherSnedecor::new(d1, d2));
            let b = ok!(Beta::new(d1 / 2.0, d2 / 2.0));
            if FUNS[..4].contains(&m) && !(x >= 0.0 && x.is_finite()) {
                return (V::NA, vec![]);
            }
            let t = d1 * x / (d1 * x + d2);
            let jac = d1 * d2 / ((d1 * x + d2) * (d1 * x + d2));
            if (m == "pdf" || m == "ln_pdf") && ((t == 0.0 && x > 0.0) || t == 1.0) {
                // the transformed argument under/overflowed onto an end point where the Beta density may have a pole
                return (V::NA, vec![]);
            }
            match m {
                "cdf" => (g(|| a.cdf(x)), hull3(t, |t| g(|| b.cdf(t)))),
                "sf" => (g(|| a.sf(x)), hull3(t, |t| g(|| b.sf(t)))),
                "pdf" => (g(|| a.pdf(x)), hull3(t, |t| prod(|| b.pdf(t), jac))),
                "ln_pdf" => (g(|| a.ln_pdf(x)), hull3(t, |t| lsum(|| b.ln_pdf(t), jac.ln()))),
                "inverse_cdf" => {
                    // x = d2·y / (d1·(1-y)) is ill-conditioned as y -> 1: hull over the neighbours of y
                    let y = match g(|| b.inverse_cdf(x)) {
                        V::F(y) => y,
                        o => return (g(|| a.inverse_cdf(x)), vec![o]),
                    };
                    (g(|| a.inverse_cdf(x)), hull3(y, |y| V::F(d2 * y / (d1 * (1.0 - y)))))
                }
                _ => (V::NA, vec![]),
            }
        }
        "Geometric(p)~NegativeBinomial(1,p)" => {
            // Geometric counts trials (support 1,2,…), NegativeBinomial(1,p) counts failures: G = NB + 1
            let a = ok!(Geometric::new(p[0]));
            let b = ok!(NegativeBinomial::new(1.0, p[0]));
            let k = as_u(x);
            match (m, k) {
                ("cdf", Some(k)) => (g(|| a.cdf(k)), one(if k == 0 { V::F(0.0) } else { g(|| b.cdf(k - 1)) })),
                ("sf", Some(k)) => (g(|| a.sf(k)), one(if k == 0 { V::F(1.0) } else { g(|| b.sf(k - 1)) })),
                ("pdf", Some(k)) => (g(|| a.pmf(k)), one(if k == 0 { V::F(0.0) } else { g(|| b.pmf(k - 1)) })),
                ("ln_pdf", Some(k)) => (g(|| a.ln_pmf(k)), one(if k == 0 { V::F(f64::NEG_INFINITY) } else { g(|| b.ln_pmf(k - 1)) })),
                ("mean", _) => (go(|| Distribution::mean(&a)), one(go(|| DiscreteDistribution::mean(&b).map(|v| v + 1.0)))),
                ("variance", _) => (go(|| Distribution::variance(&a)), one(go(|| DiscreteDistribution::variance(&b)))),
                ("skewness", _) => (go(|| Distribution::skewness(&a)), one(go(|| DiscreteDistribution::skewness(&b)))),
                ("mode", _) => (go(|| a.mode().map(|k| k as f64)), one(go(|| b.mode().map(|v| v + 1.0)))),
                _ => (V::NA, vec![]),
            }
        }
        "Categorical~Multinomial(n=1)" => {
            let a = ok!(Categorical::new(p));
            let b = ok!(Multinomial::new(p.to_vec(), 1));
            let n = p.len();
            let w = DVector::from_iterator(n, (0..n).map(|i| i as f64));
            match (m, as_u(x)) {
                ("pdf", Some(k)) if (k as usize) < n => {
                    let mut e = DVector::<u64>::zeros(n);
                    e[k as usize] = 1;
                    (g(|| a.pmf(k)), one(g(|| b.pmf(&e))))
                }
                ("ln_pdf", Some(k)) if (k as usize) < n => {
                    let mut e = DVector::<u64>::zeros(n);
                    e[k as usize] = 1;
                    (g(|| a.ln_pmf(k)), one(g(|| b.ln_pmf(&e))))
                }
                // the category index I = Σ i·X_i:  E I = w·mean,  Var I = wᵀ Σ w
                ("mean", _) => (go(|| Distribution::mean(&a)), one(go(|| MeanN::mean(&b).map(|mu| w.dot(&mu))))),
                ("variance", _) => (go(|| Distribution::variance(&a)), one(go(|| VarianceN::variance(&b).map(|c| (w.transpose() * c * &w)[(0, 0)])))),
                _ => (V::NA, vec![]),
            }
        }
        "Bernoulli(0)=Dirac(0)" | "Bernoulli(1)=Dirac(1)" => {
            let v = if pair.starts_with("Bernoulli(0)") { 0.0 } else { 1.0 };
            let a = ok!(Bernoulli::new(v));
            if m == "skewness" {
                return (V::NA, vec![]);
            }
            (dmm!(a, m, x), one(dirac(v, m, x)))
        }
        "Binomial(0,n)=Dirac(0)" | "Binomial(1,n)=Dirac(n)" | "Binomial(p,0)=Dirac(0)" => {
            let (pp, n, v) = match pair {
                "Binomial(0,n)=Dirac(0)" => (0.0, p[0] as u64, 0.0),
                "Binomial(1,n)=Dirac(n)" => (1.0, p[0] as u64, p[0]),
                _ => (p[0], 0, 0.0),
            };
            let a = ok!(Binomial::new(pp, n));
            if m == "skewness" {
                return (V::NA, vec![]);
            }
            (dmm!(a, m, x), one(dirac(v, m, x)))
        }
        "DiscreteUniform(a,a)=Dirac(a)" => {
            let a = ok!(DiscreteUniform::new(p[0] as i64, p[0] as i64));
            let k = x as i64;
            if x != x.trunc() || x.abs() > 9e18 {
                return (V::NA, vec![]);
            }
            let av = match m {
                "cdf" => g(|| a.cdf(k)),
                "sf" => g(|| a.sf(k)),
                "pdf" => g(|| a.pmf(k)),
                "ln_pdf" => g(|| a.ln_pmf(k)),
                "mean" => go(|| a.mean()),
                "variance" => go(|| a.variance()),
                "entropy" => go(|| a.entropy()),
                "median" => g(|| a.median()),
                "mode" => go(|| a.mode().map(|k| k as f64)),
                _ => V::NA,
            };
            (av, one(dirac(p[0], m, x)))
        }
        "Geometric(1)=Dirac(1)" => {
            let a = ok!(Geometric::new(1.0));
            if m == "skewness" {
                return (V::NA, vec![]);
            }
            (dmm!(a, m, x), one(dirac(1.0, m, x)))
        }
        "NegativeBinomial(r,1)=Dirac(0)" => {
            let a = ok!(NegativeBinomial::new(p[0], 1.0));
            let k = as_u(x);
            let av = match (m, k) {
                ("cdf", Some(k)) => g(|| a.cdf(k)),
                ("sf", Some(k)) => g(|| a.sf(k)),
                ("pdf", Some(k)) => g(|| a.pmf(k)),
                ("ln_pdf", Some(k)) => g(|| a.ln_pmf(k)),
                ("mean", _) => go(|| DiscreteDistribution::mean(&a)),
                ("variance", _) => go(|| DiscreteDistribution::variance(&a)),
                ("mode", _) => go(|| a.mode()),
                _ => V::NA,
            };
            (av, one(dirac(0.0, m, x)))
        }
        "Hypergeometric(N,0,n)=Dirac(0)" | "Hypergeometric(N,N,n)=Dirac(n)" | "Hypergeometric(N,K,0)=Dirac(0)" => {
            let (nn, kk, dd, v) = match pair {
                "Hypergeometric(N,0,n)=Dirac(0)" => (p[0] as u64, 0, p[1] as u64, 0.0),
                "Hypergeometric(N,N,n)=Dirac(n)" => (p[0] as u64, p[0] as u64, p[1] as u64, p[1]),
                _ => (p[0] as u64, p[1] as u64, 0, 0.0),
            };
            let a = ok!(Hypergeometric::new(nn, kk, dd));
            // Hypergeometric does not define entropy (trait default None)
            if m == "skewness" || m == "entropy" {
                return (V::NA, vec![]);
            }
            let av = match m {
                "mode" => go(|| a.mode().map(|k| k as f64)),
                m => dm!(a, m, x),
            };
            (av, one(dirac(v, m, x)))
        }
        "Categorical(e_i)=Dirac(i)" => {
            // p = [len, i]
            let (len, i) = (p[0] as usize, p[1] as usize);
            let mut pm = vec![0.0; len];
            pm[i] = 1.0;
            let a = ok!(Categorical::new(&pm));
            let av = match m {
                "median" => g(|| a.median()),
                "skewness" | "mode" => V::NA,
                m => dm!(a, m, x),
            };
            (av, one(dirac(i as f64, m, x)))
        }
        "locscale Normal" => locscale!(p, m, x, Normal::new(p[0], p[1]), Normal::new(0.0, 1.0)),
        "locscale Cauchy" => locscale!(p, m, x, Cauchy::new(p[0], p[1]), Cauchy::new(0.0, 1.0)),
        "locscale Laplace" => locscale!(p, m, x, Laplace::new(p[0], p[1]), Laplace::new(0.0, 1.0)),
        "locscale Gumbel" => locscale!(p, m, x, Gumbel::new(p[0], p[1]), Gumbel::new(0.0, 1.0)),
        "locscale Levy" => locscale!(p, m, x, Levy::new(p[0], p[1]), Levy::new(0.0, 1.0)),
        "locscale StudentsT" => locscale!(p, m, x, StudentsT::new(p[0], p[1], p[3]), StudentsT::new(0.0, 1.0, p[3])),
        // Uniform(a,b): l = a, s = b - a
        "locscale Uniform" => locscale!(p, m, x, Uniform::new(p[0], p[0] + p[1]), Uniform::new(0.0, 1.0)),
        // Triangular(a,b,c): l = a, s = b - a, standard mode (c-a)/(b-a) = p[3]
        "locscale Triangular" => locscale!(p, m, x, Triangular::new(p[0], p[0] + p[1], p[0] + p[1] * p[3]), Triangular::new(0.0, 1.0, p[3])),
        _ => (V::NA, vec![]),
    }
}

/// pairs on which an inverse_cdf / median call did not return: each such call leaks a spinning thread, so after
/// the first one the quantile methods of that pair (with the same special parameter class) are no longer called
static HUNG: std::sync::Mutex<Vec<String>> = std::sync::Mutex::new(Vec::new());

/// inverse_cdf / median may not terminate: run on a thread
fn eval_timed(pair: &str, p: &[f64], m: &str, x: f64) -> (V, Vec<V>) {
    if m != "inverse_cdf" && m != "median" {
        return eval(pair, p, m, x);
    }
    let key = format!("{} {}", pair, p.iter().map(|v| if v.is_infinite() { "inf" } else { "fin" }).collect::<Vec<_>>().join(","));
    if HUNG.lock().unwrap().contains(&key) {
        return (V::NA, vec![]);
    }
    let (tx, rx) = std::sync::mpsc::channel();
    let (pair2, p2, m2) = (pair.to_string(), p.to_vec(), m.to_string());
    std::thread::spawn(move || {
        let _ = tx.send(eval(&pair2, &p2, &m2, x));
    });
    match rx.recv_timeout(std::time::Duration::from_millis(3000)) {
        Ok(r) => r,
        Err(_) => {
            HUNG.lock().unwrap().push(key);
            (V::Hang, vec![V::Hang])
        }
    }
}

/// the property's tolerance against the hull of the reference values
fn agree(a: V, bs: &[V]) -> Option<bool> {
    if a == V::NA || bs.is_empty() || bs[0] == V::NA {
        return None;
    }
    if a == V::Hang || bs.iter().any(|b| *b == V::Hang) {
        return None; // reported separately
    }
    // the reference value at the transformed argument itself decides whether a number is expected at all; a
    // neighbour that is not a number (the neighbour of 0 is negative, of MAX infinite …) is ignored
    let primary = bs[0];
    let af = match (a, primary) {
        (V::F(x), V::F(_)) => x,
        (V::F(x), _) if x.is_nan() => return Some(matches!(primary, V::F(y) if y.is_nan())),
        (V::F(_), _) => return Some(false),
        (other, _) => return Some(primary == other),
    };
    let mut fs: Vec<f64> = bs.iter().filter_map(|b| if let V::F(x) = b { Some(*x) } else { None }).collect();
    let pf = fs[0];
    if af.is_nan() {
        return Some(pf.is_nan());
    }
    if pf.is_nan() {
        return Some(false);
    }
    fs.retain(|x| !x.is_nan());
    let lo = fs.iter().cloned().fold(f64::INFINITY, f64::min);
    let hi = fs.iter().cloned().fold(f64::NEG_INFINITY, f64::max);
    if af >= lo && af <= hi {
        return Some(true);
    }
    let near = if af < lo { lo } else { hi };
    if af == near {
        return Some(true);
    }
    let diff = (af - near).abs();
    Some(diff <= 1e-12 || diff <= 1e-9 * af.abs().max(near.abs()))
}

fn xclass(x: f64) -> &'static str {
    if x.is_nan() {
        " @x=nan"
    } else if x == f64::INFINITY {
        " @x=+inf"
    } else if x == f64::NEG_INFINITY {
        " @x=-inf"
    } else if x == 0.0 {
        " @x=0"
    } else if x.abs() < 1e-300 {
        " @|x|<1e-300"
    } else if x.abs() >= 1e300 {
        " @|x|>=1e300"
    } else {
        ""
    }
}

fn hexs(v: &[f64]) -> Vec<String> {
    v.iter().map(|x| format!("{:016x}", x.to_bits())).collect()
}

fn check(cx: &mut Ctx, pre: &str, pair: &str, p: &[f64], m: &str, x: f64, ptag: &str) {
    cx.evals += 1;
    let (a, bs) = eval_timed(pair, p, m, x);
    if a == V::Hang {
        // which side hangs is not observable from here; replay shows it
        let case = json!({"pair": pair, "params": hexs(p), "method": m, "x": format!("{:016x}", x.to_bits())});
        cx.violation(&format!("{}{} {} hang{}", pre, pair, m, ptag), "one side of the identity does not terminate (3 s) while the identity demands equal values", case, format!("params {:?}, argument {:e}: no result", p, x), "agreement to 1e-9 relative or 1e-12 absolute");
        return;
    }
    if let Some(false) = agree(a, &bs) {
        let is_fun = FUNS.contains(&m);
        let nanv = |v: &V| matches!(v, V::F(x) if x.is_nan());
        let kind = match (&a, &bs[0]) {
            (V::Panic, _) => " panic(left)",
            (_, V::Panic) => " panic(right)",
            (l, _) if nanv(l) => " NaN(left)",
            (_, r) if nanv(r) => " NaN(right)",
            (V::None, _) | (_, V::None) => " None/Some",
            _ => "",
        };
        let mname = format!("{}{}", m, kind);
        let ptag = if ptag == " [N<=1]" && is_fun { "" } else { ptag };
        let site = format!("{}{} {}{}{}", pre, pair, mname, ptag, if is_fun && m != "inverse_cdf" { xclass(x) } else { "" });
        let case = json!({"pair": pair, "params": hexs(p), "method": m, "x": format!("{:016x}", x.to_bits())});
        let shown = format!("params {:?}{}", p, if is_fun { format!(", argument {:e}", x) } else { String::new() });
        cx.violation(&site, "the two sides of the identity disagree", case, format!("{} : left {} ; right {}", shown, a.show(), bs.iter().map(|b| b.show()).collect::<Vec<_>>().join(" | ")), "agreement to 1e-9 relative or 1e-12 absolute");
    }
}

// ---------------------------------------------------------------------------------------------
// parameter and argument pools (the C01 generator's ranges)
// ---------------------------------------------------------------------------------------------
fn shape(r: &mut crate::rng::Sm, ext: bool) -> f64 {
    match r.below(12) {
        0 => 0.5,
        1 => 1.0,
        2 => 2.0,
        3 => 80.0,
        4 => 160.0,
        5 => 200.0,
        6 => r.below(200) as f64 + 1.0,
        _ => {
            if ext {
                r.log_range(0.05, 1e4)
            } else {
                r.log_range(0.5, 200.0)
            }
        }
    }
}
fn scale(r: &mut crate::rng::Sm, ext: bool) -> f64 {
    match r.below(8) {
        0 => 1.0,
        1 => 1e-2,
        2 => 1e2,
        _ => {
            if ext {
                r.log_range(1e-4, 1e4)
            } else {
                r.log_range(1e-2, 1e2)
            }
        }
    }
}
fn loc(r: &mut crate::rng::Sm) -> f64 {
    match r.below(8) {
        0 => 0.0,
        1 => -100.0,
        2 => 100.0,
        3 => 1.0,
        _ => r.range(-100.0, 100.0),
    }
}
fn prob(r: &mut crate::rng::Sm) -> f64 {
    match r.below(10) {
        0 => 0.0,
        1 => 1.0,
        2 => 0.5,
        3 => 1e-3,
        4 => 1.0 - 1e-3,
        _ => r.range(1e-3, 1.0 - 1e-3),
    }
}
fn any(r: &mut crate::rng::Sm) -> f64 {
    let s = if r.below(2) == 0 { 1.0 } else { -1.0 };
    match r.below(8) {
        0 => 0.0,
        1 => 1.0,
        2 => -1.0,
        _ => s * r.log_range(1e-3, 1e3),
    }
}

/// parameters of one pair: (params, tag)
fn params_for(pair: &str, r: &mut crate::rng::Sm, ext: bool) -> Vec<f64> {
    match pair {
        "ChiSquared(k)=Gamma(k/2,1/2)" => vec![shape(r, ext)],
        "Erlang(k,r)=Gamma(k,r)" => vec![1.0 + r.below(200) as f64, scale(r, ext)],
        "Exp(r)=Gamma(1,r)" | "Exp(r)=Weibull(1,1/r)" | "Gamma(1,r)=Weibull(1,1/r)" | "Erlang(1,r)=Exp(r)" => vec![scale(r, ext)],
        "ChiSquared(2)=Exp(1/2)" | "Beta(1,1)=Uniform(0,1)" | "Bernoulli(0)=Dirac(0)" | "Bernoulli(1)=Dirac(1)" | "Geometric(1)=Dirac(1)" => vec![],
        "Bernoulli(p)=Binomial(p,1)" => vec![prob(r)],
        "StudentsT(l,s,1)=Cauchy(l,s)" | "StudentsT(l,s,inf)=Normal(l,s)" | "LogNormal=exp(Normal)" => vec![loc(r), scale(r, ext)],
        "Chi(k)^2~ChiSquared(k)" => vec![1.0 + r.below(200) as f64],
        "InverseGamma=1/Gamma" => vec![shape(r, ext), scale(r, ext)],
        "FisherSnedecor~Beta" => vec![shape(r, ext), shape(r, ext)],
        "Geometric(p)~NegativeBinomial(1,p)" => {
            let mut p = prob(r);
            if p == 0.0 {
                p = 0.25;
            }
            vec![p]
        }
        "Categorical~Multinomial(n=1)" => {
            let len = 2 + r.below(5) as usize;
            loop {
                let v: Vec<f64> = (0..len).map(|_| if r.below(5) == 0 { 0.0 } else { r.log_range(1e-2, 10.0) }).collect();
                if v.iter().sum::<f64>() > 0.0 {
                    return v;
                }
            }
        }
        "Binomial(0,n)=Dirac(0)" | "Binomial(1,n)=Dirac(n)" => vec![*r.pick(&[0.0, 1.0, 5.0, 50.0, 1000.0])],
        "Binomial(p,0)=Dirac(0)" => vec![prob(r)],
        "DiscreteUniform(a,a)=Dirac(a)" => vec![r.below(200) as f64 - 100.0],
        "NegativeBinomial(r,1)=Dirac(0)" => vec![shape(r, ext)],
        "Hypergeometric(N,0,n)=Dirac(0)" | "Hypergeometric(N,N,n)=Dirac(n)" | "Hypergeometric(N,K,0)=Dirac(0)" => {
            let n = *r.pick(&[0u64, 1, 2, 50, 300]);
            vec![n as f64, r.below(n + 1) as f64]
        }
        "Categorical(e_i)=Dirac(i)" => {
            let len = 1 + r.below(5);
            vec![len as f64, r.below(len) as f64]
        }
        _ => vec![],
    }
}

fn ptag(pair: &str, p: &[f64]) -> String {
    // probability parameters 0 / 1 are a class of their own (as in C01)
    if pair == "Bernoulli(p)=Binomial(p,1)" || pair == "Geometric(p)~NegativeBinomial(1,p)" || pair == "Binomial(p,0)=Dirac(0)" {
        if p[0] == 0.0 || p[0] == 1.0 {
            return format!(" [p={}]", p[0]);
        }
    }
    if pair.starts_with("Hypergeometric") && p[0] <= 1.0 {
        // mean / variance are documented `None` for N = 0 / N <= 1
        return " [N<=1]".to_string();
    }
    String::new()
}

fn pool_f(cx: &mut Ctx, pair: &str, p: &[f64]) -> Vec<f64> {
    let mut v: Vec<f64> = vec![];
    // quantiles of either side (whichever has a terminating inverse_cdf)
    for q in P_GRID {
        let (a, b) = eval_timed(pair, p, "inverse_cdf", q);
        if a == V::Hang {
            let case = json!({"pair": pair, "params": hexs(p), "method": "inverse_cdf", "x": format!("{:016x}", q.to_bits())});
            cx.violation(&format!("{} inverse_cdf hang", pair), "one side of the identity does not terminate (3 s) while the identity demands equal values", case, format!("params {:?}, argument {:e}: no result", p, q), "agreement to 1e-9 relative or 1e-12 absolute");
            break;
        }
        for c in std::iter::once(a).chain(b.into_iter()) {
            if let V::F(x) = c {
                if !x.is_nan() {
                    v.push(x);
                    if cx.r.below(3) == 0 {
                        v.push(next_up(x));
                    }
                    break;
                }
            }
        }
    }
    for mm in ["min", "max"] {
        let (a, _) = eval(pair, p, mm, 0.0);
        if let V::F(x) = a {
            v.push(x);
            v.push(next_up(x));
            v.push(next_down(x));
        }
    }
    v.extend_from_slice(&[0.0, -0.0, 1.0, -1.0, 0.5, f64::INFINITY, f64::NEG_INFINITY, 1e300, -1e300, 5e-324]);
    for _ in 0..6 {
        v.push(any(&mut cx.r));
    }
    v.retain(|x| !x.is_nan());
    v
}
fn pool_k(cx: &mut Ctx, pair: &str, p: &[f64]) -> Vec<f64> {
    let mut v: Vec<f64> = vec![0.0, 1.0, 2.0, 3.0, 5.0, 10.0];
    for mm in ["min", "max"] {
        if let (V::F(x), _) = eval(pair, p, mm, 0.0) {
            for d in [-2.0, -1.0, 0.0, 1.0, 2.0] {
                v.push(x + d);
            }
        }
    }
    for _ in 0..8 {
        v.push(cx.r.below(300) as f64);
    }
    if pair == "Geometric(p)~NegativeBinomial(1,p)" {
        // unbounded support: lattice points around the 32-bit and 53-bit boundaries (integer casts, powi exponents)
        for k in [2147483646.0, 2147483647.0, 2147483648.0, 2147483649.0, 4294967296.0, 4294967298.0, 9007199254740992.0, 1e18] {
            v.push(k);
        }
    }
    if pair.starts_with("DiscreteUniform") {
        for _ in 0..4 {
            v.push(-(cx.r.below(100) as f64));
        }
    } else {
        v.retain(|x| *x >= 0.0);
    }
    v
}

const DISCRETE: [&str; 15] = [
    "Bernoulli(p)=Binomial(p,1)",
    "Geometric(p)~NegativeBinomial(1,p)",
    "Categorical~Multinomial(n=1)",
    "Bernoulli(0)=Dirac(0)",
    "Bernoulli(1)=Dirac(1)",
    "Binomial(0,n)=Dirac(0)",
    "Binomial(1,n)=Dirac(n)",
    "Binomial(p,0)=Dirac(0)",
    "DiscreteUniform(a,a)=Dirac(a)",
    "Geometric(1)=Dirac(1)",
    "NegativeBinomial(r,1)=Dirac(0)",
    "Hypergeometric(N,0,n)=Dirac(0)",
    "Hypergeometric(N,N,n)=Dirac(n)",
    "Hypergeometric(N,K,0)=Dirac(0)",
    "Categorical(e_i)=Dirac(i)",
];

fn run_pair(cx: &mut Ctx, pair: &str, n_t: usize) {
    let fixed = params_for(pair, &mut cx.r.clone(), false).is_empty() && !pair.starts_with("Categorical~");
    // parameter tuples that are always tried: the degrees of freedom just past the literal cut-over of
    // Chi::pdf (160 → log-space path) and where the direct formula would overflow while the log-space path
    // is still fine (321, 340)
    let corners: Vec<Vec<f64>> = match pair {
        "Chi(k)^2~ChiSquared(k)" => vec![vec![160.0], vec![161.0], vec![321.0], vec![340.0]],
        _ => vec![],
    };
    let reps = if fixed { 1 } else { n_t + corners.len() };
    for ti in 0..reps {
        let ext = cx.thorough && ti % 2 == 1;
        let p = if !fixed && ti >= n_t { corners[ti - n_t].clone() } else { params_for(pair, &mut cx.r, ext) };
        let ext = ext && ti < n_t;
        let tag = ptag(pair, &p);
        let disc = DISCRETE.contains(&pair);
        let xs = if disc { pool_k(cx, pair, &p) } else { pool_f(cx, pair, &p) };
        for m in ["cdf", "sf", "pdf", "ln_pdf"] {
            for &x in &xs {
                check_ext(cx, pair, &p, m, x, &tag, ext);
            }
        }
        if !disc {
            let mut qs: Vec<f64> = P_GRID.to_vec();
            qs.extend_from_slice(&[0.0, 1.0]);
            for _ in 0..4 {
                qs.push(cx.r.unit());
            }
            for q in qs {
                check_ext(cx, pair, &p, "inverse_cdf", q, &tag, ext);
            }
        }
        for m in SCALARS {
            check_ext(cx, pair, &p, m, 0.0, &tag, ext);
        }
    }
}
fn check_ext(cx: &mut Ctx, pair: &str, p: &[f64], m: &str, x: f64, tag: &str, ext: bool) {
    // extended-domain tuples get their own sites
    check(cx, if ext { "[ext] " } else { "" }, pair, p, m, x, tag);
}

/// location–scale equivariance over (l, s, z)
fn run_locscale(cx: &mut Ctx, pair: &str, n: usize) {
    for i in 0..n {
        let exact = i % 2 == 0;
        let ext = cx.thorough && i % 4 >= 2;
        let (l, s) = if exact {
            // l = j/8, s = 2^k: l + s·z is exact for z = m/1024, |m| < 2^15
            ((cx.r.below(1601) as f64 - 800.0) / 8.0, (2.0f64).powi(cx.r.below(if ext { 27 } else { 15 }) as i32 - if ext { 13 } else { 7 }))
        } else {
            (loc(&mut cx.r), scale(&mut cx.r, ext))
        };
        let extra = match pair {
            "locscale StudentsT" => match cx.r.below(6) {
                0 => f64::INFINITY,
                1 => 1.0,
                2 => 2.0,
                _ => shape(&mut cx.r, ext),
            },
            "locscale Triangular" => match cx.r.below(5) {
                0 => 0.0,
                1 => 1.0,
                2 => 0.5,
                _ => (cx.r.below(1023) as f64 + 1.0) / 1024.0,
            },
            _ => 0.0,
        };
        // Uniform / Triangular are parameterised by their end points: the scale is what the end points say
        let s = if pair == "locscale Uniform" || pair == "locscale Triangular" {
            let b = l + s;
            let se = b - l;
            if !(se > 0.0) || l + se != b {
                continue;
            }
            se
        } else {
            s
        };
        let p = vec![l, s, if exact { 1.0 } else { 0.0 }, extra];
        let tag = if pair == "locscale StudentsT" && extra.is_infinite() { " [freedom=inf]" } else { "" };
        // z pool: standard quantiles, support ends, specials, random
        let mut zs: Vec<f64> = vec![];
        let std_p = vec![0.0, 1.0, 1.0, extra];
        for q in P_GRID {
            if let (V::F(z), _) = eval_timed(pair, &std_p, "inverse_cdf", q) {
                if z.is_finite() {
                    zs.push(z);
                }
            }
        }
        zs.extend_from_slice(&[0.0, 1.0, -1.0, 0.5, 2.0, -3.0, 10.0, 1e-3]);
        for _ in 0..8 {
            zs.push(any(&mut cx.r));
        }
        if exact {
            for z in zs.iter_mut() {
                *z = ((*z * 1024.0).round() / 1024.0).clamp(-30.0, 30.0);
            }
        }
        for m in ["cdf", "sf", "pdf", "ln_pdf"] {
            for &z in &zs {
                check_ext(cx, pair, &p, m, z, tag, ext);
            }
        }
        for q in P_GRID {
            check_ext(cx, pair, &p, "inverse_cdf", q, tag, ext);
        }
    }
}

pub fn run(cx: &mut Ctx) {
    let n_t = if cx.thorough { 500 } else { 12 };
    for pair in PAIRS {
        if std::env::var("C10_TRACE").is_ok() {
            eprintln!("C10 pair {}", pair);
        }
        if pair.starts_with("locscale") {
            run_locscale(cx, pair, 2 * n_t);
        } else {
            run_pair(cx, pair, n_t);
        }
    }
}

pub fn replay(case: &Value) -> String {
    let pair = case["pair"].as_str().unwrap_or("");
    let p: Vec<f64> = case["params"].as_array().map(|a| a.iter().filter_map(|s| s.as_str().and_then(|h| u64::from_str_radix(h, 16).ok()).map(f64::from_bits)).collect()).unwrap_or_default();
    let m = case["method"].as_str().unwrap_or("");
    let x = case["x"].as_str().and_then(|h| u64::from_str_radix(h, 16).ok()).map(f64::from_bits).unwrap_or(0.0);
    let (a, bs) = eval_timed(pair, &p, m, x);
    let verdict = match agree(a, &bs) {
        Some(true) => "agree",
        Some(false) => "DISAGREE",
        None => "not comparable",
    };
    format!("observed: {} {} params {:?} x {:e}: left {} ; right {} => {} / required: agreement to 1e-9 relative or 1e-12 absolute", pair, m, p, x, a.show(), bs.iter().map(|b| b.show()).collect::<Vec<_>>().join(" | "), verdict)
}
