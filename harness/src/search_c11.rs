//! C11 — special functions and their inverses return the true value to stated accuracy.
//!
//! Oracle: the committed table `ref/c11_reference.txt` (mpmath, 50/80 digits, see
//! `ref/gen_c11_reference.py`), embedded with `include_str!`; every row holds the argument bit patterns and
//! the correctly rounded f64 of the true value (only rows whose true value is a normal float exist).
//!   V rows: |got - true| <= B * max(1, |true|)   (relative error, absolute where |true| < 1), with
//!           B = 1e-12 gamma family (gamma, ln_gamma, digamma, beta, ln_beta, harmonic, gen_harmonic),
//!               combinatorics (factorial, ln_factorial, binomial, ln_binomial, multinomial) and logistic/logit,
//!           B = 2e-10 erf/erfc,  B = 1e-10 incomplete gamma/beta and the exponential integral E_n
//!           (E_n(x) = x^(n-1) Gamma(1-n,x) is an incomplete gamma function).  A non-finite result where the
//!           true value is a normal float is reported under its own site.  `integral` returning None is the
//!           documented "did not converge" outcome and is not judged.
//!   I rows: inverse functions; the row stores the outward rounded pre-image [lo,hi] of input*(1 -+ 1e-9) under
//!           the exact forward function, so `lo <= got <= hi` is exactly "the forward image reproduces the input
//!           to 1e-9 relative".
//! Besides the table: exact BigUint oracle for factorial (0..=170), binomial (all 0<=k<=n<=170 in the thorough
//! tier, a seeded sample in quick) and seeded multinomials; reflection / recurrence / complement identities on
//! seeded random points with residual <= B * max(1, largest term) (arguments are dyadic so that x+1, 1-x are
//! exact; where the right-hand side needs sin/cot of pi*x the oracle's own rounding, < 2e-14, is added).
use crate::search::Ctx;
use num_bigint::BigUint;
use num_traits::{One, ToPrimitive};
use serde_json::{json, Value};
use statrs::function::{beta, erf, exponential, factorial, gamma, harmonic, logistic};
use std::panic::{catch_unwind, AssertUnwindSafe};

const TABLE: &str = include_str!("../ref/c11_reference.txt");

pub struct Finding {
    pub site: String,
    pub what: String,
    pub observed: String,
    pub required: String,
}
fn finding(site: &str, what: &str, observed: String, required: String) -> Finding {
    Finding { site: site.to_string(), what: what.to_string(), observed, required }
}
fn fm(x: f64) -> String {
    format!("{:e} (0x{:016x})", x, x.to_bits())
}
fn hx(x: f64) -> Value {
    json!(format!("{:016x}", x.to_bits()))
}
fn unhx(v: &Value) -> f64 {
    f64::from_bits(u64::from_str_radix(v.as_str().unwrap_or("7ff8000000000000"), 16).unwrap_or(0x7ff8000000000000))
}

#[derive(Clone, Copy, Debug)]
enum A {
    F(f64),
    U(u64),
}
impl A {
    fn f(&self) -> f64 {
        match self {
            A::F(x) => *x,
            A::U(n) => *n as f64,
        }
    }
    fn u(&self) -> u64 {
        match self {
            A::U(n) => *n,
            A::F(x) => *x as u64,
        }
    }
}
fn parse_args(s: &str) -> Vec<A> {
    s.split_whitespace()
        .filter_map(|t| {
            let (tag, rest) = t.split_at(2);
            match tag {
                "f:" => u64::from_str_radix(rest, 16).ok().map(|b| A::F(f64::from_bits(b))),
                "u:" => rest.parse::<u64>().ok().map(A::U),
                _ => None,
            }
        })
        .collect()
}
fn show_args(a: &[A]) -> String {
    a.iter().map(|x| match x { A::F(v) => format!("{:?}", v), A::U(n) => format!("{}", n) }).collect::<Vec<_>>().join(", ")
}

/// run on a helper thread with a 10 s limit (leaks the thread on a hang)
fn guarded<T: Send + 'static>(f: impl FnOnce() -> T + Send + 'static) -> Result<T, &'static str> {
    let (tx, rx) = std::sync::mpsc::channel();
    std::thread::spawn(move || {
        let r = catch_unwind(AssertUnwindSafe(f));
        let _ = tx.send(r);
    });
    match rx.recv_timeout(std::time::Duration::from_secs(10)) {
        Ok(Ok(v)) => Ok(v),
        Ok(Err(_)) => Err("panic"),
        Err(_) => Err("hang"),
    }
}
fn quick_call<T>(f: impl FnOnce() -> T) -> Result<T, &'static str> {
    catch_unwind(AssertUnwindSafe(f)).map_err(|_| "panic")
}

/// Ok(Some(v)) value, Ok(None) documented "no value" (exp integral), Err("panic"/"hang")
fn call_fn(name: &str, a: &[A]) -> Result<Option<f64>, &'static str> {
    let f0 = a.get(0).map(|x| x.f()).unwrap_or(f64::NAN);
    let f1 = a.get(1).map(|x| x.f()).unwrap_or(f64::NAN);
    let f2 = a.get(2).map(|x| x.f()).unwrap_or(f64::NAN);
    let u0 = a.get(0).map(|x| x.u()).unwrap_or(0);
    let u1 = a.get(1).map(|x| x.u()).unwrap_or(0);
    match name {
        "gamma" => quick_call(|| Some(gamma::gamma(f0))),
        "ln_gamma" => quick_call(|| Some(gamma::ln_gamma(f0))),
        "digamma" => quick_call(|| Some(gamma::digamma(f0))),
        "inv_digamma" => guarded(move || Some(gamma::inv_digamma(f0))),
        "beta" => quick_call(|| Some(beta::beta(f0, f1))),
        "ln_beta" => quick_call(|| Some(beta::ln_beta(f0, f1))),
        "erf" => quick_call(|| Some(erf::erf(f0))),
        "erfc" => quick_call(|| Some(erf::erfc(f0))),
        "erf_inv" => quick_call(|| Some(erf::erf_inv(f0))),
        "erfc_inv" => quick_call(|| Some(erf::erfc_inv(f0))),
        "gamma_lr" => guarded(move || Some(gamma::gamma_lr(f0, f1))),
        "gamma_ur" => guarded(move || Some(gamma::gamma_ur(f0, f1))),
        "gamma_li" => guarded(move || Some(gamma::gamma_li(f0, f1))),
        "gamma_ui" => guarded(move || Some(gamma::gamma_ui(f0, f1))),
        "beta_reg" => quick_call(|| Some(beta::beta_reg(f0, f1, f2))),
        "beta_inc" => quick_call(|| Some(beta::beta_inc(f0, f1, f2))),
        "inv_beta_reg" => guarded(move || Some(beta::inv_beta_reg(f0, f1, f2))),
        "factorial" => quick_call(|| Some(factorial::factorial(u0))),
        "ln_factorial" => quick_call(|| Some(factorial::ln_factorial(u0))),
        "binomial" => quick_call(|| Some(factorial::binomial(u0, u1))),
        "ln_binomial" => quick_call(|| Some(factorial::ln_binomial(u0, u1))),
        "multinomial" => {
            let ni: Vec<u64> = a[1..].iter().map(|x| x.u()).collect();
            quick_call(move || Some(factorial::multinomial(u0, &ni)))
        }
        "harmonic" => quick_call(|| Some(harmonic::harmonic(u0))),
        "gen_harmonic" => quick_call(|| Some(harmonic::gen_harmonic(u0, f1))),
        "logistic" => quick_call(|| Some(logistic::logistic(f0))),
        "logit" => quick_call(|| Some(logistic::logit(f0))),
        "exp_integral" => quick_call(|| exponential::integral(f0, u1)),
        _ => Err("panic"),
    }
}

fn bound_of(name: &str) -> f64 {
    match name {
        "erf" | "erfc" => 2e-10,
        "gamma_lr" | "gamma_ur" | "gamma_li" | "gamma_ui" | "beta_reg" | "beta_inc" | "exp_integral" => 1e-10,
        _ => 1e-12,
    }
}

const JOINTS: [f64; 15] = [1e-10, 0.5, 0.75, 1.25, 2.25, 3.5, 5.25, 8.0, 11.5, 17.0, 24.0, 38.0, 60.0, 85.0, 110.0];
fn erf_interval(x: f64) -> String {
    let z = x.abs();
    let names = ["A0 |x|<1e-10", "A [1e-10,0.5)", "B [0.5,0.75)", "C [0.75,1.25)", "D [1.25,2.25)", "E [2.25,3.5)", "F [3.5,5.25)", "G [5.25,8)", "H [8,11.5)", "I [11.5,17)", "J [17,24)", "K [24,38)", "L [38,60)", "M [60,85)", "N [85,110)", "|x|>=110"];
    let mut i = 0;
    while i < JOINTS.len() && z >= JOINTS[i] {
        i += 1;
    }
    format!("{}{}", names[i], if x < 0.0 { " x<0" } else { "" })
}

/// coarse input class for the site key
fn class_of(name: &str, a: &[A]) -> String {
    let f0 = a.get(0).map(|x| x.f()).unwrap_or(0.0);
    let f1 = a.get(1).map(|x| x.f()).unwrap_or(0.0);
    let mag = |v: f64| if v < 1.0 { "<1" } else if v < 100.0 { "in [1,100)" } else if v < 1000.0 { "in [100,1e3)" } else { ">=1e3" };
    match name {
        "gamma" | "ln_gamma" => {
            if f0 < 0.0 {
                if f0 > -20.0 { "x in (-20,0)".into() } else { "x<=-20".into() }
            } else if f0 < 0.5 {
                "0<x<0.5".into()
            } else if f0 < 100.0 {
                "x in [0.5,100)".into()
            } else if f0 < 1000.0 {
                "x in [100,1e3)".into()
            } else {
                "x>=1e3".into()
            }
        }
        "digamma" => {
            if f0 < 0.0 {
                if f0 > -20.0 { "x in (-20,0)".into() } else { "x<=-20".into() }
            } else if f0 <= 1e-6 {
                "0<x<=1e-6".into()
            } else if f0 < 12.0 {
                "x in (1e-6,12)".into()
            } else {
                "x>=12".into()
            }
        }
        "erf" | "erfc" => erf_interval(f0),
        "gamma_lr" | "gamma_ur" | "gamma_li" | "gamma_ui" => format!("a {} {}", mag(f0), if f1 <= 1.0 || f1 <= f0 { "x<=max(a,1)" } else { "x>max(a,1)" }),
        "beta" | "ln_beta" => format!("max(a,b) {}", mag(f0.max(f1))),
        "beta_reg" | "beta_inc" | "inv_beta_reg" => format!("max(a,b) {} min(a,b) {}", mag(f0.max(f1)), if f0.min(f1) < 1.0 { "<1" } else { ">=1" }),
        "factorial" | "ln_factorial" | "harmonic" => (if a[0].u() <= 170 { "n<=170" } else { "n>170" }).into(),
        "binomial" | "ln_binomial" => (if a[0].u() <= 170 { "n<=170" } else if a[0].u() <= 1029 { "n in (170,1029]" } else { "n>1029" }).into(),
        "multinomial" => (if a[0].u() <= 170 { "n<=170" } else { "n>170" }).into(),
        "gen_harmonic" => (if f1 < 0.0 { "m<0" } else { "m>=0" }).into(),
        "logistic" => (if f0 < 0.0 { "p<0" } else { "p>=0" }).into(),
        "logit" => (if f0 < 0.25 { "p<0.25" } else if f0 <= 0.75 { "p in [0.25,0.75]" } else { "p>0.75" }).into(),
        "exp_integral" => format!("{} {}", if a[1].u() == 0 { "n=0" } else if a[1].u() == 1 { "n=1" } else { "n>=2" }, if f0 > 1.0 { "x>1" } else { "x<=1" }),
        "erf_inv" => (if f0.abs() <= 0.5 { "|x|<=0.5" } else if f0.abs() <= 0.75 { "|x| in (0.5,0.75]" } else { "|x|>0.75" }).into(),
        "erfc_inv" => {
            let q = if f0 > 1.0 { 2.0 - f0 } else { f0 };
            (if q >= 0.5 { "q>=0.5" } else if q >= 0.25 { "q in [0.25,0.5)" } else if q > 1e-16 { "q in (1e-16,0.25)" } else { "q<=1e-16" }).into()
        }
        "inv_digamma" => (if f0 < -2.22 { "x<-2.22" } else { "x>=-2.22" }).into(),
        _ => String::new(),
    }
}

fn eval_row(line: &str) -> Vec<Finding> {
    let mut out = vec![];
    let p: Vec<&str> = line.split('\t').collect();
    if p.len() < 4 {
        return out;
    }
    let (kind, name, args) = (p[0], p[1], parse_args(p[2]));
    let cls = class_of(name, &args);
    let call = format!("{}({})", name, show_args(&args));
    let got = match call_fn(name, &args) {
        Err(e) => {
            out.push(finding(&format!("{} {} @{}", name, e, cls), "call inside the documented domain did not return", format!("{} -> {}", call, e), "a value".into()));
            return out;
        }
        Ok(None) => return out,
        Ok(Some(g)) => g,
    };
    if kind == "V" {
        let t = f64::from_bits(u64::from_str_radix(p[3], 16).unwrap());
        let b = bound_of(name);
        if !got.is_finite() {
            let k = if got.is_nan() { "NaN" } else { "inf" };
            out.push(finding(&format!("{} {} where true value is a normal float @{}", name, k, cls), "non-finite result although the true value is a normal float", format!("{} -> {}", call, fm(got)), format!("{} (true {})", fm(t), p.get(4).unwrap_or(&""))));
            return out;
        }
        let err = (got - t).abs();
        let scale = t.abs().max(1.0);
        if !(err <= b * scale) {
            out.push(finding(&format!("{} error > {:e} @{}", name, b, cls), "error exceeds the per-function bound (relative, absolute where |true|<1)", format!("{} -> {}; error {:e}{}", call, fm(got), err / scale, if t.abs() >= 1.0 { " relative" } else { " absolute" }), format!("{} (true {}) within {:e}", fm(t), p.get(4).unwrap_or(&""), b)));
        }
    } else {
        let mut it = p[3].split(':');
        let lo = f64::from_bits(u64::from_str_radix(it.next().unwrap_or("0"), 16).unwrap());
        let hi = f64::from_bits(u64::from_str_radix(it.next().unwrap_or("0"), 16).unwrap());
        if !(got >= lo && got <= hi) {
            let k = if got.is_nan() { "NaN" } else { "forward image off by > 1e-9" };
            out.push(finding(&format!("{} {} @{}", name, k, cls), "the forward image of the returned value does not reproduce the input to 1e-9 relative", format!("{} -> {}", call, fm(got)), format!("a value in [{:e}, {:e}] (true inverse {})", lo, hi, p.get(4).unwrap_or(&""))));
        }
    }
    out
}

// ------------------------------------------------------------------------------------------------ exact integer oracles
fn big_fact(n: u64) -> BigUint {
    let mut r = BigUint::one();
    for i in 2..=n {
        r *= i;
    }
    r
}
fn judge_exact(name: &str, call: String, got: Result<f64, &'static str>, exact: &BigUint, cls: &str) -> Vec<Finding> {
    let mut out = vec![];
    let t = exact.to_f64().unwrap_or(f64::INFINITY);
    if !t.is_finite() {
        return out;
    }
    match got {
        Err(e) => out.push(finding(&format!("{} {} @{}", name, e, cls), "call did not return", format!("{} -> {}", call, e), "a value".into())),
        Ok(g) => {
            if !g.is_finite() {
                out.push(finding(&format!("{} non-finite where true value is a normal float @{}", name, cls), "non-finite", format!("{} -> {}", call, fm(g)), format!("{}", exact)));
            } else {
                let err = (g - t).abs();
                if !(err <= 1e-12 * t.abs().max(1.0)) {
                    out.push(finding(&format!("{} error > 1e-12 @{} (exact integer oracle)", name, cls), "differs from the exact integer value by more than 1e-12 relative", format!("{} -> {}; relative error {:e}", call, fm(g), err / t.abs().max(1.0)), format!("{} = {:e}", exact, t)));
                }
            }
        }
    }
    out
}

// ------------------------------------------------------------------------------------------------ identities
fn ident(id: &str, v: &[f64]) -> Vec<Finding> {
    let mut out = vec![];
    let x = v.get(0).copied().unwrap_or(f64::NAN);
    let y = v.get(1).copied().unwrap_or(f64::NAN);
    let z = v.get(2).copied().unwrap_or(f64::NAN);
    let pi = std::f64::consts::PI;
    // (lhs, rhs, bound, scale terms, oracle slack, class)
    let r: Result<Option<(f64, f64, f64, f64, f64, &'static str)>, &'static str> = match id {
        "gamma(x+1)=x*gamma(x)" => quick_call(|| {
            let (a, b) = (gamma::gamma(x + 1.0), gamma::gamma(x));
            Some((a, x * b, 1e-12, a.abs(), 0.0, if x < 0.0 { "x<0" } else { "x>0" }))
        }),
        "gamma(x)*gamma(1-x)=pi/sin(pi x)" => quick_call(|| {
            let (a, b) = (gamma::gamma(x), gamma::gamma(1.0 - x));
            let rhs = pi / (pi * x).sin();
            Some((a * b, rhs, 1e-12, rhs.abs(), 2e-14, "|x|<=8"))
        }),
        "ln_gamma(x+1)=ln_gamma(x)+ln(x)" => quick_call(|| {
            let (a, b) = (gamma::ln_gamma(x + 1.0), gamma::ln_gamma(x));
            Some((a, b + x.ln(), 1e-12, a.abs().max(b.abs()), 0.0, if x < 100.0 { "x<100" } else { "x>=100" }))
        }),
        "digamma(x+1)=digamma(x)+1/x" => quick_call(|| {
            let (a, b) = (gamma::digamma(x + 1.0), gamma::digamma(x));
            Some((a, b + 1.0 / x, 1e-12, a.abs().max(b.abs()).max((1.0 / x).abs()), 0.0, if x < 0.0 { "x<0" } else { "x>0" }))
        }),
        "digamma(1-x)-digamma(x)=pi*cot(pi x)" => quick_call(|| {
            let (a, b) = (gamma::digamma(1.0 - x), gamma::digamma(x));
            let rhs = pi / (pi * x).tan();
            Some((a - b, rhs, 1e-12, a.abs().max(b.abs()).max(rhs.abs()), 2e-14, "|x|<=8"))
        }),
        "erf(-x)=-erf(x)" => quick_call(|| Some((erf::erf(-x), -erf::erf(x), 2e-10, 1.0, 0.0, ""))),
        "erf(x)+erfc(x)=1" => quick_call(|| Some((erf::erf(x) + erf::erfc(x), 1.0, 2e-10, 1.0, 0.0, if x < 0.0 { "x<0" } else { "x>=0" }))),
        "erfc(-x)=2-erfc(x)" => quick_call(|| Some((erf::erfc(-x), 2.0 - erf::erfc(x), 2e-10, 2.0, 0.0, ""))),
        "gamma_lr+gamma_ur=1" => guarded(move || Some((gamma::gamma_lr(x, y) + gamma::gamma_ur(x, y), 1.0, 1e-10, 1.0, 0.0, ""))),
        "gamma_li+gamma_ui=gamma" => guarded(move || {
            let g = gamma::gamma(x);
            if !g.is_normal() {
                return None;
            }
            Some((gamma::gamma_li(x, y) + gamma::gamma_ui(x, y), g, 1e-10, g.abs(), 0.0, ""))
        }),
        "beta_reg(a,b,x)+beta_reg(b,a,1-x)=1" => quick_call(|| Some((beta::beta_reg(x, y, z) + beta::beta_reg(y, x, 1.0 - z), 1.0, 1e-10, 1.0, 0.0, if x.max(y) < 100.0 { "max(a,b)<100" } else { "max(a,b)>=100" }))),
        // closed forms of the incomplete functions (exact mathematics, no second special function involved):
        // I_x(a,1) = x^a and P(1,x) = 1 - exp(-x); evaluated also at tiny x, where the absolute bound applies
        "beta_reg(a,1,x)=x^a" => quick_call(|| Some((beta::beta_reg(x, 1.0, y), y.powf(x), 1e-10, 1.0, 0.0, if y < 1e-15 { "x<1e-15" } else { "" }))),
        "gamma_lr(1,x)=1-exp(-x)" => guarded(move || Some((gamma::gamma_lr(1.0, x), -(-x).exp_m1(), 1e-10, 1.0, 0.0, if x < 1e-15 { "x<1e-15" } else { "" }))),
        "gamma_lr(a,x)>=x^a*exp(-x)/gamma(a+1)" => guarded(move || {
            // first term of the series is a lower bound of P(a,x); compared with the absolute bound only
            let lo = (x * y.ln() - y - gamma::ln_gamma(x + 1.0)).exp();
            let v = gamma::gamma_lr(x, y);
            Some((v.min(lo), lo, 1e-10, 1.0, 0.0, if y < 1e-15 { "x<1e-15" } else { "" }))
        }),
        "beta(a,b)=beta(b,a)" => quick_call(|| {
            let (a, b) = (beta::beta(x, y), beta::beta(y, x));
            if !a.is_normal() || !b.is_normal() {
                return None;
            }
            Some((a, b, 1e-12, b.abs(), 0.0, ""))
        }),
        "beta(a+1,b)*(a+b)=beta(a,b)*a" => quick_call(|| {
            let (a, b) = (beta::beta(x + 1.0, y), beta::beta(x, y));
            if !a.is_normal() || !b.is_normal() {
                return None;
            }
            Some((a * (x + y), b * x, 1e-12, (b * x).abs(), 4e-16, if x.max(y) < 100.0 { "max(a,b)<100" } else { "max(a,b)>=100" }))
        }),
        "ln_beta(a+1,b)=ln_beta(a,b)+ln(a/(a+b))" => quick_call(|| {
            let (a, b) = (beta::ln_beta(x + 1.0, y), beta::ln_beta(x, y));
            Some((a, b + (x / (x + y)).ln(), 1e-12, a.abs().max(b.abs()), 4e-16, if x.max(y) < 100.0 { "max(a,b)<100" } else { "max(a,b)>=100" }))
        }),
        "factorial(n)=n*factorial(n-1)" => quick_call(|| {
            let n = x as u64;
            let a = factorial::factorial(n);
            Some((a, x * factorial::factorial(n - 1), 1e-12, a.abs(), 0.0, ""))
        }),
        "ln_factorial(n)=ln_factorial(n-1)+ln(n)" => quick_call(|| {
            let n = x as u64;
            let (a, b) = (factorial::ln_factorial(n), factorial::ln_factorial(n - 1));
            Some((a, b + x.ln(), 1e-12, a.abs().max(b.abs()), 0.0, if n <= 171 { "n<=171" } else { "n>171" }))
        }),
        "binomial(n,k)=binomial(n,n-k)" => quick_call(|| {
            let (n, k) = (x as u64, y as u64);
            let (a, b) = (factorial::binomial(n, k), factorial::binomial(n, n - k));
            if !a.is_normal() || !b.is_normal() {
                return None;
            }
            Some((a, b, 1e-12, b.abs(), 0.0, ""))
        }),
        "binomial(n,k)=binomial(n-1,k-1)+binomial(n-1,k)" => quick_call(|| {
            let (n, k) = (x as u64, y as u64);
            let (a, b, c) = (factorial::binomial(n, k), factorial::binomial(n - 1, k - 1), factorial::binomial(n - 1, k));
            if !a.is_normal() || !b.is_finite() || !c.is_finite() {
                return None;
            }
            Some((a, b + c, 1e-12, a.abs(), 2e-16, if n <= 170 { "n<=170" } else { "n>170" }))
        }),
        "harmonic(n)=harmonic(n-1)+1/n" => quick_call(|| {
            let n = x as u64;
            let (a, b) = (harmonic::harmonic(n), harmonic::harmonic(n - 1));
            Some((a, b + 1.0 / x, 1e-12, a.abs(), 2e-16, ""))
        }),
        "logistic(logit(p))=p" => quick_call(|| Some((logistic::logistic(logistic::logit(x)), x, 1e-12, 1.0, 0.0, ""))),
        "logistic(x)+logistic(-x)=1" => quick_call(|| Some((logistic::logistic(x) + logistic::logistic(-x), 1.0, 1e-12, 1.0, 0.0, ""))),
        _ => Ok(None),
    };
    match r {
        Err(e) => out.push(finding(&format!("identity {} {}", id, e), "a call inside the documented domain did not return", format!("args {:?} -> {}", v, e), "values".into())),
        Ok(None) => {}
        Ok(Some((lhs, rhs, b, scale, slack, cls))) => {
            if !scale.is_finite() {
                return out; // overflowed terms: not normal floats
            }
            let s = scale.max(1.0);
            let res = (lhs - rhs).abs();
            if !(res <= (b + slack) * s) {
                let k = if res.is_nan() { "NaN" } else { "residual" };
                out.push(finding(&format!("identity {} {} > {:e}{}", id, k, b, if cls.is_empty() { String::new() } else { format!(" @{}", cls) }), "identity residual exceeds the function's bound", format!("args {:?}: lhs {} rhs {} residual/scale {:e}", v, fm(lhs), fm(rhs), res / s), format!("|lhs-rhs| <= {:e} * max(1, largest term)", b)));
            }
        }
    }
    out
}

pub fn eval(case: &Value) -> Vec<Finding> {
    match case["k"].as_str().unwrap_or("") {
        "row" => eval_row(case["line"].as_str().unwrap_or("")),
        "fact_exact" => {
            let n = case["n"].as_u64().unwrap_or(0);
            judge_exact("factorial", format!("factorial({})", n), quick_call(|| factorial::factorial(n)), &big_fact(n), "n<=170")
        }
        "binom_exact" => {
            let (n, k) = (case["n"].as_u64().unwrap_or(0), case["kk"].as_u64().unwrap_or(0));
            let e = big_fact(n) / (big_fact(k) * big_fact(n - k));
            judge_exact("binomial", format!("binomial({},{})", n, k), quick_call(|| factorial::binomial(n, k)), &e, if n <= 170 { "n<=170" } else { "n>170" })
        }
        "multinom_exact" => {
            let ni: Vec<u64> = case["ni"].as_array().map(|a| a.iter().map(|x| x.as_u64().unwrap_or(0)).collect()).unwrap_or_default();
            let n: u64 = ni.iter().sum();
            let mut e = big_fact(n);
            for &x in &ni {
                e /= big_fact(x);
            }
            let ni2 = ni.clone();
            judge_exact("multinomial", format!("multinomial({},{:?})", n, ni), quick_call(move || factorial::multinomial(n, &ni2)), &e, if n <= 170 { "n<=170" } else { "n>170" })
        }
        "id" => {
            let v: Vec<f64> = case["v"].as_array().map(|a| a.iter().map(unhx).collect()).unwrap_or_default();
            ident(case["id"].as_str().unwrap_or(""), &v)
        }
        k => vec![finding("C11 bad case", "unknown case kind", k.to_string(), String::new())],
    }
}

fn submit(cx: &mut Ctx, case: Value) {
    cx.evals += 1;
    for f in eval(&case) {
        cx.violation(&f.site, &f.what, case.clone(), f.observed, &f.required);
    }
}

/// dyadic random number k/2^m in [lo,hi)
fn dyadic(cx: &mut Ctx, lo: f64, hi: f64, bits: u32) -> f64 {
    let s = (1u64 << bits) as f64;
    (cx.r.range(lo, hi) * s).floor() / s
}

pub fn run(cx: &mut Ctx) {
    // ---- the whole reference table (both tiers: it is fixed and cheap)
    for line in TABLE.lines() {
        if line.starts_with('#') || line.is_empty() {
            continue;
        }
        submit(cx, json!({"k":"row","line":line}));
    }
    // ---- exact integer oracles
    for n in 0..=170u64 {
        submit(cx, json!({"k":"fact_exact","n":n}));
    }
    if cx.thorough {
        for n in 0..=170u64 {
            for k in 0..=n {
                submit(cx, json!({"k":"binom_exact","n":n,"kk":k}));
            }
        }
    } else {
        for _ in 0..3000 {
            let n = cx.r.below(171);
            let k = cx.r.below(n + 1);
            submit(cx, json!({"k":"binom_exact","n":n,"kk":k}));
        }
    }
    for _ in 0..(if cx.thorough { 20000 } else { 2000 }) {
        let n = 171 + cx.r.below(860);
        let k = if cx.r.below(2) == 0 { cx.r.below(n + 1) } else { cx.r.below(30.min(n + 1)) };
        submit(cx, json!({"k":"binom_exact","n":n,"kk":k}));
    }
    for _ in 0..(if cx.thorough { 20000 } else { 2000 }) {
        let m = 1 + cx.r.below(8) as usize;
        let top = *cx.r.pick(&[3u64, 10, 40, 120]);
        let ni: Vec<u64> = (0..m).map(|_| cx.r.below(top + 1)).collect();
        submit(cx, json!({"k":"multinom_exact","ni":ni}));
    }
    // ---- identities on seeded random (dyadic) points
    let n = if cx.thorough { 150000 } else { 10000 };
    for _ in 0..n {
        let push = |cx: &mut Ctx, id: &str, v: &[f64]| {
            submit(cx, json!({"k":"id","id":id,"v":v.iter().map(|&x| hx(x)).collect::<Vec<_>>(),"_":format!("{:?}", v)}));
        };
        // gamma recurrences: x dyadic, not an integer
        let mut x = dyadic(cx, -169.0, 169.0, 10);
        if x.fract() == 0.0 {
            x += 0.5;
        }
        push(cx, "gamma(x+1)=x*gamma(x)", &[x]);
        let mut x = dyadic(cx, -8.0, 8.0, 4);
        if (x - x.round()).abs() < 1.0 / 16.0 {
            x += 0.25;
        }
        push(cx, "gamma(x)*gamma(1-x)=pi/sin(pi x)", &[x]);
        push(cx, "digamma(1-x)-digamma(x)=pi*cot(pi x)", &[x]);
        let xl = if cx.r.below(2) == 0 { dyadic(cx, 0.0, 200.0, 10) + 1.0 / 1024.0 } else { (cx.r.log_range(1.0, 1e5) * 16.0).floor() / 16.0 };
        push(cx, "ln_gamma(x+1)=ln_gamma(x)+ln(x)", &[xl]);
        let mut xd = if cx.r.below(3) == 0 { dyadic(cx, -100.0, 0.0, 10) } else { xl };
        if xd.fract() == 0.0 && xd <= 0.0 {
            xd += 0.5;
        }
        push(cx, "digamma(x+1)=digamma(x)+1/x", &[xd]);
        let xe = if cx.r.below(2) == 0 { cx.r.range(0.0, 6.0) } else { cx.r.log_range(1e-12, 120.0) };
        push(cx, "erf(-x)=-erf(x)", &[xe]);
        push(cx, "erf(x)+erfc(x)=1", &[xe]);
        push(cx, "erf(x)+erfc(x)=1", &[-xe]);
        push(cx, "erfc(-x)=2-erfc(x)", &[xe]);
        let a = cx.r.log_range(0.01, 1e4);
        let q = if cx.r.below(2) == 0 { cx.r.log_range(1e-3, 100.0) } else { (1.0 + cx.r.range(-4.0, 4.0) / a.sqrt()).max(1e-3) };
        push(cx, "gamma_lr+gamma_ur=1", &[a, a * q]);
        let a2 = cx.r.log_range(0.01, 170.0);
        push(cx, "gamma_li+gamma_ui=gamma", &[a2, a2 * q]);
        let (ba, bb) = (cx.r.log_range(0.1, 2e3), cx.r.log_range(0.1, 2e3));
        let m = ba / (ba + bb);
        let sd = (ba * bb / ((ba + bb) * (ba + bb) * (ba + bb + 1.0))).sqrt();
        let bx = if cx.r.below(2) == 0 { cx.r.unit() } else { m + cx.r.range(-4.0, 4.0) * sd };
        let bx = ((bx * 1048576.0).floor() / 1048576.0).clamp(1.0 / 1048576.0, 1.0 - 1.0 / 1048576.0);
        push(cx, "beta_reg(a,b,x)+beta_reg(b,a,1-x)=1", &[ba, bb, bx]);
        let sa = cx.r.log_range(0.005, 50.0);
        let tx = match cx.r.below(4) {
            0 => cx.r.log_range(1e-300, 1e-17),
            1 => cx.r.log_range(1e-17, 1e-14),
            2 => cx.r.log_range(1e-14, 1e-3),
            _ => cx.r.unit().max(1e-6),
        };
        if tx > 0.0 && tx < 1.0 {
            push(cx, "beta_reg(a,1,x)=x^a", &[sa, tx]);
        }
        let gx = if cx.r.below(2) == 0 { cx.r.log_range(1e-300, 1e-12) } else { cx.r.log_range(1e-12, 50.0) };
        push(cx, "gamma_lr(1,x)=1-exp(-x)", &[gx]);
        push(cx, "gamma_lr(a,x)>=x^a*exp(-x)/gamma(a+1)", &[sa, gx]);
        let (ga, gb) = (dyadic(cx, 0.0, 300.0, 8) + 1.0 / 256.0, dyadic(cx, 0.0, 300.0, 8) + 1.0 / 256.0);
        push(cx, "beta(a,b)=beta(b,a)", &[ga, gb]);
        push(cx, "beta(a+1,b)*(a+b)=beta(a,b)*a", &[ga, gb]);
        push(cx, "ln_beta(a+1,b)=ln_beta(a,b)+ln(a/(a+b))", &[ga, gb]);
        let nf = 1 + cx.r.below(170);
        push(cx, "factorial(n)=n*factorial(n-1)", &[nf as f64]);
        let nl = if cx.r.below(2) == 0 { 1 + cx.r.below(400) } else { cx.r.log_range(1.0, 1e6) as u64 + 1 };
        push(cx, "ln_factorial(n)=ln_factorial(n-1)+ln(n)", &[nl as f64]);
        push(cx, "harmonic(n)=harmonic(n-1)+1/n", &[(nl + 1) as f64]);
        let nb = 1 + cx.r.below(1029);
        let kb = 1 + cx.r.below(nb);
        push(cx, "binomial(n,k)=binomial(n,n-k)", &[nb as f64, kb as f64]);
        if kb < nb {
            push(cx, "binomial(n,k)=binomial(n-1,k-1)+binomial(n-1,k)", &[nb as f64, kb as f64]);
        }
        let p = if cx.r.below(2) == 0 { cx.r.unit() } else { cx.r.log_range(1e-12, 0.5) };
        if p > 0.0 && p < 1.0 {
            push(cx, "logistic(logit(p))=p", &[p]);
        }
        let lx = cx.r.range(-40.0, 40.0);
        push(cx, "logistic(x)+logistic(-x)=1", &[lx]);
    }
}

pub fn replay(case: &Value) -> String {
    let fs = eval(case);
    if fs.is_empty() {
        return "no violation on replay".to_string();
    }
    fs.iter().map(|f| format!("[{}] observed {} / required {}", f.site, f.observed, f.required)).collect::<Vec<_>>().join("\n")
}
