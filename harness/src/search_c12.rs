//! C12 — valid calls always return: no panic, no hang; checked and panicking forms agree.
//!
//! Every call into statrs runs under `catch_unwind` on a helper thread with a 10 s limit.  A site is
//! (function, failure kind, coarse input class); after the first hang of a site further calls of that site
//! are skipped (a hang costs 10 s and leaks a spinning thread).
//!  A. constructors for ANY input never panic/hang: every `::new`/`::default`/`::standard` in signatures.json
//!     over the full product of a special-value pool per parameter (floats: NaN, +-inf, -1, -0, 0, subnormal,
//!     MIN_POSITIVE, 0.5, 1-ulp, 1, 1+ulp, 2, 1e300, MAX; integers: 0, 1, 2, 2^31, 2^32, 2^53, MAX-1, MAX and the
//!     signed mirror), plus the slice/vector constructors (Categorical, Dirichlet, Multinomial,
//!     MultivariateNormal, MultivariateStudent, Empirical, Data) and the wave generators.
//!  B. distribution methods: every method in signatures.json x constructed core-domain tuples (`tuples_ext`,
//!     "[ext] " prefix for the extended domain) and the integer extremes named in the property (draws=0, n=0,
//!     wide DiscreteUniform ...) x finite arguments (0, subnormals, 1-ulp, huge, 2^31, u64::MAX; inverse_cdf: p in
//!     [0,1]); plus Categorical, Empirical and the multivariate families called directly.
//!  C. hypothesis tests on samples meeting the documented size requirements (identical samples, all-equal
//!     samples, extreme magnitudes): chisquare, f_oneway, fishers_exact(_with_odds_ratio), ks_onesample,
//!     ks_twosample, mannwhitneyu, skewtest, ttest_onesample.
//!  D. every `checked_*` function: Err/None exactly on the documented invalid domain, the panicking twin panics
//!     exactly then and otherwise returns the bit-identical value.
//!  E. the remaining public functions (function::*, statistics::*, euclid, generate, prec) on in-domain
//!     boundary-stress arguments.
use crate::proto::*;
use crate::search::{ptags, req, tuples_ext, xclass, Ctx};
use serde_json::{json, Value};
use std::collections::BTreeMap;
use std::panic::{catch_unwind, AssertUnwindSafe};

pub struct Finding {
    pub site: String,
    pub what: String,
    pub observed: String,
    pub required: String,
}
fn finding(site: String, what: &str, observed: String, required: &str) -> Finding {
    Finding { site, what: what.to_string(), observed, required: required.to_string() }
}

/// outcome of one guarded call
#[derive(Clone, Debug, PartialEq)]
pub enum Out {
    Val(String),
    Panic,
    Hang,
}
fn guarded(f: Box<dyn FnOnce() -> String + Send>) -> Out {
    let (tx, rx) = std::sync::mpsc::channel();
    let _ = std::thread::Builder::new().stack_size(32 << 20).spawn(move || {
        let r = catch_unwind(AssertUnwindSafe(f));
        let _ = tx.send(r);
    });
    match rx.recv_timeout(std::time::Duration::from_secs(10)) {
        Ok(Ok(v)) => Out::Val(v),
        Ok(Err(_)) => Out::Panic,
        Err(_) => Out::Hang,
    }
}

// ------------------------------------------------------------------------------------------------ values
#[derive(Clone, Debug)]
pub enum V {
    F(f64),
    U(u64),
    I(i64),
    FL(Vec<f64>),
    UL(Vec<u64>),
    FLL(Vec<Vec<f64>>),
    S(String),
}
fn hx(x: f64) -> String {
    format!("{:016x}", x.to_bits())
}
fn unhx(s: &str) -> f64 {
    f64::from_bits(u64::from_str_radix(s, 16).unwrap_or(0x7ff8000000000000))
}
impl V {
    fn to_json(&self) -> Value {
        match self {
            V::F(x) => json!({"F":hx(*x)}),
            V::U(n) => json!({"U":n.to_string()}),
            V::I(n) => json!({"I":n.to_string()}),
            V::FL(v) => json!({"FL":v.iter().map(|x| hx(*x)).collect::<Vec<_>>()}),
            V::UL(v) => json!({"UL":v.iter().map(|x| x.to_string()).collect::<Vec<_>>()}),
            V::FLL(v) => json!({"FLL":v.iter().map(|w| w.iter().map(|x| hx(*x)).collect::<Vec<_>>()).collect::<Vec<_>>()}),
            V::S(s) => json!({"S":s}),
        }
    }
    fn from_json(j: &Value) -> V {
        let strs = |a: &Value| -> Vec<String> { a.as_array().map(|v| v.iter().map(|s| s.as_str().unwrap_or("").to_string()).collect()).unwrap_or_default() };
        if let Some(s) = j.get("F") {
            V::F(unhx(s.as_str().unwrap_or("")))
        } else if let Some(s) = j.get("U") {
            V::U(s.as_str().unwrap_or("0").parse().unwrap_or(0))
        } else if let Some(s) = j.get("I") {
            V::I(s.as_str().unwrap_or("0").parse().unwrap_or(0))
        } else if let Some(s) = j.get("FL") {
            V::FL(strs(s).iter().map(|h| unhx(h)).collect())
        } else if let Some(s) = j.get("UL") {
            V::UL(strs(s).iter().map(|h| h.parse().unwrap_or(0)).collect())
        } else if let Some(s) = j.get("FLL") {
            V::FLL(s.as_array().map(|v| v.iter().map(|w| strs(w).iter().map(|h| unhx(h)).collect()).collect()).unwrap_or_default())
        } else {
            V::S(j.get("S").and_then(|s| s.as_str()).unwrap_or("").to_string())
        }
    }
    fn show(&self) -> String {
        match self {
            V::F(x) => format!("{:?}", x),
            V::U(n) => format!("{}", n),
            V::I(n) => format!("{}", n),
            V::FL(v) => {
                if v.len() > 12 {
                    format!("[{:?}, {:?}, .. {} values]", v[0], v[1], v.len())
                } else {
                    format!("{:?}", v)
                }
            }
            V::UL(v) => format!("{:?}", v),
            V::FLL(v) => format!("{:?}", v.iter().map(|w| if w.len() > 8 { format!("[{:?}.. {}]", w[0], w.len()) } else { format!("{:?}", w) }).collect::<Vec<_>>()),
            V::S(s) => s.clone(),
        }
    }
    fn f(&self) -> f64 {
        match self {
            V::F(x) => *x,
            _ => f64::NAN,
        }
    }
    fn u(&self) -> u64 {
        match self {
            V::U(n) => *n,
            _ => 0,
        }
    }
    fn i(&self) -> i64 {
        match self {
            V::I(n) => *n,
            _ => 0,
        }
    }
    fn fl(&self) -> Vec<f64> {
        match self {
            V::FL(v) => v.clone(),
            _ => vec![],
        }
    }
    fn ul(&self) -> Vec<u64> {
        match self {
            V::UL(v) => v.clone(),
            _ => vec![],
        }
    }
    fn fll(&self) -> Vec<Vec<f64>> {
        match self {
            V::FLL(v) => v.clone(),
            _ => vec![],
        }
    }
    fn s(&self) -> &str {
        match self {
            V::S(s) => s,
            _ => "",
        }
    }
}

fn fcls(x: f64) -> &'static str {
    if x.is_nan() {
        "nan"
    } else if x == f64::INFINITY {
        "+inf"
    } else if x == f64::NEG_INFINITY {
        "-inf"
    } else if x == 0.0 {
        "0"
    } else if x.abs() < f64::MIN_POSITIVE {
        "subnormal"
    } else if x.abs() < 1e-200 {
        "tiny"
    } else if x.abs() >= 1e200 {
        "huge"
    } else if x < 0.0 {
        "neg"
    } else {
        "pos"
    }
}
fn ucls(n: u64) -> &'static str {
    if n == 0 {
        "0"
    } else if n < (1 << 31) {
        "small"
    } else if n < (1 << 63) {
        ">=2^31"
    } else {
        ">=2^63"
    }
}
fn lcls(v: &[f64]) -> String {
    if v.is_empty() {
        return "empty".into();
    }
    let mut t = vec![];
    if v.len() == 1 {
        t.push("len1");
    } else if v.iter().all(|x| *x == v[0]) {
        t.push("all-equal");
    }
    if v.iter().any(|x| x.is_nan()) {
        t.push("has-nan");
    }
    if v.iter().any(|x| x.is_infinite()) {
        t.push("has-inf");
    }
    if v.iter().any(|x| x.is_finite() && x.abs() >= 1e200) {
        t.push("huge");
    }
    if v.iter().any(|x| *x != 0.0 && x.abs() < 1e-200) {
        t.push("tiny");
    }
    if t.is_empty() {
        "ordinary".into()
    } else {
        t.join("+")
    }
}
fn vcls(v: &V) -> String {
    match v {
        V::F(x) => fcls(*x).into(),
        V::U(n) => ucls(*n).into(),
        V::I(n) => {
            if *n < 0 {
                format!("-{}", ucls(n.unsigned_abs()))
            } else {
                ucls(*n as u64).into()
            }
        }
        V::FL(v) => lcls(v),
        V::UL(v) => {
            if v.is_empty() {
                "empty".into()
            } else {
                ucls(*v.iter().max().unwrap()).into()
            }
        }
        V::FLL(v) => {
            let flat: Vec<f64> = v.iter().flatten().copied().collect();
            let same = v.len() >= 2 && v.iter().all(|w| w == &v[0]);
            format!("{}{}", if same { "identical+" } else { "" }, lcls(&flat))
        }
        V::S(s) => s.clone(),
    }
}
fn class_of(a: &[V]) -> String {
    a.iter().map(vcls).collect::<Vec<_>>().join(",")
}
fn show_call(name: &str, a: &[V]) -> String {
    format!("{}({})", name, a.iter().map(|v| v.show()).collect::<Vec<_>>().join(", "))
}

// ------------------------------------------------------------------------------------------------ direct calls
fn alt_of(s: &str) -> statrs::stats_tests::Alternative {
    use statrs::stats_tests::Alternative::*;
    match s {
        "Less" => Less,
        "Greater" => Greater,
        _ => TwoSided,
    }
}
fn nanp_of(s: &str) -> statrs::stats_tests::NaNPolicy {
    use statrs::stats_tests::NaNPolicy::*;
    match s {
        "Emit" => Emit,
        "Error" => Error,
        _ => Propogate,
    }
}
fn bits(x: f64) -> String {
    format!("{:016x}", x.to_bits())
}
fn rb<E: std::fmt::Debug>(r: Result<f64, E>) -> String {
    match r {
        Ok(x) => format!("Ok({})", bits(x)),
        Err(e) => format!("Err({:?})", e),
    }
}
fn ob(r: Option<f64>) -> String {
    match r {
        Some(x) => format!("Some({})", bits(x)),
        None => "None".into(),
    }
}

/// the call as a closure returning a rendering of its result (f64 results as bit patterns)
fn direct(name: &str, a: &[V]) -> Option<Box<dyn FnOnce() -> String + Send>> {
    use statrs::distribution::*;
    use statrs::function::{beta, erf, evaluate, exponential, factorial, gamma, harmonic, logistic};
    use statrs::generate::*;
    use statrs::statistics::*;
    use statrs::stats_tests;
    let a: Vec<V> = a.to_vec();
    macro_rules! bx {
        ($e:expr) => {
            Some(Box::new(move || {
                let a = &a;
                let _ = a;
                $e
            }))
        };
    }
    let dv = |v: Vec<f64>| nalgebra::DVector::from_vec(v);
    match name {
        // ---- checked twins
        "gamma_ui" => bx!(bits(gamma::gamma_ui(a[0].f(), a[1].f()))),
        "gamma_li" => bx!(bits(gamma::gamma_li(a[0].f(), a[1].f()))),
        "gamma_ur" => bx!(bits(gamma::gamma_ur(a[0].f(), a[1].f()))),
        "gamma_lr" => bx!(bits(gamma::gamma_lr(a[0].f(), a[1].f()))),
        "checked_gamma_ui" => bx!(rb(gamma::checked_gamma_ui(a[0].f(), a[1].f()))),
        "checked_gamma_li" => bx!(rb(gamma::checked_gamma_li(a[0].f(), a[1].f()))),
        "checked_gamma_ur" => bx!(rb(gamma::checked_gamma_ur(a[0].f(), a[1].f()))),
        "checked_gamma_lr" => bx!(rb(gamma::checked_gamma_lr(a[0].f(), a[1].f()))),
        "ln_beta" => bx!(bits(beta::ln_beta(a[0].f(), a[1].f()))),
        "beta" => bx!(bits(beta::beta(a[0].f(), a[1].f()))),
        "beta_inc" => bx!(bits(beta::beta_inc(a[0].f(), a[1].f(), a[2].f()))),
        "beta_reg" => bx!(bits(beta::beta_reg(a[0].f(), a[1].f(), a[2].f()))),
        "checked_ln_beta" => bx!(rb(beta::checked_ln_beta(a[0].f(), a[1].f()))),
        "checked_beta" => bx!(rb(beta::checked_beta(a[0].f(), a[1].f()))),
        "checked_beta_inc" => bx!(rb(beta::checked_beta_inc(a[0].f(), a[1].f(), a[2].f()))),
        "checked_beta_reg" => bx!(rb(beta::checked_beta_reg(a[0].f(), a[1].f(), a[2].f()))),
        "logit" => bx!(bits(logistic::logit(a[0].f()))),
        "checked_logit" => bx!(ob(logistic::checked_logit(a[0].f()))),
        "multinomial" => bx!(bits(factorial::multinomial(a[0].u(), &a[1].ul()))),
        "checked_multinomial" => bx!(ob(factorial::checked_multinomial(a[0].u(), &a[1].ul()))),
        // ---- function::*
        "erf" => bx!(bits(erf::erf(a[0].f()))),
        "erfc" => bx!(bits(erf::erfc(a[0].f()))),
        "erf_inv" => bx!(bits(erf::erf_inv(a[0].f()))),
        "erfc_inv" => bx!(bits(erf::erfc_inv(a[0].f()))),
        "gamma" => bx!(bits(gamma::gamma(a[0].f()))),
        "ln_gamma" => bx!(bits(gamma::ln_gamma(a[0].f()))),
        "digamma" => bx!(bits(gamma::digamma(a[0].f()))),
        "inv_digamma" => bx!(bits(gamma::inv_digamma(a[0].f()))),
        "inv_beta_reg" => bx!(bits(beta::inv_beta_reg(a[0].f(), a[1].f(), a[2].f()))),
        "factorial" => bx!(bits(factorial::factorial(a[0].u()))),
        "ln_factorial" => bx!(bits(factorial::ln_factorial(a[0].u()))),
        "binomial" => bx!(bits(factorial::binomial(a[0].u(), a[1].u()))),
        "ln_binomial" => bx!(bits(factorial::ln_binomial(a[0].u(), a[1].u()))),
        "harmonic" => bx!(bits(harmonic::harmonic(a[0].u()))),
        "gen_harmonic" => bx!(bits(harmonic::gen_harmonic(a[0].u(), a[1].f()))),
        "logistic" => bx!(bits(logistic::logistic(a[0].f()))),
        "exponential::integral" => bx!(ob(exponential::integral(a[0].f(), a[1].u()))),
        "polynomial" => bx!(bits(evaluate::polynomial(a[0].f(), &a[1].fl()))),
        "almost_eq" => bx!(format!("{}", statrs::prec::almost_eq(a[0].f(), a[1].f(), a[2].f()))),
        "log_spaced" => bx!(format!("{}", log_spaced(a[0].u() as usize, a[1].f(), a[2].f()).len())),
        // ---- euclid
        "Modulus<i32>" => bx!(format!("{}", statrs::euclid::Modulus::modulus(a[0].i() as i32, a[1].i() as i32))),
        "Modulus<i64>" => bx!(format!("{}", statrs::euclid::Modulus::modulus(a[0].i(), a[1].i()))),
        "Modulus<u32>" => bx!(format!("{}", statrs::euclid::Modulus::modulus(a[0].u() as u32, a[1].u() as u32))),
        "Modulus<u64>" => bx!(format!("{}", statrs::euclid::Modulus::modulus(a[0].u(), a[1].u()))),
        "Modulus<f64>" => bx!(bits(statrs::euclid::Modulus::modulus(a[0].f(), a[1].f()))),
        "Modulus<f32>" => bx!(format!("{:?}", statrs::euclid::Modulus::modulus(a[0].f() as f32, a[1].f() as f32))),
        // ---- generators: construct and take three values
        "InfinitePeriodic::new" => bx!(format!("{:?}", InfinitePeriodic::new(a[0].f(), a[1].f(), a[2].f(), a[3].f(), a[4].i()).take(3).collect::<Vec<_>>())),
        "InfinitePeriodic::default" => bx!(format!("{:?}", InfinitePeriodic::default(a[0].f(), a[1].f()).take(3).collect::<Vec<_>>())),
        "InfiniteSinusoidal::new" => bx!(format!("{:?}", InfiniteSinusoidal::new(a[0].f(), a[1].f(), a[2].f(), a[3].f(), a[4].f(), a[5].i()).take(3).collect::<Vec<_>>())),
        "InfiniteSinusoidal::default" => bx!(format!("{:?}", InfiniteSinusoidal::default(a[0].f(), a[1].f(), a[2].f()).take(3).collect::<Vec<_>>())),
        "InfiniteSquare::new" => bx!(format!("{:?}", InfiniteSquare::new(a[0].i(), a[1].i(), a[2].f(), a[3].f(), a[4].i()).take(3).collect::<Vec<_>>())),
        "InfiniteTriangle::new" => bx!(format!("{:?}", InfiniteTriangle::new(a[0].i(), a[1].i(), a[2].f(), a[3].f(), a[4].i()).take(3).collect::<Vec<_>>())),
        "InfiniteSawtooth::new" => bx!(format!("{:?}", InfiniteSawtooth::new(a[0].i(), a[1].f(), a[2].f(), a[3].i()).take(3).collect::<Vec<_>>())),
        // ---- slice / vector constructors (any input)
        "Categorical::new" => bx!(format!("{:?}", Categorical::new(&a[0].fl()).is_ok())),
        "Dirichlet::new" => bx!(format!("{:?}", Dirichlet::new(a[0].fl()).is_ok())),
        "Dirichlet::new_with_param" => bx!(format!("{:?}", Dirichlet::new_with_param(a[0].f(), a[1].u() as usize).is_ok())),
        "Multinomial::new" => bx!(format!("{:?}", Multinomial::new(a[0].fl(), a[1].u()).is_ok())),
        "MultivariateNormal::new" => bx!(format!("{:?}", MultivariateNormal::new(a[0].fl(), a[1].fl()).is_ok())),
        "MultivariateStudent::new" => bx!(format!("{:?}", MultivariateStudent::new(a[0].fl(), a[1].fl(), a[2].f()).is_ok())),
        "Empirical::from_iter" => bx!(format!("{}", a[0].fl().into_iter().collect::<Empirical>())),
        "Data::new" => bx!(format!("{}", Data::new(a[0].fl()).len())),
        // ---- methods of constructed objects: a[0..] constructor data, then the method name, then arguments
        "Categorical" => bx!({
            let d = match Categorical::new(&a[0].fl()) {
                Ok(d) => d,
                Err(_) => return "not constructed".into(),
            };
            let (x, p) = (a[2].u(), a[3].f());
            match a[1].s() {
                "pmf" => bits(d.pmf(x)),
                "ln_pmf" => bits(d.ln_pmf(x)),
                "cdf" => bits(d.cdf(x)),
                "sf" => bits(d.sf(x)),
                "inverse_cdf" => format!("{}", d.inverse_cdf(p)),
                "min" => format!("{}", d.min()),
                "max" => format!("{}", d.max()),
                "mean" => format!("{:?}", d.mean()),
                "variance" => format!("{:?}", d.variance()),
                "std_dev" => format!("{:?}", d.std_dev()),
                "entropy" => format!("{:?}", d.entropy()),
                "skewness" => format!("{:?}", d.skewness()),
                "median" => format!("{:?}", d.median()),
                _ => "?".into(),
            }
        }),
        "Empirical" => bx!({
            let mut d: Empirical = a[0].fl().into_iter().collect();
            let x = a[2].f();
            match a[1].s() {
                "cdf" => bits(d.cdf(x)),
                "sf" => bits(d.sf(x)),
                "inverse_cdf" => bits(d.inverse_cdf(x)),
                "min" => bits(d.min()),
                "max" => bits(d.max()),
                "mean" => format!("{:?}", d.mean()),
                "variance" => format!("{:?}", d.variance()),
                "std_dev" => format!("{:?}", d.std_dev()),
                "entropy" => format!("{:?}", d.entropy()),
                "skewness" => format!("{:?}", d.skewness()),
                "add" => {
                    d.add(x);
                    format!("{:?}", d.mean())
                }
                "remove" => {
                    d.remove(x);
                    format!("{:?}", d.mean())
                }
                "remove_all_then_min" => {
                    for v in a[0].fl() {
                        d.remove(v);
                    }
                    format!("{:?}", d.mean())
                }
                _ => "?".into(),
            }
        }),
        "Dirichlet" => bx!({
            let d = match Dirichlet::new(a[0].fl()) {
                Ok(d) => d,
                Err(_) => return "not constructed".into(),
            };
            let x = dv(a[2].fl());
            match a[1].s() {
                "pdf" => bits(d.pdf(&x)),
                "ln_pdf" => bits(d.ln_pdf(&x)),
                "mean" => format!("{:?}", d.mean().map(|v| v.len())),
                "variance" => format!("{:?}", d.variance().map(|v| v.len())),
                "entropy" => format!("{:?}", d.entropy()),
                _ => "?".into(),
            }
        }),
        "Multinomial" => bx!({
            let d = match Multinomial::new(a[0].fl(), a[1].u()) {
                Ok(d) => d,
                Err(_) => return "not constructed".into(),
            };
            let x = nalgebra::DVector::from_vec(a[3].ul());
            match a[2].s() {
                "pmf" => bits(d.pmf(&x)),
                "ln_pmf" => bits(d.ln_pmf(&x)),
                "mean" => format!("{:?}", d.mean().map(|v| v.len())),
                "variance" => format!("{:?}", d.variance().map(|v| v.len())),
                _ => "?".into(),
            }
        }),
        "MultivariateNormal" => bx!({
            let d = match MultivariateNormal::new(a[0].fl(), a[1].fl()) {
                Ok(d) => d,
                Err(_) => return "not constructed".into(),
            };
            let x = dv(a[3].fl());
            match a[2].s() {
                "pdf" => bits(d.pdf(&x)),
                "ln_pdf" => bits(d.ln_pdf(&x)),
                "mean" => format!("{:?}", d.mean().map(|v| v.len())),
                "variance" => format!("{:?}", d.variance().map(|v| v.len())),
                "entropy" => format!("{:?}", d.entropy()),
                "mode" => format!("{:?}", d.mode().len()),
                "min" => format!("{:?}", d.min().len()),
                "max" => format!("{:?}", d.max().len()),
                _ => "?".into(),
            }
        }),
        "MultivariateStudent" => bx!({
            let d = match MultivariateStudent::new(a[0].fl(), a[1].fl(), a[2].f()) {
                Ok(d) => d,
                Err(_) => return "not constructed".into(),
            };
            let x = dv(a[4].fl());
            match a[3].s() {
                "pdf" => bits(d.pdf(&x)),
                "ln_pdf" => bits(d.ln_pdf(&x)),
                "mean" => format!("{:?}", d.mean().map(|v| v.len())),
                "variance" => format!("{:?}", d.variance().map(|v| v.len())),
                "mode" => format!("{:?}", d.mode().len()),
                "min" => format!("{:?}", d.min().len()),
                "max" => format!("{:?}", d.max().len()),
                _ => "?".into(),
            }
        }),
        // ---- statistics
        "Statistics" => bx!({
            let v = a[0].fl();
            let s = v.as_slice();
            bits(match a[1].s() {
                "min" => Statistics::min(s),
                "max" => Statistics::max(s),
                "abs_min" => Statistics::abs_min(s),
                "abs_max" => Statistics::abs_max(s),
                "mean" => Statistics::mean(s),
                "geometric_mean" => Statistics::geometric_mean(s),
                "harmonic_mean" => Statistics::harmonic_mean(s),
                "variance" => Statistics::variance(s),
                "std_dev" => Statistics::std_dev(s),
                "population_variance" => Statistics::population_variance(s),
                "population_std_dev" => Statistics::population_std_dev(s),
                "quadratic_mean" => Statistics::quadratic_mean(s),
                "covariance" => Statistics::covariance(s, a[2].fl().as_slice()),
                "population_covariance" => Statistics::population_covariance(s, a[2].fl().as_slice()),
                _ => f64::NAN,
            })
        }),
        "Data" => bx!({
            let mut d = Data::new(a[0].fl());
            let (k, t) = (a[2].u() as usize, a[3].f());
            match a[1].s() {
                "order_statistic" => bits(d.order_statistic(k)),
                "median" => bits(OrderStatistics::median(&mut d)),
                "quantile" => bits(d.quantile(t)),
                "percentile" => bits(d.percentile(k)),
                "lower_quartile" => bits(d.lower_quartile()),
                "upper_quartile" => bits(d.upper_quartile()),
                "interquartile_range" => bits(d.interquartile_range()),
                "ranks_average" => format!("{}", d.ranks(RankTieBreaker::Average).len()),
                "ranks_min" => format!("{}", d.ranks(RankTieBreaker::Min).len()),
                "ranks_max" => format!("{}", d.ranks(RankTieBreaker::Max).len()),
                "ranks_first" => format!("{}", d.ranks(RankTieBreaker::First).len()),
                "min" => bits(Min::min(&d)),
                "max" => bits(Max::max(&d)),
                "mean" => format!("{:?}", Distribution::mean(&d)),
                "variance" => format!("{:?}", Distribution::variance(&d)),
                "std_dev" => format!("{:?}", Distribution::std_dev(&d)),
                "entropy" => format!("{:?}", Distribution::entropy(&d)),
                "skewness" => format!("{:?}", Distribution::skewness(&d)),
                "median_trait" => bits(Median::median(&d)),
                _ => "?".into(),
            }
        }),
        // ---- hypothesis tests
        "chisquare" => bx!({
            let obs: Vec<usize> = a[0].ul().iter().map(|&x| x as usize).collect();
            let exp = a[1].fl();
            let e = if a[2].s() == "None" { None } else { Some(exp.as_slice()) };
            let dd = if a[3].s() == "None" { None } else { Some(a[4].u() as usize) };
            format!("{:?}", stats_tests::chisquare::chisquare(&obs, e, dd))
        }),
        "f_oneway" => bx!(format!("{:?}", stats_tests::f_oneway::f_oneway(a[0].fll(), nanp_of(a[1].s())))),
        "fishers_exact" => bx!({
            let t = a[0].ul();
            format!("{:?}", stats_tests::fishers_exact(&[t[0], t[1], t[2], t[3]], alt_of(a[1].s())))
        }),
        "fishers_exact_with_odds_ratio" => bx!({
            let t = a[0].ul();
            format!("{:?}", stats_tests::fishers_exact_with_odds_ratio(&[t[0], t[1], t[2], t[3]], alt_of(a[1].s())))
        }),
        "ks_onesample" => bx!({
            use stats_tests::ks_test::{ks_onesample, KSOneSampleAlternativeMethod as M};
            let m = match a[2].s() {
                "Less" => M::Less,
                "Greater" => M::Greater,
                "TwoSidedExact" => M::TwoSidedExact,
                "TwoSidedApproximate" => M::TwoSidedApproximate,
                _ => M::TwoSidedAsymptotic,
            };
            let p = nanp_of(a[3].s());
            match a[1].s() {
                "Uniform01" => format!("{:?}", ks_onesample(a[0].fl(), &Uniform::new(0.0, 1.0).unwrap(), m, p)),
                "Exp1" => format!("{:?}", ks_onesample(a[0].fl(), &Exp::new(1.0).unwrap(), m, p)),
                _ => format!("{:?}", ks_onesample(a[0].fl(), &Normal::default(), m, p)),
            }
        }),
        "ks_twosample" => bx!({
            use stats_tests::ks_test::{ks_twosample, KSTwoSampleAlternativeMethod as M};
            let m = match a[2].s() {
                "LessAsymptotic" => M::LessAsymptotic,
                "GreaterAsymptotic" => M::GreaterAsymptotic,
                "TwoSidedExact" => M::TwoSidedExact,
                _ => M::TwoSidedAsymptotic,
            };
            format!("{:?}", ks_twosample(a[0].fl(), a[1].fl(), m, nanp_of(a[3].s())))
        }),
        "mannwhitneyu" => bx!({
            use stats_tests::mannwhitneyu::{mannwhitneyu, MannWhitneyUMethod as M};
            let m = match a[2].s() {
                "Exact" => M::Exact,
                "AsymptoticInclContinuityCorrection" => M::AsymptoticInclContinuityCorrection,
                "AsymptoticExclContinuityCorrection" => M::AsymptoticExclContinuityCorrection,
                _ => M::Automatic,
            };
            format!("{:?}", mannwhitneyu(&a[0].fl(), &a[1].fl(), m, alt_of(a[3].s())))
        }),
        "skewtest" => bx!(format!("{:?}", stats_tests::skewtest::skewtest(a[0].fl(), alt_of(a[1].s()), nanp_of(a[2].s())))),
        "ttest_onesample" => bx!(format!("{:?}", stats_tests::ttest_onesample::ttest_onesample(a[0].fl(), a[1].f(), alt_of(a[2].s()), nanp_of(a[3].s())))),
        _ => None,
    }
}

/// Some(true): the arguments lie in the documented invalid domain of the checked function; Some(false): inside
/// the documented domain; None: the documentation does not decide (NaN where no NaN rule is written)
fn documented_invalid(name: &str, a: &[V]) -> Option<bool> {
    let f = |i: usize| a[i].f();
    match name {
        // "# Errors: if `a` or `x` are not in `(0, +inf)`"; gamma_ur/gamma_lr: "Returns NaN if either argument is NaN"
        "gamma_ui" | "gamma_li" | "gamma_ur" | "gamma_lr" => {
            let (p, x) = (f(0), f(1));
            if p.is_nan() || x.is_nan() {
                if (name == "gamma_ur" || name == "gamma_lr") && (p.is_nan() || (p > 0.0 && p < f64::INFINITY)) && (x.is_nan() || (x > 0.0 && x < f64::INFINITY)) {
                    return Some(false);
                }
                return None;
            }
            Some(!(p > 0.0 && p < f64::INFINITY && x > 0.0 && x < f64::INFINITY))
        }
        // "# Errors: if `a <= 0.0` or `b <= 0.0`"
        "ln_beta" | "beta" => {
            if f(0).is_nan() || f(1).is_nan() {
                return None;
            }
            Some(f(0) <= 0.0 || f(1) <= 0.0)
        }
        // "# Errors: if `a <= 0.0`, `b <= 0.0`, `x < 0.0`, or `x > 1.0`"
        "beta_inc" | "beta_reg" => {
            if f(0).is_nan() || f(1).is_nan() || f(2).is_nan() {
                return None;
            }
            Some(f(0) <= 0.0 || f(1) <= 0.0 || f(2) < 0.0 || f(2) > 1.0)
        }
        // "returning `None` if `p < 0.0` or `p > 1.0`"
        "logit" => {
            if f(0).is_nan() {
                return None;
            }
            Some(f(0) < 0.0 || f(0) > 1.0)
        }
        // "Returns `None` if the elements in `ni` do not sum to `n`" (mathematical sum)
        "multinomial" => {
            let s: u128 = a[1].ul().iter().map(|&x| x as u128).sum();
            Some(s != a[0].u() as u128)
        }
        _ => None,
    }
}

fn run_direct(rn: &mut Runner, thorough: bool) {
    let vf = |x: f64| V::F(x);
    let s = |x: &str| V::S(x.to_string());
    // ---- D. checked twins
    let tw: [f64; 17] = [f64::NAN, f64::NEG_INFINITY, -1.0, -0.0, 0.0, 5e-324, 1e-300, 0.5, 0.9999999999999999, 1.0, 1.0000000000000002, 2.0, 171.5, 1e5, 1e300, f64::MAX, f64::INFINITY];
    for name in ["gamma_ui", "gamma_li", "gamma_ur", "gamma_lr", "ln_beta", "beta"] {
        for &x in &tw {
            for &y in &tw {
                rn.twin(name, vec![vf(x), vf(y)]);
            }
        }
    }
    let tw3: [f64; 11] = [-1.0, -0.0, 0.0, 5e-324, 1e-300, 0.5, 1.0, 2.0, 1e5, f64::MAX, f64::INFINITY];
    let xs3: [f64; 11] = [f64::NEG_INFINITY, -1.0, -5e-324, -0.0, 0.0, 5e-324, 0.5, 0.9999999999999999, 1.0, 1.0000000000000002, f64::INFINITY];
    for name in ["beta_inc", "beta_reg"] {
        for &x in &tw3 {
            for &y in &tw3 {
                for &z in &xs3 {
                    rn.twin(name, vec![vf(x), vf(y), vf(z)]);
                }
            }
        }
    }
    for &p in &[f64::NEG_INFINITY, -1.0, -5e-324, -0.0, 0.0, 5e-324, 1e-300, 0.5, 0.9999999999999999, 1.0, 1.0000000000000002, 2.0, f64::MAX, f64::INFINITY] {
        rn.twin("logit", vec![vf(p)]);
    }
    let m = u64::MAX;
    for (n, ni) in [(0u64, vec![]), (0, vec![0]), (1, vec![]), (3, vec![1, 2]), (3, vec![1, 1]), (6, vec![1, 2, 3]), (170, vec![85, 85]), (171, vec![100, 71]), (1000, vec![500, 500]), (m, vec![m]), (m, vec![m - 1, 1]), (0, vec![m, 1]), (1, vec![m, 2]), (m, vec![m, m]), (5, vec![m]), (m, vec![1 << 63, (1 << 63) - 1]), (1 << 32, vec![1 << 31, 1 << 31])] {
        rn.twin("multinomial", vec![V::U(n), V::UL(ni)]);
    }
    // ---- E. other functions on in-domain stress arguments
    for name in ["erf", "erfc", "erf_inv", "erfc_inv", "gamma", "ln_gamma", "digamma", "inv_digamma", "logistic"] {
        for &x in F_ANY.iter().chain(F_FINITE.iter()) {
            rn.call(name, vec![vf(x)]);
        }
    }
    for name in ["factorial", "ln_factorial", "harmonic"] {
        for &n in &U_ANY {
            rn.call(name, vec![V::U(n)]);
        }
    }
    for name in ["binomial", "ln_binomial"] {
        for &n in &U_ANY {
            for &k in &U_ANY {
                rn.call(name, vec![V::U(n), V::U(k)]);
            }
        }
    }
    for &n in &[0u64, 1, 2, 1000] {
        for &mm in &[0.0, 1.0, 2.0, -1.0, 0.5, 5e-324, 1e300, -1e300] {
            rn.call("gen_harmonic", vec![V::U(n), vf(mm)]);
        }
    }
    // O(n) loop: u64 arguments near the integer extremes
    rn.call_cls("gen_harmonic", vec![V::U(1 << 40), vf(2.0)], Some("n>=2^40".into()));
    rn.call_cls("gen_harmonic", vec![V::U(u64::MAX), vf(2.0)], Some("n>=2^40".into()));
    for &x in &[0.0, 5e-324, 1e-300, 1e-10, 0.5, 0.9999999999999999, 1.0, 1.0000000000000002, 2.0, 50.0, 700.0, 745.0, 1e300, f64::MAX] {
        for &n in &U_ANY {
            rn.call("exponential::integral", vec![vf(x), V::U(n)]);
        }
    }
    // inv_beta_reg: a, b > 0, x in [0,1]
    let ab: [f64; 10] = [5e-324, 1e-300, 1e-10, 0.5, 1.0, 2.0, 1e3, 1e10, 1e300, f64::MAX];
    let xs: [f64; 8] = [0.0, 5e-324, 1e-300, 1e-10, 0.5, 0.9999999999999999, 1.0, 0.1];
    for &x in &ab {
        for &y in &ab {
            for &z in &xs {
                if !thorough && rn.cx.r.below(3) != 0 {
                    continue;
                }
                rn.call("inv_beta_reg", vec![vf(x), vf(y), vf(z)]);
            }
        }
    }
    for &z in &F_FINITE {
        for c in [vec![], vec![1.0], vec![f64::MAX, f64::MAX], vec![0.0, 0.0, 5e-324], vec![1.0; 12]] {
            rn.call("polynomial", vec![vf(z), V::FL(c)]);
        }
    }
    for &x in &F_ANY {
        for &y in &[0.0, 1.0, f64::INFINITY, f64::NEG_INFINITY, f64::NAN, f64::MAX] {
            for &acc in &[0.0, 1e-15, f64::MAX, f64::INFINITY] {
                rn.call("almost_eq", vec![vf(x), vf(y), vf(acc)]);
            }
        }
    }
    for &len in &[0u64, 1, 2, 3, 1000] {
        for &x in &[0.0, -1.0, 1e300, -1e300, 5e-324, 308.0, 400.0] {
            for &y in &[0.0, 4.0, -1e300, f64::MAX] {
                rn.call("log_spaced", vec![V::U(len), vf(x), vf(y)]);
            }
        }
    }
    // modulus: d != 0 (every residue is representable for the integer types)
    let il: [i64; 9] = [i64::MIN, i64::MIN + 1, -2, -1, 0, 1, 2, i64::MAX - 1, i64::MAX];
    let il32: [i64; 9] = [i32::MIN as i64, i32::MIN as i64 + 1, -2, -1, 0, 1, 2, i32::MAX as i64 - 1, i32::MAX as i64];
    for &x in &il {
        for &d in &il {
            if d != 0 {
                let cls = if x == i64::MIN && d == -1 { "x=MIN,d=-1" } else if d > 0 { "d>0" } else { "d<0" };
                rn.call_cls("Modulus<i64>", vec![V::I(x), V::I(d)], Some(cls.into()));
            }
        }
    }
    for &x in &il32 {
        for &d in &il32 {
            if d != 0 {
                let cls = if x == i32::MIN as i64 && d == -1 { "x=MIN,d=-1" } else if d > 0 { "d>0" } else { "d<0" };
                rn.call_cls("Modulus<i32>", vec![V::I(x), V::I(d)], Some(cls.into()));
            }
        }
    }
    for &x in &[0u64, 1, 2, u64::MAX / 2, u64::MAX / 2 + 1, u64::MAX - 1, u64::MAX] {
        for &d in &[1u64, 2, u64::MAX / 2, u64::MAX / 2 + 1, u64::MAX - 1, u64::MAX] {
            rn.call_cls("Modulus<u64>", vec![V::U(x), V::U(d)], Some((if d > u64::MAX / 2 { "d>MAX/2" } else { "d<=MAX/2" }).into()));
        }
    }
    for &x in &[0u64, 1, 2, (u32::MAX / 2) as u64, (u32::MAX / 2 + 1) as u64, u32::MAX as u64 - 1, u32::MAX as u64] {
        for &d in &[1u64, 2, (u32::MAX / 2) as u64, (u32::MAX / 2 + 1) as u64, u32::MAX as u64 - 1, u32::MAX as u64] {
            rn.call_cls("Modulus<u32>", vec![V::U(x), V::U(d)], Some((if d > (u32::MAX / 2) as u64 { "d>MAX/2" } else { "d<=MAX/2" }).into()));
        }
    }
    for &x in &F_FINITE {
        for &d in &F_FINITE {
            if d != 0.0 {
                rn.call("Modulus<f64>", vec![vf(x), vf(d)]);
                rn.call("Modulus<f32>", vec![vf(x as f32 as f64), vf(d as f32 as f64)]);
            }
        }
    }
    // ---- A'. generators and slice/vector constructors: any input
    let fa: [f64; 9] = [f64::NAN, f64::NEG_INFINITY, -1.0, 0.0, 5e-324, 1.0, 8.0, f64::MAX, f64::INFINITY];
    let ia: [i64; 7] = [i64::MIN, -1, 0, 1, 2, 1 << 53, i64::MAX];
    for &r in &fa {
        for &fq in &fa {
            rn.call("InfinitePeriodic::default", vec![vf(r), vf(fq)]);
            for &am in &[1.0, 0.0, -1.0, f64::NAN, f64::INFINITY, f64::MAX] {
                rn.call("InfiniteSinusoidal::default", vec![vf(r), vf(fq), vf(am)]);
                for &d in &ia {
                    rn.call("InfinitePeriodic::new", vec![vf(r), vf(fq), vf(am), vf(1.0), V::I(d)]);
                    rn.call("InfiniteSinusoidal::new", vec![vf(r), vf(fq), vf(am), vf(0.5), vf(2.0), V::I(d)]);
                }
            }
        }
    }
    for &h in &ia {
        for &l in &ia {
            for &d in &ia {
                for &(hi, lo) in &[(1.0, -1.0), (f64::NAN, 0.0), (f64::MAX, -f64::MAX), (f64::INFINITY, f64::NEG_INFINITY)] {
                    rn.call("InfiniteSquare::new", vec![V::I(h), V::I(l), vf(hi), vf(lo), V::I(d)]);
                    rn.call("InfiniteTriangle::new", vec![V::I(h), V::I(l), vf(hi), vf(lo), V::I(d)]);
                }
            }
            rn.call("InfiniteSawtooth::new", vec![V::I(h), vf(1.0), vf(-1.0), V::I(l)]);
            rn.call("InfiniteSawtooth::new", vec![V::I(h), vf(f64::MAX), vf(-f64::MAX), V::I(l)]);
        }
    }
    let lists: Vec<Vec<f64>> = vec![vec![], vec![f64::NAN], vec![-1.0], vec![0.0], vec![0.0, 0.0], vec![f64::INFINITY], vec![1.0, f64::INFINITY], vec![1e308, 1e308], vec![f64::MAX, f64::MAX, f64::MAX], vec![5e-324], vec![5e-324, 5e-324], vec![1.0], vec![1.0, 2.0, 3.0], vec![0.0, 1.0, 0.0], vec![1.0, f64::NAN], vec![1.0, -1.0], vec![f64::NEG_INFINITY, 1.0], vec![1e-300, 1e300]];
    for l in &lists {
        rn.call("Categorical::new", vec![V::FL(l.clone())]);
        rn.call("Dirichlet::new", vec![V::FL(l.clone())]);
        rn.call("Empirical::from_iter", vec![V::FL(l.clone())]);
        rn.call("Data::new", vec![V::FL(l.clone())]);
        for &n in &[0u64, 1, 10, u64::MAX] {
            rn.call("Multinomial::new", vec![V::FL(l.clone()), V::U(n)]);
        }
        for c in &lists {
            let cls = if c.len() != l.len() * l.len() { "len(cov) != dim^2".to_string() } else { format!("mean {},cov {}", lcls(l), lcls(c)) };
            rn.call_cls("MultivariateNormal::new", vec![V::FL(l.clone()), V::FL(c.clone())], Some(cls.clone()));
            rn.call_cls("MultivariateStudent::new", vec![V::FL(l.clone()), V::FL(c.clone()), vf(3.0)], Some(cls));
        }
    }
    for (mu, c) in [(vec![0.0, 0.0], vec![1.0, 0.0, 0.0, 1.0]), (vec![0.0, 0.0], vec![1.0, 2.0, 3.0, 4.0]), (vec![0.0, 0.0], vec![1.0, 1.0, 1.0, 1.0]), (vec![0.0, 0.0], vec![1.0, 0.0, 0.0]), (vec![0.0, 0.0], vec![0.0; 4]), (vec![0.0, 0.0], vec![-1.0, 0.0, 0.0, -1.0]), (vec![0.0, 0.0], vec![f64::MAX, 0.0, 0.0, f64::MAX]), (vec![0.0, 0.0], vec![5e-324, 0.0, 0.0, 5e-324]), (vec![0.0, 0.0], vec![f64::INFINITY, 0.0, 0.0, 1.0]), (vec![0.0], vec![1.0, 0.0, 0.0, 1.0]), (vec![f64::INFINITY, 0.0], vec![1.0, 0.0, 0.0, 1.0])] {
        let cls = if c.len() != mu.len() * mu.len() { "len(cov) != dim^2".to_string() } else { format!("mean {},cov {}", lcls(&mu), lcls(&c)) };
        rn.call_cls("MultivariateNormal::new", vec![V::FL(mu.clone()), V::FL(c.clone())], Some(cls.clone()));
        for &nu in &[f64::NAN, -1.0, 0.0, 5e-324, 1.0, 2.0, f64::MAX, f64::INFINITY] {
            rn.call_cls("MultivariateStudent::new", vec![V::FL(mu.clone()), V::FL(c.clone()), vf(nu)], Some(format!("{},freedom {}", cls, fcls(nu))));
        }
    }
    for &al in &fa {
        for &n in &[0u64, 1, 2, 1000] {
            rn.call("Dirichlet::new_with_param", vec![vf(al), V::U(n)]);
        }
    }
    // ---- B'. methods of the slice/vector families on constructed objects, finite arguments
    for l in [vec![1.0, 1.0, 1.0], vec![0.0, 1.0, 0.0, 3.0], vec![5.0], vec![1e-300, 1e300], vec![5e-324, 5e-324], vec![1e308, 1e308], vec![0.1, 0.2, 0.7]] {
        for mth in ["pmf", "ln_pmf", "cdf", "sf"] {
            for &x in &U_ANY {
                rn.call_cls("Categorical", vec![V::FL(l.clone()), s(mth), V::U(x), vf(0.5)], Some(format!("{} {},x {}", mth, lcls(&l), ucls(x))));
            }
        }
        for &p in &[5e-324, 1e-300, 1e-16, 0.5, 0.9999999999999999, 0.25] {
            rn.call_cls("Categorical", vec![V::FL(l.clone()), s("inverse_cdf"), V::U(0), vf(p)], Some(format!("inverse_cdf {},p {}", lcls(&l), fcls(p))));
        }
        for mth in ["min", "max", "mean", "variance", "std_dev", "entropy", "skewness", "median"] {
            rn.call_cls("Categorical", vec![V::FL(l.clone()), s(mth), V::U(0), vf(0.5)], Some(format!("{} {}", mth, lcls(&l))));
        }
    }
    for l in [vec![], vec![1.0], vec![1.0, 1.0, 1.0], vec![1.0, 2.0, 3.0], vec![-1e308, 1e308], vec![f64::NEG_INFINITY, f64::INFINITY], vec![5e-324, 0.0], vec![f64::MAX, f64::MAX]] {
        for mth in ["cdf", "sf", "add", "remove"] {
            for &x in &F_FINITE {
                rn.call_cls("Empirical", vec![V::FL(l.clone()), s(mth), vf(x)], Some(format!("{} {},x {}", mth, lcls(&l), fcls(x))));
            }
        }
        for &p in &P_UNIT {
            rn.call_cls("Empirical", vec![V::FL(l.clone()), s("inverse_cdf"), vf(p)], Some(format!("inverse_cdf {},p {}", lcls(&l), fcls(p))));
        }
        for mth in ["min", "max", "mean", "variance", "std_dev", "entropy", "skewness", "remove_all_then_min"] {
            rn.call_cls("Empirical", vec![V::FL(l.clone()), s(mth), vf(0.0)], Some(format!("{} {}", mth, lcls(&l))));
        }
    }
    for al in [vec![1.0, 1.0, 1.0], vec![0.5, 0.5], vec![5e-324, 5e-324], vec![1e300, 1e300], vec![f64::MAX, f64::MAX], vec![1e-3, 1e3, 1.0]] {
        let d = al.len();
        let mut pts = vec![vec![1.0 / d as f64; d]];
        let mut e = vec![1e-5 / (d as f64 - 1.0); d];
        e[0] = 1.0 - 1e-5;
        pts.push(e);
        let mut e2 = vec![5e-324; d];
        e2[0] = 0.9999999999999999;
        pts.push(e2);
        for x in pts {
            for mth in ["pdf", "ln_pdf"] {
                rn.call_cls("Dirichlet", vec![V::FL(al.clone()), s(mth), V::FL(x.clone())], Some(format!("{} alpha {},x {}", mth, lcls(&al), lcls(&x))));
            }
        }
        for mth in ["mean", "variance", "entropy"] {
            rn.call_cls("Dirichlet", vec![V::FL(al.clone()), s(mth), V::FL(vec![])], Some(format!("{} alpha {}", mth, lcls(&al))));
        }
    }
    for (p, n) in [(vec![0.5, 0.5], 10u64), (vec![0.3, 0.7], 0), (vec![1.0, 0.0], 5), (vec![0.2, 0.3, 0.5], 171), (vec![0.5, 0.5], 1 << 31), (vec![0.5, 0.5], u64::MAX), (vec![5e-324, 1.0], 3)] {
        let d = p.len();
        let mut x0 = vec![0u64; d];
        x0[0] = n;
        let mut x1 = vec![n / d as u64; d];
        x1[d - 1] = n - (n / d as u64) * (d as u64 - 1);
        for x in [x0, x1, vec![0u64; d], vec![u64::MAX; d], vec![1; d]] {
            for mth in ["pmf", "ln_pmf"] {
                rn.call_cls("Multinomial", vec![V::FL(p.clone()), V::U(n), s(mth), V::UL(x.clone())], Some(format!("{} n {},x {}", mth, ucls(n), ucls(*x.iter().max().unwrap()))));
            }
        }
        for mth in ["mean", "variance"] {
            rn.call_cls("Multinomial", vec![V::FL(p.clone()), V::U(n), s(mth), V::UL(vec![])], Some(format!("{} n {}", mth, ucls(n))));
        }
    }
    for (mu, c) in [(vec![0.0], vec![1.0]), (vec![0.0, 0.0], vec![1.0, 0.5, 0.5, 2.0]), (vec![1e300, -1e300], vec![1e300, 0.0, 0.0, 1e300]), (vec![0.0, 0.0], vec![5e-324, 0.0, 0.0, 5e-324]), (vec![0.0, 0.0], vec![1e-300, 0.0, 0.0, 1e-300]), (vec![0.0, 0.0, 0.0], vec![1.0, 0.0, 0.0, 0.0, 1.0, 0.0, 0.0, 0.0, 1.0])] {
        let d = mu.len();
        for x in [vec![0.0; d], vec![f64::MAX; d], vec![-f64::MAX; d], vec![5e-324; d], vec![1.0; d], mu.clone()] {
            for mth in ["pdf", "ln_pdf"] {
                rn.call_cls("MultivariateNormal", vec![V::FL(mu.clone()), V::FL(c.clone()), s(mth), V::FL(x.clone())], Some(format!("{} cov {},x {}", mth, lcls(&c), lcls(&x))));
                for &nu in &[5e-324, 0.5, 1.0, 2.0, 1e300, f64::INFINITY] {
                    rn.call_cls("MultivariateStudent", vec![V::FL(mu.clone()), V::FL(c.clone()), vf(nu), s(mth), V::FL(x.clone())], Some(format!("{} scale {},nu {},x {}", mth, lcls(&c), fcls(nu), lcls(&x))));
                }
            }
        }
        for mth in ["mean", "variance", "entropy", "mode", "min", "max"] {
            rn.call_cls("MultivariateNormal", vec![V::FL(mu.clone()), V::FL(c.clone()), s(mth), V::FL(vec![])], Some(format!("{} cov {}", mth, lcls(&c))));
            for &nu in &[5e-324, 0.5, 1.0, 2.0, 1e300, f64::INFINITY] {
                rn.call_cls("MultivariateStudent", vec![V::FL(mu.clone()), V::FL(c.clone()), vf(nu), s(mth), V::FL(vec![])], Some(format!("{} scale {},nu {}", mth, lcls(&c), fcls(nu))));
            }
        }
    }
    // ---- statistics
    let mut vecs: Vec<Vec<f64>> = vec![vec![], vec![1.0], vec![1.0, 1.0, 1.0], vec![1.0, 2.0, 3.0], vec![f64::NAN], vec![1.0, f64::NAN, 2.0], vec![f64::INFINITY, f64::NEG_INFINITY], vec![1e308, 1e308, 1e308], vec![-1e308, 1e308], vec![-1.0, 0.0, 1.0], vec![5e-324, 0.0], vec![0.0, 0.0], vec![-0.0, 0.0], vec![3.0, 1.0, 2.0, 2.0, 5.0, 4.0, 4.0, 1.0, 0.5, 9.0]];
    vecs.push(vec![7.0; 1000]);
    vecs.push((0..1001).map(|i| ((i * 7919) % 1001) as f64).collect());
    for v in &vecs {
        for mth in ["min", "max", "abs_min", "abs_max", "mean", "geometric_mean", "harmonic_mean", "variance", "std_dev", "population_variance", "population_std_dev", "quadratic_mean"] {
            rn.call_cls("Statistics", vec![V::FL(v.clone()), s(mth), V::FL(vec![])], Some(format!("{} {}", mth, lcls(v))));
        }
        let w: Vec<f64> = v.iter().rev().copied().collect();
        for mth in ["covariance", "population_covariance"] {
            rn.call_cls("Statistics", vec![V::FL(v.clone()), s(mth), V::FL(w.clone())], Some(format!("{} {}", mth, lcls(v))));
        }
        let n = v.len() as u64;
        for mth in ["median", "lower_quartile", "upper_quartile", "interquartile_range", "ranks_average", "ranks_min", "ranks_max", "ranks_first", "min", "max", "mean", "variance", "std_dev", "entropy", "skewness", "median_trait"] {
            rn.call_cls("Data", vec![V::FL(v.clone()), s(mth), V::U(0), vf(0.5)], Some(format!("{} {}", mth, lcls(v))));
        }
        for &k in &[0u64, 1, 2, n / 2, n.saturating_sub(1), n, n + 1, 50, 99, 100, 101, 1 << 31, u64::MAX] {
            rn.call_cls("Data", vec![V::FL(v.clone()), s("order_statistic"), V::U(k), vf(0.5)], Some(format!("order_statistic {},k {}", lcls(v), if k == 0 { "0" } else if k <= n { "in 1..=n" } else { ">n" })));
            rn.call_cls("Data", vec![V::FL(v.clone()), s("percentile"), V::U(k), vf(0.5)], Some(format!("percentile {},p {}", lcls(v), if k <= 100 { "<=100" } else { ">100" })));
        }
        for &t in F_FINITE.iter().chain(P_UNIT.iter()) {
            rn.call_cls("Data", vec![V::FL(v.clone()), s("quantile"), V::U(0), vf(t)], Some(format!("quantile {},tau {}", lcls(v), if (0.0..=1.0).contains(&t) { "in [0,1]" } else { "outside [0,1]" })));
        }
    }
    // ---- C. hypothesis tests
    let alts = ["TwoSided", "Less", "Greater"];
    let pols = ["Propogate", "Emit", "Error"];
    // chisquare: len(f_obs) > 1; f_exp same length and sum; ddof <= len-2
    for obs in [vec![1u64, 1], vec![0, 0], vec![5, 5, 5], vec![0, 10], vec![3, 4, 5, 6], vec![u64::MAX, 1], vec![u64::MAX / 2, u64::MAX / 2], vec![1 << 53, 1 << 53, 1], vec![10; 200]] {
        let n = obs.len();
        let tot: f64 = obs.iter().map(|&x| x as f64).sum();
        let mut exps: Vec<(Vec<f64>, &str)> = vec![(vec![], "None"), (vec![tot / n as f64; n], "Some")];
        let mut z = vec![0.0; n];
        z[0] = tot;
        exps.push((z, "Some"));
        exps.push((obs.iter().map(|&x| x as f64).collect(), "Some"));
        for (e, tag) in exps {
            for (dd, dtag) in [(0u64, "None"), (0, "Some"), (n as u64 - 2, "Some"), (n as u64 - 1, "Some"), (u64::MAX, "Some")] {
                let cls = format!("obs {},exp {}{}", ucls(*obs.iter().max().unwrap()), tag, if tag == "Some" && e.iter().any(|x| *x == 0.0) { " with zeros" } else { "" });
                rn.call_cls("chisquare", vec![V::UL(obs.clone()), V::FL(e.clone()), s(tag), s(dtag), V::U(dd)], Some(cls));
            }
        }
    }
    // f_oneway: >= 2 groups, every group >= 1 value, one group >= 2
    let groups: Vec<Vec<Vec<f64>>> = vec![
        vec![vec![1.0, 2.0, 3.0], vec![1.0, 2.0, 3.0]],
        vec![vec![1.0, 1.0], vec![2.0, 3.0]],
        vec![vec![1.0], vec![2.0, 3.0]],
        vec![vec![1.0], vec![1.0, 1.0 + 1e-16]],
        vec![vec![1e308, -1e308], vec![1.0, 2.0]],
        vec![vec![f64::MAX, 1.0], vec![f64::MAX, 2.0]],
        vec![vec![f64::INFINITY, 1.0], vec![2.0, 3.0]],
        vec![vec![0.0, 5e-324], vec![0.0, 5e-324]],
        vec![vec![1.0, f64::NAN], vec![2.0, 3.0]],
        vec![vec![f64::NAN, f64::NAN], vec![2.0, 3.0]],
        vec![vec![1.0, 2.0], vec![1.0, 2.0], vec![1.0, 2.0], vec![1.0, 2.0]],
        vec![vec![0.1, 0.2, 0.3], vec![0.1 + 0.2, 0.3, 0.2]],
        (0..300).map(|i| vec![i as f64, i as f64 + 1.0]).collect(),
    ];
    for g in &groups {
        for p in pols {
            rn.call_cls("f_oneway", vec![V::FLL(g.clone()), s(p)], Some(format!("{},{}", vcls(&V::FLL(g.clone())), p)));
        }
    }
    // fisher: any 2x2 table of counts
    let tv: [u64; 8] = [0, 1, 3, 50, 1000, 1 << 31, 1 << 62, u64::MAX];
    for &t0 in &tv {
        for &t1 in &tv {
            for &t2 in &tv {
                for &t3 in &tv {
                    if !thorough && rn.cx.r.below(4) != 0 {
                        continue;
                    }
                    let mx = t0.max(t1).max(t2).max(t3);
                    let cls = if mx <= 1000 { "entries<=1000" } else if mx <= (1 << 31) { "max entry 2^31" } else { "max entry >=2^62" };
                    for alt in alts {
                        rn.call_cls("fishers_exact", vec![V::UL(vec![t0, t1, t2, t3]), s(alt)], Some(format!("{},{}", cls, alt)));
                        rn.call_cls("fishers_exact_with_odds_ratio", vec![V::UL(vec![t0, t1, t2, t3]), s(alt)], Some(format!("{},{}", cls, alt)));
                    }
                }
            }
        }
    }
    // ks_onesample: n >= 1
    let mut samples: Vec<Vec<f64>> = vec![vec![0.5], vec![1.0, 1.0, 1.0], vec![0.0, 1.0], vec![0.0], vec![1.0], vec![0.25, 0.5, 0.75], vec![-1e308, 1e308], vec![f64::NEG_INFINITY, f64::INFINITY], vec![5e-324, 1.0 - 1e-16], vec![0.5, f64::NAN], vec![f64::NAN]];
    for n in [169usize, 170, 171, 1000] {
        samples.push((0..n).map(|i| (i as f64 + 0.5) / n as f64).collect());
    }
    samples.push(vec![0.5; 100]);
    // all observations far out in the upper tail of every reference law: D ~ 1 with n = 500
    samples.push((0..500).map(|i| 40.0 + i as f64 * 0.01).collect());
    for d in &samples {
        for dist in ["Normal01", "Uniform01", "Exp1"] {
            for mth in ["Less", "Greater", "TwoSidedExact", "TwoSidedAsymptotic", "TwoSidedApproximate"] {
                for p in pols {
                    let cls = format!("{},{},n {}", mth, lcls(d), if d.len() < 170 { "<170" } else { ">=170" });
                    rn.call_cls("ks_onesample", vec![V::FL(d.clone()), s(dist), s(mth), s(p)], Some(cls));
                }
            }
        }
    }
    // ks_twosample / mannwhitneyu: both samples n >= 1
    let pairs: Vec<(Vec<f64>, Vec<f64>)> = vec![
        (vec![1.0, 2.0, 3.0], vec![1.0, 2.0, 3.0]),
        (vec![1.0], vec![1.0]),
        (vec![1.0, 1.0, 1.0], vec![1.0, 1.0]),
        (vec![1.0, 1.0], vec![2.0, 2.0]),
        (vec![1.0], vec![2.0]),
        (vec![1.0, 2.0, 3.0], vec![4.0, 5.0, 6.0]),
        (vec![1.0, 2.0, 3.0], vec![3.0, 4.0, 5.0]),
        (vec![-1e308, 1e308], vec![0.0]),
        (vec![f64::NEG_INFINITY, 0.0], vec![f64::INFINITY]),
        (vec![0.0, -0.0], vec![0.0]),
        (vec![1.0, f64::NAN], vec![2.0]),
        ((0..10).map(|i| i as f64).collect(), (0..10).map(|i| i as f64 + 0.5).collect()),
        ((0..12).map(|i| i as f64).collect(), (0..12).map(|i| i as f64 + 100.0).collect()),
        ((0..101).map(|i| i as f64).collect(), (0..100).map(|i| i as f64 + 0.5).collect()),
        ((0..2000).map(|i| (i * i) as f64).collect(), (0..2000).map(|i| (i * i) as f64).collect()),
        // identical empirical cdfs, different sizes (the statistic must be exactly 0: the series never ends for 1e-16)
        (vec![0.0], vec![0.0; 6]),
        (vec![1.0, 2.0, 3.0], vec![1.0, 1.0, 2.0, 2.0, 3.0, 3.0]),
        (vec![0.5; 10], vec![0.5; 3]),
        // large, completely separated / strongly shifted samples: D*sqrt(n_eff) ~ 20 and beyond, where every term
        // of the Kolmogorov series underflows to 0
        ((0..800).map(|i| i as f64).collect(), (0..800).map(|i| i as f64 + 1000.0).collect()),
        ((0..2000).map(|i| i as f64).collect(), (0..2000).map(|i| i as f64 + 1700.0).collect()),
        ((0..700).map(|i| i as f64).collect(), (0..300).map(|i| i as f64 * 0.5 + 5000.0).collect()),
    ];
    for (x, y) in &pairs {
        let same = if x == y { "identical," } else { "" };
        for mth in ["LessAsymptotic", "GreaterAsymptotic", "TwoSidedExact", "TwoSidedAsymptotic"] {
            for p in pols {
                let mut all = x.clone();
                all.extend(y.iter());
                rn.call_cls("ks_twosample", vec![V::FL(x.clone()), V::FL(y.clone()), s(mth), s(p)], Some(format!("{},{}{}", mth, same, lcls(&all))));
            }
        }
        if x.len() + y.len() <= 30 || true {
            for mth in ["Automatic", "Exact", "AsymptoticInclContinuityCorrection", "AsymptoticExclContinuityCorrection"] {
                if mth == "Exact" && x.len() + y.len() > 24 {
                    continue; // documented as computationally expensive
                }
                for alt in alts {
                    let mut all = x.clone();
                    all.extend(y.iter());
                    rn.call_cls("mannwhitneyu", vec![V::FL(x.clone()), V::FL(y.clone()), s(mth), s(alt)], Some(format!("{},{}{}", mth, same, lcls(&all))));
                }
            }
        }
    }
    // skewtest: n >= 8; ttest_onesample: n >= 2
    let mut ss: Vec<Vec<f64>> = vec![vec![1.0; 8], (1..=8).map(|i| i as f64).collect(), vec![0.0; 8], vec![1e308, -1e308, 1e308, -1e308, 1e308, -1e308, 1e308, -1e308], vec![f64::MAX; 9], vec![5e-324, 0.0, 5e-324, 0.0, 5e-324, 0.0, 5e-324, 0.0], vec![1.0, 2.0, 3.0, 4.0, 5.0, 6.0, 7.0, f64::INFINITY], vec![1.0, 2.0, 3.0, 4.0, 5.0, 6.0, 7.0, 8.0, f64::NAN], vec![1.0, 1.0, 1.0, 1.0, 1.0, 1.0, 1.0, 1.0 + 1e-15]];
    ss.push((0..1000).map(|i| ((i * 7919) % 1001) as f64).collect());
    for d in &ss {
        for alt in alts {
            for p in pols {
                rn.call_cls("skewtest", vec![V::FL(d.clone()), s(alt), s(p)], Some(lcls(d)));
                for &mu in &[0.0, 1.0, 1e308, -1e308, 5e-324] {
                    rn.call_cls("ttest_onesample", vec![V::FL(d.clone()), vf(mu), s(alt), s(p)], Some(format!("{},popmean {}", lcls(d), fcls(mu))));
                }
            }
        }
    }
    for d in [vec![1.0, 1.0], vec![1.0, 2.0], vec![0.0, 0.0], vec![f64::MAX, f64::MAX], vec![f64::MAX, -f64::MAX], vec![f64::INFINITY, 1.0], vec![1.0, f64::NAN, 2.0]] {
        for alt in alts {
            for p in pols {
                for &mu in &[0.0, 1.0, f64::MAX, f64::INFINITY] {
                    rn.call_cls("ttest_onesample", vec![V::FL(d.clone()), vf(mu), s(alt), s(p)], Some(format!("{},popmean {}", lcls(&d), fcls(mu))));
                }
            }
        }
    }
}


// ------------------------------------------------------------------------------------------------ evaluation
/// benign replacement used when minimising a panicking argument list
fn benign(v: &V) -> Option<V> {
    match v {
        V::F(x) if *x != 1.0 => Some(V::F(1.0)),
        V::U(n) if *n != 1 => Some(V::U(1)),
        V::I(n) if *n != 1 => Some(V::I(1)),
        _ => None,
    }
}
fn run_here(name: &str, a: &[V], threaded: bool) -> Option<Out> {
    let f = direct(name, a)?;
    Some(if threaded {
        guarded(f)
    } else {
        match catch_unwind(AssertUnwindSafe(f)) {
            Ok(v) => Out::Val(v),
            Err(_) => Out::Panic,
        }
    })
}
/// classes of the arguments a panic depends on (the others are shown as `_`)
fn minimised_class(name: &str, a: &[V], threaded: bool) -> String {
    let mut cur: Vec<V> = a.to_vec();
    let mut relevant = vec![true; a.len()];
    for i in 0..a.len() {
        match benign(&cur[i]) {
            Some(b) => {
                let mut t = cur.clone();
                t[i] = b;
                if run_here(name, &t, threaded) == Some(Out::Panic) {
                    cur = t;
                    relevant[i] = false;
                }
            }
            None => {
                if matches!(cur[i], V::F(_) | V::U(_) | V::I(_)) {
                    relevant[i] = false; // already the benign value
                }
            }
        }
    }
    a.iter().zip(relevant.iter()).map(|(v, r)| if *r { vcls(v) } else { "_".to_string() }).collect::<Vec<_>>().join(",")
}

/// `{"k":"call","f":name,"a":[..]}`: the call must return (no panic, no hang)
/// `{"k":"twin","f":name,"a":[..]}`: checked/panicking twin agreement
/// `{"k":"disp","line":request,"nc":n,"tpl":site template}`: string-dispatched call (signatures.json ids)
pub fn eval(case: &Value) -> Vec<Finding> {
    eval_mode(case, true, &mut |_| {})
}
fn eval_mode(case: &Value, threaded: bool, progress: &mut dyn FnMut(&str)) -> Vec<Finding> {
    let name = case["f"].as_str().unwrap_or("").to_string();
    let a: Vec<V> = case["a"].as_array().map(|v| v.iter().map(V::from_json).collect()).unwrap_or_default();
    let given = case["cls"].as_str().map(|s| s.to_string());
    match case["k"].as_str().unwrap_or("") {
        "call" => {
            let r = match run_here(&name, &a, threaded) {
                Some(r) => r,
                None => return vec![finding("C12 bad case".into(), "unknown function", name, "")],
            };
            match r {
                Out::Val(_) => vec![],
                Out::Panic => {
                    let cls = given.unwrap_or_else(|| minimised_class(&name, &a, threaded));
                    vec![finding(format!("{} panic @{}", name, cls), "call inside the documented domain panics", format!("{} -> panic", show_call(&name, &a)), "returns")]
                }
                Out::Hang => vec![hang_finding(case)],
            }
        }
        "twin" => eval_twin(&name, &a, &given.unwrap_or_else(|| class_of(&a)), threaded, progress),
        "disp" => {
            let line = case["line"].as_str().unwrap_or("");
            let (id, args) = match parse_line(line) {
                Some(x) => x,
                None => return vec![finding("C12 bad case".into(), "bad request line", line.to_string(), "")],
            };
            let r = if threaded { crate::call_timeout(&id, &args, 10_000) } else { crate::call(&id, &args) };
            if r == "hang" {
                return vec![hang_finding(case)];
            }
            if r != "panic" {
                return vec![];
            }
            // minimise over the arguments after the constructor tuple
            let nc = case["nc"].as_u64().unwrap_or(0) as usize;
            let mut cur = args.clone();
            let mut rel = vec![true; args.len()];
            if case["min"].as_bool().unwrap_or(false) {
                for i in nc..args.len() {
                    let b = match &cur[i] {
                        Arg::F(x) if *x != 1.0 => Some(Arg::F(1.0)),
                        Arg::I(k) if *k != 1 => Some(Arg::I(1)),
                        _ => None,
                    };
                    if let Some(b) = b {
                        let mut t = cur.clone();
                        t[i] = b;
                        let r2 = if threaded { crate::call_timeout(&id, &t, 10_000) } else { crate::call(&id, &t) };
                        if r2 == "panic" {
                            cur = t;
                            rel[i] = false;
                        }
                    } else if matches!(cur[i], Arg::F(_) | Arg::I(_)) {
                        rel[i] = false; // already the benign value
                    }
                }
            }
            let xc = args[nc..].iter().zip(rel[nc..].iter()).map(|(x, r)| if *r { xclass(x) } else { "_".to_string() }).collect::<Vec<_>>().join(",");
            let site = case["tpl"].as_str().unwrap_or("{id} {kind} @{xc}").replace("{kind}", "panic").replace("{xc}", &xc);
            vec![finding(site, "call panics", format!("{} -> panic", line), "returns (no panic, bounded time)")]
        }
        k => vec![finding("C12 bad case".into(), "unknown case kind", k.to_string(), "")],
    }
}
/// the finding for a case that did not come back within 10 s (`stage`: for twins, which of the two calls)
fn hang_finding(case: &Value) -> Finding {
    hang_finding_stage(case, false)
}
fn hang_finding_stage(case: &Value, second_stage: bool) -> Finding {
    let name = case["f"].as_str().unwrap_or("").to_string();
    let a: Vec<V> = case["a"].as_array().map(|v| v.iter().map(V::from_json).collect()).unwrap_or_default();
    let cls = case["cls"].as_str().map(|s| s.to_string()).unwrap_or_else(|| class_of(&a));
    match case["k"].as_str().unwrap_or("") {
        "disp" => {
            let line = case["line"].as_str().unwrap_or("");
            let nc = case["nc"].as_u64().unwrap_or(0) as usize;
            let xc = parse_line(line).map(|(_, args)| args[nc.min(args.len())..].iter().map(xclass).collect::<Vec<_>>().join(",")).unwrap_or_default();
            let site = case["tpl"].as_str().unwrap_or("{id} {kind} @{xc}").replace("{kind}", "hang").replace("{xc}", &xc);
            finding(site, "call does not return within 10 s", format!("{} -> no result after 10 s", line), "returns (no panic, bounded time)")
        }
        "twin" => {
            let n = if second_stage { name.clone() } else { format!("checked_{}", name) };
            finding(format!("{} hang @{}", n, cls), "does not return within 10 s", format!("{} -> no result after 10 s", show_call(&n, &a)), "returns in bounded time")
        }
        _ => finding(format!("{} hang @{}", name, cls), "call inside the documented domain does not return within 10 s", format!("{} -> no result after 10 s", show_call(&name, &a)), "returns in bounded time"),
    }
}

fn eval_twin(name: &str, a: &[V], cls: &str, threaded: bool, progress: &mut dyn FnMut(&str)) -> Vec<Finding> {
    let mut out = vec![];
    let invalid = match documented_invalid(name, a) {
        Some(b) => b,
        None => return out,
    };
    let cname = format!("checked_{}", name);
    let dom = if invalid { "documented invalid domain" } else { "documented domain" };
    let c = match run_here(&cname, a, threaded) {
        Some(r) => r,
        None => return vec![finding("C12 bad case".into(), "unknown function", cname, "")],
    };
    progress("checked done");
    match &c {
        Out::Panic => out.push(finding(format!("{} panic @{}", cname, cls), "checked function panics instead of returning Ok/Err", format!("{} -> panic ({})", show_call(&cname, a), dom), "Ok/Err (Some/None)")),
        Out::Hang => {
            out.push(finding(format!("{} hang @{}", cname, cls), "checked function does not return within 10 s", format!("{} -> no result after 10 s ({})", show_call(&cname, a), dom), "returns in bounded time"));
            return out; // the twin is `checked(..).unwrap()`: it would hang as well
        }
        Out::Val(s) => {
            let is_err = s.starts_with("Err") || s == "None";
            if is_err && !invalid {
                out.push(finding(format!("{} Err inside the documented domain @{}", cname, cls), "checked function rejects an argument outside its documented invalid domain", format!("{} -> {}", show_call(&cname, a), s), "Ok/Some"));
            }
            if !is_err && invalid {
                out.push(finding(format!("{} Ok on the documented invalid domain @{}", cname, cls), "checked function accepts an argument of its documented invalid domain", format!("{} -> {}", show_call(&cname, a), s), "Err/None"));
            }
        }
    }
    let p = match run_here(name, a, threaded) {
        Some(r) => r,
        None => return out,
    };
    match (&c, &p) {
        (_, Out::Hang) => out.push(finding(format!("{} hang @{}", name, cls), "does not return within 10 s", format!("{} -> no result after 10 s", show_call(name, a)), "returns in bounded time")),
        (Out::Val(s), Out::Panic) => {
            let is_err = s.starts_with("Err") || s == "None";
            if !is_err {
                out.push(finding(format!("{} panics although {} returns a value @{}", name, cname, cls), "panicking twin panics where the checked form returns a value", format!("{} -> panic; {} -> {}", show_call(name, a), cname, s), "the identical value"));
            } else if !invalid {
                out.push(finding(format!("{} panic @{}", name, cls), "panics inside the documented domain", format!("{} -> panic", show_call(name, a)), "returns"));
            }
        }
        (Out::Val(s), Out::Val(t)) => {
            let is_err = s.starts_with("Err") || s == "None";
            if is_err {
                out.push(finding(format!("{} does not panic although {} fails @{}", name, cname, cls), "panicking twin returns where the checked form fails", format!("{} -> {}; {} -> {}", show_call(name, a), t, cname, s), "panic"));
            } else {
                let inner = s.trim_start_matches("Ok(").trim_start_matches("Some(").trim_end_matches(')');
                if inner != t {
                    out.push(finding(format!("{} differs from {} @{}", name, cname, cls), "twin values are not bit-identical", format!("{} -> {}; {} -> {}", show_call(name, a), t, cname, s), "identical bits"));
                }
            }
        }
        (Out::Panic, Out::Panic) => {}
        (Out::Panic, Out::Val(t)) => out.push(finding(format!("{} returns although {} panics @{}", name, cname, cls), "twins disagree", format!("{} -> {}", show_call(name, a), t), "same behaviour")),
        (Out::Hang, _) => {}
    }
    out
}

// ------------------------------------------------------------------------------------------------ worker processes
// A hung call cannot be cancelled inside the process (a leaked spinning thread would starve the later calls
// and make them time out falsely).  Therefore the cases are evaluated in child processes
// (`harness replay C12 {"k":"serve"}`: one JSON case per stdin line, one result line per case), which the parent
// kills after 10 s without an answer.  Cases are grouped by their hang key; a group runs sequentially on one
// worker and stops at its first hang, so the set of evaluated cases does not depend on scheduling.
fn serve() -> String {
    use std::io::BufRead;
    let stdin = std::io::stdin();
    for line in stdin.lock().lines() {
        let line = match line {
            Ok(l) => l,
            Err(_) => break,
        };
        let case: Value = match serde_json::from_str(&line) {
            Ok(c) => c,
            Err(_) => {
                println!("R\t[]");
                continue;
            }
        };
        let fs = eval_mode(&case, false, &mut |m| println!("P\t{}", m));
        let js: Vec<Value> = fs.iter().map(|f| json!([f.site, f.what, f.observed, f.required])).collect();
        println!("R\t{}", Value::Array(js));
    }
    "served".to_string()
}

struct Child {
    proc: std::process::Child,
    stdin: std::process::ChildStdin,
    rx: std::sync::mpsc::Receiver<String>,
}
fn spawn_child() -> Option<Child> {
    use std::io::BufRead;
    let exe = std::env::current_exe().ok()?;
    let mut proc = std::process::Command::new(exe).args(["replay", "C12", "{\"k\":\"serve\"}"]).stdin(std::process::Stdio::piped()).stdout(std::process::Stdio::piped()).stderr(std::process::Stdio::null()).spawn().ok()?;
    let stdin = proc.stdin.take()?;
    let stdout = proc.stdout.take()?;
    let (tx, rx) = std::sync::mpsc::channel();
    std::thread::spawn(move || {
        for l in std::io::BufReader::new(stdout).lines() {
            match l {
                Ok(l) => {
                    if tx.send(l).is_err() {
                        break;
                    }
                }
                Err(_) => break,
            }
        }
    });
    Some(Child { proc, stdin, rx })
}
/// Some(findings) or None = no answer within 10 s (second element: the twin's first call had finished)
fn ask(ch: &mut Child, case: &Value) -> Result<Vec<Finding>, (bool, bool)> {
    use std::io::Write;
    if writeln!(ch.stdin, "{}", case).is_err() || ch.stdin.flush().is_err() {
        return Err((false, true));
    }
    let mut stage2 = false;
    let mut deadline = std::time::Instant::now() + std::time::Duration::from_secs(10);
    loop {
        let left = deadline.saturating_duration_since(std::time::Instant::now());
        match ch.rx.recv_timeout(left) {
            Ok(l) => {
                if let Some(r) = l.strip_prefix("R\t") {
                    let v: Value = serde_json::from_str(r).unwrap_or(Value::Null);
                    let fs = v.as_array().map(|a| a.iter().map(|f| Finding { site: f[0].as_str().unwrap_or("").into(), what: f[1].as_str().unwrap_or("").into(), observed: f[2].as_str().unwrap_or("").into(), required: f[3].as_str().unwrap_or("").into() }).collect()).unwrap_or_default();
                    return Ok(fs);
                } else if l.starts_with("P\t") {
                    stage2 = true;
                    deadline = std::time::Instant::now() + std::time::Duration::from_secs(10);
                }
            }
            Err(std::sync::mpsc::RecvTimeoutError::Timeout) => return Err((stage2, false)),
            Err(_) => return Err((stage2, true)), // child died (stack overflow, abort): treated like a panic of the call
        }
    }
}

struct Group {
    first_index: usize,
    cases: Vec<(usize, Value)>,
}
fn run_groups(groups: Vec<Group>, workers: usize) -> (Vec<(usize, Value, Vec<Finding>)>, usize) {
    use std::sync::{Arc, Mutex};
    let queue = Arc::new(Mutex::new(groups.into_iter().rev().collect::<Vec<_>>()));
    let results: Arc<Mutex<Vec<(usize, Value, Vec<Finding>)>>> = Arc::new(Mutex::new(vec![]));
    let evaluated = Arc::new(std::sync::atomic::AtomicUsize::new(0));
    let use_children = spawn_child().map(|mut c| {
        let ok = matches!(ask(&mut c, &json!({"k":"call","f":"erf","a":[{"F":"0000000000000000"}]})), Ok(ref v) if v.is_empty());
        let _ = c.proc.kill();
        let _ = c.proc.wait();
        ok
    }).unwrap_or(false);
    let mut hs = vec![];
    for _ in 0..workers.max(1) {
        let (queue, results, evaluated) = (queue.clone(), results.clone(), evaluated.clone());
        hs.push(std::thread::spawn(move || {
            let mut child: Option<Child> = None;
            loop {
                let g = match queue.lock().unwrap().pop() {
                    Some(g) => g,
                    None => break,
                };
                let _ = g.first_index;
                for (idx, case) in g.cases {
                    evaluated.fetch_add(1, std::sync::atomic::Ordering::Relaxed);
                    let (fs, hung) = if use_children {
                        if child.is_none() {
                            child = spawn_child();
                        }
                        match child.as_mut() {
                            None => (eval(&case), false),
                            Some(ch) => match ask(ch, &case) {
                                Ok(fs) => (fs, false),
                                Err((stage2, died)) => {
                                    let _ = ch.proc.kill();
                                    let _ = ch.proc.wait();
                                    child = None;
                                    if died {
                                        let mut f = hang_finding_stage(&case, stage2);
                                        f.site = f.site.replace(" hang @", " abort @");
                                        f.what = "the process evaluating the call died (stack overflow or abort)".into();
                                        (vec![f], false)
                                    } else {
                                        (vec![hang_finding_stage(&case, stage2)], true)
                                    }
                                }
                            },
                        }
                    } else {
                        let fs = eval(&case);
                        let h = fs.iter().any(|f| f.site.contains(" hang @"));
                        (fs, h)
                    };
                    if !fs.is_empty() {
                        results.lock().unwrap().push((idx, case, fs));
                    }
                    if hung {
                        break; // the rest of the group shares the hang key: skipped
                    }
                }
            }
            if let Some(mut ch) = child {
                let _ = ch.proc.kill();
                let _ = ch.proc.wait();
            }
        }));
    }
    for h in hs {
        let _ = h.join();
    }
    let mut r = std::mem::take(&mut *results.lock().unwrap());
    r.sort_by_key(|x| x.0);
    (r, evaluated.load(std::sync::atomic::Ordering::Relaxed))
}

// ------------------------------------------------------------------------------------------------ run
struct Runner<'a> {
    cx: &'a mut Ctx,
    thorough: bool,
    cases: Vec<(String, Value)>, // (hang key, case)
}
impl<'a> Runner<'a> {
    fn key(&self, name: &str, cls: &str) -> String {
        if self.thorough {
            format!("{} @{}", name, cls)
        } else {
            name.to_string()
        }
    }
    /// direct call that must return
    fn call(&mut self, name: &str, a: Vec<V>) {
        self.call_cls(name, a, None)
    }
    fn call_cls(&mut self, name: &str, a: Vec<V>, cls: Option<String>) {
        let cls_s = cls.clone().unwrap_or_else(|| class_of(&a));
        let mut case = json!({"k":"call","f":name,"a":a.iter().map(|v| v.to_json()).collect::<Vec<_>>(),"_":show_call(name, &a)});
        if let Some(c) = cls {
            case["cls"] = json!(c);
        }
        let k = self.key(name, &cls_s);
        self.cases.push((k, case));
    }
    fn twin(&mut self, name: &str, a: Vec<V>) {
        let cls_s = class_of(&a);
        let case = json!({"k":"twin","f":name,"a":a.iter().map(|v| v.to_json()).collect::<Vec<_>>(),"_":show_call(name, &a)});
        let k = self.key(name, &cls_s);
        self.cases.push((k, case));
    }
    /// string-dispatched call (signatures.json ids)
    fn disp(&mut self, id: &str, args: &[Arg], nc: usize, tpl: String, minimise: bool) {
        let xc = args[nc..].iter().map(xclass).collect::<Vec<_>>().join(",");
        let k = if self.thorough { tpl.replace("{kind}", "hang").replace("{xc}", &xc) } else { format!("{} {}", id, tpl.split("{id}").next().unwrap_or("")) };
        let case = json!({"k":"disp","line":req(id, args),"nc":nc,"tpl":tpl.replace("{id}", id),"min":minimise});
        self.cases.push((k, case));
    }
    fn finish(&mut self) {
        // group by hang key, keeping generation order inside a group and ordering groups by their first case
        let mut index: BTreeMap<String, usize> = BTreeMap::new();
        let mut groups: Vec<Group> = vec![];
        for (i, (k, c)) in std::mem::take(&mut self.cases).into_iter().enumerate() {
            let gi = *index.entry(k).or_insert_with(|| {
                groups.push(Group { first_index: i, cases: vec![] });
                groups.len() - 1
            });
            groups[gi].cases.push((i, c));
        }
        let (res, n) = run_groups(groups, 8);
        self.cx.evals += n as u64;
        for (_, case, fs) in res {
            for f in fs {
                self.cx.violation(&f.site, &f.what, case.clone(), f.observed, &f.required);
            }
        }
    }
}

const F_ANY: [f64; 17] = [f64::NAN, f64::NEG_INFINITY, -1.0, -0.0, 0.0, 5e-324, f64::MIN_POSITIVE, 0.5, 0.9999999999999999, 1.0, 1.0000000000000002, 2.0, 1e300, f64::MAX, f64::INFINITY, -1e300, 1e-300];
const F_FINITE: [f64; 22] = [0.0, -0.0, 5e-324, -5e-324, 2.2250738585072014e-308, 1e-300, 1e-16, 0.5, 0.9999999999999999, 1.0, 1.0000000000000002, -1.0, 2.0, 100.0, 2147483648.0, 9007199254740992.0, 1e300, -1e300, f64::MAX, -f64::MAX, 3.5, -2.5];
const P_UNIT: [f64; 10] = [0.0, 5e-324, 2.2250738585072014e-308, 1e-300, 1e-16, 0.5, 0.9999999999999999, 1.0, 0.25, 1e-3];
const U_ANY: [u64; 10] = [0, 1, 2, 170, 171, 1 << 31, 1 << 32, 1 << 53, u64::MAX - 1, u64::MAX];
const I_ANY: [i64; 13] = [i64::MIN, i64::MIN + 1, -(1 << 31) - 1, -2, -1, 0, 1, 2, 1 << 31, 1 << 32, 1 << 53, i64::MAX - 1, i64::MAX];

fn pool_for(ty: &str, any: bool, method: &str) -> Vec<Arg> {
    if ty == "f" {
        if method == "inverse_cdf" {
            P_UNIT.iter().map(|&x| Arg::F(x)).collect()
        } else if any {
            F_ANY.iter().map(|&x| Arg::F(x)).collect()
        } else {
            F_FINITE.iter().map(|&x| Arg::F(x)).collect()
        }
    } else if ty.starts_with("i:i") {
        let lim: i128 = if ty.contains("32") { i32::MAX as i128 } else { i64::MAX as i128 };
        let mut v: Vec<i128> = I_ANY.iter().map(|&x| (x as i128).clamp(-lim - 1, lim)).collect();
        v.dedup();
        v.into_iter().map(Arg::I).collect()
    } else if ty.starts_with("i:") {
        let lim: i128 = if ty.contains("32") { u32::MAX as i128 } else if ty.contains("usize") { usize::MAX as i128 } else { u64::MAX as i128 };
        let mut v: Vec<i128> = U_ANY.iter().map(|&x| (x as i128).min(lim)).collect();
        v.dedup();
        v.into_iter().map(Arg::I).collect()
    } else if ty == "b" {
        vec![Arg::B(false), Arg::B(true)]
    } else {
        vec![]
    }
}
fn product(pools: &[Vec<Arg>]) -> Vec<Vec<Arg>> {
    let mut out: Vec<Vec<Arg>> = vec![vec![]];
    for p in pools {
        let mut next = vec![];
        for t in &out {
            for a in p {
                let mut u = t.clone();
                u.push(a.clone());
                next.push(u);
            }
        }
        out = next;
    }
    out
}

/// integer-extreme tuples named in the property (kept only if the constructor accepts them)
fn stress_tuples(fam: &str) -> Vec<Vec<Arg>> {
    let big = u64::MAX as i128;
    match fam {
        "Hypergeometric" => vec![vec![Arg::I(10), Arg::I(5), Arg::I(0)], vec![Arg::I(0), Arg::I(0), Arg::I(0)], vec![Arg::I(10), Arg::I(0), Arg::I(5)], vec![Arg::I(10), Arg::I(10), Arg::I(10)], vec![Arg::I(big), Arg::I(big), Arg::I(big)], vec![Arg::I(big), Arg::I(1), Arg::I(1)], vec![Arg::I(1 << 32), Arg::I(1 << 31), Arg::I(1 << 31)]],
        "Binomial" => vec![vec![Arg::F(0.5), Arg::I(0)], vec![Arg::F(0.0), Arg::I(0)], vec![Arg::F(0.0), Arg::I(10)], vec![Arg::F(1.0), Arg::I(10)], vec![Arg::F(0.5), Arg::I(1 << 31)], vec![Arg::F(0.5), Arg::I(big)], vec![Arg::F(5e-324), Arg::I(10)]],
        "DiscreteUniform" => vec![vec![Arg::I(i64::MIN as i128), Arg::I(i64::MAX as i128)], vec![Arg::I(0), Arg::I(i64::MAX as i128)], vec![Arg::I(i64::MIN as i128), Arg::I(0)], vec![Arg::I(5), Arg::I(5)], vec![Arg::I(i64::MAX as i128), Arg::I(i64::MAX as i128)], vec![Arg::I(i64::MIN as i128), Arg::I(i64::MIN as i128)], vec![Arg::I(-(1 << 31)), Arg::I(1 << 31)]],
        "Geometric" => vec![vec![Arg::F(1.0)], vec![Arg::F(5e-324)], vec![Arg::F(1e-300)], vec![Arg::F(0.9999999999999999)]],
        "Bernoulli" => vec![vec![Arg::F(0.0)], vec![Arg::F(1.0)], vec![Arg::F(5e-324)]],
        "NegativeBinomial" => vec![vec![Arg::F(1.0), Arg::F(1.0)], vec![Arg::F(1.0), Arg::F(0.0)], vec![Arg::F(0.0), Arg::F(0.5)], vec![Arg::F(1e300), Arg::F(0.5)], vec![Arg::F(5e-324), Arg::F(0.5)]],
        "Poisson" => vec![vec![Arg::F(5e-324)], vec![Arg::F(1e-300)], vec![Arg::F(1e15)], vec![Arg::F(1e300)]],
        "Chi" => vec![vec![Arg::I(1)], vec![Arg::I(1 << 31)], vec![Arg::I(big)]],
        "Erlang" => vec![vec![Arg::I(1), Arg::F(1.0)], vec![Arg::I(1 << 31), Arg::F(1.0)], vec![Arg::I(big), Arg::F(1.0)], vec![Arg::I(0), Arg::F(1.0)]],
        _ => vec![],
    }
}

pub fn run(cx: &mut Ctx) {
    let thorough = cx.thorough;
    let mut rn = Runner { cx, thorough, cases: vec![] };
    // ---- A. constructors in signatures.json, any input
    let sigs = rn.cx.sigs.clone();
    for s in &sigs {
        let id = s["id"].as_str().unwrap_or("").to_string();
        let method = s["method"].as_str().unwrap_or("");
        if !(method == "new" || method == "default" || method == "standard") || !s["self"].is_string() || id.starts_with("Infinite") {
            continue; // the wave generators are constructed (and stepped) directly below
        }
        let pt: Vec<String> = s["params"].as_array().map(|a| a.iter().map(|x| x.as_str().unwrap_or("").to_string()).collect()).unwrap_or_default();
        let pools: Vec<Vec<Arg>> = pt.iter().map(|t| pool_for(t, true, "new")).collect();
        if pools.iter().any(|p| p.is_empty()) && !pt.is_empty() {
            continue;
        }
        let mut all = product(&pools);
        if !thorough && all.len() > 1500 {
            // quick: a seeded subset of the product
            let mut sub = vec![];
            for _ in 0..1500 {
                let i = rn.cx.r.below(all.len() as u64) as usize;
                sub.push(all[i].clone());
            }
            all = sub;
        }
        for t in all {
            rn.disp(&id, &t, 0, "{id} {kind} @({xc})".to_string(), true);
        }
    }
    // ---- B. methods on constructed objects
    let n_t = if thorough { 40 } else { 6 };
    let mut by_fam: BTreeMap<String, Vec<Value>> = BTreeMap::new();
    for s in &sigs {
        if let Some(f) = s["self"].as_str() {
            by_fam.entry(f.to_string()).or_default().push(s.clone());
        }
    }
    for (fam, ms) in &by_fam {
        let ctor = match ms.iter().find(|s| s["method"].as_str() == Some("new")) {
            Some(c) => c.clone(),
            None => continue,
        };
        let strs = |x: &Value| -> Vec<String> { x.as_array().map(|a| a.iter().map(|y| y.as_str().unwrap_or("").to_string()).collect()).unwrap_or_default() };
        let (ct, cn) = (strs(&ctor["params"]), strs(&ctor["param_names"]));
        if ct.is_empty() || !ms.iter().any(|s| s["method"].as_str() == Some("cdf")) {
            continue;
        }
        let mut tuples: Vec<(Vec<Arg>, String)> = tuples_ext(rn.cx, fam, &ct, &cn, n_t).into_iter().map(|(t, e)| (t, if e { "[ext] ".to_string() } else { String::new() })).collect();
        for t in stress_tuples(fam) {
            if rn.cx.call(&format!("{}::new", fam), &t).starts_with("ok") {
                let tag = format!("[{}] ", t.iter().zip(cn.iter()).map(|(a, n)| format!("{}={}", n, match a { Arg::I(k) => if *k >= (1 << 31) || *k <= -(1 << 31) { "huge".to_string() } else { k.to_string() }, Arg::F(x) => fcls(*x).to_string(), _ => "?".into() })).collect::<Vec<_>>().join(","));
                tuples.push((t, tag));
            }
        }
        for (t, pre) in tuples {
            for m in ms {
                let method = m["method"].as_str().unwrap_or("");
                if method == "new" || method == "default" || method == "standard" || method == "from" || strs(&m["ctor"]).is_empty() {
                    continue;
                }
                let id = m["id"].as_str().unwrap_or("").to_string();
                let pt = strs(&m["params"]);
                let pools: Vec<Vec<Arg>> = pt.iter().map(|ty| pool_for(ty, false, method)).collect();
                if pools.iter().any(|p| p.is_empty()) && !pt.is_empty() {
                    continue;
                }
                for xs in product(&pools) {
                    let mut args = t.clone();
                    args.extend(xs.iter().cloned());
                    let tags = ptags(&t, &cn);
                    rn.disp(&id, &args, t.len(), format!("{}{{id}} {{kind}} @x={{xc}}{}", pre, tags), false);
                }
            }
        }
    }
    run_direct(&mut rn, thorough);
    rn.finish();
}

pub fn replay(case: &Value) -> String {
    if case["k"].as_str() == Some("serve") {
        return serve();
    }
    let fs = eval(case);
    if fs.is_empty() {
        return "no violation on replay".to_string();
    }
    fs.iter().map(|f| format!("[{}] observed {} / required {}", f.site, f.observed, f.required)).collect::<Vec<_>>().join("\n")
}
