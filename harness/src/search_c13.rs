//! C13 — descriptive statistics equal their textbook definitions on every data set.
//!
//! Oracle: the textbook definitions evaluated EXACTLY.  Every finite double is a dyadic rational
//! m·2^e; sums Σx, Σ|x| are accumulated as big integers in units of 2^-1074 and Σx², Σxy in units of
//! 2^-2148, and mean / variance / covariance are formed from them as `BigRational`s:
//!   mean  = Σx / n
//!   S     = Σ(x-mean)²  = (n·Σx² - (Σx)²) / n           variance = S/(n-1),  population = S/n
//!   C     = Σ(x-x̄)(y-ȳ) = (n·Σxy - Σx·Σy) / n           covariance = C/(n-1), population = C/n
//!   quadratic mean² = Σx²/n   (the squares are compared, likewise std_dev² with the variance)
//!   harmonic mean   = n / Σ(1/x)   (Σ(1/x) in 2^-1400 fixed point, truncation < n·2^-1400: below 2^-800 relative)
//!   geometric mean  : reference exp(L/n), L = the exact sum of the f64 values ln(x_i), rounded once
//!
//! Tolerance (relative)  c·n·ε·κ  with ε = 2^-52, c = 8, plus an absolute floor of 8·n·2^-1074
//! (subnormal granularity; only ever loosens).  κ, the condition number, exactly from the sums:
//!   mean                          κ = Σ|x| / |Σx|                    (so the absolute bound is 8·ε·Σ|x|)
//!   variance (both), std_dev²     κ = sqrt(Σx² / S)                  (Chan–Golub–LeVeque; +4ε for the squaring of std_dev)
//!   covariance (both)             κ = (κ_x + κ_y)·sqrt(S_x·S_y) / |C|  (absolute bound 8·n·ε·(κ_x+κ_y)·sqrt(S_x·S_y))
//!   quadratic mean², harmonic     κ = 1  (all terms of one sign; +4ε for the squaring)
//!   geometric mean                κ = (1 + Σ|ln x_i|) / n            (the looser, stated bound: relative 8·ε·(1+Σ|ln x_i|))
//! A case with κ·n·ε > 1e-3 (or κ = ∞: Σx = 0, S = 0, C = 0 on data that is not identically zero)
//! is skipped and counted in `SKIPPED`.
//!
//! Conventions checked (Statistics trait docs): empty ⇒ NaN (all 14 functions); variance, std_dev,
//! covariance of < 2 entries ⇒ NaN; a NaN entry ⇒ NaN (all functions; first/middle/last position
//! all occur in the exhaustive lattice); min/max/abs_min/abs_max NaN iff some entry is NaN, otherwise
//! the exact extremum (numeric equality, the sign of a zero is not demanded); covariance /
//! population_covariance panic iff the lengths differ; geometric/harmonic mean: NaN with a negative
//! entry, 0 with a zero entry and none negative (documented; own sites).
//! Entry points: &[f64], &Vec<f64>, Vec<f64> by value, slice::Iter, Copied<Iter> (Item = f64),
//! vec::IntoIter and Data::{min,max,mean,variance} agree bit-for-bit (two NaNs count as equal).
//! Permutations: every permutation of a finite vector is a data vector and is compared with the
//! same exact value within the same bound; the exhaustive lattice contains all permutations of each
//! of its vectors, and all n! orders of seeded random vectors of length 2..6 are run explicitly.
//! Vectors with ±inf entries are outside "finite data": only conventions / extremum / entry points
//! are asserted there; NaN-vs-number order dependence is reported under an "[ext] " site.
use crate::search::Ctx;
use num_bigint::BigInt;
use num_rational::BigRational;
use num_traits::{Signed, ToPrimitive, Zero};
use serde_json::{json, Value};
use statrs::statistics::{Data, Distribution, Max, Min, Statistics};
use std::borrow::Borrow;
use std::panic::{catch_unwind, AssertUnwindSafe};
use std::sync::atomic::{AtomicU64, Ordering};

pub static SKIPPED: AtomicU64 = AtomicU64::new(0);
pub static CHECKED: AtomicU64 = AtomicU64::new(0);

const EPS: f64 = 2.220446049250313e-16; // 2^-52
const C: f64 = 8.0;
const SKIP_AT: f64 = 1e-3;
const LAT: [f64; 7] = [f64::NAN, f64::INFINITY, f64::NEG_INFINITY, 0.0, -0.0, 1.0, -2.5];
const FN: [&str; 14] = [
    "min",
    "max",
    "abs_min",
    "abs_max",
    "mean",
    "geometric_mean",
    "harmonic_mean",
    "variance",
    "std_dev",
    "population_variance",
    "population_std_dev",
    "quadratic_mean",
    "covariance",
    "population_covariance",
];
const ENTRY: [&str; 6] = ["&[f64]", "&Vec<f64>", "Vec<f64>", "slice::Iter", "Copied<Iter>", "vec::IntoIter"];

#[derive(Clone, Debug)]
pub struct Finding {
    site: String,
    what: String,
    observed: String,
    required: String,
}
fn finding(out: &mut Vec<Finding>, site: String, what: &str, observed: String, required: String) {
    out.push(Finding { site, what: what.to_string(), observed, required });
}

// ---------------------------------------------------------------------------------------------
// calling the implementation
type R = Result<f64, ()>; // Err = panic

fn call1<T>(k: usize, t: T) -> f64
where
    T: IntoIterator,
    T::Item: Borrow<f64>,
{
    match k {
        0 => Statistics::min(t),
        1 => Statistics::max(t),
        2 => Statistics::abs_min(t),
        3 => Statistics::abs_max(t),
        4 => Statistics::mean(t),
        5 => Statistics::geometric_mean(t),
        6 => Statistics::harmonic_mean(t),
        7 => Statistics::variance(t),
        8 => Statistics::std_dev(t),
        9 => Statistics::population_variance(t),
        10 => Statistics::population_std_dev(t),
        11 => Statistics::quadratic_mean(t),
        _ => unreachable!(),
    }
}
fn call2<T>(k: usize, a: T, b: T) -> f64
where
    T: IntoIterator,
    T::Item: Borrow<f64>,
{
    match k {
        12 => Statistics::covariance(a, b),
        13 => Statistics::population_covariance(a, b),
        _ => unreachable!(),
    }
}
fn guard(f: impl FnOnce() -> f64) -> R {
    catch_unwind(AssertUnwindSafe(f)).map_err(|_| ())
}
fn eval_all<T, FX, FY>(fx: FX, fy: FY) -> Vec<R>
where
    T: IntoIterator,
    T::Item: Borrow<f64>,
    FX: Fn() -> T,
    FY: Fn() -> T,
{
    let mut v = Vec::with_capacity(14);
    for k in 0..12 {
        v.push(guard(|| call1(k, fx())));
    }
    for k in 12..14 {
        v.push(guard(|| call2(k, fx(), fy())));
    }
    v
}
/// all 14 functions through entry point `e`
fn eval_entry(e: usize, x: &[f64], y: &[f64]) -> Vec<R> {
    let xv: Vec<f64> = x.to_vec();
    let yv: Vec<f64> = y.to_vec();
    match e {
        0 => eval_all(|| x, || y),
        1 => eval_all(|| &xv, || &yv),
        2 => eval_all(|| xv.clone(), || yv.clone()),
        3 => eval_all(|| x.iter(), || y.iter()),
        4 => eval_all(|| x.iter().copied(), || y.iter().copied()),
        _ => eval_all(|| xv.clone().into_iter(), || yv.clone().into_iter()),
    }
}
/// Data::{min,max,mean,variance} → indices 0,1,4,7
fn eval_data(x: &[f64]) -> [(usize, R); 4] {
    let d = Data::new(x.to_vec());
    [
        (0, guard(|| Min::min(&d))),
        (1, guard(|| Max::max(&d))),
        (4, guard(|| Distribution::mean(&d).unwrap_or(f64::from_bits(0x7ff0_dead_0000_0001)))),
        (7, guard(|| Distribution::variance(&d).unwrap_or(f64::from_bits(0x7ff0_dead_0000_0001)))),
    ]
}
fn same(a: &R, b: &R) -> bool {
    match (a, b) {
        (Err(_), Err(_)) => true,
        (Ok(p), Ok(q)) => (p.is_nan() && q.is_nan()) || p.to_bits() == q.to_bits(),
        _ => false,
    }
}
fn show(r: &R) -> String {
    match r {
        Err(_) => "panic".to_string(),
        Ok(v) => crate::search::fmt(*v),
    }
}

// ---------------------------------------------------------------------------------------------
// exact arithmetic
fn pow2(k: u64) -> BigInt {
    BigInt::from(1) << k
}
/// finite x as an integer number of units 2^-1074
fn fx(x: f64) -> BigInt {
    let b = x.to_bits();
    let e = ((b >> 52) & 0x7ff) as u64;
    let m = b & ((1u64 << 52) - 1);
    let (mant, sh) = if e == 0 { (m, 0) } else { (m | (1u64 << 52), e - 1) };
    let v = BigInt::from(mant) << sh;
    if b >> 63 == 1 {
        -v
    } else {
        v
    }
}
/// num / (div · 2^p)
fn ratio(num: &BigInt, div: u64, p: u64) -> BigRational {
    BigRational::new(num.clone(), BigInt::from(div) << p)
}
/// nearest-ish f64 of a rational (relative error < 2^-52; only used for tolerances and error sizes)
fn rat_to_f64(r: &BigRational) -> f64 {
    if r.is_zero() {
        return 0.0;
    }
    let neg = r.is_negative();
    let n = r.numer().abs();
    let d = r.denom().abs();
    let shift: i64 = 80 - (n.bits() as i64 - d.bits() as i64);
    let q = if shift >= 0 { (n << shift as u64) / d } else { n / (d << (-shift) as u64) };
    let mut v = q.to_f64().unwrap_or(f64::INFINITY);
    // v · 2^-shift in safe steps
    let mut s = -shift;
    while s != 0 {
        let step = s.clamp(-900, 900);
        v *= 2f64.powi(step as i32);
        s -= step;
    }
    if neg {
        -v
    } else {
        v
    }
}
fn rat_of(x: f64) -> BigRational {
    BigRational::from_float(x).unwrap()
}

enum Expect {
    /// nothing is asserted (infinite entries, or not applicable)
    None,
    /// skipped because κ·n·ε > 1e-3 or κ = ∞
    Skip,
    Nan(&'static str),
    /// numerically equal (min/max family, documented zeros)
    Equals(f64, &'static str),
    /// |obs^pow - exact| <= tol (absolute), pow ∈ {1,2}; kappa recorded for the message
    Exact { exact: BigRational, tol: f64, square: bool, kappa: f64 },
    /// |obs - reference| <= tol_rel·|reference|
    Approx { reference: f64, tol_rel: f64 },
}

struct Sums {
    n: u64,
    s1: BigInt,
    a1: BigInt,
    s2: BigInt,
}
fn sums(x: &[f64]) -> Sums {
    let mut s1 = BigInt::zero();
    let mut a1 = BigInt::zero();
    let mut s2 = BigInt::zero();
    for &v in x {
        let f = fx(v);
        s2 += &f * &f;
        a1 += f.abs();
        s1 += f;
    }
    Sums { n: x.len() as u64, s1, a1, s2 }
}
const P1: u64 = 1074;
const P2: u64 = 2148;

/// (S = Σ(x-mean)² as rational, κ = sqrt(Σx²/S)) ; None when S = 0
fn centred(s: &Sums) -> (BigRational, Option<f64>) {
    let nn = BigInt::from(s.n) * &s.s2 - &s.s1 * &s.s1; // n·S in units 2^-2148
    let big_s = ratio(&nn, s.n, P2);
    if nn.is_zero() {
        return (big_s, None);
    }
    let k2 = BigRational::new(BigInt::from(s.n) * &s.s2, nn);
    (big_s, Some(rat_to_f64(&k2).sqrt()))
}

fn expectations(x: &[f64], y: &[f64]) -> Vec<Expect> {
    let n = x.len();
    let mut ex: Vec<Expect> = (0..14).map(|_| Expect::None).collect();
    if n == 0 {
        for e in ex.iter_mut() {
            *e = Expect::Nan("empty data");
        }
        return ex;
    }
    let x_nan = x.iter().any(|v| v.is_nan());
    let y_nan = y.iter().any(|v| v.is_nan());
    let x_fin = x.iter().all(|v| v.is_finite());
    let y_fin = y.iter().all(|v| v.is_finite());
    let nf = n as f64;
    let floor = 8.0 * nf * f64::from_bits(1); // 8·n·2^-1074
    // ---- functions of x alone
    if x_nan {
        for e in ex.iter_mut().take(12) {
            *e = Expect::Nan("an entry is NaN");
        }
    } else {
        let mn = x.iter().cloned().fold(f64::INFINITY, f64::min);
        let mx = x.iter().cloned().fold(f64::NEG_INFINITY, f64::max);
        let amn = x.iter().map(|v| v.abs()).fold(f64::INFINITY, f64::min);
        let amx = x.iter().map(|v| v.abs()).fold(0.0, f64::max);
        ex[0] = Expect::Equals(mn, "the exact minimum");
        ex[1] = Expect::Equals(mx, "the exact maximum");
        ex[2] = Expect::Equals(amn, "the exact minimum of |x|");
        ex[3] = Expect::Equals(amx, "the exact maximum of |x|");
        if n < 2 {
            ex[7] = Expect::Nan("fewer than two entries");
            ex[8] = Expect::Nan("fewer than two entries");
        }
        if x_fin {
            let s = sums(x);
            // mean
            if s.a1.is_zero() {
                ex[4] = Expect::Exact { exact: BigRational::zero(), tol: floor, square: false, kappa: 1.0 };
            } else if s.s1.is_zero() {
                ex[4] = Expect::Skip;
            } else {
                let kappa = rat_to_f64(&BigRational::new(s.a1.clone(), s.s1.abs()));
                if kappa * nf * EPS > SKIP_AT {
                    ex[4] = Expect::Skip;
                } else {
                    let exact = ratio(&s.s1, s.n, P1);
                    let tol = C * nf * EPS * kappa * rat_to_f64(&exact).abs() + floor;
                    ex[4] = Expect::Exact { exact, tol, square: false, kappa };
                }
            }
            // quadratic mean (squares, κ = 1)
            {
                let exact = ratio(&s.s2, s.n, P2);
                let tol = (C * nf * EPS + 4.0 * EPS) * rat_to_f64(&exact) + floor;
                ex[11] = Expect::Exact { exact, tol, square: true, kappa: 1.0 };
            }
            // variances
            let (big_s, kappa) = centred(&s);
            let var_like = |div: u64, square: bool| -> Expect {
                if s.s2.is_zero() {
                    return Expect::Exact { exact: BigRational::zero(), tol: floor, square, kappa: 1.0 };
                }
                match kappa {
                    None => Expect::Skip,
                    Some(k) if k * nf * EPS > SKIP_AT => Expect::Skip,
                    Some(k) => {
                        let exact = &big_s / BigRational::from_integer(BigInt::from(div));
                        let rel = C * nf * EPS * k + if square { 4.0 * EPS } else { 0.0 };
                        let tol = rel * rat_to_f64(&exact) + floor;
                        Expect::Exact { exact, tol, square, kappa: k }
                    }
                }
            };
            if n >= 2 {
                ex[7] = var_like(s.n - 1, false);
                ex[8] = var_like(s.n - 1, true);
            }
            ex[9] = var_like(s.n, false);
            ex[10] = var_like(s.n, true);
            // harmonic mean
            if x.iter().any(|v| *v < 0.0) {
                ex[6] = Expect::Nan("an entry is negative (documented)");
                ex[5] = Expect::Nan("an entry is negative (documented)");
            } else if x.iter().any(|v| *v == 0.0) {
                ex[6] = Expect::Equals(0.0, "0: an entry is zero and none is negative (documented)");
                ex[5] = Expect::Equals(0.0, "0: an entry is zero and none is negative");
            } else {
                // Σ 1/x in units 2^-1400 (each term truncated by < 1 unit)
                const U: u64 = 1400;
                let mut q = BigInt::zero();
                for &v in x {
                    let b = v.to_bits();
                    let e = ((b >> 52) & 0x7ff) as u64;
                    let m = b & ((1u64 << 52) - 1);
                    let (mant, sh) = if e == 0 { (m, 0) } else { (m | (1u64 << 52), e - 1) }; // v = mant·2^(sh-1074)
                    // 1/v = 2^(1074-sh)/mant ; in units 2^-U: 2^(U+1074-sh)/mant
                    q += pow2(U + 1074 - sh) / BigInt::from(mant);
                }
                let exact = BigRational::new(BigInt::from(n as u64) << U, q);
                let tol = C * nf * EPS * rat_to_f64(&exact) + floor;
                ex[6] = Expect::Exact { exact, tol, square: false, kappa: 1.0 };
                // geometric mean: exact sum of the f64 logs
                let mut l = BigInt::zero();
                let mut a = 0.0f64;
                for &v in x {
                    let lv = v.ln();
                    l += fx(lv);
                    a += lv.abs();
                }
                let lbar = rat_to_f64(&ratio(&l, s.n, P1));
                ex[5] = Expect::Approx { reference: lbar.exp(), tol_rel: C * EPS * (1.0 + a) };
            }
        }
    }
    // ---- covariance
    if x.len() == y.len() {
        if x_nan || y_nan {
            ex[12] = Expect::Nan("an entry is NaN");
            ex[13] = Expect::Nan("an entry is NaN");
        } else {
            if n < 2 {
                ex[12] = Expect::Nan("fewer than two entries");
            }
            if x_fin && y_fin {
                let sx = sums(x);
                let sy = sums(y);
                let mut sxy = BigInt::zero();
                for i in 0..n {
                    sxy += fx(x[i]) * fx(y[i]);
                }
                let cn = BigInt::from(sx.n) * &sxy - &sx.s1 * &sy.s1; // n·C
                let (ssx, kx) = centred(&sx);
                let (ssy, ky) = centred(&sy);
                let cov_like = |div: u64| -> Expect {
                    if sx.s2.is_zero() || sy.s2.is_zero() {
                        return Expect::Exact { exact: BigRational::zero(), tol: floor, square: false, kappa: 1.0 };
                    }
                    let (kx, ky) = match (kx, ky) {
                        (Some(a), Some(b)) => (a, b),
                        _ => return Expect::Skip,
                    };
                    if cn.is_zero() {
                        return Expect::Skip;
                    }
                    let c = ratio(&cn, sx.n, P2);
                    let scale = (kx + ky) * rat_to_f64(&ssx).sqrt() * rat_to_f64(&ssy).sqrt();
                    let kappa = scale / rat_to_f64(&c).abs();
                    if !(kappa * nf * EPS <= SKIP_AT) {
                        return Expect::Skip;
                    }
                    let exact = &c / BigRational::from_integer(BigInt::from(div));
                    let tol = C * nf * EPS * scale / div as f64 + floor;
                    Expect::Exact { exact, tol, square: false, kappa }
                };
                if n >= 2 {
                    ex[12] = cov_like(sx.n - 1);
                }
                ex[13] = cov_like(sx.n);
            }
        }
    }
    ex
}

fn class_of(x: &[f64], y: &[f64], k: usize) -> &'static str {
    let all = |f: &dyn Fn(&f64) -> bool| x.iter().all(|v| f(v)) && (k < 12 || y.iter().all(|v| f(v)));
    if x.is_empty() {
        "@empty"
    } else if !all(&|v| !v.is_nan()) {
        if x.len() == 1 {
            "@NaN entry n=1"
        } else {
            "@NaN entry"
        }
    } else if !all(&|v| v.is_finite()) {
        "@inf entry"
    } else if x.len() == 1 {
        "@n=1"
    } else {
        ""
    }
}

/// compare one observed result with its expectation
fn judge(k: usize, obs: &R, e: &Expect, x: &[f64], y: &[f64], out: &mut Vec<Finding>) -> (u64, u64) {
    let name = FN[k];
    let cls = class_of(x, y, k);
    let o = match (obs, e) {
        (_, Expect::None) => return (0, 0),
        (Err(_), _) => {
            finding(out, format!("Statistics::{} panic {}", name, cls), "panicked on equal-length / single input", "panic".into(), "a value (no panic is documented here)".into());
            return (1, 0);
        }
        (Ok(o), _) => *o,
    };
    match e {
        Expect::None => (0, 0),
        Expect::Skip => (0, 1),
        Expect::Nan(why) => {
            if !o.is_nan() {
                finding(out, format!("Statistics::{} not NaN {}", name, cls), "documented NaN convention not honoured", crate::search::fmt(o), format!("NaN: {}", why));
            }
            (1, 0)
        }
        Expect::Equals(v, why) => {
            if !(o == *v) {
                let kind = if o.is_nan() { "NaN" } else { "wrong value" };
                let cls2 = if k >= 5 { "@zero entry, none negative" } else if cls.is_empty() { "@NaN-free" } else { cls };
                finding(out, format!("Statistics::{} {} {}", name, kind, cls2), "result differs from the exact value", crate::search::fmt(o), format!("{} = {}", why, crate::search::fmt(*v)));
            }
            (1, 0)
        }
        Expect::Exact { exact, tol, square, kappa } => {
            let req = |sq: bool| {
                format!(
                    "|{}{} - exact| <= 8·n·ε·κ·|exact| + 8n·2^-1074 = {:e}  (exact ≈ {:e}, n = {}, κ = {:e})",
                    name,
                    if sq { "²" } else { "" },
                    tol,
                    rat_to_f64(exact),
                    x.len(),
                    kappa
                )
            };
            if !o.is_finite() {
                finding(out, format!("Statistics::{} non-finite @finite data", name), "non-finite result on finite, well-conditioned data", crate::search::fmt(o), req(*square));
                return (1, 0);
            }
            let ro = rat_of(o);
            let v = if *square { &ro * &ro } else { ro };
            if *square && o < 0.0 {
                finding(out, format!("Statistics::{} negative", name), "a root came out negative", crate::search::fmt(o), ">= 0".into());
            }
            let err = rat_to_f64(&(v - exact).abs());
            if err > *tol {
                finding(out, format!("Statistics::{} != exact", name), "differs from the exactly evaluated definition by more than c·n·ε·κ", format!("{}, error {:e}", crate::search::fmt(o), err), req(*square));
            }
            (1, 0)
        }
        Expect::Approx { reference, tol_rel } => {
            let err = (o - reference).abs();
            if !(err <= tol_rel * reference.abs() + f64::MIN_POSITIVE) {
                finding(
                    out,
                    format!("Statistics::{} != exact", name),
                    "differs from exp(mean of ln x) by more than the stated bound",
                    format!("{}, error {:e}", crate::search::fmt(o), err),
                    format!("|{} - ref| <= 8·ε·(1+Σ|ln x|)·ref = {:e}  (ref = {:e})", name, tol_rel * reference.abs(), reference),
                );
            }
            (1, 0)
        }
    }
}

/// everything that is asserted of one (x, y) pair of equal length
pub fn check_vec(x: &[f64], y: &[f64], entry_points: bool, out: &mut Vec<Finding>) -> (u64, u64) {
    let base = eval_entry(0, x, y);
    let mut evals = 14u64;
    let mut skipped = 0u64;
    if entry_points {
        for e in 1..6 {
            let r = eval_entry(e, x, y);
            evals += 14;
            for k in 0..14 {
                if !same(&base[k], &r[k]) {
                    finding(
                        out,
                        format!("Statistics::{} entry points differ", FN[k]),
                        "the same data gives different answers through two entry points",
                        format!("{}: {}  vs  {}: {}", ENTRY[0], show(&base[k]), ENTRY[e], show(&r[k])),
                        "bit-identical results".into(),
                    );
                }
            }
        }
        for (k, r) in eval_data(x) {
            evals += 1;
            if !same(&base[k], &r) {
                finding(
                    out,
                    format!("Data::{} differs from Statistics::{}", FN[k], FN[k]),
                    "Data wrapper disagrees with the slice entry point",
                    format!("slice: {}  vs  Data: {}", show(&base[k]), show(&r)),
                    "bit-identical results".into(),
                );
            }
        }
    }
    let ex = expectations(x, y);
    for k in 0..14 {
        let (c, s) = judge(k, &base[k], &ex[k], x, y, out);
        evals += c;
        skipped += s;
    }
    (evals, skipped)
}

/// covariance / population_covariance on (x, y): panic iff the lengths differ, through every entry point
pub fn check_lengths(x: &[f64], y: &[f64], out: &mut Vec<Finding>) -> u64 {
    let differ = x.len() != y.len();
    let mut evals = 0;
    for e in 0..6 {
        let r = eval_entry(e, x, y);
        for k in 12..14 {
            evals += 1;
            let panicked = r[k].is_err();
            if panicked != differ {
                let site = if differ { format!("Statistics::{} no panic @length mismatch", FN[k]) } else { format!("Statistics::{} panic @equal lengths", FN[k]) };
                finding(
                    out,
                    site,
                    "covariance must panic iff the two containers have different lengths",
                    format!("{} via {} on lengths {} and {}", show(&r[k]), ENTRY[e], x.len(), y.len()),
                    if differ { "panic".into() } else { "a value".to_string() },
                );
            }
        }
    }
    evals
}

/// [ext] order dependence on data with infinite entries: the value class (NaN / +inf / -inf / finite)
/// of f(x) and f(sorted x) must agree
pub fn check_ext_order(x: &[f64], y: &[f64], out: &mut Vec<Finding>) -> u64 {
    let mut idx: Vec<usize> = (0..x.len()).collect();
    idx.sort_by(|&a, &b| x[a].total_cmp(&x[b]).then(a.cmp(&b)));
    let xs: Vec<f64> = idx.iter().map(|&i| x[i]).collect();
    let ys: Vec<f64> = idx.iter().map(|&i| y[i]).collect();
    let a = eval_entry(0, x, y);
    let b = eval_entry(0, &xs, &ys);
    let class = |r: &R| match r {
        Err(_) => 4,
        Ok(v) if v.is_nan() => 0,
        Ok(v) if *v == f64::INFINITY => 1,
        Ok(v) if *v == f64::NEG_INFINITY => 2,
        _ => 3,
    };
    for k in 4..14 {
        if class(&a[k]) != class(&b[k]) {
            finding(
                out,
                format!("[ext] Statistics::{} order-dependent @inf entry", FN[k]),
                "a permutation of NaN-free data with infinite entries changes NaN/inf/finite class of the result",
                format!("{} in the given order, {} in ascending order", show(&a[k]), show(&b[k])),
                "the same class of result for every order (extended domain: infinite entries)".into(),
            );
        }
    }
    20
}

// ---------------------------------------------------------------------------------------------
// cases <-> JSON
fn hexv(v: &[f64]) -> Value {
    Value::Array(v.iter().map(|x| Value::String(format!("{:016x}", x.to_bits()))).collect())
}
fn unhex(v: &Value) -> Vec<f64> {
    v.as_array().map(|a| a.iter().filter_map(|s| s.as_str().and_then(|s| u64::from_str_radix(s, 16).ok()).map(f64::from_bits)).collect()).unwrap_or_default()
}
fn approx(v: &[f64]) -> Value {
    Value::Array(v.iter().take(12).map(|x| Value::String(format!("{:e}", x))).collect())
}
fn report(cx: &mut Ctx, check: &str, x: &[f64], y: &[f64], fs: Vec<Finding>) {
    for f in fs {
        // Ctx prints only the first few cases of a site; do not serialise long vectors for the rest
        let case = if cx.sites.get(&f.site).copied().unwrap_or(0) >= 3 { Value::Null } else { json!({"check": check, "site": f.site, "n": x.len(), "x": hexv(x), "y": hexv(y), "x_head": approx(x), "y_head": approx(y)}) };
        cx.violation(&f.site, &f.what, case, f.observed, &f.required);
    }
}
fn run_check(check: &str, x: &[f64], y: &[f64]) -> Vec<Finding> {
    let mut out = vec![];
    match check {
        "vec" => {
            check_vec(x, y, true, &mut out);
        }
        "lengths" => {
            check_lengths(x, y, &mut out);
        }
        "ext_order" => {
            check_ext_order(x, y, &mut out);
        }
        _ => {}
    }
    out
}

pub fn replay(case: &Value) -> String {
    let check = case["check"].as_str().unwrap_or("vec");
    let x = unhex(&case["x"]);
    let y = unhex(&case["y"]);
    let site = case["site"].as_str().unwrap_or("");
    let fs = run_check(check, &x, &y);
    let hits: Vec<&Finding> = fs.iter().filter(|f| f.site == site).collect();
    if hits.is_empty() {
        let others: Vec<String> = fs.iter().map(|f| f.site.clone()).collect();
        return format!("observed: the statement holds on this case (site {:?} not reproduced; other sites: {:?}) / required: —", site, others);
    }
    hits.iter().map(|f| format!("observed {} / required {}", f.observed, f.required)).collect::<Vec<_>>().join(" ;; ")
}

// ---------------------------------------------------------------------------------------------
// generators
fn lattice_y(digits: &[usize]) -> Vec<f64> {
    digits.iter().enumerate().map(|(i, d)| LAT[(d * 3 + i + 1) % 7]).collect()
}

fn one(cx: &mut Ctx, x: &[f64], y: &[f64], entry_points: bool) {
    let mut out = vec![];
    let (e, s) = check_vec(x, y, entry_points, &mut out);
    cx.evals += e;
    SKIPPED.fetch_add(s, Ordering::Relaxed);
    CHECKED.fetch_add(e, Ordering::Relaxed);
    report(cx, "vec", x, y, out);
}

/// seeded random vector: offset + spread·u, |entries| within [~1e-150·tiny, 1e150]
fn random_vec(cx: &mut Ctx, n: usize, positive: bool) -> Vec<f64> {
    let mut spread = cx.r.log_range(1e-150, 1e150);
    let ratio = match cx.r.below(4) {
        0 => 0.0,
        1 => cx.r.log_range(1e-2, 1e2),
        _ => cx.r.log_range(1.0, 1e8),
    };
    if spread * ratio > 0.5e150 {
        spread = 0.5e150 / ratio;
    }
    if spread > 0.5e150 {
        spread = 0.5e150;
    }
    let sign = if cx.r.below(2) == 0 { 1.0 } else { -1.0 };
    let offset = sign * spread * ratio;
    let shape = cx.r.below(6);
    let distinct = 2 + cx.r.below(4) as usize;
    let mut v: Vec<f64> = (0..n)
        .map(|i| {
            let u = match shape {
                0 | 1 => cx.r.range(-1.0, 1.0),
                2 => (cx.r.unit() + cx.r.unit() + cx.r.unit() + cx.r.unit() - 2.0) / 2.0, // bell-shaped
                3 => (cx.r.below(distinct as u64) as f64) / (distinct as f64) * 2.0 - 1.0, // few distinct values
                4 => -1.0 + 2.0 * (i as f64 + cx.r.unit()) / n as f64,                    // increasing (trend)
                _ => {
                    // heavy tail within [-1,1]
                    let t = cx.r.unit();
                    (if cx.r.below(2) == 0 { 1.0 } else { -1.0 }) * t * t * t * t
                }
            };
            offset + spread * u
        })
        .collect();
    if positive {
        for e in v.iter_mut() {
            *e = e.abs();
            if *e == 0.0 {
                *e = spread;
            }
        }
    }
    v
}
fn random_len(cx: &mut Ctx) -> usize {
    match cx.r.below(5) {
        0 => 1 + cx.r.below(8) as usize,
        1 => 1 + cx.r.below(64) as usize,
        2 => 1 + cx.r.below(500) as usize,
        _ => 1 + cx.r.below(2000) as usize,
    }
}

fn permutations(n: usize) -> Vec<Vec<usize>> {
    fn rec(k: usize, cur: &mut Vec<usize>, used: &mut Vec<bool>, out: &mut Vec<Vec<usize>>) {
        if k == used.len() {
            out.push(cur.clone());
            return;
        }
        for i in 0..used.len() {
            if !used[i] {
                used[i] = true;
                cur.push(i);
                rec(k + 1, cur, used, out);
                cur.pop();
                used[i] = false;
            }
        }
    }
    let mut out = vec![];
    rec(0, &mut vec![], &mut vec![false; n], &mut out);
    out
}

pub fn run(cx: &mut Ctx) {
    let max_len = if cx.thorough { 5 } else { 4 };
    // (1) exhaustive lattice: every vector of length 0..=max_len over the 7 values
    for len in 0..=max_len {
        let total = 7usize.pow(len as u32);
        for code in 0..total {
            let mut digits = Vec::with_capacity(len);
            let mut c = code;
            for _ in 0..len {
                digits.push(c % 7);
                c /= 7;
            }
            let x: Vec<f64> = digits.iter().map(|&d| LAT[d]).collect();
            // three companions for the covariance: a scrambled lattice vector, x itself, x reversed
            let y = lattice_y(&digits);
            one(cx, &x, &y, true);
            if len >= 1 {
                one(cx, &x, &x, false);
                let rev: Vec<f64> = x.iter().rev().cloned().collect();
                one(cx, &x, &rev, false);
            }
            // infinite entries, no NaN: order dependence (extended domain)
            if x.iter().any(|v| v.is_infinite()) && !x.iter().any(|v| v.is_nan()) {
                let mut out = vec![];
                cx.evals += check_ext_order(&x, &y, &mut out);
                report(cx, "ext_order", &x, &y, out);
            }
        }
    }
    // (2) length conventions of the covariance: all length pairs 0..=max_len, a few lattice fillings each
    for la in 0..=max_len {
        for lb in 0..=max_len {
            for rep in 0..6 {
                let x: Vec<f64> = (0..la).map(|i| if rep == 0 { 1.0 + i as f64 } else { *cx.r.pick(&LAT) }).collect();
                let y: Vec<f64> = (0..lb).map(|i| if rep == 0 { 2.0 - i as f64 } else { *cx.r.pick(&LAT) }).collect();
                let mut out = vec![];
                cx.evals += check_lengths(&x, &y, &mut out);
                report(cx, "lengths", &x, &y, out);
            }
        }
    }
    // (3) seeded random vectors, length 1..2000
    let n_rand = if cx.thorough { 60_000 } else { 1_500 };
    for i in 0..n_rand {
        let n = random_len(cx);
        let positive = i % 3 == 0; // a third of the vectors exercise the harmonic / geometric mean numerically
        let x = random_vec(cx, n, positive);
        let y = match cx.r.below(3) {
            0 => random_vec(cx, n, false),
            1 => {
                // correlated companion a·x + noise at the scale of x's spread
                let a = cx.r.range(-2.0, 2.0);
                let mx = x.iter().cloned().fold(f64::NEG_INFINITY, f64::max);
                let mn = x.iter().cloned().fold(f64::INFINITY, f64::min);
                let sp = (mx * 0.5 - mn * 0.5).abs();
                x.iter().map(|v| a * v * 0.25 + sp * 0.25 * cx.r.range(-1.0, 1.0)).collect()
            }
            _ => x.iter().rev().cloned().collect(),
        };
        one(cx, &x, &y, i % 4 == 0);
        // length mismatch on long inputs too
        if i % 50 == 0 {
            let mut out = vec![];
            cx.evals += check_lengths(&x, &y[..n - 1], &mut out);
            report(cx, "lengths", &x, &y[..n - 1], out);
        }
        // NaN planted at the first / a middle / the last position of a long vector
        if i % 10 == 0 {
            for pos in [0, n / 2, n - 1] {
                let mut xn = x.clone();
                xn[pos] = f64::NAN;
                one(cx, &xn, &y, false);
                let mut yn = y.clone();
                yn[pos] = f64::NAN;
                one(cx, &x, &yn, false);
            }
        }
    }
    // (4) all permutations of seeded vectors of length 2..6 (same permutation applied to x and y)
    let n_perm = if cx.thorough { 400 } else { 20 };
    for i in 0..n_perm {
        let n = 2 + (i % 5);
        let x = random_vec(cx, n, i % 3 == 0);
        let y = random_vec(cx, n, false);
        for p in permutations(n) {
            let xp: Vec<f64> = p.iter().map(|&j| x[j]).collect();
            let yp: Vec<f64> = p.iter().map(|&j| y[j]).collect();
            one(cx, &xp, &yp, false);
        }
    }
    if std::env::var("VERIF_SEARCH_DEBUG").is_ok() {
        eprintln!("C13: asserted {} skipped (ill-conditioned) {}", CHECKED.load(Ordering::Relaxed), SKIPPED.load(Ordering::Relaxed));
    }
}
