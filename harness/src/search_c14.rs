//! C14 — order statistics, quantiles and ranks are correct for every ordering of the data.
//!
//! Oracle: a sorted copy (`sort_by(total_cmp)`) of the NaN-free data.
//!   order_statistic(k)  = sorted[k-1] for k in 1..=n, NaN otherwise (k = 0..=n+1 all tried; numeric equality)
//!   median              = sorted[n/2] (n odd) or the mean of sorted[n/2-1], sorted[n/2] (n even; 4ε·max|·| slack
//!                         for the way the mean is rounded), NaN on empty data
//!   quantile(tau)       = R-8: h = (n+1/3)·tau + 1/3 EXACTLY (rational arithmetic on the double tau),
//!                         x_(⌊h⌋) + (h-⌊h⌋)·(x_(⌊h⌋+1) - x_(⌊h⌋)) with 1-based order statistics, clamped to
//!                         x_(1) for ⌊h⌋ <= 0 and x_(n) for ⌊h⌋ >= n; NaN for empty data or tau outside [0,1].
//!                         Tolerance 8·ε·((n+1)·G + M), G / M = range / largest magnitude of the order statistics
//!                         x_(⌊h⌋-1..⌊h⌋+2) (the implementation rounds h, an error of a few ε·(n+1) in the
//!                         interpolation weight, possibly across an integer).  Also: min <= quantile <= max and
//!                         quantile non-decreasing along tau = 0, 1/64, …, 1 (both literal, no tolerance; a
//!                         breach no larger than the tolerance above is reported under a separate
//!                         "(rounding-level)" site).
//!   percentile(p)       = that quantile at tau = p/100 (p > 100 ⇒ NaN); lower/upper_quartile at 0.25 / 0.75;
//!                         interquartile_range = their difference
//!   ranks(tb)           = counting definition: Min 1+#{x_j < x_i}; Max #{x_j <= x_i}; Average their mean;
//!                         First 1+#{x_j < x_i}+#{j < i : x_j = x_i}   (exact equality)
//!   and after EVERY call the buffer is a permutation of the input (bitwise multiset equality).
//! Where an interpolation neighbour is infinite the numeric value is not asserted, but a NaN result on
//! NaN-free data still breaks "stays within [min,max]" (own site, tagged @inf neighbour).
//!
//! Inputs: every weak ordering of n <= 6 (quick) / n <= 8 (thorough) positions — each position gets a
//! value in 0..n, assignments whose used values form an initial segment are kept — with every call made on
//! a fresh copy (so the call sees exactly that ordering) and additionally all calls chained on one buffer;
//! seeded vectors of length up to 1e4: random, sorted, reversed, constant, few-distinct, organ-pipe,
//! sawtooth, nearly sorted, with several +inf / -inf entries.
//! All work runs on a worker thread; an item that does not finish within 60 s is reported as a hang.
use crate::search::Ctx;
use num_bigint::BigInt;
use num_rational::BigRational;
use num_traits::{One, Signed, ToPrimitive, Zero};
use serde_json::{json, Value};
use statrs::statistics::{Data, OrderStatistics, RankTieBreaker};
use std::collections::HashMap;
use std::panic::{catch_unwind, AssertUnwindSafe};
use std::sync::atomic::{AtomicUsize, Ordering};
use std::sync::{mpsc, Arc};
use std::time::Duration;

const EPS: f64 = 2.220446049250313e-16;

pub struct Finding {
    site: String,
    what: String,
    observed: String,
    required: String,
    case: Value,
}

#[derive(Clone, Debug)]
pub enum Op {
    Os(usize),
    Median,
    Q(f64),
    Pct(usize),
    Lq,
    Uq,
    Iqr,
    Ranks(u8),
}
const TB: [RankTieBreaker; 4] = [RankTieBreaker::Average, RankTieBreaker::Min, RankTieBreaker::Max, RankTieBreaker::First];
const TBN: [&str; 4] = ["Average", "Min", "Max", "First"];

impl Op {
    fn name(&self) -> String {
        match self {
            Op::Os(_) => "order_statistic".into(),
            Op::Median => "median".into(),
            Op::Q(_) => "quantile".into(),
            Op::Pct(_) => "percentile".into(),
            Op::Lq => "lower_quartile".into(),
            Op::Uq => "upper_quartile".into(),
            Op::Iqr => "interquartile_range".into(),
            Op::Ranks(t) => format!("ranks({})", TBN[*t as usize]),
        }
    }
    fn to_json(&self) -> Value {
        match self {
            Op::Os(k) => json!({"op":"order_statistic","k":k.to_string()}),
            Op::Median => json!({"op":"median"}),
            Op::Q(t) => json!({"op":"quantile","tau":format!("{:016x}", t.to_bits()),"tau_approx":format!("{:e}", t)}),
            Op::Pct(p) => json!({"op":"percentile","p":p.to_string()}),
            Op::Lq => json!({"op":"lower_quartile"}),
            Op::Uq => json!({"op":"upper_quartile"}),
            Op::Iqr => json!({"op":"interquartile_range"}),
            Op::Ranks(t) => json!({"op":"ranks","tie":TBN[*t as usize]}),
        }
    }
    fn from_json(v: &Value) -> Option<Op> {
        let num = |k: &str| v[k].as_str().and_then(|s| s.parse::<usize>().ok());
        Some(match v["op"].as_str()? {
            "order_statistic" => Op::Os(num("k")?),
            "median" => Op::Median,
            "quantile" => Op::Q(f64::from_bits(u64::from_str_radix(v["tau"].as_str()?, 16).ok()?)),
            "percentile" => Op::Pct(num("p")?),
            "lower_quartile" => Op::Lq,
            "upper_quartile" => Op::Uq,
            "interquartile_range" => Op::Iqr,
            "ranks" => Op::Ranks(TBN.iter().position(|n| Some(*n) == v["tie"].as_str())? as u8),
            _ => return None,
        })
    }
}

enum Out {
    F(f64),
    V(Vec<f64>),
    Panic,
}

fn apply(d: &mut Data<Vec<f64>>, op: &Op) -> Out {
    let r = catch_unwind(AssertUnwindSafe(|| match op {
        Op::Os(k) => Out::F(d.order_statistic(*k)),
        Op::Median => Out::F(OrderStatistics::median(d)),
        Op::Q(t) => Out::F(d.quantile(*t)),
        Op::Pct(p) => Out::F(d.percentile(*p)),
        Op::Lq => Out::F(d.lower_quartile()),
        Op::Uq => Out::F(d.upper_quartile()),
        Op::Iqr => Out::F(d.interquartile_range()),
        Op::Ranks(t) => Out::V(d.ranks(TB[*t as usize])),
    }));
    r.unwrap_or(Out::Panic)
}

// ---------------------------------------------------------------------------------------------
// R-8 plan: exact ⌊h⌋ and fractional part for (n, tau)
#[derive(Clone, Copy)]
struct Plan {
    fl: i64,
    frac: f64,
    near_int: bool,
}
#[derive(Default)]
pub struct Plans(HashMap<(usize, u64), Plan>);
impl Plans {
    fn get(&mut self, n: usize, tau: f64) -> Plan {
        *self.0.entry((n, tau.to_bits())).or_insert_with(|| {
            let t = BigRational::from_float(tau).unwrap();
            let third = BigRational::new(BigInt::one(), BigInt::from(3));
            let h = (BigRational::from_integer(BigInt::from(n as u64)) + &third) * t + &third;
            let fl = h.floor();
            let fr = &h - &fl;
            let frac = ratio_small(&fr);
            Plan { fl: fl.numer().to_i64().unwrap_or(i64::MAX), frac, near_int: frac < 1e-9 || frac > 1.0 - 1e-9 }
        })
    }
}
/// f64 of a rational in [0,1)
fn ratio_small(r: &BigRational) -> f64 {
    if r.is_zero() {
        return 0.0;
    }
    let q: BigInt = (r.numer().abs() << 80u32) / r.denom().abs();
    q.to_f64().unwrap_or(0.0) * 2f64.powi(-80)
}

enum QExp {
    Nan,
    /// (value, tolerance, has an infinite neighbour)
    Num(f64, f64),
    /// an infinite neighbour: no numeric assertion
    Loose,
}

fn quantile_expect(sorted: &[f64], tau: f64, pl: &mut Plans) -> (QExp, bool) {
    let n = sorted.len();
    if n == 0 || !(0.0 <= tau && tau <= 1.0) {
        return (QExp::Nan, false);
    }
    let p = pl.get(n, tau);
    let ni = n as i64;
    let w_lo = (p.fl - 2).clamp(0, ni - 1) as usize;
    let w_hi = (p.fl + 1).clamp(0, ni - 1) as usize;
    let (a, b) = if p.fl <= 0 {
        (sorted[0], sorted[0])
    } else if p.fl >= ni {
        (sorted[n - 1], sorted[n - 1])
    } else {
        (sorted[p.fl as usize - 1], sorted[p.fl as usize])
    };
    let window = &sorted[w_lo..=w_hi];
    let inf_near = window.iter().any(|v| v.is_infinite());
    let nf = n as f64 + 1.0;
    if inf_near {
        if p.near_int {
            return (QExp::Loose, true);
        }
        if a.is_finite() && b.is_finite() {
            let tol = 8.0 * EPS * (nf * (b - a) + a.abs().max(b.abs()));
            return (QExp::Num(a + p.frac * (b - a), tol), true);
        }
        if a == b {
            return (QExp::Num(a, 0.0), true);
        }
        return (QExp::Loose, true);
    }
    let g = window[window.len() - 1] - window[0];
    let m = window.iter().fold(0.0f64, |acc, v| acc.max(v.abs()));
    let tol = 8.0 * EPS * (nf * g + m);
    (QExp::Num(a + p.frac * (b - a), tol), false)
}

fn fmt(x: f64) -> String {
    crate::search::fmt(x)
}
fn hexv(v: &[f64]) -> Value {
    Value::Array(v.iter().map(|x| Value::String(format!("{:016x}", x.to_bits()))).collect())
}
fn unhex(v: &Value) -> Vec<f64> {
    v.as_array().map(|a| a.iter().filter_map(|s| s.as_str().and_then(|s| u64::from_str_radix(s, 16).ok()).map(f64::from_bits)).collect()).unwrap_or_default()
}
fn head(v: &[f64]) -> Value {
    Value::Array(v.iter().take(16).map(|x| Value::String(format!("{:e}", x))).collect())
}
fn nclass(n: usize) -> &'static str {
    if n == 0 {
        " @n=0"
    } else if n == 1 {
        " @n=1"
    } else if n == 2 {
        " @n=2"
    } else {
        ""
    }
}

/// judge a quantile-like scalar (quantile / percentile / quartiles) against the R-8 oracle
fn judge_quantile(fname: &str, obs: f64, sorted: &[f64], tau: f64, pl: &mut Plans, mk: &dyn Fn() -> Value, out: &mut Vec<Finding>) {
    let n = sorted.len();
    let (e, inf_near) = quantile_expect(sorted, tau, pl);
    let tag = if inf_near { " @inf neighbour" } else { "" };
    match e {
        QExp::Nan => {
            if !obs.is_nan() {
                out.push(Finding {
                    site: format!("Data::{} not NaN @{}", fname, if n == 0 { "empty" } else { "tau outside [0,1]" }),
                    what: "documented NaN convention not honoured".into(),
                    observed: fmt(obs),
                    required: "NaN (empty data or level outside the inclusive range)".into(),
                    case: mk(),
                });
            }
            return;
        }
        _ => {}
    }
    if obs.is_nan() {
        out.push(Finding {
            site: format!("Data::{} NaN @NaN-free{}", fname, tag),
            what: "NaN on NaN-free data with the level inside [0,1]".into(),
            observed: fmt(obs),
            required: format!("a value within [min,max] = [{:e}, {:e}]", sorted[0], sorted[n - 1]),
            case: mk(),
        });
        return;
    }
    let mut tol_for_range = 0.0;
    if let QExp::Num(exact, tol) = e {
        tol_for_range = tol;
        let err = (obs - exact).abs();
        if !(obs == exact || err <= tol) {
            out.push(Finding {
                site: format!("Data::{} != R-8{}{}", fname, tag, nclass(n)),
                what: "differs from the R-8 interpolation of the sorted data".into(),
                observed: format!("{}, error {:e}", fmt(obs), err),
                required: format!("{:e} ± {:e}  (n = {}, tau = {:e}, h = (n+1/3)tau+1/3)", exact, tol, n, tau),
                case: mk(),
            });
        }
    }
    if obs < sorted[0] || obs > sorted[n - 1] {
        let excess = if obs < sorted[0] { sorted[0] - obs } else { obs - sorted[n - 1] };
        let small = excess <= tol_for_range && tol_for_range > 0.0;
        out.push(Finding {
            site: format!("Data::{} outside [min,max]{}{}", fname, if small { " (rounding-level)" } else { "" }, tag),
            what: "quantile outside the range of the data".into(),
            observed: format!("{}, outside by {:e}", fmt(obs), excess),
            required: format!("{:e} <= value <= {:e}", sorted[0], sorted[n - 1]),
            case: mk(),
        });
    }
}

/// one call on `d`, compared with the oracle; returns the scalar result (for the monotonicity pass)
fn step(d: &mut Data<Vec<f64>>, orig: &[f64], sorted: &[f64], op: &Op, pl: &mut Plans, mk: &dyn Fn() -> Value, out: &mut Vec<Finding>) -> Option<f64> {
    let n = sorted.len();
    let r = apply(d, op);
    // multiset preservation
    let mut after: Vec<f64> = d.iter().cloned().collect();
    after.sort_by(|a, b| a.total_cmp(b));
    let same = after.len() == n && after.iter().zip(sorted.iter()).all(|(a, b)| a.to_bits() == b.to_bits());
    if !same {
        out.push(Finding {
            site: format!("Data::{} changes the multiset", op.name()),
            what: "the buffer after the call is not a permutation of the input".into(),
            observed: format!("sorted buffer after the call: {}", head(&after)),
            required: format!("sorted input: {}", head(sorted)),
            case: mk(),
        });
    }
    let v = match r {
        Out::Panic => {
            out.push(Finding {
                site: format!("Data::{} panic{}", op.name(), nclass(n)),
                what: "panicked on NaN-free data".into(),
                observed: "panic".into(),
                required: "a value".into(),
                case: mk(),
            });
            return None;
        }
        Out::V(rk) => {
            let t = match op {
                Op::Ranks(t) => *t as usize,
                _ => 0,
            };
            // counting definition
            let mut seen: HashMap<u64, usize> = HashMap::new();
            let mut want = Vec::with_capacity(n);
            for &x in orig {
                let lt = sorted.partition_point(|s| *s < x);
                let le = sorted.partition_point(|s| *s <= x);
                let key = if x == 0.0 { 0u64 } else { x.to_bits() };
                let c = seen.entry(key).or_insert(0);
                want.push(match t {
                    0 => (lt + 1 + le) as f64 / 2.0,
                    1 => (lt + 1) as f64,
                    2 => le as f64,
                    _ => (lt + 1 + *c) as f64,
                });
                *c += 1;
            }
            if rk.len() != n || rk.iter().zip(want.iter()).any(|(a, b)| !(a == b)) {
                let i = rk.iter().zip(want.iter()).position(|(a, b)| !(a == b));
                let infdup = orig.iter().filter(|v| **v == f64::INFINITY).count() > 1 || orig.iter().filter(|v| **v == f64::NEG_INFINITY).count() > 1;
                out.push(Finding {
                    site: format!("Data::{} != counting definition{}", op.name(), if infdup { " @repeated infinity" } else { "" }),
                    what: "ranks differ from the counting definition of the tie-breaking rule".into(),
                    observed: match i {
                        Some(i) => format!("rank[{}] = {:e} (value {:e}); ranks {}", i, rk[i], orig[i], head(&rk)),
                        None => format!("length {}", rk.len()),
                    },
                    required: match i {
                        Some(i) => format!("rank[{}] = {:e}; ranks {}", i, want[i], head(&want)),
                        None => format!("length {}", n),
                    },
                    case: mk(),
                });
            }
            return None;
        }
        Out::F(v) => v,
    };
    match op {
        Op::Os(k) => {
            if *k >= 1 && *k <= n {
                let want = sorted[*k - 1];
                if !(v == want) {
                    out.push(Finding {
                        site: format!("Data::order_statistic != k-th smallest{}", if v.is_nan() { " (NaN)" } else { "" }),
                        what: "order statistic differs from the sorted data".into(),
                        observed: format!("order_statistic({}) = {}", k, fmt(v)),
                        required: format!("sorted[{}] = {:e} (n = {})", k - 1, want, n),
                        case: mk(),
                    });
                }
            } else if !v.is_nan() {
                out.push(Finding {
                    site: format!("Data::order_statistic not NaN @k outside 1..=n{}", nclass(n)),
                    what: "order outside 1..=n must give NaN".into(),
                    observed: format!("order_statistic({}) = {}", k, fmt(v)),
                    required: format!("NaN (n = {})", n),
                    case: mk(),
                });
            }
        }
        Op::Median => {
            if n == 0 {
                if !v.is_nan() {
                    out.push(Finding { site: "Data::median not NaN @empty".into(), what: "median of empty data".into(), observed: fmt(v), required: "NaN".into(), case: mk() });
                }
            } else if n % 2 == 1 {
                let want = sorted[n / 2];
                if !(v == want) {
                    out.push(Finding { site: "Data::median != middle element @n odd".into(), what: "median differs from the middle element".into(), observed: fmt(v), required: format!("sorted[{}] = {:e} (n = {})", n / 2, want, n), case: mk() });
                }
            } else {
                let (a, b) = (sorted[n / 2 - 1], sorted[n / 2]);
                let ok = if a.is_finite() && b.is_finite() {
                    let m = a * 0.5 + b * 0.5;
                    (v - m).abs() <= 4.0 * EPS * a.abs().max(b.abs())
                } else if a == b {
                    v == a
                } else if a.is_infinite() && b.is_infinite() {
                    true // -inf, +inf: mean undefined
                } else {
                    v == if a.is_infinite() { a } else { b }
                };
                if !ok {
                    out.push(Finding {
                        site: format!("Data::median != mean of middle pair @n even{}", if a.is_finite() && b.is_finite() { "" } else { " @inf" }),
                        what: "median differs from the mean of the two middle elements".into(),
                        observed: fmt(v),
                        required: format!("({:e} + {:e})/2 (n = {})", a, b, n),
                        case: mk(),
                    });
                }
            }
        }
        Op::Q(t) => judge_quantile("quantile", v, sorted, *t, pl, mk, out),
        Op::Pct(p) => {
            if *p > 100 {
                if !v.is_nan() {
                    out.push(Finding { site: "Data::percentile not NaN @p>100".into(), what: "p outside 0..=100 must give NaN".into(), observed: fmt(v), required: "NaN".into(), case: mk() });
                }
            } else {
                judge_quantile("percentile", v, sorted, *p as f64 / 100.0, pl, mk, out)
            }
        }
        Op::Lq => judge_quantile("lower_quartile", v, sorted, 0.25, pl, mk, out),
        Op::Uq => judge_quantile("upper_quartile", v, sorted, 0.75, pl, mk, out),
        Op::Iqr => {
            if n == 0 {
                if !v.is_nan() {
                    out.push(Finding { site: "Data::interquartile_range not NaN @empty".into(), what: "IQR of empty data".into(), observed: fmt(v), required: "NaN".into(), case: mk() });
                }
            } else if let ((QExp::Num(lo, tl), _), (QExp::Num(hi, th), _)) = (quantile_expect(sorted, 0.25, pl), quantile_expect(sorted, 0.75, pl)) {
                if lo.is_finite() && hi.is_finite() {
                    let want = hi - lo;
                    let tol = tl + th + 2.0 * EPS * want.abs();
                    if !((v - want).abs() <= tol) {
                        out.push(Finding {
                            site: format!("Data::interquartile_range != Q(0.75)-Q(0.25){}", if v.is_nan() { " (NaN)" } else { "" }),
                            what: "IQR differs from the difference of the R-8 quartiles".into(),
                            observed: fmt(v),
                            required: format!("{:e} ± {:e} (n = {})", want, tol, n),
                            case: mk(),
                        });
                    }
                }
            }
        }
        Op::Ranks(_) => {}
    }
    Some(v)
}

fn grid() -> Vec<f64> {
    (0..=64).map(|k| k as f64 / 64.0).collect()
}
const BAD_TAU: [f64; 6] = [-1.0 / 64.0, 65.0 / 64.0, f64::NAN, f64::INFINITY, f64::NEG_INFINITY, -1e-300];

fn ops_for(n: usize, all_k: bool, seed: u64) -> Vec<Op> {
    let mut ops = vec![];
    if all_k || n <= 64 {
        for k in 0..=n + 1 {
            ops.push(Op::Os(k));
        }
    } else {
        let mut s = crate::rng::Sm::new(seed);
        for k in [0, 1, 2, 3, n / 2, n / 2 + 1, n - 1, n, n + 1, usize::MAX] {
            ops.push(Op::Os(k));
        }
        for _ in 0..12 {
            ops.push(Op::Os(1 + s.below(n as u64) as usize));
        }
    }
    ops.push(Op::Median);
    for t in BAD_TAU {
        ops.push(Op::Q(t));
    }
    ops.push(Op::Q(-0.0));
    if all_k {
        for p in [0usize, 1, 10, 25, 33, 50, 67, 75, 90, 99, 100, 101, 1000, usize::MAX] {
            ops.push(Op::Pct(p));
        }
    } else {
        for p in 0..=102 {
            ops.push(Op::Pct(p));
        }
        ops.push(Op::Pct(usize::MAX));
    }
    ops.push(Op::Lq);
    ops.push(Op::Uq);
    ops.push(Op::Iqr);
    for t in 0..4 {
        ops.push(Op::Ranks(t));
    }
    ops
}

/// quantile along the tau grid, every call on a fresh copy; monotonicity
fn check_grid(data: &[f64], sorted: &[f64], pl: &mut Plans, out: &mut Vec<Finding>) -> u64 {
    let mut prev: Option<(f64, f64)> = None;
    let n = data.len();
    let mut evals = 0;
    for t in grid() {
        let op = Op::Q(t);
        let mk = || json!({"check":"op","n":data.len(),"data":hexv(data),"data_head":head(data),"op":op.to_json()});
        let mut d = Data::new(data.to_vec());
        let v = step(&mut d, data, sorted, &op, pl, &mk, out);
        evals += 1;
        if let Some(v) = v {
            if v.is_nan() {
                continue;
            }
            if let Some((pt, pv)) = prev {
                if v < pv {
                    let tol = match quantile_expect(sorted, t, pl).0 {
                        QExp::Num(_, tol) => tol,
                        _ => 0.0,
                    };
                    let small = pv - v <= tol && tol > 0.0;
                    out.push(Finding {
                        site: format!("Data::quantile not monotone{}", if small { " (rounding-level)" } else { "" }),
                        what: "quantile decreases when tau increases".into(),
                        observed: format!("quantile({:e}) = {} > quantile({:e}) = {}", pt, fmt(pv), t, fmt(v)),
                        required: format!("quantile non-decreasing in tau (n = {})", n),
                        case: json!({"check":"grid","n":data.len(),"data":hexv(data),"data_head":head(data)}),
                    });
                }
            }
            prev = Some((t, v));
        }
    }
    evals
}

/// all checks on one data vector: every op on a fresh copy, the tau grid, then all ops chained on one buffer
pub fn check_data(data: &[f64], all_k: bool, chain_seed: u64) -> (Vec<Finding>, u64) {
    let mut out = vec![];
    let mut pl = Plans::default();
    let mut sorted = data.to_vec();
    sorted.sort_by(|a, b| a.total_cmp(b));
    let ops = ops_for(data.len(), all_k, chain_seed);
    let mut evals = 0u64;
    for op in &ops {
        let mk = || json!({"check":"op","n":data.len(),"data":hexv(data),"data_head":head(data),"op":op.to_json()});
        let mut d = Data::new(data.to_vec());
        step(&mut d, data, &sorted, op, &mut pl, &mk, &mut out);
        evals += 1;
    }
    evals += check_grid(data, &sorted, &mut pl, &mut out);
    // chained: one buffer, every op in a seeded order, plus a coarse tau grid
    let fresh_end = out.len();
    let mut chain: Vec<Op> = ops.clone();
    for k in 0..=16 {
        chain.push(Op::Q(k as f64 / 16.0));
    }
    let mut s = crate::rng::Sm::new(chain_seed ^ 0xc14);
    for i in (1..chain.len()).rev() {
        let j = s.below(i as u64 + 1) as usize;
        chain.swap(i, j);
    }
    let mut d = Data::new(data.to_vec());
    for (i, op) in chain.iter().enumerate() {
        let before = out.len();
        let current: Vec<f64> = d.iter().cloned().collect();
        let mk = || json!({"check":"chain","n":data.len(),"data":hexv(data),"data_head":head(data),"ops":chain[..=i].iter().map(|o| o.to_json()).collect::<Vec<_>>()});
        // ranks are relative to the current arrangement of the buffer
        step(&mut d, &current, &sorted, op, &mut pl, &mk, &mut out);
        evals += 1;
        // a failure that the fresh-copy calls on this vector did not show gets its own site
        for j in before..out.len() {
            if !out[..fresh_end].iter().any(|g| g.site == out[j].site) {
                out[j].site = format!("{} [chained]", out[j].site);
            }
        }
    }
    (out, evals)
}

// ---------------------------------------------------------------------------------------------
// guarded execution (hang detection)
enum Msg {
    Item(Vec<Finding>, u64),
    Done,
}
fn run_batch(cx: &mut Ctx, items: Vec<Vec<f64>>, all_k: bool) {
    let items = Arc::new(items);
    let mut start = 0usize;
    let timeout = Duration::from_secs(60);
    while start < items.len() {
        let cur = Arc::new(AtomicUsize::new(start));
        let (tx, rx) = mpsc::channel::<Msg>();
        {
            let items = items.clone();
            let cur = cur.clone();
            std::thread::spawn(move || {
                for i in start..items.len() {
                    cur.store(i, Ordering::SeqCst);
                    let r = catch_unwind(AssertUnwindSafe(|| check_data(&items[i], all_k, i as u64)));
                    let (fs, ev) = r.unwrap_or_else(|_| {
                        let f = Finding {
                            site: "C14 search: internal panic in the oracle".into(),
                            what: "the checking code itself panicked (not a statement about statrs)".into(),
                            observed: "panic".into(),
                            required: "—".into(),
                            case: json!({"check":"all","n":items[i].len(),"data":hexv(&items[i]),"all_k":all_k,"seed":i.to_string()}),
                        };
                        (vec![f], 0)
                    });
                    if tx.send(Msg::Item(fs, ev)).is_err() {
                        return;
                    }
                }
                let _ = tx.send(Msg::Done);
            });
        }
        loop {
            match rx.recv_timeout(timeout) {
                Ok(Msg::Item(fs, ev)) => {
                    cx.evals += ev;
                    for f in fs {
                        cx.violation(&f.site, &f.what, f.case, f.observed, &f.required);
                    }
                }
                Ok(Msg::Done) => return,
                Err(mpsc::RecvTimeoutError::Timeout) => {
                    let i = cur.load(Ordering::SeqCst);
                    let data = &items[i];
                    cx.violation(
                        "Data order statistics hang",
                        "a call did not return within 60 s on NaN-free data",
                        json!({"check":"all","n":data.len(),"data":hexv(data),"data_head":head(data),"all_k":all_k,"seed":i.to_string()}),
                        "no result after 60 s".into(),
                        "termination",
                    );
                    start = i + 1;
                    break;
                }
                Err(mpsc::RecvTimeoutError::Disconnected) => return,
            }
        }
    }
}

// ---------------------------------------------------------------------------------------------
// generators
/// every weak ordering of n positions, as vectors of rank values
fn weak_orderings(n: usize) -> Vec<Vec<f64>> {
    let mut out = vec![];
    if n == 0 {
        out.push(vec![]);
        return out;
    }
    let total = (n as u64).pow(n as u32);
    let mut digits = vec![0usize; n];
    for _ in 0..total {
        let mut mask = 0u32;
        for &d in &digits {
            mask |= 1 << d;
        }
        if mask & (mask + 1) == 0 {
            out.push(digits.iter().map(|&d| d as f64).collect());
        }
        // increment
        let mut i = 0;
        while i < n {
            digits[i] += 1;
            if digits[i] < n {
                break;
            }
            digits[i] = 0;
            i += 1;
        }
    }
    out
}

fn random_data(cx: &mut Ctx, n: usize, pattern: u64) -> Vec<f64> {
    let r = &mut cx.r;
    let wide = r.below(4) == 0;
    let val = |r: &mut crate::rng::Sm| -> f64 {
        if wide {
            let s = if r.below(2) == 0 { 1.0 } else { -1.0 };
            s * r.log_range(1e-10, 1e10)
        } else {
            r.range(-1000.0, 1000.0)
        }
    };
    let mut v: Vec<f64> = match pattern {
        0 | 1 | 2 => (0..n).map(|_| val(r)).collect(),
        3 => vec![val(r); n],
        4 => {
            let k = 2 + r.below(4) as usize;
            let vals: Vec<f64> = (0..k).map(|_| val(r)).collect();
            (0..n).map(|_| *r.pick(&vals)).collect()
        }
        5 => {
            // organ pipe
            (0..n).map(|i| (i.min(n - 1 - i)) as f64).collect()
        }
        6 => {
            let p = 2 + r.below(9) as usize;
            (0..n).map(|i| (i % p) as f64).collect()
        }
        7 => {
            // integers with many ties
            let k = 1 + r.below((n as u64 / 2).max(1)) as usize;
            (0..n).map(|_| r.below(k as u64 + 1) as f64).collect()
        }
        _ => {
            // with several +inf / -inf entries
            let mut v: Vec<f64> = (0..n).map(|_| val(r)).collect();
            let m = 1 + r.below(((n / 3).max(1)) as u64) as usize;
            for _ in 0..m {
                let i = r.below(n as u64) as usize;
                v[i] = if r.below(2) == 0 { f64::INFINITY } else { f64::NEG_INFINITY };
            }
            v
        }
    };
    match pattern {
        1 => v.sort_by(|a, b| a.total_cmp(b)),
        2 => {
            v.sort_by(|a, b| b.total_cmp(a));
        }
        _ => {}
    }
    // occasionally: sorted with a few transpositions
    if pattern == 0 && r.below(3) == 0 && n > 1 {
        v.sort_by(|a, b| a.total_cmp(b));
        for _ in 0..1 + r.below(3) {
            let i = r.below(n as u64) as usize;
            let j = r.below(n as u64) as usize;
            v.swap(i, j);
        }
    }
    v
}

pub fn run(cx: &mut Ctx) {
    let max_n = if cx.thorough { 8 } else { 6 };
    for n in 0..=max_n {
        let all = weak_orderings(n);
        for chunk in all.chunks(50_000) {
            run_batch(cx, chunk.to_vec(), true);
        }
    }
    // seeded vectors
    let (count, big) = if cx.thorough { (1500, 10_000) } else { (90, 10_000) };
    let mut items = vec![];
    for i in 0..count {
        let pattern = (i % 9) as u64;
        let n = match cx.r.below(10) {
            0..=3 => 1 + cx.r.below(24) as usize,
            4..=6 => 9 + cx.r.below(200) as usize,
            7 | 8 => 200 + cx.r.below(1800) as usize,
            _ => {
                if cx.r.below(3) == 0 {
                    big
                } else {
                    2000 + cx.r.below(8000) as usize
                }
            }
        };
        items.push(random_data(cx, n, pattern));
    }
    // every pattern once at the full length
    for pattern in 0..9 {
        items.push(random_data(cx, big, pattern));
    }
    items.sort_by_key(|v| v.len()); // shortest failing inputs are reported first
    run_batch(cx, items, false);
}

pub fn replay(case: &Value) -> String {
    let case = case.clone();
    let (tx, rx) = mpsc::channel();
    std::thread::spawn(move || {
        let _ = tx.send(replay_inner(&case));
    });
    match rx.recv_timeout(Duration::from_secs(60)) {
        Ok(s) => s,
        Err(_) => "observed no result after 60 s (hang) / required termination".into(),
    }
}
fn replay_inner(case: &Value) -> String {
    let data = unhex(&case["data"]);
    let mut sorted = data.clone();
    sorted.sort_by(|a, b| a.total_cmp(b));
    let mut pl = Plans::default();
    let mut out = vec![];
    let mk = || Value::Null;
    let mut shown = String::new();
    match case["check"].as_str().unwrap_or("") {
        "op" => {
            if let Some(op) = Op::from_json(&case["op"]) {
                let mut d = Data::new(data.clone());
                let v = step(&mut d, &data, &sorted, &op, &mut pl, &mk, &mut out);
                shown = format!("{} = {:?}", op.name(), v.map(fmt));
            }
        }
        "chain" => {
            let ops: Vec<Op> = case["ops"].as_array().map(|a| a.iter().filter_map(Op::from_json).collect()).unwrap_or_default();
            let mut d = Data::new(data.clone());
            for (i, op) in ops.iter().enumerate() {
                let current: Vec<f64> = d.iter().cloned().collect();
                let mut o2 = vec![];
                let v = step(&mut d, &current, &sorted, op, &mut pl, &mk, &mut o2);
                if i + 1 == ops.len() {
                    out = o2;
                    shown = format!("after {} chained calls, {} = {:?}", i, op.name(), v.map(fmt));
                }
            }
        }
        "grid" => {
            check_grid(&data, &sorted, &mut pl, &mut out);
        }
        _ => {
            let all_k = case["all_k"].as_bool().unwrap_or(true);
            let seed = case["seed"].as_str().and_then(|s| s.parse().ok()).unwrap_or(0);
            out = check_data(&data, all_k, seed).0;
        }
    }
    if out.is_empty() {
        return format!("observed {} — the statement holds on this case / required —", shown);
    }
    out.iter().map(|f| format!("[{}] observed {} / required {}", f.site, f.observed, f.required)).collect::<Vec<_>>().join(" ;; ")
}
