//! C15 — the state of an `Empirical` distribution depends only on the surviving multiset.
//!
//! Reference model: a multiset `BTreeMap<ordered bits, (value, count)>` (+0 and -0 are one key) with the
//! exact sums Σv and Σv² kept as big integers in units of 2^-s / 2^-2s (s chosen per alphabet so that every
//! alphabet value is an integer number of units); mean = Σv/n and the (n-1)-normalised variance
//! (n·Σv² - (Σv)²)/(n(n-1)) are exact rationals.
//!
//! After EVERY step of a history over {add(v), remove(v)}:
//!   * n >= 1: cdf(x) = #{v <= x}/n and sf(x) = #{v > x}/n exactly (the correctly rounded quotient of the two
//!     integers) at every alphabet value, between neighbouring values, below the smallest, above the largest
//!     and at ±inf; min() / max() equal the smallest / largest held value (numeric equality);
//!     mean() = Some(m), |m - exact| <= 16·N·ε·M; for n >= 2 variance() = Some(v), |v - exact| <= 16·N·ε·M²
//!     (N = number of operations so far, M = largest |v| ever inserted, ε = 2^-52; the variance carries M²
//!     because it is a squared quantity; both bounds carry an extra 16·N·2^-1074 for subnormal granularity).  Decided exactly: a fast double comparison at a quarter of the
//!     bound, otherwise rational arithmetic.
//!   * add(NaN), remove(NaN) and remove(v) for v not held leave the object `==` to what it was.
//!   * n = 0 after a removal: the object is `==` Empirical::new() and every observable (mean, variance, cdf,
//!     sf; min/max on a sample of cases) behaves as on Empirical::new().
//!   * two histories ending in the same multiset: mean and variance agree within the sum of their bounds
//!     (exhaustive part: every state against the first history that reached its multiset; random part: against
//!     `Empirical::from_iter` of the surviving values in ascending and in shuffled order).
//! variance() at n = 1 is 0/0 in the reference: no value is asserted there, only that its class
//! (None / NaN / +inf / -inf / finite) does not depend on the history (own site).  min()/max() on the empty
//! state are documented to panic ("Panics if number of samples is zero"), so only "same as Empirical::new()"
//! is asserted.
//!
//! Histories: exhaustive up to length 5 (quick) / 7 (thorough) over add/remove of {-1.5, 0, 2, 1e8, NaN}
//! (10 operations per step, 1.1e7 states in the thorough tier, every state checked); seeded random histories
//! of length up to 400 over mixed-magnitude alphabets of 2..8 values (incl. ±0, adjacent doubles) in four
//! styles (alphabets also at one common scale 1e-100..1e100): random walk, fill–drain–refill, hovering near empty, large values inserted and removed around small ones.
use crate::search::Ctx;
use num_bigint::BigInt;
use num_rational::BigRational;
use num_traits::{Signed, ToPrimitive, Zero};
use serde_json::{json, Value};
use statrs::distribution::{ContinuousCDF, Empirical};
use statrs::statistics::{Distribution, Max, Min};
use std::collections::{BTreeMap, HashMap};
use std::panic::{catch_unwind, AssertUnwindSafe};

const EPS: f64 = 2.220446049250313e-16;
const C: f64 = 16.0;

#[derive(Clone)]
pub struct Finding {
    site: String,
    what: String,
    observed: String,
    required: String,
}

fn fmt(x: f64) -> String {
    crate::search::fmt(x)
}
fn okey(x: f64) -> u64 {
    let x = if x == 0.0 { 0.0 } else { x };
    let b = x.to_bits();
    if b >> 63 == 1 {
        !b
    } else {
        b | (1 << 63)
    }
}
/// v = mant·2^exp (finite)
fn decompose(x: f64) -> (i128, i64) {
    let b = x.to_bits();
    let e = ((b >> 52) & 0x7ff) as i64;
    let m = (b & ((1u64 << 52) - 1)) as i128;
    let (mut mant, mut exp) = if e == 0 { (m, -1074) } else { (m | (1i128 << 52), e - 1075) };
    if mant == 0 {
        return (0, 0);
    }
    while mant & 1 == 0 {
        mant >>= 1;
        exp += 1;
    }
    (if b >> 63 == 1 { -mant } else { mant }, exp)
}

#[derive(Clone)]
struct Ref {
    sh: i64,
    counts: BTreeMap<u64, (f64, u64)>,
    n: u64,
    s1: BigInt,
    s2: BigInt,
    maxabs: f64,
    steps: u64,
}
impl Ref {
    fn new(alphabet: &[f64]) -> Ref {
        let mut sh = 0i64;
        for &v in alphabet {
            if v.is_finite() {
                let (_, e) = decompose(v);
                sh = sh.max(-e);
            }
        }
        Ref { sh, counts: BTreeMap::new(), n: 0, s1: BigInt::zero(), s2: BigInt::zero(), maxabs: 0.0, steps: 0 }
    }
    fn units(&self, v: f64) -> BigInt {
        let (m, e) = decompose(v);
        BigInt::from(m) << (e + self.sh) as u64
    }
    /// returns whether the multiset changed
    fn add(&mut self, v: f64) -> bool {
        self.steps += 1;
        if v.is_nan() {
            return false;
        }
        self.maxabs = self.maxabs.max(v.abs());
        let u = self.units(v);
        self.s2 += &u * &u;
        self.s1 += u;
        self.n += 1;
        self.counts.entry(okey(v)).or_insert((v, 0)).1 += 1;
        true
    }
    fn remove(&mut self, v: f64) -> bool {
        self.steps += 1;
        if v.is_nan() {
            return false;
        }
        let k = okey(v);
        match self.counts.get_mut(&k) {
            None => false,
            Some(c) => {
                c.1 -= 1;
                if c.1 == 0 {
                    self.counts.remove(&k);
                }
                let u = self.units(v);
                self.s2 -= &u * &u;
                self.s1 -= u;
                self.n -= 1;
                true
            }
        }
    }
    fn count_le(&self, x: f64) -> u64 {
        self.counts.range(..=okey(x)).map(|(_, c)| c.1).sum()
    }
    fn mean(&self) -> BigRational {
        BigRational::new(self.s1.clone(), BigInt::from(self.n) << self.sh as u64)
    }
    fn var_num(&self) -> BigInt {
        BigInt::from(self.n) * &self.s2 - &self.s1 * &self.s1
    }
    fn variance(&self) -> BigRational {
        BigRational::new(self.var_num(), BigInt::from(self.n * (self.n - 1)) << (2 * self.sh) as u64)
    }
    fn key(&self) -> Vec<(u64, u64)> {
        self.counts.iter().map(|(k, c)| (*k, c.1)).collect()
    }
    fn tol_mean(&self) -> f64 {
        C * self.steps as f64 * (EPS * self.maxabs + f64::from_bits(1))
    }
    fn tol_var(&self) -> f64 {
        C * self.steps as f64 * (EPS * self.maxabs * self.maxabs + f64::from_bits(1))
    }
}

fn rat_to_f64(r: &BigRational) -> f64 {
    if r.is_zero() {
        return 0.0;
    }
    let neg = r.is_negative();
    let n = r.numer().abs();
    let d = r.denom().abs();
    let shift: i64 = 80 - (n.bits() as i64 - d.bits() as i64);
    let q = if shift >= 0 { (n << shift as u64) / d } else { n / (d << (-shift) as u64) };
    let mut v = q.to_f64().unwrap_or(f64::INFINITY);
    let mut s = -shift;
    while s != 0 {
        let step = s.clamp(-900, 900);
        v *= 2f64.powi(step as i32);
        s -= step;
    }
    if neg {
        -v
    } else {
        v
    }
}
/// approximate f64 of num/(den·2^p) — fast when everything is small
fn quick_ratio(num: &BigInt, den: u64, p: i64) -> f64 {
    if num.bits() < 900 && p < 900 {
        num.to_f64().unwrap() / den as f64 / 2f64.powi(p as i32)
    } else {
        rat_to_f64(&BigRational::new(num.clone(), BigInt::from(den) << p as u64))
    }
}
/// exact decision |obs - exact| <= tol, with a double-precision fast path (approx carries <= 3 ulp of error,
/// which is below tol/2 whenever tol > 0 by construction of the bounds)
fn within(obs: f64, approx: f64, exact: &dyn Fn() -> BigRational, tol: f64) -> (bool, f64) {
    if !obs.is_finite() {
        return (false, f64::INFINITY);
    }
    let d = (obs - approx).abs();
    if d <= tol * 0.25 {
        return (true, d);
    }
    let err = (BigRational::from_float(obs).unwrap() - exact()).abs();
    let ok = err <= BigRational::from_float(tol).unwrap();
    (ok, rat_to_f64(&err))
}

// ---------------------------------------------------------------------------------------------
// observing the implementation
#[derive(Clone)]
struct Obs {
    cdf: Vec<f64>,
    sf: Vec<f64>,
    min: Option<f64>, // None = panic
    max: Option<f64>,
    mean: Option<f64>,
    var: Option<f64>,
}
fn observe(e: &Empirical, pts: &[f64], with_minmax: bool) -> Result<Obs, ()> {
    catch_unwind(AssertUnwindSafe(|| {
        let cdf = pts.iter().map(|&x| e.cdf(x)).collect();
        let sf = pts.iter().map(|&x| e.sf(x)).collect();
        let (min, max) = if with_minmax {
            (catch_unwind(AssertUnwindSafe(|| Min::min(e))).ok(), catch_unwind(AssertUnwindSafe(|| Max::max(e))).ok())
        } else {
            (None, None)
        };
        Obs { cdf, sf, min, max, mean: Distribution::mean(e), var: Distribution::variance(e) }
    }))
    .map_err(|_| ())
}
fn same_bits(a: f64, b: f64) -> bool {
    (a.is_nan() && b.is_nan()) || a.to_bits() == b.to_bits()
}
fn check_points(alphabet: &[f64]) -> Vec<f64> {
    let mut a: Vec<f64> = alphabet.iter().cloned().filter(|v| v.is_finite()).collect();
    a.sort_by(|x, y| x.partial_cmp(y).unwrap());
    a.dedup();
    let mut p = vec![f64::NEG_INFINITY, f64::INFINITY];
    if let (Some(lo), Some(hi)) = (a.first(), a.last()) {
        p.push(lo - (1.0 + lo.abs()));
        p.push(hi + (1.0 + hi.abs()));
    }
    for w in a.windows(2) {
        let m = w[0] * 0.5 + w[1] * 0.5;
        if m > w[0] && m < w[1] {
            p.push(m);
        }
    }
    p.extend(a.iter());
    p
}
fn var_class(v: Option<f64>) -> &'static str {
    match v {
        None => "None",
        Some(x) if x.is_nan() => "NaN",
        Some(x) if x == f64::INFINITY => "+inf",
        Some(x) if x == f64::NEG_INFINITY => "-inf",
        _ => "finite",
    }
}

/// what is asserted of the state `e` reached by a history, given the reference `r`
fn check_state(e: &Empirical, r: &Ref, pts: &[f64], minmax_on_empty: bool, out: &mut Vec<Finding>) -> Option<Obs> {
    let o = match observe(e, pts, r.n > 0 || minmax_on_empty) {
        Ok(o) => o,
        Err(_) => {
            out.push(Finding {
                site: format!("Empirical observers panic @n{}", if r.n == 0 { "=0" } else { ">0" }),
                what: "cdf/sf/mean/variance panicked".into(),
                observed: "panic".into(),
                required: "values".into(),
            });
            return None;
        }
    };
    if r.n == 0 {
        let fresh = Empirical::new().unwrap();
        if *e != fresh {
            out.push(Finding {
                site: "Empirical != Empirical::new() after the last removal".into(),
                what: "removing the last element must return to the empty state (PartialEq)".into(),
                observed: format!("{:?}", e),
                required: format!("{:?}", fresh),
            });
        }
        if let Ok(f) = observe(&fresh, pts, minmax_on_empty) {
            let cdf_same = o.cdf.iter().zip(f.cdf.iter()).all(|(a, b)| same_bits(*a, *b)) && o.sf.iter().zip(f.sf.iter()).all(|(a, b)| same_bits(*a, *b));
            let mm_same = o.min.map(f64::to_bits) == f.min.map(f64::to_bits) && o.max.map(f64::to_bits) == f.max.map(f64::to_bits);
            if !cdf_same || !mm_same || o.mean.map(f64::to_bits) != f.mean.map(f64::to_bits) || o.var.map(f64::to_bits) != f.var.map(f64::to_bits) {
                out.push(Finding {
                    site: "Empirical empty state observably differs from Empirical::new()".into(),
                    what: "after the last removal an observable differs from a new object".into(),
                    observed: format!("mean {:?} variance {:?} min {:?} max {:?} cdf {:?}", o.mean, o.var, o.min, o.max, o.cdf),
                    required: format!("mean {:?} variance {:?} min {:?} max {:?} cdf {:?} (None for min/max = panic)", f.mean, f.var, f.min, f.max, f.cdf),
                });
            }
        }
        return Some(o);
    }
    let n = r.n as f64;
    for (i, &x) in pts.iter().enumerate() {
        let le = r.count_le(x);
        let want_c = le as f64 / n;
        let want_s = (r.n - le) as f64 / n;
        if !(o.cdf[i] == want_c) {
            out.push(Finding { site: "Empirical::cdf != multiset".into(), what: "cdf differs from the count of held values <= x over n".into(), observed: format!("cdf({:e}) = {}", x, fmt(o.cdf[i])), required: format!("{}/{} = {:e}", le, r.n, want_c) });
        }
        if !(o.sf[i] == want_s) {
            out.push(Finding { site: "Empirical::sf != multiset".into(), what: "sf differs from the count of held values > x over n".into(), observed: format!("sf({:e}) = {}", x, fmt(o.sf[i])), required: format!("{}/{} = {:e}", r.n - le, r.n, want_s) });
        }
    }
    let lo = r.counts.values().next().unwrap().0;
    let hi = r.counts.values().next_back().unwrap().0;
    if !(o.min == Some(lo)) {
        out.push(Finding { site: format!("Empirical::min != multiset{}", if o.min.is_none() { " (panic)" } else { "" }), what: "min differs from the smallest held value".into(), observed: format!("{:?}", o.min), required: format!("{:e}", lo) });
    }
    if !(o.max == Some(hi)) {
        out.push(Finding { site: format!("Empirical::max != multiset{}", if o.max.is_none() { " (panic)" } else { "" }), what: "max differs from the largest held value".into(), observed: format!("{:?}", o.max), required: format!("{:e}", hi) });
    }
    match o.mean {
        None => out.push(Finding { site: "Empirical::mean None @non-empty".into(), what: "mean missing although values are held".into(), observed: "None".into(), required: "Some(mean of the multiset)".into() }),
        Some(m) => {
            let tol = r.tol_mean();
            let approx = quick_ratio(&r.s1, r.n, r.sh);
            let (ok, err) = within(m, approx, &|| r.mean(), tol);
            if !ok {
                out.push(Finding {
                    site: format!("Empirical::mean != multiset mean{}", if m.is_finite() { "" } else { " (non-finite)" }),
                    what: "mean differs from the exact mean of the held multiset by more than 16·N·ε·M".into(),
                    observed: format!("{}, error {:e}", fmt(m), err),
                    required: format!("{:e} ± {:e}  (n = {}, N = {} operations, M = {:e})", approx, tol, r.n, r.steps, r.maxabs),
                });
            }
        }
    }
    if r.n >= 2 {
        match o.var {
            None => out.push(Finding { site: "Empirical::variance None @n>=2".into(), what: "variance missing although two or more values are held".into(), observed: "None".into(), required: "Some(variance of the multiset)".into() }),
            Some(v) => {
                let tol = r.tol_var();
                let approx = quick_ratio(&r.var_num(), r.n * (r.n - 1), 2 * r.sh);
                let (ok, err) = within(v, approx, &|| r.variance(), tol);
                if !ok {
                    out.push(Finding {
                        site: format!("Empirical::variance != multiset variance{}", if !v.is_finite() { " (non-finite)" } else if v < 0.0 { " (negative)" } else { "" }),
                        what: "variance differs from the exact (n-1)-normalised variance of the held multiset by more than 16·N·ε·M²".into(),
                        observed: format!("{}, error {:e}", fmt(v), err),
                        required: format!("{:e} ± {:e}  (n = {}, N = {} operations, M = {:e})", approx, tol, r.n, r.steps, r.maxabs),
                    });
                }
            }
        }
    }
    Some(o)
}

/// two states with the same multiset: mean / variance within the sum of the bounds; variance class at n = 1
fn check_pair(n: u64, a: (&Obs, f64, f64), b: (&Obs, f64, f64), out: &mut Vec<Finding>) {
    let (oa, tma, tva) = a;
    let (ob, tmb, tvb) = b;
    if n == 0 {
        return;
    }
    if let (Some(x), Some(y)) = (oa.mean, ob.mean) {
        if !((x - y).abs() <= tma + tmb) {
            out.push(Finding { site: "Empirical::mean differs between histories with equal multiset".into(), what: "two histories ending in the same multiset give means further apart than the sum of their bounds".into(), observed: format!("{} vs {}", fmt(x), fmt(y)), required: format!("|difference| <= {:e}", tma + tmb) });
        }
    }
    if n == 1 {
        if var_class(oa.var) != var_class(ob.var) {
            out.push(Finding {
                site: "Empirical::variance @n=1 history-dependent".into(),
                what: "with one value held, variance() is of a different kind depending on the history that led there".into(),
                observed: format!("{:?} ({}) vs {:?} ({})", oa.var, var_class(oa.var), ob.var, var_class(ob.var)),
                required: "observationally equal states for equal multisets".into(),
            });
        }
        return;
    }
    if let (Some(x), Some(y)) = (oa.var, ob.var) {
        if !((x - y).abs() <= tva + tvb) {
            out.push(Finding { site: "Empirical::variance differs between histories with equal multiset".into(), what: "two histories ending in the same multiset give variances further apart than the sum of their bounds".into(), observed: format!("{} vs {}", fmt(x), fmt(y)), required: format!("|difference| <= {:e}", tva + tvb) });
        }
    }
}

// ---------------------------------------------------------------------------------------------
// histories
type OpT = (bool, f64); // (is_add, value)
fn ops_json(h: &[OpT]) -> Value {
    Value::Array(h.iter().map(|(a, v)| json!([if *a { "add" } else { "remove" }, format!("{:016x}", v.to_bits()), format!("{:e}", v)])).collect())
}
fn ops_from(v: &Value) -> Vec<OpT> {
    v.as_array()
        .map(|a| a.iter().filter_map(|o| Some((o[0].as_str()? == "add", f64::from_bits(u64::from_str_radix(o[1].as_str()?, 16).ok()?)))).collect())
        .unwrap_or_default()
}
fn hexv(v: &[f64]) -> Value {
    Value::Array(v.iter().map(|x| Value::String(format!("{:016x}", x.to_bits()))).collect())
}
fn unhex(v: &Value) -> Vec<f64> {
    v.as_array().map(|a| a.iter().filter_map(|s| s.as_str().and_then(|s| u64::from_str_radix(s, 16).ok()).map(f64::from_bits)).collect()).unwrap_or_default()
}

/// apply one operation to both the implementation and the reference; check the no-op rule
fn apply(e: &mut Empirical, r: &mut Ref, op: OpT, out: &mut Vec<Finding>) -> bool {
    let before = e.clone();
    let res = catch_unwind(AssertUnwindSafe(|| {
        if op.0 {
            e.add(op.1)
        } else {
            e.remove(op.1)
        }
    }));
    let changed = if op.0 { r.add(op.1) } else { r.remove(op.1) };
    if res.is_err() {
        out.push(Finding { site: format!("Empirical::{} panic", if op.0 { "add" } else { "remove" }), what: "add/remove panicked".into(), observed: "panic".into(), required: "no panic".into() });
        return false;
    }
    if !changed && *e != before {
        let kind = if op.1.is_nan() {
            if op.0 {
                "add(NaN)"
            } else {
                "remove(NaN)"
            }
        } else {
            "remove(absent value)"
        };
        out.push(Finding { site: format!("Empirical {} changes the state", kind), what: "an operation that must change nothing changed the object".into(), observed: format!("{:?}", e), required: format!("{:?}", before) });
    }
    true
}

/// run a whole history with every per-step check; findings are tagged with the step index
fn run_history(alphabet: &[f64], h: &[OpT], from_iter_check: Option<u64>) -> (Vec<(usize, Finding)>, u64) {
    let pts = check_points(alphabet);
    let mut e = Empirical::new().unwrap();
    let mut r = Ref::new(alphabet);
    let mut fs = vec![];
    let mut evals = 0u64;
    let mut last: Option<Obs> = None;
    for (i, &op) in h.iter().enumerate() {
        let mut out = vec![];
        if !apply(&mut e, &mut r, op, &mut out) {
            fs.extend(out.into_iter().map(|f| (i, f)));
            break;
        }
        last = check_state(&e, &r, &pts, true, &mut out);
        evals += 2 * pts.len() as u64 + 4;
        fs.extend(out.into_iter().map(|f| (i, f)));
    }
    if let (Some(seed), Some(o)) = (from_iter_check, last.as_ref()) {
        // the surviving multiset, inserted ascending and in a seeded shuffle
        let mut vals: Vec<f64> = vec![];
        for (v, c) in r.counts.values() {
            for _ in 0..*c {
                vals.push(*v);
            }
        }
        let mut sh = vals.clone();
        let mut s = crate::rng::Sm::new(seed);
        for i in (1..sh.len()).rev() {
            let j = s.below(i as u64 + 1) as usize;
            sh.swap(i, j);
        }
        for (label, order) in [("ascending", &vals), ("shuffled", &sh)] {
            let e2 = Empirical::from_iter(order.iter().cloned());
            let mut r2 = Ref::new(alphabet);
            for &v in order.iter() {
                r2.add(v);
            }
            let mut out = vec![];
            if let Some(o2) = check_state(&e2, &r2, &pts, true, &mut out) {
                let cdf_same = o.cdf.iter().zip(o2.cdf.iter()).all(|(a, b)| same_bits(*a, *b)) && o.sf.iter().zip(o2.sf.iter()).all(|(a, b)| same_bits(*a, *b));
                if !cdf_same || o.min != o2.min || o.max != o2.max {
                    out.push(Finding { site: "Empirical cdf/sf/min/max differ between histories with equal multiset".into(), what: "history vs from_iter of the surviving values".into(), observed: format!("{:?} / {:?}", o.cdf, o2.cdf), required: "equal".into() });
                }
                check_pair(r.n, (o, r.tol_mean(), r.tol_var()), (&o2, r2.tol_mean(), r2.tol_var()), &mut out);
            }
            evals += 2 * pts.len() as u64 + 4;
            for mut f in out {
                f.what = format!("{} [vs Empirical::from_iter of the surviving values, {}]", f.what, label);
                fs.push((h.len(), f));
            }
        }
    }
    (fs, evals)
}

fn report(cx: &mut Ctx, alphabet: &[f64], h: &[OpT], fs: Vec<(usize, Finding)>, seed: Option<u64>) {
    for (i, f) in fs {
        let upto = (i + 1).min(h.len());
        if cx.sites.get(&f.site).copied().unwrap_or(0) >= 3 {
            cx.violation(&f.site, &f.what, Value::Null, f.observed, &f.required);
            continue;
        }
        let case = json!({"check":"history","site":f.site,"alphabet":hexv(alphabet),"ops":ops_json(&h[..upto]),"full_length":h.len(),
            "from_iter_seed": if i >= h.len() { seed.map(|s| s.to_string()) } else { None }});
        cx.violation(&f.site, &f.what, case, f.observed, &f.required);
    }
}

// exhaustive DFS -------------------------------------------------------------------------------
/// Pass `target` = L visits every history of length exactly L (prefixes are only replayed), so that
/// failures are reported shortest-first; passes L = 1..=max together check every state once.
struct Dfs<'a> {
    cx: &'a mut Ctx,
    alphabet: &'a [f64],
    pts: Vec<f64>,
    ops: Vec<OpT>,
    target: usize,
    first: HashMap<Vec<(u64, u64)>, (Obs, f64, f64, Vec<OpT>)>,
    empties: u64,
    classes_n1: BTreeMap<&'static str, u64>,
}
impl<'a> Dfs<'a> {
    fn go(&mut self, e: &Empirical, r: &Ref, hist: &mut Vec<OpT>) {
        let leaf = hist.len() + 1 == self.target;
        for k in 0..self.ops.len() {
            let op = self.ops[k];
            let mut e2 = e.clone();
            let mut r2 = r.clone();
            hist.push(op);
            if !leaf {
                let ok = catch_unwind(AssertUnwindSafe(|| if op.0 { e2.add(op.1) } else { e2.remove(op.1) })).is_ok();
                if op.0 {
                    r2.add(op.1);
                } else {
                    r2.remove(op.1);
                }
                if ok {
                    self.go(&e2, &r2, hist);
                }
                hist.pop();
                continue;
            }
            let mut out = vec![];
            let ok = apply(&mut e2, &mut r2, op, &mut out);
            let mut pair_out: Vec<(Vec<OpT>, Finding)> = vec![];
            if ok {
                let sample = r2.n == 0 && {
                    self.empties += 1;
                    self.empties <= 500
                };
                let o = check_state(&e2, &r2, &self.pts, sample, &mut out);
                self.cx.evals += 2 * self.pts.len() as u64 + 4;
                if let Some(o) = o {
                    if r2.n == 1 {
                        *self.classes_n1.entry(var_class(o.var)).or_insert(0) += 1;
                    }
                    if r2.n >= 1 {
                        let key = r2.key();
                        match self.first.get(&key) {
                            None => {
                                self.first.insert(key, (o, r2.tol_mean(), r2.tol_var(), hist.clone()));
                            }
                            Some((o1, tm, tv, h1)) => {
                                let mut po = vec![];
                                check_pair(r2.n, (&o, r2.tol_mean(), r2.tol_var()), (o1, *tm, *tv), &mut po);
                                for f in po {
                                    pair_out.push((h1.clone(), f));
                                }
                            }
                        }
                    }
                }
            }
            for f in out {
                let case = json!({"check":"history","site":f.site,"alphabet":hexv(self.alphabet),"ops":ops_json(hist)});
                self.cx.violation(&f.site, &f.what, case, f.observed, &f.required);
            }
            for (h1, f) in pair_out {
                let case = json!({"check":"pair","site":f.site,"alphabet":hexv(self.alphabet),"ops":ops_json(hist),"ops_b":ops_json(&h1)});
                self.cx.violation(&f.site, &f.what, case, f.observed, &f.required);
            }
            hist.pop();
        }
    }
}

fn exhaustive(cx: &mut Ctx, alphabet: &[f64], max: usize) {
    let mut ops: Vec<OpT> = vec![];
    for &v in alphabet.iter().chain([f64::NAN].iter()) {
        ops.push((true, v));
        ops.push((false, v));
    }
    let mut d = Dfs { cx, alphabet, pts: check_points(alphabet), ops, target: 1, first: HashMap::new(), empties: 0, classes_n1: BTreeMap::new() };
    for target in 1..=max {
        d.target = target;
        let e = Empirical::new().unwrap();
        let r = Ref::new(alphabet);
        d.go(&e, &r, &mut vec![]);
    }
    if std::env::var("VERIF_SEARCH_DEBUG").is_ok() {
        eprintln!("C15 exhaustive len<={}: {} multisets, variance() classes at n=1: {:?}", max, d.first.len(), d.classes_n1);
    }
}

// random histories --------------------------------------------------------------------------------
fn next_up(x: f64) -> f64 {
    if x == 0.0 {
        f64::from_bits(1)
    } else if x > 0.0 {
        f64::from_bits(x.to_bits() + 1)
    } else {
        f64::from_bits(x.to_bits() - 1)
    }
}
fn random_alphabet(cx: &mut Ctx) -> Vec<f64> {
    let k = 2 + cx.r.below(7) as usize;
    let mut a: Vec<f64> = vec![];
    let style = cx.r.below(5);
    // style 4: the whole alphabet at ONE common scale far from 1 (1e-100 .. 1e100): absolute thresholds or
    // constants in the bookkeeping show up only when every magnitude ever inserted is tiny (or huge)
    let common = 10f64.powf(cx.r.range(-100.0, 100.0));
    while a.len() < k {
        let s = if cx.r.below(3) == 0 { -1.0 } else { 1.0 };
        let v = match (style, cx.r.below(10)) {
            (_, 0) => 0.0,
            (_, 1) if !a.is_empty() => next_up(*cx.r.pick(&a)),
            (_, 2) => -0.0,
            (0, _) => s * cx.r.log_range(1e-6, 1e12), // wildly mixed magnitudes
            (1, _) => s * cx.r.range(0.0, 100.0),     // one scale
            (2, _) => {
                // a few huge values among small ones
                if cx.r.below(3) == 0 {
                    s * cx.r.log_range(1e6, 1e12)
                } else {
                    s * cx.r.range(0.0, 10.0)
                }
            }
            (4, _) => s * common * (1.0 + cx.r.below(9) as f64),
            _ => (cx.r.below(41) as f64 - 20.0) * 0.25, // small dyadic lattice
        };
        if v.is_finite() && v.abs() < 1e300 {
            a.push(v);
        }
    }
    a
}
fn random_history(cx: &mut Ctx, alphabet: &[f64], len: usize) -> Vec<OpT> {
    let style = cx.r.below(4);
    let mut held: Vec<f64> = vec![];
    let mut h = vec![];
    let big = alphabet.iter().cloned().fold(0.0f64, |m, v| m.max(v.abs()));
    for i in 0..len {
        let p_add = match style {
            0 => 0.58,
            1 => {
                // fill – drain – refill
                let phase = (i * 4) / len.max(1);
                if phase % 2 == 0 {
                    0.9
                } else {
                    0.08
                }
            }
            2 => {
                if held.len() >= 2 {
                    0.15
                } else {
                    0.7
                }
            }
            _ => 0.55,
        };
        let t = cx.r.unit();
        if t < 0.04 {
            h.push((cx.r.below(2) == 0, f64::NAN));
        } else if cx.r.unit() < p_add || held.is_empty() && cx.r.below(4) != 0 {
            let v = *cx.r.pick(alphabet);
            held.push(v);
            h.push((true, v));
        } else {
            // remove: usually a held value (style 3: preferably the largest in magnitude), sometimes any alphabet value (possibly absent)
            let v = if held.is_empty() || cx.r.below(6) == 0 {
                *cx.r.pick(alphabet)
            } else if style == 3 && cx.r.below(2) == 0 {
                let mut best = held[0];
                for &x in &held {
                    if x.abs() > best.abs() {
                        best = x;
                    }
                }
                if best.abs() >= 0.5 * big {
                    best
                } else {
                    *cx.r.pick(&held)
                }
            } else {
                *cx.r.pick(&held)
            };
            if let Some(p) = held.iter().position(|x| *x == v) {
                held.swap_remove(p);
            }
            h.push((false, v));
        }
    }
    h
}

pub fn run(cx: &mut Ctx) {
    let alphabet = [-1.5, 0.0, 2.0, 1e8];
    exhaustive(cx, &alphabet, if cx.thorough { 7 } else { 5 });
    let count = if cx.thorough { 40_000 } else { 2_000 };
    for i in 0..count {
        let a = random_alphabet(cx);
        let len = match cx.r.below(4) {
            0 => 1 + cx.r.below(20) as usize,
            1 => 20 + cx.r.below(100) as usize,
            _ => 100 + cx.r.below(301) as usize,
        };
        let h = random_history(cx, &a, len);
        let seed = cx.r.next();
        let (fs, ev) = run_history(&a, &h, Some(seed));
        cx.evals += ev;
        report(cx, &a, &h, fs, Some(seed));
        let _ = i;
    }
}

pub fn replay(case: &Value) -> String {
    let alphabet = unhex(&case["alphabet"]);
    let h = ops_from(&case["ops"]);
    let site = case["site"].as_str().unwrap_or("");
    let seed = case["from_iter_seed"].as_str().and_then(|s| s.parse::<u64>().ok());
    let mut lines = vec![];
    match case["check"].as_str().unwrap_or("history") {
        "pair" => {
            let hb = ops_from(&case["ops_b"]);
            let pts = check_points(&alphabet);
            let end = |h: &[OpT]| {
                let mut e = Empirical::new().unwrap();
                let mut r = Ref::new(&alphabet);
                let mut out = vec![];
                for &op in h {
                    apply(&mut e, &mut r, op, &mut out);
                }
                let o = check_state(&e, &r, &pts, true, &mut out);
                (o, r)
            };
            let (oa, ra) = end(&h);
            let (ob, rb) = end(&hb);
            if let (Some(oa), Some(ob)) = (oa, ob) {
                let mut out = vec![];
                check_pair(ra.n, (&oa, ra.tol_mean(), ra.tol_var()), (&ob, rb.tol_mean(), rb.tol_var()), &mut out);
                for f in out {
                    lines.push(format!("[{}] observed {} / required {}", f.site, f.observed, f.required));
                }
                if lines.is_empty() {
                    lines.push(format!("observed mean {:?} / {:?}, variance {:?} / {:?} — the statement holds on this case / required —", oa.mean, ob.mean, oa.var, ob.var));
                }
            }
        }
        _ => {
            let (fs, _) = run_history(&alphabet, &h, seed);
            for (i, f) in fs {
                if f.site == site || site.is_empty() {
                    lines.push(format!("[{} @step {}] observed {} / required {}", f.site, i, f.observed, f.required));
                }
            }
            if lines.is_empty() {
                lines.push("observed: the statement holds on this history (site not reproduced) / required —".into());
            }
        }
    }
    lines.join(" ;; ")
}
