//! C16 — exact hypothesis tests return the exact null probability.
//!
//! Oracles (all in exact integer / rational arithmetic, independent of statrs):
//!  * Fisher: hypergeometric weights C(n1,k)·C(n2,n-k) as BigInt; Less = P(X<=a), Greater = P(X>=a),
//!    TwoSided = mass of the tables with weight <= w_obs (accepted: the value with relative slack 0
//!    and the value with the scipy/R relative slack 1e-7, compared exactly as integers).
//!  * Mann–Whitney exact: brute-force distribution of U over all C(n1+n2,n1) rank subsets.
//!  * KS two-sample exact: lattice-path count with |x/m - y/n| < d_obs (exact integers), P(D >= d_obs).
//!  * KS one-sample exact: Marsaglia–Tsang–Wang matrix formula evaluated in exact integers
//!    (common denominator), at the exact rational value of the statistic.
//! Tolerance: |p - exact| <= 1e-9 (absolute; p-values are <= 1 so this is the weaker reading).
use crate::search::Ctx;
use num_bigint::BigInt;
use num_rational::BigRational;
use num_traits::{One, Signed, ToPrimitive, Zero};
use serde_json::{json, Value};
use statrs::distribution::{ContinuousCDF, Exp, Normal, Uniform};
use statrs::stats_tests::ks_test::{ks_onesample, ks_twosample, KSOneSampleAlternativeMethod, KSTwoSampleAlternativeMethod};
use statrs::stats_tests::mannwhitneyu::{mannwhitneyu, MannWhitneyUMethod};
use statrs::stats_tests::{fishers_exact, Alternative, NaNPolicy};

const TOL: f64 = 1e-9;
const TIMEOUT_MS: u64 = 10_000;

// ---------------------------------------------------------------- plumbing
#[derive(Debug, Clone)]
pub enum Out<T> {
    Val(T),
    Panic,
    Hang,
}
pub fn guard<T: Send + 'static, F: FnOnce() -> T + Send + 'static>(f: F) -> Out<T> {
    let (tx, rx) = std::sync::mpsc::channel();
    std::thread::spawn(move || {
        let r = std::panic::catch_unwind(std::panic::AssertUnwindSafe(f));
        let _ = tx.send(r);
    });
    match rx.recv_timeout(std::time::Duration::from_millis(TIMEOUT_MS)) {
        Ok(Ok(v)) => Out::Val(v),
        Ok(Err(_)) => Out::Panic,
        Err(_) => Out::Hang,
    }
}
fn fx(x: f64) -> String {
    format!("{:e} (0x{:016x})", x, x.to_bits())
}
fn hexv(v: &[f64]) -> Value {
    Value::Array(v.iter().map(|x| json!(format!("{:016x}", x.to_bits()))).collect())
}
fn unhexv(v: &Value) -> Vec<f64> {
    v.as_array().map(|a| a.iter().map(|s| f64::from_bits(u64::from_str_radix(s.as_str().unwrap_or("0"), 16).unwrap_or(0))).collect()).unwrap_or_default()
}
fn alt_name(a: Alternative) -> &'static str {
    match a {
        Alternative::TwoSided => "TwoSided",
        Alternative::Less => "Less",
        Alternative::Greater => "Greater",
    }
}
fn alt_of(s: &str) -> Alternative {
    match s {
        "Less" => Alternative::Less,
        "Greater" => Alternative::Greater,
        _ => Alternative::TwoSided,
    }
}
const ALTS: [Alternative; 3] = [Alternative::Less, Alternative::Greater, Alternative::TwoSided];

/// num/den (den > 0) rounded to f64 without overflow for huge operands
fn ratio_f64(num: &BigInt, den: &BigInt) -> f64 {
    if num.is_zero() {
        return 0.0;
    }
    let shift = 80i64 + den.bits() as i64 - num.bits() as i64;
    let q = if shift >= 0 { (num << (shift as usize)) / den } else { num / (den << ((-shift) as usize)) };
    let mut v = q.to_f64().unwrap_or(f64::NAN);
    let mut s = -shift;
    while s > 0 {
        let st = s.min(1000);
        v *= 2f64.powi(st as i32);
        s -= st;
    }
    while s < 0 {
        let st = (-s).min(1000);
        v *= 2f64.powi(-(st as i32));
        s += st;
    }
    v
}
fn binom_big(n: u64, k: u64) -> BigInt {
    if k > n {
        return BigInt::zero();
    }
    let k = k.min(n - k);
    let mut r = BigInt::one();
    for i in 0..k {
        r = r * BigInt::from(n - i) / BigInt::from(i + 1);
    }
    r
}

// ---------------------------------------------------------------- Fisher
/// exact (less, greater, two-sided with slack 0, two-sided with relative slack 1e-7, [diagnostic] slack 1e-4)
pub fn fisher_oracle(t: &[u64; 4]) -> (f64, f64, f64, f64, f64) {
    let (a, b, c, d) = (t[0], t[1], t[2], t[3]);
    let n1 = a + b;
    let n2 = c + d;
    let n = a + c;
    let lo = n.saturating_sub(n2);
    let hi = n.min(n1);
    let mut w = Vec::with_capacity((hi - lo + 1) as usize);
    let mut cur = binom_big(n1, lo) * binom_big(n2, n - lo);
    w.push(cur.clone());
    let mut k = lo;
    while k < hi {
        // w(k+1) = w(k) (n1-k)(n-k) / ((k+1)(n2-n+k+1))
        cur = cur * BigInt::from(n1 - k) * BigInt::from(n - k) / (BigInt::from(k + 1) * BigInt::from(n2 + k + 1 - n));
        w.push(cur.clone());
        k += 1;
    }
    let total: BigInt = w.iter().sum();
    let io = (a - lo) as usize;
    let less: BigInt = w[..=io].iter().sum();
    let greater: BigInt = w[io..].iter().sum();
    let wo = &w[io];
    let two0: BigInt = w.iter().filter(|x| *x <= wo).sum();
    let s1 = BigInt::from(10_000_000u64);
    let s2 = BigInt::from(10_000_001u64);
    let bound = wo * &s2;
    let two7: BigInt = w.iter().filter(|x| *x * &s1 <= bound).sum();
    // diagnostic only (site classification): the value with statrs' own relative slack 1e-4
    let b4 = wo * BigInt::from(10_000u64);
    let two4: BigInt = w.iter().filter(|x| *x * BigInt::from(9_999u64) <= b4).sum();
    (ratio_f64(&less, &total), ratio_f64(&greater, &total), ratio_f64(&two0, &total), ratio_f64(&two7, &total), ratio_f64(&two4, &total))
}
fn fisher_call(t: [u64; 4], alt: Alternative) -> Out<Result<f64, String>> {
    guard(move || fishers_exact(&t, alt).map_err(|e| format!("{:?}", e)))
}
fn fisher_class(t: &[u64; 4]) -> &'static str {
    let m = *t.iter().max().unwrap();
    // coarse cause class: the normalising binomial C(N, n) of the hypergeometric pmf exceeds f64::MAX
    if binom_big(t.iter().sum(), t[0] + t[2]).bits() > 1023 {
        "C(N,a+c)>f64::MAX"
    } else if m <= 14 {
        "cells<=14"
    } else if m <= 200 {
        "cells<=200"
    } else {
        "cells<=2000"
    }
}
/// Some(site suffix, observed, required) when the statement fails for this table/alternative
fn fisher_check(t: [u64; 4], alt: Alternative) -> Option<(String, String, String, String)> {
    let (l, g, t0, t7, t4) = fisher_oracle(&t);
    let r = fisher_call(t, alt);
    let cls = fisher_class(&t);
    match r {
        Out::Val(Ok(p)) => {
            let (ok, want) = match alt {
                Alternative::Less => ((p - l).abs() <= TOL, format!("P(X<=a) = {}", fx(l))),
                Alternative::Greater => ((p - g).abs() <= TOL, format!("P(X>=a) = {}", fx(g))),
                Alternative::TwoSided => ((p - t0).abs() <= TOL || (p - t7).abs() <= TOL, format!("mass of tables with prob <= p_obs: {} (slack 0) or {} (slack 1e-7)", fx(t0), fx(t7))),
            };
            if ok {
                None // (range of p is C18's statement, not C16's)
            } else if matches!(alt, Alternative::TwoSided) && (p - t4).abs() <= TOL {
                Some((format!("fishers_exact TwoSided != exact (equals the sum with relative slack 1e-4) @{}", cls), "two-sided p-value counts tables up to 1e-4 (relative) MORE probable than the observed one; differs from the exact value by more than 1e-9".into(), fx(p), want))
            } else if matches!(alt, Alternative::TwoSided) && (p - l.min(g)).abs() <= TOL {
                Some((format!("fishers_exact TwoSided != exact (equals the near tail only, far tail dropped) @{}", cls), "two-sided p-value omits the far-tail tables that are no more probable than the observed one; differs from the exact value by more than 1e-9".into(), fx(p), want))
            } else if p.is_nan() {
                Some((format!("fishers_exact {} NaN @{}", alt_name(alt), cls), "p-value is NaN".into(), fx(p), want))
            } else {
                Some((format!("fishers_exact {} != exact @{}", alt_name(alt), cls), "p-value differs from the exact hypergeometric probability by more than 1e-9".into(), fx(p), want))
            }
        }
        Out::Val(Err(e)) => Some((format!("fishers_exact {} Err @{}", alt_name(alt), cls), "admissible table rejected".into(), format!("Err({})", e), "a p-value".into())),
        Out::Panic => Some((format!("fishers_exact {} panic @{}", alt_name(alt), cls), "panic on an admissible table".into(), "panic".into(), "a p-value".into())),
        Out::Hang => Some((format!("fishers_exact {} hang @{}", alt_name(alt), cls), "no result within 10 s".into(), "hang".into(), "a p-value".into())),
    }
}
fn fisher_sym_check(t: [u64; 4], alt: Alternative) -> Option<(String, String, String, String)> {
    // transposition keeps the alternative; swapping the two rows (the two samples) swaps Less/Greater
    let tt = [t[0], t[2], t[1], t[3]];
    let ts = [t[2], t[3], t[0], t[1]];
    let alt_s = match alt {
        Alternative::Less => Alternative::Greater,
        Alternative::Greater => Alternative::Less,
        x => x,
    };
    let p = match fisher_call(t, alt) {
        Out::Val(Ok(p)) => p,
        _ => return None, // reported by fisher_check
    };
    for (name, t2, a2) in [("transposed", tt, alt), ("rows swapped", ts, alt_s)] {
        if let Out::Val(Ok(q)) = fisher_call(t2, a2) {
            if !((p - q).abs() <= TOL) {
                // class: the normalising binomial overflows for the table or for its transpose
                let cls = if fisher_class(&t) == "C(N,a+c)>f64::MAX" || fisher_class(&tt) == "C(N,a+c)>f64::MAX" { "C(N,a+c) or C(N,a+b) > f64::MAX" } else { fisher_class(&t) };
                return Some((format!("fishers_exact {} not symmetric ({}) @{}", alt_name(alt), name, cls), format!("p-value changes under the symmetry: table {}", name), format!("p={} vs p'={} on {:?}/{}", fx(p), fx(q), t2, alt_name(a2)), "|p - p'| <= 1e-9".into()));
            }
        }
    }
    None
}
fn fisher_case(t: &[u64; 4], alt: Alternative, kind: &str) -> Value {
    json!({"t": kind, "table": t.to_vec(), "alt": alt_name(alt)})
}
fn run_fisher(cx: &mut Ctx) {
    let lim: u64 = if cx.thorough { 14 } else { 8 };
    for a in 0..=lim {
        for b in 0..=lim {
            for c in 0..=lim {
                for d in 0..=lim {
                    let t = [a, b, c, d];
                    for alt in ALTS {
                        cx.evals += 1;
                        if let Some((site, what, obs, req)) = fisher_check(t, alt) {
                            cx.violation(&site, &what, fisher_case(&t, alt, "fisher"), obs, &req);
                        }
                    }
                    // symmetry on a deterministic subsample of the exhaustive grid (and always in thorough)
                    if cx.thorough || (a + 3 * b + 5 * c + 7 * d) % 4 == 0 {
                        for alt in ALTS {
                            cx.evals += 1;
                            if let Some((site, what, obs, req)) = fisher_sym_check(t, alt) {
                                cx.violation(&site, &what, fisher_case(&t, alt, "fisher_sym"), obs, &req);
                            }
                        }
                    }
                }
            }
        }
    }
    let nrand = if cx.thorough { 2500 } else { 250 };
    for i in 0..nrand {
        let scale = [20u64, 200, 2000][i % 3];
        let mut t = [0u64; 4];
        let mode = cx.r.below(4);
        for j in 0..4 {
            t[j] = match mode {
                0 => cx.r.below(scale + 1),
                1 => (cx.r.log_range(1.0, scale as f64 + 1.0) as u64).min(scale) - if cx.r.below(8) == 0 { 1 } else { 0 },
                2 => scale - cx.r.below(scale / 10 + 1), // near-balanced large tables (many near ties)
                _ => {
                    if cx.r.below(3) == 0 {
                        cx.r.below(4)
                    } else {
                        cx.r.below(scale + 1)
                    }
                }
            };
        }
        for alt in ALTS {
            cx.evals += 1;
            if let Some((site, what, obs, req)) = fisher_check(t, alt) {
                cx.violation(&site, &what, fisher_case(&t, alt, "fisher"), obs, &req);
            }
        }
        if i % 4 == 0 {
            for alt in ALTS {
                cx.evals += 1;
                if let Some((site, what, obs, req)) = fisher_sym_check(t, alt) {
                    cx.violation(&site, &what, fisher_case(&t, alt, "fisher_sym"), obs, &req);
                }
            }
        }
    }
}

// ---------------------------------------------------------------- Mann–Whitney (exact method)
/// counts[u] = number of n1-subsets of ranks 1..n1+n2 with U = u
fn mwu_distribution(n1: usize, n2: usize) -> Vec<u64> {
    let n = n1 + n2;
    let mut counts = vec![0u64; n1 * n2 + 1];
    for mask in 0u32..(1u32 << n) {
        if mask.count_ones() as usize != n1 {
            continue;
        }
        let mut r1 = 0usize;
        for i in 0..n {
            if mask >> i & 1 == 1 {
                r1 += i + 1;
            }
        }
        counts[r1 - n1 * (n1 + 1) / 2] += 1;
    }
    counts
}
/// (u1, exact p) for the x-sample occupying the ranks in `mask`
fn mwu_oracle(counts: &[u64], u1: usize, alt: Alternative) -> f64 {
    let total: u64 = counts.iter().sum();
    let ge: u64 = counts[u1..].iter().sum();
    let le: u64 = counts[..=u1].iter().sum();
    let (num, den) = match alt {
        Alternative::Greater => (ge, total),
        Alternative::Less => (le, total),
        Alternative::TwoSided => ((2 * ge.min(le)).min(total), total),
    };
    BigRational::new(BigInt::from(num), BigInt::from(den)).to_f64().unwrap()
}
fn mwu_call(x: Vec<f64>, y: Vec<f64>, alt: Alternative) -> Out<Result<(f64, f64), String>> {
    guard(move || mannwhitneyu(&x, &y, MannWhitneyUMethod::Exact, alt).map_err(|e| format!("{:?}", e)))
}
fn mwu_check(x: &[f64], y: &[f64], alt: Alternative) -> Option<(String, String, String, String)> {
    let (n1, n2) = (x.len(), y.len());
    // U1 by the textbook pair count (tie-free data)
    let u1 = x.iter().map(|a| y.iter().filter(|b| a > b).count()).sum::<usize>();
    let counts = mwu_distribution(n1, n2);
    let want = mwu_oracle(&counts, u1, alt);
    let cls = if n1 <= n2 { "len(x)<=len(y)" } else { "len(x)>len(y)" };
    let def = match alt {
        Alternative::Greater => "P(U >= u1)",
        Alternative::Less => "P(U <= u1)",
        Alternative::TwoSided => "min(1, 2 min(P(U<=u1), P(U>=u1)))",
    };
    match mwu_call(x.to_vec(), y.to_vec(), alt) {
        Out::Val(Ok((_, p))) => {
            if (p - want).abs() <= TOL {
                None
            } else {
                Some((format!("mannwhitneyu Exact {} != permutation tail @{}", alt_name(alt), cls), "exact-method p-value differs from the brute-force permutation tail of U by more than 1e-9".into(), format!("p={} (u1={})", fx(p), u1), format!("{} = {}", def, fx(want))))
            }
        }
        Out::Val(Err(e)) => Some((format!("mannwhitneyu Exact Err @{}", cls), "tie-free samples rejected".into(), format!("Err({})", e), "a p-value".into())),
        Out::Panic => Some((format!("mannwhitneyu Exact panic @{}", cls), "panic".into(), "panic".into(), "a p-value".into())),
        Out::Hang => Some((format!("mannwhitneyu Exact hang @{}", cls), "no result within 10 s".into(), "hang".into(), "a p-value".into())),
    }
}
fn run_mwu(cx: &mut Ctx) {
    let nmax = if cx.thorough { 12 } else { 9 };
    for n in 2..=nmax {
        for mask in 1u32..((1u32 << n) - 1) {
            // ranks in `mask` go to x; values are an increasing function of the rank, order shuffled
            let off = cx.r.range(-50.0, 50.0).round();
            let sc = *cx.r.pick(&[1.0, 0.5, 3.0, 1e-3, 1e3]);
            let mut x = vec![];
            let mut y = vec![];
            for i in 0..n {
                let v = (i as f64 + 1.0) * sc + off;
                if mask >> i & 1 == 1 {
                    x.push(v)
                } else {
                    y.push(v)
                }
            }
            for v in [&mut x, &mut y] {
                for i in (1..v.len()).rev() {
                    let j = cx.r.below(i as u64 + 1) as usize;
                    v.swap(i, j);
                }
            }
            for alt in ALTS {
                cx.evals += 1;
                if let Some((site, what, obs, req)) = mwu_check(&x, &y, alt) {
                    cx.violation(&site, &what, json!({"t":"mwu","x":hexv(&x),"y":hexv(&y),"alt":alt_name(alt)}), obs, &req);
                }
            }
        }
    }
}

// ---------------------------------------------------------------- KS two-sample exact
/// exact P(D >= d_obs) for tie-free samples given as the interleaving (true = from sample 1);
/// returns (D·m·n as integer, p)
fn ks2_oracle(inter: &[bool]) -> (i64, f64) {
    let m = inter.iter().filter(|b| **b).count() as i64;
    let n = inter.len() as i64 - m;
    let (mut x, mut y, mut dmax) = (0i64, 0i64, 0i64);
    for b in inter {
        if *b {
            x += 1
        } else {
            y += 1
        }
        dmax = dmax.max((x * n - y * m).abs());
    }
    // paths (0,0)->(m,n) with |x n - y m| < dmax at every lattice point
    let (mu, nu) = (m as usize, n as usize);
    let mut a = vec![vec![BigInt::zero(); nu + 1]; mu + 1];
    for x in 0..=mu {
        for y in 0..=nu {
            if (x as i64 * n - y as i64 * m).abs() >= dmax {
                continue;
            }
            if x == 0 && y == 0 {
                a[0][0] = BigInt::one();
                continue;
            }
            let mut s = BigInt::zero();
            if x > 0 {
                s += &a[x - 1][y];
            }
            if y > 0 {
                s += &a[x][y - 1];
            }
            a[x][y] = s;
        }
    }
    let total = binom_big((m + n) as u64, m as u64);
    let inside = a[mu][nu].clone();
    (dmax, ratio_f64(&(&total - &inside), &total))
}
fn ks2_call(a: Vec<f64>, b: Vec<f64>) -> Out<Result<(f64, f64), String>> {
    guard(move || ks_twosample(a, b, KSTwoSampleAlternativeMethod::TwoSidedExact, NaNPolicy::Error).map_err(|e| format!("{:?}", e)))
}
fn ks2_report(r: &Out<Result<(f64, f64), String>>) -> String {
    match r {
        Out::Val(Ok((s, p))) => format!("D={} p={}", fx(*s), fx(*p)),
        Out::Val(Err(e)) => format!("Err({})", e),
        Out::Panic => "panic".into(),
        Out::Hang => "hang".into(),
    }
}
fn ks2_check(a: &[f64], b: &[f64], inter: &[bool]) -> Vec<(String, String, String, String)> {
    let mut v = vec![];
    let (_, want) = ks2_oracle(inter);
    let cls = if a.len() == b.len() { "m=n" } else if a.len() < b.len() { "m<n" } else { "m>n" };
    let r = ks2_call(a.to_vec(), b.to_vec());
    match &r {
        Out::Val(Ok((_, p))) => {
            if !((p - want).abs() <= TOL) {
                v.push((format!("ks_twosample TwoSidedExact != lattice-path probability @{}", cls), "exact two-sample p-value differs from the exact null probability P(D >= d_obs) by more than 1e-9".into(), ks2_report(&r), format!("p = {}", fx(want))));
            }
            let r2 = ks2_call(b.to_vec(), a.to_vec());
            match &r2 {
                Out::Val(Ok((_, q))) if (p - q).abs() <= TOL => {}
                _ => v.push((format!("ks_twosample TwoSidedExact not symmetric @{}", cls), "result changes when the two samples are swapped".into(), format!("{} vs swapped {}", ks2_report(&r), ks2_report(&r2)), "|p(a,b) - p(b,a)| <= 1e-9".into())),
            }
        }
        _ => v.push((format!("ks_twosample TwoSidedExact {} @{}", ks2_report(&r).split('(').next().unwrap_or("fail"), cls), "no p-value on admissible tie-free samples".into(), ks2_report(&r), format!("p = {}", fx(want)))),
    }
    v
}
fn ks2_ties_check(a: &[f64], b: &[f64]) -> Vec<(String, String, String, String)> {
    let mut v = vec![];
    let r = ks2_call(a.to_vec(), b.to_vec());
    let r2 = ks2_call(b.to_vec(), a.to_vec());
    match (&r, &r2) {
        (Out::Val(Ok((_, p))), Out::Val(Ok((_, q)))) => {
            if !(*p >= 0.0 && *p <= 1.0) {
                v.push(("ks_twosample TwoSidedExact p outside [0,1] @ties".to_string(), "p-value outside [0,1]".into(), ks2_report(&r), "0 <= p <= 1".into()));
            }
            if !((p - q).abs() <= TOL) {
                v.push(("ks_twosample TwoSidedExact not symmetric @ties".to_string(), "result changes when the two samples are swapped".into(), format!("{} vs swapped {}", ks2_report(&r), ks2_report(&r2)), "|p(a,b) - p(b,a)| <= 1e-9".into()));
            }
        }
        _ => v.push(("ks_twosample TwoSidedExact fails @ties".to_string(), "no p-value on admissible samples with ties".into(), format!("{} / swapped {}", ks2_report(&r), ks2_report(&r2)), "a p-value in [0,1]".into())),
    }
    v
}
fn run_ks2(cx: &mut Ctx) {
    let lim = if cx.thorough { 7 } else { 5 };
    for m in 1..=lim {
        for n in 1..=lim {
            let tot = m + n;
            for mask in 0u32..(1u32 << tot) {
                if mask.count_ones() as usize != m {
                    continue;
                }
                let inter: Vec<bool> = (0..tot).map(|i| mask >> i & 1 == 1).collect();
                // strictly increasing values with random gaps
                let mut cur = cx.r.range(-10.0, 10.0);
                let (mut a, mut b) = (vec![], vec![]);
                for f in &inter {
                    cur += cx.r.log_range(1e-3, 10.0);
                    if *f {
                        a.push(cur)
                    } else {
                        b.push(cur)
                    }
                }
                a.reverse(); // unsorted input
                cx.evals += 2;
                for (site, what, obs, req) in ks2_check(&a, &b, &inter) {
                    cx.violation(&site, &what, json!({"t":"ks2","a":hexv(&a),"b":hexv(&b)}), obs, &req);
                }
            }
        }
    }
    // inputs with ties: range and symmetry only
    let nt = if cx.thorough { 4000 } else { 400 };
    for _ in 0..nt {
        let m = 1 + cx.r.below(lim as u64 + 3) as usize;
        let n = 1 + cx.r.below(lim as u64 + 3) as usize;
        let k = 1 + cx.r.below(4);
        let a: Vec<f64> = (0..m).map(|_| cx.r.below(k + 1) as f64).collect();
        let b: Vec<f64> = (0..n).map(|_| cx.r.below(k + 1) as f64).collect();
        cx.evals += 2;
        for (site, what, obs, req) in ks2_ties_check(&a, &b) {
            cx.violation(&site, &what, json!({"t":"ks2ties","a":hexv(&a),"b":hexv(&b)}), obs, &req);
        }
    }
}

// ---------------------------------------------------------------- KS one-sample exact (Marsaglia–Tsang–Wang)
fn f64_to_rational(x: f64) -> BigRational {
    BigRational::from_float(x).expect("finite")
}
/// exact P(D_n < d) by the Marsaglia–Tsang–Wang matrix formula (integers over a common denominator)
pub fn mtw_cdf_exact(n: usize, d: &BigRational) -> BigRational {
    if !d.is_positive() {
        return BigRational::zero();
    }
    if *d >= BigRational::one() {
        return BigRational::one();
    }
    let nd = d * BigRational::from_integer(BigInt::from(n));
    let k = nd.ceil().to_integer().to_usize().unwrap();
    let m = 2 * k - 1;
    let h = BigRational::from_integer(BigInt::from(k)) - &nd; // in [0,1)
    let fact = |j: usize| -> BigInt { (1..=j).fold(BigInt::one(), |a, i| a * BigInt::from(i)) };
    let hp = |j: usize| -> BigRational { num_traits::pow(h.clone(), j) };
    let mut hm: Vec<Vec<BigRational>> = vec![vec![BigRational::zero(); m]; m];
    for i in 0..m {
        for j in 0..m {
            if i + 1 >= j {
                hm[i][j] = BigRational::new(BigInt::one(), fact(i + 1 - j));
            }
        }
    }
    for i in 0..m {
        // first column and last row: subtract h^(i+1)/(i+1)!
        let t = hp(i + 1) / BigRational::from_integer(fact(i + 1));
        hm[i][0] -= &t;
        hm[m - 1][m - 1 - i] -= &t;
    }
    let two_h_m1 = &h + &h - BigRational::one();
    if two_h_m1.is_positive() {
        hm[m - 1][0] += num_traits::pow(two_h_m1, m) / BigRational::from_integer(fact(m));
    }
    // common denominator L
    let mut l = BigInt::one();
    for row in &hm {
        for e in row {
            l = num_integer_lcm(&l, e.denom());
        }
    }
    let im: Vec<Vec<BigInt>> = hm.iter().map(|row| row.iter().map(|e| e.numer() * (&l / e.denom())).collect()).collect();
    // v = (L H)^n e_k
    let mut v = vec![BigInt::zero(); m];
    v[k - 1] = BigInt::one();
    for _ in 0..n {
        let mut w = vec![BigInt::zero(); m];
        for i in 0..m {
            let mut s = BigInt::zero();
            for j in 0..m {
                if !im[i][j].is_zero() && !v[j].is_zero() {
                    s += &im[i][j] * &v[j];
                }
            }
            w[i] = s;
        }
        v = w;
    }
    let num = &v[k - 1] * fact(n);
    let den = num_traits::pow(l, n) * num_traits::pow(BigInt::from(n), n);
    BigRational::new(num, den)
}
fn gcd_big(a: &BigInt, b: &BigInt) -> BigInt {
    let (mut a, mut b) = (a.abs(), b.abs());
    while !b.is_zero() {
        let t = &a % &b;
        a = b;
        b = t;
    }
    a
}
fn num_integer_lcm(a: &BigInt, b: &BigInt) -> BigInt {
    a / gcd_big(a, b) * b
}
/// exact two-sided statistic for sorted cdf values
fn ks1_stat_exact(cdfs: &[f64]) -> BigRational {
    let n = cdfs.len();
    let mut c: Vec<BigRational> = cdfs.iter().map(|x| f64_to_rational(*x)).collect();
    c.sort();
    let nn = BigRational::from_integer(BigInt::from(n));
    let mut d = BigRational::zero();
    for (i, f) in c.iter().enumerate() {
        let up = BigRational::from_integer(BigInt::from(i + 1)) / &nn - f;
        let dn = f - BigRational::from_integer(BigInt::from(i)) / &nn;
        if up > d {
            d = up;
        }
        if dn > d {
            d = dn;
        }
    }
    d
}
fn ks1_call(data: Vec<f64>, dist: &'static str) -> Out<Result<(f64, f64), String>> {
    guard(move || {
        let m = KSOneSampleAlternativeMethod::TwoSidedExact;
        match dist {
            "uniform" => ks_onesample(data, &Uniform::new(0.0, 1.0).unwrap(), m, NaNPolicy::Error),
            "exp" => ks_onesample(data, &Exp::new(1.0).unwrap(), m, NaNPolicy::Error),
            _ => ks_onesample(data, &Normal::new(0.0, 1.0).unwrap(), m, NaNPolicy::Error),
        }
        .map_err(|e| format!("{:?}", e))
    })
}
fn dist_cdf(dist: &str, x: f64) -> f64 {
    match dist {
        "uniform" => Uniform::new(0.0, 1.0).unwrap().cdf(x),
        "exp" => Exp::new(1.0).unwrap().cdf(x),
        _ => Normal::new(0.0, 1.0).unwrap().cdf(x),
    }
}
fn dist_static(s: &str) -> &'static str {
    match s {
        "uniform" => "uniform",
        "exp" => "exp",
        _ => "normal",
    }
}
fn ks1_check(data: &[f64], dist: &'static str) -> Option<(String, String, String, String)> {
    let n = data.len();
    let cdfs: Vec<f64> = data.iter().map(|x| dist_cdf(dist, *x)).collect();
    let d = ks1_stat_exact(&cdfs);
    let want = (BigRational::one() - mtw_cdf_exact(n, &d)).to_f64().unwrap();
    let r = ks1_call(data.to_vec(), dist);
    let cls = if n <= 4 { "n<=4" } else { "n<=12" };
    match r {
        Out::Val(Ok((s, p))) => {
            if (p - want).abs() <= TOL {
                None
            } else {
                Some((format!("ks_onesample TwoSidedExact != exact MTW @{}", cls), "exact one-sample p-value differs from the exact rational Marsaglia-Tsang-Wang value 1 - P(D_n < d) by more than 1e-9".into(), format!("D={} p={}", fx(s), fx(p)), format!("p = {} at D = {}", fx(want), fx(d.to_f64().unwrap()))))
            }
        }
        Out::Val(Err(e)) => Some((format!("ks_onesample TwoSidedExact Err @{}", cls), "tie-free sample rejected".into(), format!("Err({})", e), format!("p = {}", fx(want)))),
        Out::Panic => Some((format!("ks_onesample TwoSidedExact panic @{}", cls), "panic".into(), "panic".into(), format!("p = {}", fx(want)))),
        Out::Hang => Some((format!("ks_onesample TwoSidedExact hang @{}", cls), "no result within 10 s".into(), "hang".into(), format!("p = {}", fx(want)))),
    }
}
fn run_ks1(cx: &mut Ctx) {
    let per_n = if cx.thorough { 600 } else { 60 };
    for n in 1..=12usize {
        for i in 0..per_n {
            let dist: &'static str = ["uniform", "uniform", "exp", "normal"][i % 4];
            let mut data: Vec<f64> = vec![];
            let style = cx.r.below(4);
            while data.len() < n {
                let u = match style {
                    0 => (1 + cx.r.below(1023)) as f64 / 1024.0, // dyadic grid
                    1 => cx.r.unit().max(1e-12),
                    2 => {
                        // concentrated: large D
                        let c = cx.r.unit();
                        (c * 0.2 + if i % 8 < 4 { 0.0 } else { 0.79 }).max(1e-12)
                    }
                    _ => ((data.len() as f64 + cx.r.range(0.05, 0.95)) / n as f64).min(0.999999), // near-perfect fit: small D
                };
                let x = match dist {
                    "uniform" => u,
                    "exp" => -(1.0 - u).ln(),
                    _ => (u / (1.0 - u)).ln() * 0.6, // any real is admissible; a logit spreads them like a normal
                };
                if x.is_finite() && !data.contains(&x) {
                    data.push(x);
                }
            }
            cx.evals += 1;
            if let Some((site, what, obs, req)) = ks1_check(&data, dist) {
                cx.violation(&site, &what, json!({"t":"ks1","data":hexv(&data),"dist":dist}), obs, &req);
            }
        }
    }
}

// ---------------------------------------------------------------- entry points
pub fn run(cx: &mut Ctx) {
    run_mwu(cx);
    run_ks2(cx);
    run_ks1(cx);
    run_fisher(cx);
}

pub fn replay(case: &Value) -> String {
    let fmt4 = |r: Option<(String, String, String, String)>| match r {
        Some((site, _, obs, req)) => format!("[{}] observed {} / required {}", site, obs, req),
        None => "holds (no violation on replay)".to_string(),
    };
    let fmtv = |v: Vec<(String, String, String, String)>| {
        if v.is_empty() {
            "holds (no violation on replay)".to_string()
        } else {
            v.into_iter().map(|(site, _, obs, req)| format!("[{}] observed {} / required {}", site, obs, req)).collect::<Vec<_>>().join(" ;; ")
        }
    };
    let table = || -> [u64; 4] {
        let a: Vec<u64> = case["table"].as_array().map(|a| a.iter().map(|x| x.as_u64().unwrap_or(0)).collect()).unwrap_or_default();
        [a.get(0).copied().unwrap_or(0), a.get(1).copied().unwrap_or(0), a.get(2).copied().unwrap_or(0), a.get(3).copied().unwrap_or(0)]
    };
    let alt = alt_of(case["alt"].as_str().unwrap_or(""));
    match case["t"].as_str().unwrap_or("") {
        "fisher" => fmt4(fisher_check(table(), alt)),
        "fisher_sym" => fmt4(fisher_sym_check(table(), alt)),
        "mwu" => fmt4(mwu_check(&unhexv(&case["x"]), &unhexv(&case["y"]), alt)),
        "ks2" => {
            let (a, b) = (unhexv(&case["a"]), unhexv(&case["b"]));
            let mut all: Vec<(f64, bool)> = a.iter().map(|x| (*x, true)).chain(b.iter().map(|x| (*x, false))).collect();
            all.sort_by(|p, q| p.0.partial_cmp(&q.0).unwrap());
            let inter: Vec<bool> = all.iter().map(|p| p.1).collect();
            fmtv(ks2_check(&a, &b, &inter))
        }
        "ks2ties" => fmtv(ks2_ties_check(&unhexv(&case["a"]), &unhexv(&case["b"]))),
        "ks1" => fmt4(ks1_check(&unhexv(&case["data"]), dist_static(case["dist"].as_str().unwrap_or("")))),
        other => format!("unknown case kind {:?}", other),
    }
}
