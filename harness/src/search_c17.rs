//! C17 — test statistics and asymptotic p-values match an independent reference.
//!
//! Statistic oracle: the textbook definition evaluated in exact rational arithmetic on the exact
//! values of the f64 inputs (square roots / logs only at the very end in f64);
//! tolerance |obs - ref| <= 1e-9 * max(1, |ref|)  (1e-9 relative, relaxed to 1e-9 absolute for |ref| < 1).
//! P-value oracle: the reference distribution's tail AT THE RETURNED STATISTIC, from the small
//! special-function implementations in this file (own Lanczos ln-gamma, incomplete beta / gamma by
//! continued fraction and series, erfc by series + continued fraction, Kolmogorov by both theta
//! series) — nothing from statrs::distribution / statrs::function is used; tolerance 1e-8 absolute.
//! Exceptions, said in the site text: Hodges eq. 5.3 is a closed formula (re-typed here), and the
//! Birnbaum–Tingey sum is re-evaluated term-wise in log space in f64 (all terms are positive).
use crate::search::Ctx;
use num_bigint::BigInt;
use num_rational::BigRational;
use num_traits::{One, Signed, ToPrimitive, Zero};
use serde_json::{json, Value};
use statrs::distribution::{Exp, Normal, Uniform};
use statrs::stats_tests::chisquare::chisquare;
use statrs::stats_tests::f_oneway::f_oneway;
use statrs::stats_tests::ks_test::{ks_onesample, ks_twosample, KSOneSampleAlternativeMethod, KSTwoSampleAlternativeMethod};
use statrs::stats_tests::mannwhitneyu::{mannwhitneyu, MannWhitneyUMethod};
use statrs::stats_tests::skewtest::skewtest;
use statrs::stats_tests::ttest_onesample::ttest_onesample;
use statrs::stats_tests::{fishers_exact_with_odds_ratio, Alternative, NaNPolicy};

const STAT_TOL: f64 = 1e-9;
const P_TOL: f64 = 1e-8;
const TIMEOUT_MS: u64 = 10_000;

type Viol = (String, String, String, String); // site, what, observed, required

// ---------------------------------------------------------------- plumbing
#[derive(Debug, Clone)]
enum Out<T> {
    Val(T),
    Panic,
    Hang,
}
fn guard<T: Send + 'static, F: FnOnce() -> T + Send + 'static>(f: F) -> Out<T> {
    let (tx, rx) = std::sync::mpsc::channel();
    std::thread::spawn(move || {
        let r = std::panic::catch_unwind(std::panic::AssertUnwindSafe(f));
        let _ = tx.send(r);
    });
    match rx.recv_timeout(std::time::Duration::from_millis(TIMEOUT_MS)) {
        Ok(Ok(v)) => Out::Val(v),
        Ok(Err(_)) => Out::Panic,
        Err(_) => Out::Hang,
    }
}
type Res = Out<Result<(f64, f64), String>>;
fn show(r: &Res) -> String {
    match r {
        Out::Val(Ok((s, p))) => format!("statistic={} p={}", fx(*s), fx(*p)),
        Out::Val(Err(e)) => format!("Err({})", e),
        Out::Panic => "panic".into(),
        Out::Hang => "hang (no result within 10 s)".into(),
    }
}
fn kind(r: &Res) -> &'static str {
    match r {
        Out::Val(Ok(_)) => "ok",
        Out::Val(Err(_)) => "Err",
        Out::Panic => "panic",
        Out::Hang => "hang",
    }
}
fn fx(x: f64) -> String {
    format!("{:e} (0x{:016x})", x, x.to_bits())
}
fn hexv(v: &[f64]) -> Value {
    Value::Array(v.iter().map(|x| json!(format!("{:016x}", x.to_bits()))).collect())
}
fn unhexv(v: &Value) -> Vec<f64> {
    v.as_array().map(|a| a.iter().map(|s| f64::from_bits(u64::from_str_radix(s.as_str().unwrap_or("0"), 16).unwrap_or(0))).collect()).unwrap_or_default()
}
fn hex1(x: f64) -> Value {
    json!(format!("{:016x}", x.to_bits()))
}
fn unhex1(v: &Value) -> f64 {
    f64::from_bits(u64::from_str_radix(v.as_str().unwrap_or("0"), 16).unwrap_or(0))
}
fn alt_name(a: Alternative) -> &'static str {
    match a {
        Alternative::TwoSided => "TwoSided",
        Alternative::Less => "Less",
        Alternative::Greater => "Greater",
    }
}
fn alt_of(s: &str) -> Alternative {
    match s {
        "Less" => Alternative::Less,
        "Greater" => Alternative::Greater,
        _ => Alternative::TwoSided,
    }
}
const ALTS: [Alternative; 3] = [Alternative::Less, Alternative::Greater, Alternative::TwoSided];
fn rat(x: f64) -> BigRational {
    BigRational::from_float(x).expect("finite input")
}
fn ri(k: i64) -> BigRational {
    BigRational::from_integer(BigInt::from(k))
}
/// BigRational -> f64 that cannot overflow on huge numerators/denominators
fn rf(r: &BigRational) -> f64 {
    let (num, den) = (r.numer(), r.denom());
    if num.is_zero() {
        return 0.0;
    }
    let shift = 80i64 + den.bits() as i64 - num.bits() as i64;
    let q = if shift >= 0 { (num << (shift as usize)) / den } else { num / (den << ((-shift) as usize)) };
    let mut v = q.to_f64().unwrap_or(f64::NAN);
    let mut s = -shift;
    while s > 0 {
        let st = s.min(1000);
        v *= 2f64.powi(st as i32);
        s -= st;
    }
    while s < 0 {
        let st = (-s).min(1000);
        v *= 2f64.powi(-(st as i32));
        s += st;
    }
    v
}
fn stat_ok(obs: f64, want: f64) -> bool {
    if want.is_nan() {
        return true; // textbook value undefined: nothing demanded
    }
    if want.is_infinite() {
        return obs == want;
    }
    (obs - want).abs() <= STAT_TOL * want.abs().max(1.0)
}
fn p_ok(obs: f64, want: f64) -> bool {
    want.is_nan() || (obs - want).abs() <= P_TOL
}

// ---------------------------------------------------------------- independent special functions (f64)
/// ln Γ(x), x > 0 (Lanczos g = 7, n = 9; relative error ~1e-15)
pub fn ln_gamma(x: f64) -> f64 {
    const G: f64 = 7.0;
    const C: [f64; 9] = [
        0.999_999_999_999_809_93,
        676.520_368_121_885_1,
        -1_259.139_216_722_402_8,
        771.323_428_777_653_13,
        -176.615_029_162_140_59,
        12.507_343_278_686_905,
        -0.138_571_095_265_720_12,
        9.984_369_578_019_571_6e-6,
        1.505_632_735_149_311_6e-7,
    ];
    if x < 0.5 {
        // reflection
        return (std::f64::consts::PI / (std::f64::consts::PI * x).sin()).ln() - ln_gamma(1.0 - x);
    }
    let x = x - 1.0;
    let mut a = C[0];
    let t = x + G + 0.5;
    for (i, c) in C.iter().enumerate().skip(1) {
        a += c / (x + i as f64);
    }
    0.5 * (2.0 * std::f64::consts::PI).ln() + (x + 0.5) * t.ln() - t + a.ln()
}
/// regularized upper incomplete gamma Q(a, x)
pub fn gamma_q(a: f64, x: f64) -> f64 {
    if x <= 0.0 {
        return 1.0;
    }
    if x.is_infinite() {
        return 0.0;
    }
    let lead = (a * x.ln() - x - ln_gamma(a)).exp();
    if x < a + 1.0 {
        // series for P
        let mut term = 1.0 / a;
        let mut sum = term;
        let mut ap = a;
        for _ in 0..100_000 {
            ap += 1.0;
            term *= x / ap;
            sum += term;
            if term.abs() < sum.abs() * 1e-17 {
                break;
            }
        }
        1.0 - lead * sum
    } else {
        // modified Lentz continued fraction for Q
        let tiny = 1e-300;
        let mut b = x + 1.0 - a;
        let mut c = 1.0 / tiny;
        let mut d = 1.0 / b;
        let mut h = d;
        for i in 1..100_000 {
            let an = -(i as f64) * (i as f64 - a);
            b += 2.0;
            d = an * d + b;
            if d.abs() < tiny {
                d = tiny;
            }
            c = b + an / c;
            if c.abs() < tiny {
                c = tiny;
            }
            d = 1.0 / d;
            let del = d * c;
            h *= del;
            if (del - 1.0).abs() < 1e-16 {
                break;
            }
        }
        lead * h
    }
}
fn beta_cf(a: f64, b: f64, x: f64) -> f64 {
    let tiny = 1e-300;
    let (qab, qap, qam) = (a + b, a + 1.0, a - 1.0);
    let mut c = 1.0;
    let mut d = 1.0 - qab * x / qap;
    if d.abs() < tiny {
        d = tiny;
    }
    d = 1.0 / d;
    let mut h = d;
    for m in 1..200_000 {
        let m = m as f64;
        let m2 = 2.0 * m;
        let aa = m * (b - m) * x / ((qam + m2) * (a + m2));
        d = 1.0 + aa * d;
        if d.abs() < tiny {
            d = tiny;
        }
        c = 1.0 + aa / c;
        if c.abs() < tiny {
            c = tiny;
        }
        d = 1.0 / d;
        h *= d * c;
        let aa = -(a + m) * (qab + m) * x / ((a + m2) * (qap + m2));
        d = 1.0 + aa * d;
        if d.abs() < tiny {
            d = tiny;
        }
        c = 1.0 + aa / c;
        if c.abs() < tiny {
            c = tiny;
        }
        d = 1.0 / d;
        let del = d * c;
        h *= del;
        if (del - 1.0).abs() < 1e-16 {
            break;
        }
    }
    h
}
/// regularized incomplete beta I_x(a, b); `x1` must be 1 - x computed by the caller without cancellation
pub fn beta_i(a: f64, b: f64, x: f64, x1: f64) -> f64 {
    if x <= 0.0 {
        return 0.0;
    }
    if x1 <= 0.0 {
        return 1.0;
    }
    let lead = (ln_gamma(a + b) - ln_gamma(a) - ln_gamma(b) + a * x.ln() + b * x1.ln()).exp();
    if x < (a + 1.0) / (a + b + 2.0) {
        lead * beta_cf(a, b, x) / a
    } else {
        1.0 - lead * beta_cf(b, a, x1) / b
    }
}
/// complementary error function
pub fn erfc(x: f64) -> f64 {
    if x.is_nan() {
        return f64::NAN;
    }
    if x < 0.0 {
        return 2.0 - erfc(-x);
    }
    if x < 2.0 {
        // Maclaurin series of erf
        let mut term = x;
        let mut sum = x;
        let x2 = x * x;
        for n in 1..200 {
            term *= -x2 / n as f64;
            let t = term / (2 * n + 1) as f64;
            sum += t;
            if t.abs() < 1e-18 {
                break;
            }
        }
        1.0 - 2.0 / std::f64::consts::PI.sqrt() * sum
    } else if x > 40.0 {
        0.0
    } else {
        // erfc(x) = exp(-x^2)/sqrt(pi) * 1/(x + (1/2)/(x + 1/(x + (3/2)/(x + ...)))), evaluated bottom-up
        let mut f = x;
        for k in (1..=400).rev() {
            f = x + (k as f64 / 2.0) / f;
        }
        (-x * x).exp() / std::f64::consts::PI.sqrt() / f
    }
}
/// P(Z > z), standard normal
pub fn norm_sf(z: f64) -> f64 {
    if z == f64::INFINITY {
        return 0.0;
    }
    if z == f64::NEG_INFINITY {
        return 1.0;
    }
    0.5 * erfc(z / std::f64::consts::SQRT_2)
}
/// P(T > t), Student t with df degrees of freedom
pub fn t_sf(t: f64, df: f64) -> f64 {
    if t.is_nan() {
        return f64::NAN;
    }
    if t.is_infinite() {
        return if t > 0.0 { 0.0 } else { 1.0 };
    }
    let t2 = t * t;
    let half = 0.5 * beta_i(df / 2.0, 0.5, df / (df + t2), t2 / (df + t2));
    if t >= 0.0 {
        half
    } else {
        1.0 - half
    }
}
/// P(F > f), Fisher–Snedecor (d1, d2)
pub fn f_sf(f: f64, d1: f64, d2: f64) -> f64 {
    if f.is_nan() {
        return f64::NAN;
    }
    if f <= 0.0 {
        return 1.0;
    }
    if f.is_infinite() {
        return 0.0;
    }
    beta_i(d2 / 2.0, d1 / 2.0, d2 / (d2 + d1 * f), d1 * f / (d2 + d1 * f))
}
/// P(X > x), chi-square with k degrees of freedom
pub fn chi2_sf(x: f64, k: f64) -> f64 {
    if x.is_nan() {
        return f64::NAN;
    }
    gamma_q(k / 2.0, x / 2.0)
}
/// Kolmogorov survival function Q(x) = 2 sum_{k>=1} (-1)^(k-1) exp(-2 k^2 x^2)
pub fn kolmogorov_sf(x: f64) -> f64 {
    if x.is_nan() {
        return f64::NAN;
    }
    if x <= 0.0 {
        return 1.0;
    }
    if x < 1.0 {
        // Jacobi-theta dual: K(x) = sqrt(2 pi)/x sum_{k>=1} exp(-(2k-1)^2 pi^2 / (8 x^2))
        let mut s = 0.0;
        for k in 1..=50 {
            let q = (2 * k - 1) as f64;
            let t = (-q * q * std::f64::consts::PI.powi(2) / (8.0 * x * x)).exp();
            s += t;
            if t < 1e-300 {
                break;
            }
        }
        1.0 - (2.0 * std::f64::consts::PI).sqrt() / x * s
    } else {
        let mut s = 0.0;
        for k in 1..=50 {
            let kf = k as f64;
            let t = (-2.0 * kf * kf * x * x).exp();
            s += if k % 2 == 1 { t } else { -t };
            if t < 1e-300 {
                break;
            }
        }
        2.0 * s
    }
}
/// Birnbaum–Tingey one-sided exact tail P(D_n^+ >= d) = d sum_{j=0}^{floor(n(1-d))} C(n,j) (d + j/n)^(j-1) (1 - d - j/n)^(n-j)
/// (term-wise in log space; all terms are >= 0)
pub fn birnbaum_tingey_sf(d: f64, n: usize) -> f64 {
    if d.is_nan() {
        return f64::NAN;
    }
    if d <= 0.0 {
        return 1.0;
    }
    if d >= 1.0 {
        return 0.0;
    }
    let nf = n as f64;
    // floor(n(1-d)) in exact arithmetic
    let jmax = (ri(n as i64) * (BigRational::one() - rat(d))).floor().to_integer().to_usize().unwrap();
    let mut sum = 0.0;
    let lnf = |k: usize| ln_gamma(k as f64 + 1.0);
    for j in 0..=jmax.min(n) {
        let a = d + j as f64 / nf;
        let b = 1.0 - d - j as f64 / nf;
        let lb = if n == j {
            0.0
        } else if b <= 0.0 {
            continue;
        } else {
            (n - j) as f64 * b.ln()
        };
        let lt = lnf(n) - lnf(j) - lnf(n - j) + (j as f64 - 1.0) * a.ln() + lb;
        sum += lt.exp();
    }
    (d * sum).min(1.0)
}
/// Hodges (1957) eq. 5.3, m = larger and n = smaller sample size (closed formula, re-typed)
pub fn hodges53(d: f64, m: f64, n: f64) -> f64 {
    let z = d * (m * n / (m + n)).sqrt();
    (-2.0 * z * z - 2.0 * z * (m + 2.0 * n) / (3.0 * (m * n * (m + n)).sqrt())).exp()
}

// ---------------------------------------------------------------- exact textbook statistics
fn mean_ss(a: &[f64]) -> (BigRational, BigRational) {
    let n = ri(a.len() as i64);
    let r: Vec<BigRational> = a.iter().map(|x| rat(*x)).collect();
    let mean = r.iter().fold(BigRational::zero(), |s, x| s + x) / &n;
    let ss = r.iter().fold(BigRational::zero(), |s, x| {
        let d = x - &mean;
        s + &d * &d
    });
    (mean, ss)
}
fn signed_sqrt(r: &BigRational, sign_of: &BigRational) -> f64 {
    let v = rf(r).sqrt();
    if sign_of.is_negative() {
        -v
    } else {
        v
    }
}
/// t = (mean - mu) / sqrt(s^2 / n); NaN when s = 0 (undefined)
pub fn t_exact(a: &[f64], mu: f64) -> f64 {
    let n = a.len() as i64;
    let (mean, ss) = mean_ss(a);
    if ss.is_zero() {
        return f64::NAN;
    }
    let num = mean - rat(mu);
    let t2 = &num * &num * ri(n) * ri(n - 1) / ss;
    signed_sqrt(&t2, &num)
}
/// F = (SSB/(k-1)) / (SSW/(N-k)); NaN when SSW = 0
pub fn f_exact(groups: &[Vec<f64>]) -> f64 {
    let k = groups.len() as i64;
    let nn: i64 = groups.iter().map(|g| g.len() as i64).sum();
    let all: Vec<f64> = groups.iter().flatten().copied().collect();
    let (grand, _) = mean_ss(&all);
    let mut ssb = BigRational::zero();
    let mut ssw = BigRational::zero();
    for g in groups {
        let (m, ss) = mean_ss(g);
        let d = &m - &grand;
        ssb += ri(g.len() as i64) * &d * &d;
        ssw += ss;
    }
    if ssw.is_zero() {
        return f64::NAN;
    }
    rf(&(ssb / ri(k - 1) / (ssw / ri(nn - k))))
}
/// sum (o - e)^2 / e; NaN when some e = 0
pub fn chi2_exact(obs: &[usize], exp: Option<&[f64]>) -> f64 {
    let n = obs.len() as i64;
    let total: i64 = obs.iter().map(|x| *x as i64).sum();
    let mut s = BigRational::zero();
    for (i, o) in obs.iter().enumerate() {
        let e = match exp {
            Some(e) => rat(e[i]),
            None => ri(total) / ri(n),
        };
        if e.is_zero() {
            return f64::NAN;
        }
        let d = ri(*o as i64) - &e;
        s += &d * &d / e;
    }
    rf(&s)
}
/// D'Agostino (1970) skewness z-score; NaN when the variance is 0
pub fn skew_z_exact(a: &[f64]) -> f64 {
    let nf = a.len() as f64;
    let n = ri(a.len() as i64);
    let r: Vec<BigRational> = a.iter().map(|x| rat(*x)).collect();
    let mean = r.iter().fold(BigRational::zero(), |s, x| s + x) / &n;
    let (mut m2, mut m3) = (BigRational::zero(), BigRational::zero());
    for x in &r {
        let d = x - &mean;
        let d2 = &d * &d;
        m3 += &d2 * &d;
        m2 += d2;
    }
    m2 = m2 / &n;
    m3 = m3 / &n;
    if m2.is_zero() {
        return f64::NAN;
    }
    let b1sq = &m3 * &m3 / (&m2 * &m2 * &m2);
    let root_b1 = signed_sqrt(&b1sq, &m3);
    let y = root_b1 * ((nf + 1.0) * (nf + 3.0) / (6.0 * (nf - 2.0))).sqrt();
    let beta2 = 3.0 * (nf * nf + 27.0 * nf - 70.0) * (nf + 1.0) * (nf + 3.0) / ((nf - 2.0) * (nf + 5.0) * (nf + 7.0) * (nf + 9.0));
    let w2 = -1.0 + (2.0 * (beta2 - 1.0)).sqrt();
    let delta = 1.0 / (0.5 * w2.ln()).sqrt();
    let alpha = (2.0 / (w2 - 1.0)).sqrt();
    let q = y / alpha;
    // Z = delta * asinh(Y / alpha)
    let asinh = if q >= 0.0 { (q + (q * q + 1.0).sqrt()).ln() } else { -((-q) + (q * q + 1.0).sqrt()).ln() };
    delta * asinh
}
/// (2*U1 as integer, tie term sum(t^3 - t)) with U1 = #{x_i > y_j} + #{x_i = y_j}/2
pub fn mwu_exact(x: &[f64], y: &[f64]) -> (i64, i64) {
    let mut u2x = 0i64;
    for a in x {
        for b in y {
            if a > b {
                u2x += 2
            } else if a == b {
                u2x += 1
            }
        }
    }
    let mut all: Vec<f64> = x.iter().chain(y.iter()).copied().collect();
    all.sort_by(|a, b| a.partial_cmp(b).unwrap());
    let mut tie = 0i64;
    let mut i = 0;
    while i < all.len() {
        let mut j = i;
        while j < all.len() && all[j] == all[i] {
            j += 1;
        }
        let t = (j - i) as i64;
        tie += t * t * t - t;
        i = j;
    }
    (u2x, tie)
}
/// normal-approximation p-value at statistic u1 (scipy convention); NaN when sigma = 0
pub fn mwu_asym_p(u1: f64, n1: usize, n2: usize, tie: i64, continuity: bool, alt: Alternative) -> f64 {
    let (a, b) = (n1 as i64, n2 as i64);
    let n = a + b;
    let var = ri(a * b) / ri(12) * (ri(n + 1) - ri(tie) / ri(n * (n - 1)));
    if !var.is_positive() {
        return f64::NAN;
    }
    let sigma = rf(&var).sqrt();
    let mu = (a * b) as f64 / 2.0;
    let u2 = (a * b) as f64 - u1;
    let (u, f) = match alt {
        Alternative::Greater => (u1, 1.0),
        Alternative::Less => (u2, 1.0),
        Alternative::TwoSided => (u1.max(u2), 2.0),
    };
    let z = (u - mu - if continuity { 0.5 } else { 0.0 }) / sigma;
    (f * norm_sf(z)).min(1.0).max(0.0)
}
/// exact (D+, D-) for a one-sample test given the cdf values of the data: D+ = sup(F_n - F), D- = sup(F - F_n)
pub fn ks1_exact(cdfs: &[f64]) -> (f64, f64) {
    let n = cdfs.len();
    let mut c: Vec<BigRational> = cdfs.iter().map(|x| rat(*x)).collect();
    c.sort();
    let nn = ri(n as i64);
    let (mut dp, mut dm): (Option<BigRational>, Option<BigRational>) = (None, None);
    for (i, f) in c.iter().enumerate() {
        let up = ri(i as i64 + 1) / &nn - f;
        let dn = f - ri(i as i64) / &nn;
        if dp.as_ref().map(|d| up > *d).unwrap_or(true) {
            dp = Some(up);
        }
        if dm.as_ref().map(|d| dn > *d).unwrap_or(true) {
            dm = Some(dn);
        }
    }
    (rf(&dp.unwrap()), rf(&dm.unwrap()))
}
/// exact (sup(F1 - F2), sup(F2 - F1)) of the two empirical cdfs (both >= 0)
pub fn ks2_exact(a: &[f64], b: &[f64]) -> (f64, f64) {
    let mut pts: Vec<f64> = a.iter().chain(b.iter()).copied().collect();
    pts.sort_by(|x, y| x.partial_cmp(y).unwrap());
    pts.dedup();
    let (na, nb) = (a.len() as i64, b.len() as i64);
    let (mut dp, mut dm) = (BigRational::zero(), BigRational::zero());
    for v in pts {
        let ca = a.iter().filter(|x| **x <= v).count() as i64;
        let cb = b.iter().filter(|x| **x <= v).count() as i64;
        let d = BigRational::new(BigInt::from(ca * nb - cb * na), BigInt::from(na * nb));
        if d > dp {
            dp = d.clone();
        }
        if -&d > dm {
            dm = -d;
        }
    }
    (rf(&dp), rf(&dm))
}

// ---------------------------------------------------------------- checks (each returns the failed clauses)
fn fail_site(func: &str, r: &Res, cls: &str) -> Viol {
    (format!("{} {} @{}", func, kind(r), cls), format!("{}: no (statistic, p) on admissible data", func), show(r), "Ok((statistic, p))".into())
}
fn cmp(func: &str, cls: &str, stat_def: &str, p_def: &str, r: &Res, stat_ref: f64, p_of: &dyn Fn(f64) -> f64, v: &mut Vec<Viol>) {
    match r {
        Out::Val(Ok((s, p))) => {
            if !stat_ok(*s, stat_ref) {
                v.push((format!("{} statistic != exact @{}", func, cls), format!("statistic differs from {} (exact rational evaluation) by more than 1e-9*max(1,|ref|)", stat_def), show(r), format!("statistic = {}", fx(stat_ref))));
            }
            let pr = p_of(*s);
            if p.is_nan() && !pr.is_nan() {
                v.push((format!("{} p NaN @{}", func, cls), format!("p-value is NaN where the {} is defined", p_def), show(r), format!("p = {}", fx(pr))));
            } else if !p_ok(*p, pr) {
                v.push((format!("{} p != {} @{}", func, p_def, cls), format!("p-value differs from the independently computed {} at the returned statistic by more than 1e-8", p_def), show(r), format!("p = {}", fx(pr))));
            }
        }
        _ => v.push(fail_site(func, r, cls)),
    }
}

pub fn check_ttest(a: &[f64], mu: f64, alt: Alternative) -> Vec<Viol> {
    let mut v = vec![];
    let tref = t_exact(a, mu);
    if tref.is_nan() {
        return v; // zero variance: statistic undefined
    }
    let df = (a.len() - 1) as f64;
    let (a2, r) = (a.to_vec(), ());
    let _ = r;
    let res: Res = guard(move || ttest_onesample(a2, mu, alt, NaNPolicy::Error).map_err(|e| format!("{:?}", e)));
    let pf = move |t: f64| match alt {
        Alternative::Less => t_sf(-t, df),
        Alternative::Greater => t_sf(t, df),
        Alternative::TwoSided => (2.0 * t_sf(t.abs(), df)).min(1.0),
    };
    cmp("ttest_onesample", alt_name(alt), "(mean-mu)/sqrt(s^2/n)", "Student-t(n-1) tail", &res, tref, &pf, &mut v);
    v
}
pub fn check_f(groups: &[Vec<f64>]) -> Vec<Viol> {
    let mut v = vec![];
    let fref = f_exact(groups);
    // a constant group of length > 1 is rejected by documentation (SampleContainsSameConstants): not admissible
    if fref.is_nan() || groups.iter().any(|g| g.len() > 1 && g.iter().all(|x| *x == g[0])) {
        return v;
    }
    let k = groups.len();
    let n: usize = groups.iter().map(|g| g.len()).sum();
    let g2 = groups.to_vec();
    let res: Res = guard(move || f_oneway(g2, NaNPolicy::Error).map_err(|e| format!("{:?}", e)));
    let (d1, d2) = ((k - 1) as f64, (n - k) as f64);
    // conditioning class: |grand mean| / pooled sd
    let all: Vec<f64> = groups.iter().flatten().copied().collect();
    let (m, ss) = mean_ss(&all);
    let ratio = rf(&m).abs() / (rf(&ss) / n as f64).sqrt();
    let cls = if ratio > 100.0 { "|mean|/sd in (1e2,1e3]" } else if ratio > 10.0 { "|mean|/sd in (10,1e2]" } else { "|mean|/sd<=10" };
    cmp("f_oneway", cls, "(SSB/(k-1))/(SSW/(N-k))", "F(k-1,N-k) tail", &res, fref, &move |f| f_sf(f, d1, d2), &mut v);
    v
}
pub fn check_chi2(obs: &[usize], exp: Option<&[f64]>, ddof: Option<usize>) -> Vec<Viol> {
    let mut v = vec![];
    let sref = chi2_exact(obs, exp);
    if sref.is_nan() {
        return v;
    }
    let o2 = obs.to_vec();
    let e2 = exp.map(|e| e.to_vec());
    let res: Res = guard(move || chisquare(&o2, e2.as_deref(), ddof).map_err(|e| format!("{:?}", e)));
    let dof = (obs.len() - 1 - ddof.unwrap_or(0)) as f64;
    let cls = format!("f_exp={} ddof={}", if exp.is_some() { "Some" } else { "None" }, match ddof {
        None => "None",
        Some(0) => "Some(0)",
        Some(_) => "Some(>0)",
    });
    cmp("chisquare", &cls, "sum (o-e)^2/e", "chi-square(k-1-ddof) tail", &res, sref, &move |s| chi2_sf(s, dof), &mut v);
    v
}
pub fn check_skew(a: &[f64], alt: Alternative) -> Vec<Viol> {
    let mut v = vec![];
    let zref = skew_z_exact(a);
    if zref.is_nan() {
        return v;
    }
    let a2 = a.to_vec();
    let res: Res = guard(move || skewtest(a2, alt, NaNPolicy::Error).map_err(|e| format!("{:?}", e)));
    let pf = move |z: f64| match alt {
        Alternative::Less => norm_sf(-z),
        Alternative::Greater => norm_sf(z),
        Alternative::TwoSided => (2.0 * norm_sf(z.abs())).min(1.0),
    };
    let cls = if zref == 0.0 { "sample skewness == 0".to_string() } else { alt_name(alt).to_string() };
    cmp("skewtest", &cls, "D'Agostino Z = delta*asinh(Y/alpha)", "normal tail", &res, zref, &pf, &mut v);
    v
}
fn mwu_method(name: &str) -> MannWhitneyUMethod {
    match name {
        "Automatic" => MannWhitneyUMethod::Automatic,
        "Exact" => MannWhitneyUMethod::Exact,
        "AsymptoticInclContinuityCorrection" => MannWhitneyUMethod::AsymptoticInclContinuityCorrection,
        _ => MannWhitneyUMethod::AsymptoticExclContinuityCorrection,
    }
}
const MWU_METHODS: [&str; 3] = ["AsymptoticInclContinuityCorrection", "AsymptoticExclContinuityCorrection", "Automatic"];
/// asymptotic methods, and Automatic when it must dispatch to the asymptotic method (ties or both n > 8)
pub fn check_mwu(x: &[f64], y: &[f64], method: &str, alt: Alternative) -> Vec<Viol> {
    let mut v = vec![];
    let (u2x, tie) = mwu_exact(x, y);
    let uref = u2x as f64 / 2.0;
    let (n1, n2) = (x.len(), y.len());
    let cont = match method {
        "AsymptoticInclContinuityCorrection" => true,
        "AsymptoticExclContinuityCorrection" => false,
        "Automatic" => {
            if (n1 > 8 && n2 > 8) || tie > 0 {
                true
            } else {
                return v; // dispatches to the exact method: C16
            }
        }
        _ => return v,
    };
    if mwu_asym_p(uref, n1, n2, tie, cont, alt).is_nan() {
        return v; // all observations equal: sigma = 0, z undefined
    }
    let (x2, y2, m2) = (x.to_vec(), y.to_vec(), method.to_string());
    let res: Res = guard(move || mannwhitneyu(&x2, &y2, mwu_method(&m2), alt).map_err(|e| format!("{:?}", e)));
    let short = match method {
        "AsymptoticInclContinuityCorrection" => "AsymptoticIncl",
        "AsymptoticExclContinuityCorrection" => "AsymptoticExcl",
        m => m,
    };
    let cls = format!("{} {}{}", short, alt_name(alt), if tie > 0 { " ties" } else { "" });
    cmp("mannwhitneyu", &cls, "U1 = #{x>y} + #{x=y}/2", "tie-corrected normal tail", &res, uref, &move |u| mwu_asym_p(u, n1, n2, tie, cont, alt), &mut v);
    v
}
fn ks1_method(name: &str) -> KSOneSampleAlternativeMethod {
    match name {
        "Less" => KSOneSampleAlternativeMethod::Less,
        "Greater" => KSOneSampleAlternativeMethod::Greater,
        "TwoSidedAsymptotic" => KSOneSampleAlternativeMethod::TwoSidedAsymptotic,
        "TwoSidedExact" => KSOneSampleAlternativeMethod::TwoSidedExact,
        _ => KSOneSampleAlternativeMethod::TwoSidedApproximate,
    }
}
const KS1_METHODS: [&str; 5] = ["Less", "Greater", "TwoSidedAsymptotic", "TwoSidedApproximate", "TwoSidedExact"];
fn dist_cdf(dist: &str, x: f64) -> f64 {
    use statrs::distribution::ContinuousCDF;
    match dist {
        "uniform" => Uniform::new(0.0, 1.0).unwrap().cdf(x),
        "exp" => Exp::new(1.0).unwrap().cdf(x),
        _ => Normal::new(0.0, 1.0).unwrap().cdf(x),
    }
}
/// the hypothesised cdf is an INPUT of the test: its f64 values at the data are taken as given
pub fn check_ks1(data: &[f64], dist: &str, method: &str) -> Vec<Viol> {
    let mut v = vec![];
    let n = data.len();
    let cdfs: Vec<f64> = data.iter().map(|x| dist_cdf(dist, *x)).collect();
    let (dplus, dminus) = ks1_exact(&cdfs);
    let (d2, dist2, m2) = (data.to_vec(), dist.to_string(), method.to_string());
    let res: Res = guard(move || {
        let m = ks1_method(&m2);
        match dist2.as_str() {
            "uniform" => ks_onesample(d2, &Uniform::new(0.0, 1.0).unwrap(), m, NaNPolicy::Error),
            "exp" => ks_onesample(d2, &Exp::new(1.0).unwrap(), m, NaNPolicy::Error),
            _ => ks_onesample(d2, &Normal::new(0.0, 1.0).unwrap(), m, NaNPolicy::Error),
        }
        .map_err(|e| format!("{:?}", e))
    });
    let nf = n as f64;
    let z = |d: f64, name: &str| if d == 0.0 { format!("{} D=0", name) } else { name.to_string() };
    if method == "TwoSidedExact" {
        // statistic only (the exact p-value is C16's statement); ties / n >= 170 are documented Errs
        let mut s = data.to_vec();
        s.sort_by(|a, b| a.partial_cmp(b).unwrap());
        s.dedup();
        if s.len() == n && n < 170 {
            cmp("ks_onesample", "TwoSidedExact", "D = sup|F_n - F|", "(p not checked here)", &res, dplus.max(dminus), &|_| f64::NAN, &mut v);
        }
        return v;
    }
    match method {
        "Less" => cmp("ks_onesample", &z(dminus, "Less"), "D- = sup(F - F_n)", "Birnbaum-Tingey tail (log-space f64 re-evaluation)", &res, dminus, &move |d| birnbaum_tingey_sf(d, n), &mut v),
        "Greater" => cmp("ks_onesample", &z(dplus, "Greater"), "D+ = sup(F_n - F)", "Birnbaum-Tingey tail (log-space f64 re-evaluation)", &res, dplus, &move |d| birnbaum_tingey_sf(d, n), &mut v),
        "TwoSidedAsymptotic" => cmp("ks_onesample", "TwoSidedAsymptotic", "D = sup|F_n - F|", "Kolmogorov tail at D*sqrt(n)", &res, dplus.max(dminus), &move |d| kolmogorov_sf(d * nf.sqrt()), &mut v),
        _ => cmp("ks_onesample", "TwoSidedApproximate", "D = sup|F_n - F|", "min(1, 2*Birnbaum-Tingey tail)", &res, dplus.max(dminus), &move |d| (2.0 * birnbaum_tingey_sf(d, n)).min(1.0), &mut v),
    }
    v
}
fn ks2_method(name: &str) -> KSTwoSampleAlternativeMethod {
    match name {
        "LessAsymptotic" => KSTwoSampleAlternativeMethod::LessAsymptotic,
        "GreaterAsymptotic" => KSTwoSampleAlternativeMethod::GreaterAsymptotic,
        "TwoSidedExact" => KSTwoSampleAlternativeMethod::TwoSidedExact,
        _ => KSTwoSampleAlternativeMethod::TwoSidedAsymptotic,
    }
}
const KS2_METHODS: [&str; 4] = ["LessAsymptotic", "GreaterAsymptotic", "TwoSidedAsymptotic", "TwoSidedExact"];
pub fn check_ks2(a: &[f64], b: &[f64], method: &str) -> Vec<Viol> {
    let mut v = vec![];
    let (dp, dm) = ks2_exact(a, b);
    let (a2, b2, m2) = (a.to_vec(), b.to_vec(), method.to_string());
    let res: Res = guard(move || ks_twosample(a2, b2, ks2_method(&m2), NaNPolicy::Error).map_err(|e| format!("{:?}", e)));
    let (m, n) = (a.len().max(b.len()) as f64, a.len().min(b.len()) as f64);
    let d0 = if dp.max(dm) == 0.0 { " D=0" } else { "" };
    match method {
        "LessAsymptotic" => cmp("ks_twosample", &format!("LessAsymptotic{}", d0), "sup(F2 - F1)", "Hodges eq. 5.3 (closed formula re-typed)", &res, dm, &move |d| hodges53(d, m, n), &mut v),
        "TwoSidedExact" => {
            // statistic only (the exact p-value is C16's statement); m*n > 10000 is a documented Err
            if m * n <= 10000.0 {
                cmp("ks_twosample", &format!("TwoSidedExact{}", d0), "sup|F1 - F2|", "(p not checked here)", &res, dp.max(dm), &|_| f64::NAN, &mut v)
            }
        }
        "GreaterAsymptotic" => cmp("ks_twosample", &format!("GreaterAsymptotic{}", d0), "sup(F1 - F2)", "Hodges eq. 5.3 (closed formula re-typed)", &res, dp, &move |d| hodges53(d, m, n), &mut v),
        _ => cmp("ks_twosample", &format!("TwoSidedAsymptotic{}", d0), "sup|F1 - F2|", "Kolmogorov tail at D*sqrt(mn/(m+n))", &res, dp.max(dm), &move |d| kolmogorov_sf(d * (m * n / (m + n)).sqrt()), &mut v),
    }
    v
}
pub fn check_odds(t: [u64; 4], alt: Alternative) -> Vec<Viol> {
    let mut v = vec![];
    let ext = t.iter().any(|x| *x > 2000);
    let pre = if ext { "[ext] " } else { "" };
    let (ad, bc) = (BigInt::from(t[0]) * BigInt::from(t[3]), BigInt::from(t[1]) * BigInt::from(t[2]));
    let zero_margin = t[0] + t[1] == 0 || t[2] + t[3] == 0 || t[0] + t[2] == 0 || t[1] + t[3] == 0;
    // sample cross-product ratio a d / (b c); +inf for b c = 0 < a d; undefined (nothing demanded) for 0/0 and empty margins
    let want = if zero_margin || (ad.is_zero() && bc.is_zero()) {
        f64::NAN
    } else if bc.is_zero() {
        f64::INFINITY
    } else {
        rf(&BigRational::new(ad, bc))
    };
    let res: Res = guard(move || fishers_exact_with_odds_ratio(&t, alt).map_err(|e| format!("{:?}", e)));
    match &res {
        Out::Val(Ok((or, _))) => {
            if !stat_ok(*or, want) {
                v.push((format!("{}fishers_exact_with_odds_ratio odds ratio != a*d/(b*c)", pre), "odds ratio differs from the sample cross-product ratio".into(), show(&res), format!("odds ratio = {}", fx(want))));
            }
        }
        _ => v.push((format!("{}fishers_exact_with_odds_ratio {}", pre, kind(&res)), "no (odds ratio, p) on an admissible table".into(), show(&res), format!("odds ratio = {}", fx(want)))),
    }
    v
}

// ---------------------------------------------------------------- generators
fn zscore(cx: &mut Ctx, shape: u64) -> f64 {
    match shape {
        0 => (0..12).map(|_| cx.r.unit()).sum::<f64>() - 6.0,  // ~normal
        1 => -(1.0 - cx.r.unit()).ln() - 1.0,                    // skewed right
        2 => (1.0 - cx.r.unit()).ln() + 1.0,                     // skewed left
        _ => cx.r.range(-1.7, 1.7),                              // flat
    }
}
/// non-constant sample of size n with |mean|/sd <= 1e3 (checked on the sample itself)
pub fn gen_sample(cx: &mut Ctx, n: usize) -> Vec<f64> {
    loop {
        let style = cx.r.below(5);
        let mut a: Vec<f64> = match style {
            0 | 1 | 2 => {
                let sd = cx.r.log_range(1e-3, 1e3);
                let ratio = if cx.r.below(3) == 0 { 0.0 } else { cx.r.log_range(1e-3, 800.0) * if cx.r.below(2) == 0 { -1.0 } else { 1.0 } };
                let shape = cx.r.below(4);
                (0..n).map(|_| ratio * sd + sd * zscore(cx, shape)).collect()
            }
            3 => {
                // heavily tied: few levels
                let k = 2 + cx.r.below(4);
                let step = *cx.r.pick(&[1.0, 0.5, 0.1, 3.0, 1e-3, 250.0]);
                let base = *cx.r.pick(&[0.0, 0.0, 10.0, -7.0, 1000.0]);
                (0..n).map(|_| base + step * cx.r.below(k) as f64).collect()
            }
            _ => (0..n).map(|_| cx.r.below(10) as f64).collect(),
        };
        if n >= 2 && a.iter().all(|x| *x == a[0]) {
            a[0] += 1.0;
        }
        if n < 2 {
            return a;
        }
        let (m, ss) = mean_ss(&a);
        let sd = (rf(&ss) / (n as f64 - 1.0)).sqrt();
        if sd > 0.0 && rf(&m).abs() / sd <= 1e3 {
            return a;
        }
    }
}
fn gen_size(cx: &mut Ctx, lo: usize, hi: usize) -> usize {
    // mostly small, sometimes up to hi
    let cap = match cx.r.below(4) {
        0 => 8,
        1 | 2 => 40,
        _ => hi,
    }
    .min(hi)
    .max(lo);
    lo + cx.r.below((cap - lo + 1) as u64) as usize
}
fn emit(cx: &mut Ctx, case: Value, v: Vec<Viol>) {
    cx.evals += 1;
    for (site, what, obs, req) in v {
        cx.violation(&site, &what, case.clone(), obs, &req);
    }
}
fn words(len_max: usize, lo_len: usize) -> Vec<Vec<f64>> {
    // all words of length lo_len..=len_max over {0,1,2,3}
    let mut out = vec![];
    for len in lo_len..=len_max {
        for code in 0..4usize.pow(len as u32) {
            let mut c = code;
            let mut w = vec![];
            for _ in 0..len {
                w.push((c % 4) as f64);
                c /= 4;
            }
            out.push(w);
        }
    }
    out
}

struct St {
    ks2_d0_asym_calls: u32,
}
fn run_ks2_case(cx: &mut Ctx, st: &mut St, a: &[f64], b: &[f64]) {
    let (dp, dm) = ks2_exact(a, b);
    for m in KS2_METHODS {
        if m == "TwoSidedAsymptotic" && dp.max(dm) == 0.0 {
            // the Kolmogorov series does not terminate at D = 0: each such call costs the 10 s timeout and
            // leaves a spinning thread, so only the first one per run is evaluated (C18 covers termination)
            if st.ks2_d0_asym_calls >= 1 {
                continue;
            }
            st.ks2_d0_asym_calls += 1;
        }
        let v = check_ks2(a, b, m);
        emit(cx, json!({"t":"ks2","a":hexv(a),"b":hexv(b),"method":m}), v);
    }
}

pub fn run(cx: &mut Ctx) {
    let th = cx.thorough;
    let mut st = St { ks2_d0_asym_calls: 0 };
    let nrand = if th { 3000 } else { 120 };

    // ---- small integer-valued samples, exhaustively
    let lmax = if th { 5 } else { 4 };
    for w in words(lmax, 2) {
        for mu in [0.0, 1.5, 2.0] {
            for alt in ALTS {
                let v = check_ttest(&w, mu, alt);
                emit(cx, json!({"t":"ttest","a":hexv(&w),"mu":hex1(mu),"alt":alt_name(alt)}), v);
            }
        }
        for m in KS1_METHODS {
            let d: Vec<f64> = w.iter().map(|x| 0.1 + 0.25 * x).collect();
            let v = check_ks1(&d, "uniform", m);
            emit(cx, json!({"t":"ks1","data":hexv(&d),"dist":"uniform","method":m}), v);
        }
        let obs: Vec<usize> = w.iter().map(|x| *x as usize).collect();
        for ddof in [None, Some(0), Some(1)] {
            if ddof.unwrap_or(0) + 1 >= obs.len() {
                continue;
            }
            let v = check_chi2(&obs, None, ddof);
            emit(cx, json!({"t":"chi2","obs":obs,"exp":Value::Null,"ddof":ddof}), v);
        }
    }
    let (l1, l2) = if th { (3, 3) } else { (2, 2) };
    let w1 = words(l1, 1);
    let w2 = words(l2, 1);
    for x in &w1 {
        for y in &w2 {
            for m in MWU_METHODS {
                for alt in ALTS {
                    let v = check_mwu(x, y, m, alt);
                    emit(cx, json!({"t":"mwu","x":hexv(x),"y":hexv(y),"method":m,"alt":alt_name(alt)}), v);
                }
            }
            run_ks2_case(cx, &mut st, x, y);
            if x.len() + y.len() >= 3 {
                let g = vec![x.clone(), y.clone()];
                let v = check_f(&g);
                emit(cx, json!({"t":"f","groups":g.iter().map(|g| hexv(g)).collect::<Vec<_>>()}), v);
            }
        }
    }
    // two-sample KS at very small sqrt(n_eff)*D: large, heavily tied samples whose ECDFs nearly coincide.  The
    // alternating Kolmogorov series needs ~3.4/x terms there, so a truncated or loosely terminated series shows
    // only on such inputs (x < 0.05 is unreachable with n <= 200 untied one-sample data).
    for k in [60usize, 100, 150, 199] {
        let a: Vec<f64> = (0..2 * k).map(|i| if i < k { 0.0 } else { 1.0 }).collect();
        let b: Vec<f64> = (0..2 * k - 1).map(|i| if i < k { 0.0 } else { 1.0 }).collect();
        run_ks2_case(cx, &mut st, &a, &b);
        let c: Vec<f64> = (0..3 * k).map(|i| (i / k) as f64).collect();
        let d: Vec<f64> = (0..3 * k - 2).map(|i| (i / k) as f64).collect();
        run_ks2_case(cx, &mut st, &c, &d);
    }
    if th {
        // f_oneway: two groups of length <= 4 x <= 3, and three groups of length <= 2
        let w4 = words(4, 4);
        for x in &w4 {
            for y in &w2 {
                let g = vec![x.clone(), y.clone()];
                let v = check_f(&g);
                emit(cx, json!({"t":"f","groups":g.iter().map(|g| hexv(g)).collect::<Vec<_>>()}), v);
            }
        }
        let ws = words(2, 1);
        for x in &ws {
            for y in &ws {
                for z in &ws {
                    let g = vec![x.clone(), y.clone(), z.clone()];
                    let v = check_f(&g);
                    emit(cx, json!({"t":"f","groups":g.iter().map(|g| hexv(g)).collect::<Vec<_>>()}), v);
                }
            }
        }
    }

    // ---- seeded random samples
    for i in 0..nrand {
        // t-test
        let n = gen_size(cx, 2, 200);
        let a = gen_sample(cx, n);
        let (m, ss) = mean_ss(&a);
        let (mf, sd) = (rf(&m), (rf(&ss) / (n as f64 - 1.0)).sqrt());
        let mu = match cx.r.below(5) {
            0 => 0.0,
            1 => mf,
            2 => mf + sd * cx.r.range(-3.0, 3.0) / (n as f64).sqrt(),
            3 => mf + sd * cx.r.range(-30.0, 30.0),
            _ => a[0],
        };
        for alt in ALTS {
            let v = check_ttest(&a, mu, alt);
            emit(cx, json!({"t":"ttest","a":hexv(&a),"mu":hex1(mu),"alt":alt_name(alt)}), v);
        }
        // skewtest (n >= 8), including exactly symmetric samples
        let n = gen_size(cx, 8, 200);
        let a = if i % 6 == 0 {
            let h = n / 2;
            let c = cx.r.below(20) as f64;
            let mut s: Vec<f64> = vec![];
            for _ in 0..h {
                let d = (1 + cx.r.below(9)) as f64;
                s.push(c + d);
                s.push(c - d);
            }
            if s.len() < 8 {
                s = (1..=8).map(|x| x as f64).collect();
            }
            s
        } else {
            gen_sample(cx, n)
        };
        for alt in ALTS {
            let v = check_skew(&a, alt);
            emit(cx, json!({"t":"skew","a":hexv(&a),"alt":alt_name(alt)}), v);
        }
        // f_oneway: 2..6 groups sharing scale, with group effects
        let k = 2 + cx.r.below(5) as usize;
        let base = gen_sample(cx, 2);
        let (loc, sc) = (base[0], (base[1] - base[0]).abs().max(1e-3));
        let tied = cx.r.below(4) == 0;
        let eff = *cx.r.pick(&[0.0, 0.1, 1.0, 5.0]);
        let mut groups: Vec<Vec<f64>> = vec![];
        for _ in 0..k {
            let n = if cx.r.below(8) == 0 { 1 } else { gen_size(cx, 2, 200) };
            let shift = eff * zscore(cx, 0);
            let mut g: Vec<f64> = (0..n).map(|_| if tied { loc + sc * (shift.round() + cx.r.below(4) as f64) } else { loc + sc * (shift + zscore(cx, 0)) }).collect();
            if n >= 2 && g.iter().all(|x| *x == g[0]) {
                g[0] += sc;
            }
            groups.push(g);
        }
        if groups.iter().all(|g| g.len() < 2) {
            groups[0].push(loc + 2.0 * sc);
        }
        {
            let all: Vec<f64> = groups.iter().flatten().copied().collect();
            let (m, ss) = mean_ss(&all);
            let sd = (rf(&ss) / all.len() as f64).sqrt();
            if sd > 0.0 && rf(&m).abs() / sd <= 1e3 {
                let v = check_f(&groups);
                emit(cx, json!({"t":"f","groups":groups.iter().map(|g| hexv(g)).collect::<Vec<_>>()}), v);
            }
        }
        // chisquare
        let n = gen_size(cx, 2, 200);
        let scale = *cx.r.pick(&[3u64, 10, 100, 10_000]);
        let mut obs: Vec<usize> = (0..n).map(|_| cx.r.below(scale + 1) as usize).collect();
        if obs.iter().sum::<usize>() == 0 {
            obs[0] = 1;
        }
        let total: usize = obs.iter().sum();
        let exp: Option<Vec<f64>> = if cx.r.below(2) == 0 {
            None
        } else {
            // positive multiples of 1/8 with the same (exact) sum
            let wts: Vec<u64> = (0..n).map(|_| 1 + cx.r.below(100)).collect();
            let wsum: u64 = wts.iter().sum();
            let t8 = 8 * total as u64;
            let mut e: Vec<u64> = wts.iter().map(|w| t8 * w / wsum).collect();
            let s: u64 = e.iter().sum();
            e[n - 1] += t8 - s;
            if e.iter().all(|x| *x > 0) {
                Some(e.iter().map(|x| *x as f64 / 8.0).collect())
            } else {
                None
            }
        };
        let ddof = match cx.r.below(3) {
            0 => None,
            1 => Some(0),
            _ => {
                if n >= 3 {
                    Some(1 + cx.r.below(n as u64 - 2) as usize)
                } else {
                    Some(0)
                }
            }
        };
        let v = check_chi2(&obs, exp.as_deref(), ddof);
        emit(cx, json!({"t":"chi2","obs":obs,"exp":exp.as_ref().map(|e| hexv(e)),"ddof":ddof}), v);
        // two-sample tests: shared generator, optional shift, ties, identical samples
        let (n1, n2) = (gen_size(cx, 1, 200), gen_size(cx, 1, 200));
        let pooled = gen_sample(cx, n1 + n2);
        let mut x = pooled[..n1].to_vec();
        let y = pooled[n1..].to_vec();
        if cx.r.below(3) == 0 {
            let (_, ss) = mean_ss(&pooled);
            let d = (rf(&ss) / pooled.len() as f64).sqrt() * cx.r.range(-1.5, 1.5);
            for v in x.iter_mut() {
                *v += d;
            }
        }
        for m in MWU_METHODS {
            for alt in ALTS {
                let v = check_mwu(&x, &y, m, alt);
                emit(cx, json!({"t":"mwu","x":hexv(&x),"y":hexv(&y),"method":m,"alt":alt_name(alt)}), v);
            }
        }
        run_ks2_case(cx, &mut st, &x, &y);
        if i % 25 == 0 {
            let mut y2 = x.clone();
            y2.reverse();
            run_ks2_case(cx, &mut st, &x, &y2); // identical samples: D = 0
        }
        // one-sample KS
        let n = gen_size(cx, 1, 200);
        let dist = *cx.r.pick(&["uniform", "exp", "normal"]);
        let tied = cx.r.below(4) == 0;
        let fit = cx.r.below(3);
        let data: Vec<f64> = (0..n)
            .map(|_| {
                let mut u = cx.r.unit().max(1e-9).min(1.0 - 1e-9);
                if fit == 1 {
                    u = u * u; // misspecified
                } else if fit == 2 {
                    u = 0.3 + 0.4 * u;
                }
                let x = match dist {
                    "uniform" => u,
                    "exp" => -(1.0 - u).ln(),
                    _ => (u / (1.0 - u)).ln() * 0.6,
                };
                if tied {
                    (x * 4.0).round() / 4.0
                } else {
                    x
                }
            })
            .collect();
        for m in KS1_METHODS {
            let v = check_ks1(&data, dist, m);
            emit(cx, json!({"t":"ks1","data":hexv(&data),"dist":dist,"method":m}), v);
        }
        // Fisher odds ratio
        let sc = *cx.r.pick(&[3u64, 20, 2000]);
        let t = [cx.r.below(sc + 1), cx.r.below(sc + 1), cx.r.below(sc + 1), cx.r.below(sc + 1)];
        let alt = ALTS[i % 3];
        let v = check_odds(t, alt);
        emit(cx, json!({"t":"odds","table":t.to_vec(),"alt":alt_name(alt)}), v);
    }
    // odds ratio: every table with cells <= 3, and (extended domain) cross products beyond u64
    for code in 0..256u64 {
        let t = [code & 3, (code >> 2) & 3, (code >> 4) & 3, (code >> 6) & 3];
        let v = check_odds(t, Alternative::TwoSided);
        emit(cx, json!({"t":"odds","table":t.to_vec(),"alt":"TwoSided"}), v);
    }
    for t in [[1u64 << 33, 1, 1, 1 << 33], [3, 1 << 32, 1 << 32, 5]] {
        let v = check_odds(t, Alternative::Less);
        emit(cx, json!({"t":"odds","table":t.to_vec(),"alt":"Less"}), v);
    }
}

pub fn replay(case: &Value) -> String {
    let alt = alt_of(case["alt"].as_str().unwrap_or(""));
    let method = case["method"].as_str().unwrap_or("").to_string();
    let v: Vec<Viol> = match case["t"].as_str().unwrap_or("") {
        "ttest" => check_ttest(&unhexv(&case["a"]), unhex1(&case["mu"]), alt),
        "skew" => check_skew(&unhexv(&case["a"]), alt),
        "f" => {
            let g: Vec<Vec<f64>> = case["groups"].as_array().map(|a| a.iter().map(unhexv).collect()).unwrap_or_default();
            check_f(&g)
        }
        "chi2" => {
            let obs: Vec<usize> = case["obs"].as_array().map(|a| a.iter().map(|x| x.as_u64().unwrap_or(0) as usize).collect()).unwrap_or_default();
            let exp = if case["exp"].is_null() { None } else { Some(unhexv(&case["exp"])) };
            let ddof = case["ddof"].as_u64().map(|x| x as usize);
            check_chi2(&obs, exp.as_deref(), ddof)
        }
        "mwu" => check_mwu(&unhexv(&case["x"]), &unhexv(&case["y"]), &method, alt),
        "ks1" => check_ks1(&unhexv(&case["data"]), case["dist"].as_str().unwrap_or(""), &method),
        "ks2" => check_ks2(&unhexv(&case["a"]), &unhexv(&case["b"]), &method),
        "odds" => {
            let a: Vec<u64> = case["table"].as_array().map(|a| a.iter().map(|x| x.as_u64().unwrap_or(0)).collect()).unwrap_or_default();
            check_odds([a[0], a[1], a[2], a[3]], alt)
        }
        other => return format!("unknown case kind {:?}", other),
    };
    if v.is_empty() {
        "holds (no violation on replay)".to_string()
    } else {
        v.into_iter().map(|(site, _, obs, req)| format!("[{}] observed {} / required {}", site, obs, req)).collect::<Vec<_>>().join(" ;; ")
    }
}
