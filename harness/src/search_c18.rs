//! C18 — hypothesis tests cohere across alternatives, symmetries and NaN policies.
//!
//! Every relation is a function `check(rel, &Inp) -> Vec<Viol>`; a recorded case is (rel, Inp) and
//! `replay` re-runs exactly that relation.  Every call into statrs runs on a worker thread under a
//! 10 s timeout with catch_unwind; a hang / panic on admissible data and a p-value outside [0,1]
//! (or NaN) are violations in their own right, reported by whichever relation made the call.
//!
//! Tolerances used (the property text gives none for these relations; these are the task's):
//!   * exact symmetries (permutation of observations / groups / categories, swapping the samples,
//!     transposing the table, strictly monotone maps for rank and two-sample KS tests, NaNPolicy::Emit
//!     vs NaN-free data, coherence of alternatives): statistic |s - s'| <= 1e-9*max(1,|s|,|s'|), p |p - p'| <= 1e-9
//!   * affine maps (t, F, skewness, one-sample KS with the location-scale image of the distribution):
//!     statistic 1e-6*max(1,|s|,|s'|), p 1e-6; both the data and its image satisfy |mean|/sd <= 1e3.
use crate::rng::Sm;
use crate::search::Ctx;
use num_bigint::BigInt;
use num_traits::{One, ToPrimitive, Zero};
use serde_json::{json, Value};
use statrs::distribution::{Exp, Normal, Uniform};
use statrs::stats_tests::chisquare::chisquare;
use statrs::stats_tests::f_oneway::f_oneway;
use statrs::stats_tests::ks_test::{ks_onesample, ks_twosample, KSOneSampleAlternativeMethod, KSTwoSampleAlternativeMethod};
use statrs::stats_tests::mannwhitneyu::{mannwhitneyu, MannWhitneyUMethod};
use statrs::stats_tests::skewtest::skewtest;
use statrs::stats_tests::ttest_onesample::ttest_onesample;
use statrs::stats_tests::{fishers_exact_with_odds_ratio, Alternative, NaNPolicy};

const EXACT_TOL: f64 = 1e-9;
const AFFINE_TOL: f64 = 1e-6;
const TIMEOUT_MS: u64 = 10_000;
type Viol = (String, String, String, String); // site, what, observed, required

// ---------------------------------------------------------------- plumbing
#[derive(Debug, Clone)]
enum Out<T> {
    Val(T),
    Panic,
    Hang,
}
fn guard<T: Send + 'static, F: FnOnce() -> T + Send + 'static>(f: F) -> Out<T> {
    let (tx, rx) = std::sync::mpsc::channel();
    std::thread::spawn(move || {
        let r = std::panic::catch_unwind(std::panic::AssertUnwindSafe(f));
        let _ = tx.send(r);
    });
    match rx.recv_timeout(std::time::Duration::from_millis(TIMEOUT_MS)) {
        Ok(Ok(v)) => Out::Val(v),
        Ok(Err(_)) => Out::Panic,
        Err(_) => Out::Hang,
    }
}
type Res = Out<Result<(f64, f64), String>>;
fn show(r: &Res) -> String {
    match r {
        Out::Val(Ok((s, p))) => format!("(statistic={}, p={})", fx(*s), fx(*p)),
        Out::Val(Err(e)) => format!("Err({})", e),
        Out::Panic => "panic".into(),
        Out::Hang => "hang (no result within 10 s)".into(),
    }
}
fn fx(x: f64) -> String {
    format!("{:e} (0x{:016x})", x, x.to_bits())
}
fn hexv(v: &[f64]) -> Value {
    Value::Array(v.iter().map(|x| json!(format!("{:016x}", x.to_bits()))).collect())
}
fn unhexv(v: &Value) -> Vec<f64> {
    v.as_array().map(|a| a.iter().map(|s| f64::from_bits(u64::from_str_radix(s.as_str().unwrap_or("0"), 16).unwrap_or(0))).collect()).unwrap_or_default()
}
fn hex1(x: f64) -> Value {
    json!(format!("{:016x}", x.to_bits()))
}
fn unhex1(v: &Value) -> f64 {
    f64::from_bits(u64::from_str_radix(v.as_str().unwrap_or("0"), 16).unwrap_or(0))
}
fn alt_of(s: &str) -> Alternative {
    match s {
        "Less" => Alternative::Less,
        "Greater" => Alternative::Greater,
        _ => Alternative::TwoSided,
    }
}
fn swap_alt(s: &str) -> &'static str {
    match s {
        "Less" => "Greater",
        "Greater" => "Less",
        _ => "TwoSided",
    }
}
fn pol_of(s: &str) -> NaNPolicy {
    match s {
        "Propogate" => NaNPolicy::Propogate,
        "Emit" => NaNPolicy::Emit,
        _ => NaNPolicy::Error,
    }
}
const ALTS: [&str; 3] = ["Less", "Greater", "TwoSided"];
const POLS: [&str; 3] = ["Propogate", "Error", "Emit"];
const MWU_METHODS: [&str; 4] = ["Automatic", "Exact", "AsymptoticInclContinuityCorrection", "AsymptoticExclContinuityCorrection"];
const KS1_METHODS: [&str; 5] = ["Less", "Greater", "TwoSidedExact", "TwoSidedAsymptotic", "TwoSidedApproximate"];
const KS2_METHODS: [&str; 4] = ["LessAsymptotic", "GreaterAsymptotic", "TwoSidedExact", "TwoSidedAsymptotic"];

fn close(a: f64, b: f64, tol: f64) -> bool {
    if a.is_nan() || b.is_nan() {
        return a.is_nan() && b.is_nan();
    }
    if a.is_infinite() || b.is_infinite() {
        return a == b;
    }
    (a - b).abs() <= tol * a.abs().max(b.abs()).max(1.0)
}
fn pclose(a: f64, b: f64, tol: f64) -> bool {
    if a.is_nan() || b.is_nan() {
        return a.is_nan() && b.is_nan();
    }
    (a - b).abs() <= tol
}

/// all inputs of one relation instance (unused fields stay empty)
#[derive(Clone, Default, Debug)]
pub struct Inp {
    test: String, // ttest | skew | f | chi2 | mwu | ks1 | ks2 | fisher
    a: Vec<f64>,
    b: Vec<f64>,
    groups: Vec<Vec<f64>>,
    obs: Vec<usize>,
    exp: Option<Vec<f64>>,
    ddof: Option<usize>,
    table: [u64; 4],
    mu: f64,
    dist: String, // normal | uniform | exp
    d1: f64,
    d2: f64,
    method: String,
    alt: String,
    pol: String,
    map_kind: u64, // 0: pa*x+pb; 1: x^3 ; 2: atan(x/pa) ; 3: exp(x/pa)
    pa: f64,
    pb: f64,
    seed: u64,
    nan_a: Vec<usize>,
    nan_b: Vec<usize>,
}
impl Inp {
    fn to_json(&self, rel: &str) -> Value {
        json!({"rel": rel, "test": self.test, "a": hexv(&self.a), "b": hexv(&self.b),
            "groups": self.groups.iter().map(|g| hexv(g)).collect::<Vec<_>>(), "obs": self.obs,
            "exp": self.exp.as_ref().map(|e| hexv(e)), "ddof": self.ddof, "table": self.table.to_vec(),
            "mu": hex1(self.mu), "dist": self.dist, "d1": hex1(self.d1), "d2": hex1(self.d2),
            "method": self.method, "alt": self.alt, "pol": self.pol, "map_kind": self.map_kind,
            "pa": hex1(self.pa), "pb": hex1(self.pb), "pa_dec": self.pa, "pb_dec": self.pb, "seed": self.seed, "nan_a": self.nan_a, "nan_b": self.nan_b})
    }
    fn from_json(c: &Value) -> Inp {
        let us = |v: &Value| -> Vec<usize> { v.as_array().map(|a| a.iter().map(|x| x.as_u64().unwrap_or(0) as usize).collect()).unwrap_or_default() };
        let t: Vec<u64> = c["table"].as_array().map(|a| a.iter().map(|x| x.as_u64().unwrap_or(0)).collect()).unwrap_or_default();
        Inp {
            test: c["test"].as_str().unwrap_or("").into(),
            a: unhexv(&c["a"]),
            b: unhexv(&c["b"]),
            groups: c["groups"].as_array().map(|a| a.iter().map(unhexv).collect()).unwrap_or_default(),
            obs: us(&c["obs"]),
            exp: if c["exp"].is_null() { None } else { Some(unhexv(&c["exp"])) },
            ddof: c["ddof"].as_u64().map(|x| x as usize),
            table: [t.get(0).copied().unwrap_or(0), t.get(1).copied().unwrap_or(0), t.get(2).copied().unwrap_or(0), t.get(3).copied().unwrap_or(0)],
            mu: unhex1(&c["mu"]),
            dist: c["dist"].as_str().unwrap_or("").into(),
            d1: unhex1(&c["d1"]),
            d2: unhex1(&c["d2"]),
            method: c["method"].as_str().unwrap_or("").into(),
            alt: c["alt"].as_str().unwrap_or("").into(),
            pol: c["pol"].as_str().unwrap_or("").into(),
            map_kind: c["map_kind"].as_u64().unwrap_or(0),
            pa: unhex1(&c["pa"]),
            pb: unhex1(&c["pb"]),
            seed: c["seed"].as_u64().unwrap_or(0),
            nan_a: us(&c["nan_a"]),
            nan_b: us(&c["nan_b"]),
        }
    }
    /// "function variant" label used in sites
    fn label(&self) -> String {
        match self.test.as_str() {
            "ttest" => "ttest_onesample".to_string(),
            "skew" => "skewtest".to_string(),
            "f" => "f_oneway".to_string(),
            "chi2" => "chisquare".to_string(),
            "mwu" => format!("mannwhitneyu {}", short(&self.method)),
            "ks1" => format!("ks_onesample {}", self.method),
            "ks2" => format!("ks_twosample {}", self.method),
            _ => format!("fishers_exact {}", self.alt),
        }
    }
    fn func(&self) -> &'static str {
        match self.test.as_str() {
            "ttest" => "ttest_onesample",
            "skew" => "skewtest",
            "f" => "f_oneway",
            "chi2" => "chisquare",
            "mwu" => "mannwhitneyu",
            "ks1" => "ks_onesample",
            "ks2" => "ks_twosample",
            _ => "fishers_exact",
        }
    }
}
fn short(m: &str) -> &str {
    match m {
        "AsymptoticInclContinuityCorrection" => "AsymptoticIncl",
        "AsymptoticExclContinuityCorrection" => "AsymptoticExcl",
        x => x,
    }
}

/// run the test described by `i` (for Fisher the "statistic" slot carries the odds ratio)
fn exec(i: &Inp) -> Res {
    let i = i.clone();
    guard(move || {
        let e = |s: String| s;
        match i.test.as_str() {
            "ttest" => ttest_onesample(i.a, i.mu, alt_of(&i.alt), pol_of(&i.pol)).map_err(|x| e(format!("{:?}", x))),
            "skew" => skewtest(i.a, alt_of(&i.alt), pol_of(&i.pol)).map_err(|x| e(format!("{:?}", x))),
            "f" => f_oneway(i.groups, pol_of(&i.pol)).map_err(|x| e(format!("{:?}", x))),
            "chi2" => chisquare(&i.obs, i.exp.as_deref(), i.ddof).map_err(|x| e(format!("{:?}", x))),
            "mwu" => {
                let m = match i.method.as_str() {
                    "Automatic" => MannWhitneyUMethod::Automatic,
                    "Exact" => MannWhitneyUMethod::Exact,
                    "AsymptoticInclContinuityCorrection" => MannWhitneyUMethod::AsymptoticInclContinuityCorrection,
                    _ => MannWhitneyUMethod::AsymptoticExclContinuityCorrection,
                };
                mannwhitneyu(&i.a, &i.b, m, alt_of(&i.alt)).map_err(|x| e(format!("{:?}", x)))
            }
            "ks1" => {
                let m = match i.method.as_str() {
                    "Less" => KSOneSampleAlternativeMethod::Less,
                    "Greater" => KSOneSampleAlternativeMethod::Greater,
                    "TwoSidedExact" => KSOneSampleAlternativeMethod::TwoSidedExact,
                    "TwoSidedAsymptotic" => KSOneSampleAlternativeMethod::TwoSidedAsymptotic,
                    _ => KSOneSampleAlternativeMethod::TwoSidedApproximate,
                };
                let p = pol_of(&i.pol);
                match i.dist.as_str() {
                    "uniform" => ks_onesample(i.a, &Uniform::new(i.d1, i.d2).unwrap(), m, p),
                    "exp" => ks_onesample(i.a, &Exp::new(i.d1).unwrap(), m, p),
                    _ => ks_onesample(i.a, &Normal::new(i.d1, i.d2).unwrap(), m, p),
                }
                .map_err(|x| e(format!("{:?}", x)))
            }
            "ks2" => {
                let m = match i.method.as_str() {
                    "LessAsymptotic" => KSTwoSampleAlternativeMethod::LessAsymptotic,
                    "GreaterAsymptotic" => KSTwoSampleAlternativeMethod::GreaterAsymptotic,
                    "TwoSidedExact" => KSTwoSampleAlternativeMethod::TwoSidedExact,
                    _ => KSTwoSampleAlternativeMethod::TwoSidedAsymptotic,
                };
                ks_twosample(i.a, i.b, m, pol_of(&i.pol)).map_err(|x| e(format!("{:?}", x)))
            }
            _ => fishers_exact_with_odds_ratio(&i.table, alt_of(&i.alt)).map_err(|x| e(format!("{:?}", x))),
        }
    })
}

/// coarse class of degenerate-but-admissible inputs (part of the site of range failures)
fn degenerate_tag(i: &Inp) -> &'static str {
    let constant = |v: &[f64]| {
        let w: Vec<f64> = v.iter().copied().filter(|x| !x.is_nan()).collect();
        !w.is_empty() && w.iter().all(|x| *x == w[0])
    };
    match i.test.as_str() {
        "ttest" | "skew" if constant(&i.a) => " @constant sample",
        "skew" if {
            // sample skewness exactly or numerically zero: statrs replaces Y = 0 by Y = 1 (scipy compatibility)
            let w: Vec<f64> = i.a.iter().copied().filter(|x| !x.is_nan()).collect();
            let n = w.len() as f64;
            let m = w.iter().sum::<f64>() / n;
            let m2 = w.iter().map(|x| (x - m).powi(2)).sum::<f64>() / n;
            let m3 = w.iter().map(|x| (x - m).powi(3)).sum::<f64>() / n;
            (m3 / m2.powf(1.5)).abs() < 1e-12
        } =>
        {
            " @sample skewness == 0 (Y=0 replaced by Y=1)"
        }
        "mwu" => {
            let all: Vec<f64> = i.a.iter().chain(i.b.iter()).copied().collect();
            if constant(&all) {
                " @all observations equal"
            } else {
                ""
            }
        }
        "ks2" if ks2_d_is_zero(&i.a, &i.b) => " @D=0 (identical empirical cdfs)",
        "chi2" => {
            let tot: usize = i.obs.iter().sum();
            if tot == 0 || i.exp.as_ref().map(|e| e.iter().any(|x| *x == 0.0)).unwrap_or(false) {
                " @zero expected count"
            } else {
                ""
            }
        }
        "fisher" => {
            let t = i.table;
            if t.iter().any(|x| *x >= (1 << 31)) {
                " [ext] @cells>=2^31"
            } else if t[0] + t[1] == 0 || t[2] + t[3] == 0 || t[0] + t[2] == 0 || t[1] + t[3] == 0 {
                " @empty margin"
            } else if binom_big(t.iter().sum(), t[0] + t[2]).bits() > 1023 || binom_big(t.iter().sum(), t[0] + t[1]).bits() > 1023 {
                " @C(N,a+c) or C(N,a+b) > f64::MAX"
            } else {
                ""
            }
        }
        _ => "",
    }
}
fn ks2_d_is_zero(a: &[f64], b: &[f64]) -> bool {
    let a: Vec<f64> = a.iter().copied().filter(|x| !x.is_nan()).collect();
    let b: Vec<f64> = b.iter().copied().filter(|x| !x.is_nan()).collect();
    if a.is_empty() || b.is_empty() {
        return false;
    }
    let mut pts: Vec<f64> = a.iter().chain(b.iter()).copied().collect();
    pts.sort_by(|x, y| x.partial_cmp(y).unwrap());
    pts.dedup();
    pts.iter().all(|v| {
        let ca = a.iter().filter(|x| **x <= *v).count();
        let cb = b.iter().filter(|x| **x <= *v).count();
        ca * b.len() == cb * a.len()
    })
}
/// exec + the universal clauses: terminates, does not panic, p in [0,1]
fn exec_checked(i: &Inp, v: &mut Vec<Viol>) -> Res {
    let r = exec(i);
    let mut tag = degenerate_tag(i).to_string();
    if i.test == "ks1" {
        if let Out::Val(Ok((s, _))) = &r {
            if *s == 0.0 {
                tag.push_str(" @D=0");
            }
        }
        let n = i.a.iter().filter(|x| !x.is_nan()).count();
        if i.method == "TwoSidedExact" && n >= 144 {
            tag.push_str(" @n>=144 (n^n > f64::MAX)");
        }
    }
    let mut push = |site: String, what: &str, req: &str| {
        if !v.iter().any(|x| x.0 == site) {
            v.push((site, what.to_string(), format!("{} on {}", show(&r), brief(i)), req.to_string()));
        }
    };
    match &r {
        Out::Hang if i.test == "mwu" && mwu_enum_cost(i) > 1e10 => push(format!("{} hang @exact enumeration of C(n1+n2,min(n1,n2)) > 1e10 rank subsets", i.label()), "call on admissible data did not return within 10 s", "every call terminates"),
        Out::Hang => push(format!("{} hang{}", i.label(), tag), "call on admissible data did not return within 10 s", "every call terminates"),
        Out::Panic => push(format!("{} panic{}", i.label(), tag), "call on admissible data panicked", "a result"),
        Out::Val(Ok((_, p))) => {
            // NaN inputs under Propogate legitimately give NaN
            let has_nan = i.a.iter().chain(i.b.iter()).chain(i.groups.iter().flatten()).any(|x| x.is_nan());
            if !(has_nan && i.pol == "Propogate") {
                if p.is_nan() {
                    push(format!("{} p NaN{}", i.label(), tag), "p-value is NaN", "0 <= p <= 1");
                } else if *p < 0.0 {
                    push(format!("{} p < 0{}", i.label(), tag), "p-value below 0", "0 <= p <= 1");
                } else if *p > 1.0 {
                    push(format!("{} p > 1{}", i.label(), tag), "p-value above 1", "0 <= p <= 1");
                }
            }
        }
        Out::Val(Err(_)) => {}
    }
    r
}
fn brief(i: &Inp) -> String {
    let f = |v: &[f64]| {
        if v.len() <= 12 {
            format!("{:?}", v)
        } else {
            format!("[{} values: {:?}..]", v.len(), &v[..6])
        }
    };
    match i.test.as_str() {
        "ttest" => format!("a={} popmean={:e} pol={}", f(&i.a), i.mu, i.pol),
        "skew" => format!("a={} pol={}", f(&i.a), i.pol),
        "f" => format!("groups={} pol={}", i.groups.iter().map(|g| f(g)).collect::<Vec<_>>().join(","), i.pol),
        "chi2" => format!("obs={:?} exp={:?} ddof={:?}", if i.obs.len() <= 12 { &i.obs[..] } else { &i.obs[..12] }, i.exp.as_ref().map(|e| f(e)), i.ddof),
        "mwu" => format!("x={} y={}", f(&i.a), f(&i.b)),
        "ks1" => format!("data={} dist={}({:e},{:e}) pol={}", f(&i.a), i.dist, i.d1, i.d2, i.pol),
        "ks2" => format!("a={} b={} pol={}", f(&i.a), f(&i.b), i.pol),
        _ => format!("table={:?}", i.table),
    }
}
fn ok2(r: &Res) -> Option<(f64, f64)> {
    match r {
        Out::Val(Ok(x)) => Some(*x),
        _ => None,
    }
}
fn binom_big(n: u64, k: u64) -> BigInt {
    if k > n {
        return BigInt::zero();
    }
    let k = k.min(n - k);
    let mut r = BigInt::one();
    for i in 0..k {
        r = r * BigInt::from(n - i) / BigInt::from(i + 1);
    }
    r
}
fn ratio_f64(num: &BigInt, den: &BigInt) -> f64 {
    if num.is_zero() {
        return 0.0;
    }
    let shift = 80i64 + den.bits() as i64 - num.bits() as i64;
    let q = if shift >= 0 { (num << (shift as usize)) / den } else { num / (den << ((-shift) as usize)) };
    let mut v = q.to_f64().unwrap_or(f64::NAN);
    let mut s = -shift;
    while s > 0 {
        let st = s.min(1000);
        v *= 2f64.powi(st as i32);
        s -= st;
    }
    while s < 0 {
        let st = (-s).min(1000);
        v *= 2f64.powi(-(st as i32));
        s += st;
    }
    v
}
/// own erfc (series below 2, continued fraction above) for the continuity-corrected mass
fn erfc(x: f64) -> f64 {
    if x < 0.0 {
        return 2.0 - erfc(-x);
    }
    if x < 2.0 {
        let (mut term, mut sum, x2) = (x, x, x * x);
        for n in 1..200 {
            term *= -x2 / n as f64;
            let t = term / (2 * n + 1) as f64;
            sum += t;
            if t.abs() < 1e-18 {
                break;
            }
        }
        1.0 - 2.0 / std::f64::consts::PI.sqrt() * sum
    } else if x > 40.0 {
        0.0
    } else {
        let mut f = x;
        for k in (1..=400).rev() {
            f = x + (k as f64 / 2.0) / f;
        }
        (-x * x).exp() / std::f64::consts::PI.sqrt() / f
    }
}
fn norm_cdf(z: f64) -> f64 {
    0.5 * erfc(-z / std::f64::consts::SQRT_2)
}

// ---------------------------------------------------------------- helpers on data
fn permuted(v: &[f64], seed: u64) -> Vec<f64> {
    let mut r = Sm::new(seed);
    let mut w = v.to_vec();
    for i in (1..w.len()).rev() {
        let j = r.below(i as u64 + 1) as usize;
        w.swap(i, j);
    }
    w
}
fn with_nans(v: &[f64], pos: &[usize]) -> Vec<f64> {
    let mut w = v.to_vec();
    let mut p = pos.to_vec();
    p.sort();
    for q in p {
        let q = q.min(w.len());
        w.insert(q, f64::NAN);
    }
    w
}
fn mean_sd(v: &[f64]) -> (f64, f64) {
    let n = v.len() as f64;
    let m = v.iter().sum::<f64>() / n;
    let s = (v.iter().map(|x| (x - m) * (x - m)).sum::<f64>() / n).sqrt();
    (m, s)
}
fn well_conditioned(v: &[f64]) -> bool {
    let (m, s) = mean_sd(v);
    s > 0.0 && m.abs() / s <= 1e3 && v.iter().all(|x| x.is_finite())
}
fn apply_map(kind: u64, pa: f64, pb: f64, x: f64) -> f64 {
    match kind {
        0 => pa * x + pb,
        1 => x * x * x,
        2 => (x / pa).atan(),
        _ => (x / pa).exp(),
    }
}
/// is x -> map(x) strictly monotone (increasing, or decreasing for kind 0 with pa < 0) on the distinct values of `all`, in f64?
fn strictly_monotone_on(kind: u64, pa: f64, pb: f64, all: &[f64]) -> bool {
    let mut s = all.to_vec();
    s.sort_by(|a, b| a.partial_cmp(b).unwrap());
    s.dedup();
    let dec = kind == 0 && pa < 0.0;
    let m: Vec<f64> = s.iter().map(|x| apply_map(kind, pa, pb, *x)).collect();
    m.iter().all(|x| x.is_finite()) && m.windows(2).all(|w| if dec { w[0] > w[1] } else { w[0] < w[1] })
}
fn cmp_pair(rel: &str, base: &Inp, r0: &Res, r1: &Res, want_stat: Option<f64>, tol: f64, what: &str, cls: &str, v: &mut Vec<Viol>) {
    // both calls must agree on Ok/Err; for Ok: statistic (r1) == want_stat (default: r0's) and p equal
    match (r0, r1) {
        (Out::Val(Ok((s0, p0))), Out::Val(Ok((s1, p1)))) => {
            let cls = &format!("{}{}{}", cls, if base.test == "ks1" && (*s0 == 0.0 || *s1 == 0.0) { " @D=0" } else { "" }, if base.test == "skew" { degenerate_tag(base) } else { "" });
            let ws = want_stat.unwrap_or(*s0);
            if !close(*s1, ws, tol) {
                v.push((format!("{} statistic differs [{}]{}", base.label(), rel, cls), format!("statistic is not {} (tolerance {:e} relative, floor 1)", what, tol), format!("{} vs {}", show(r0), show(r1)), format!("statistic' = {}", fx(ws))));
            }
            if !pclose(*p0, *p1, tol) {
                v.push((format!("{} p differs [{}]{}", base.label(), rel, cls), format!("p-value is not {} (tolerance {:e})", what, tol), format!("{} vs {}", show(r0), show(r1)), format!("p' = {}", fx(*p0))));
            }
        }
        (Out::Val(Err(e0)), Out::Val(Err(e1))) if e0 == e1 => {}
        (Out::Hang, _) | (_, Out::Hang) | (Out::Panic, _) | (_, Out::Panic) => {} // reported by exec_checked
        _ => v.push((format!("{} Ok/Err differs [{}]{}", base.label(), rel, cls), format!("one call succeeds and the other fails: not {}", what), format!("{} vs {}", show(r0), show(r1)), "same outcome".into())),
    }
}

// ---------------------------------------------------------------- relations
/// alternatives cohere: t, skewness, Mann–Whitney (exact and asymptotic), Fisher
fn rel_alts(i: &Inp) -> Vec<Viol> {
    let mut v = vec![];
    let mut res = vec![];
    for alt in ALTS {
        let mut j = i.clone();
        j.alt = alt.to_string();
        res.push(exec_checked(&j, &mut v));
    }
    let (l, g, t) = match (ok2(&res[0]), ok2(&res[1]), ok2(&res[2])) {
        (Some(l), Some(g), Some(t)) => (l, g, t),
        _ => return v,
    };
    let lab = format!("{}{}", i.func(), if i.test == "mwu" { format!(" {}", short(&i.method)) } else { String::new() });
    let obs = format!("Less {} Greater {} TwoSided {} on {}", show(&res[0]), show(&res[1]), show(&res[2]), brief(i));
    // the statistic does not depend on the alternative
    if !(close(l.0, g.0, EXACT_TOL) && close(l.0, t.0, EXACT_TOL)) {
        v.push((format!("{} statistic depends on the alternative", lab), "statistic differs between alternatives".into(), obs.clone(), "one statistic".into()));
    }
    if l.1.is_nan() || g.1.is_nan() || t.1.is_nan() {
        return v; // NaN p-values are reported by the range clause
    }
    // null mass of the observed value
    let mass: Option<f64> = match i.test.as_str() {
        "ttest" | "skew" => Some(0.0),
        "fisher" => {
            let tb = i.table;
            let (n1, n2, n) = (tb[0] + tb[1], tb[2] + tb[3], tb[0] + tb[2]);
            if n1 == 0 || n2 == 0 || n == 0 || tb[1] + tb[3] == 0 {
                Some(1.0)
            } else {
                Some(ratio_f64(&(binom_big(n1, tb[0]) * binom_big(n2, tb[2])), &binom_big(n1 + n2, n)))
            }
        }
        "mwu" => {
            let (n1, n2) = (i.a.len(), i.b.len());
            let mut all: Vec<f64> = i.a.iter().chain(i.b.iter()).copied().collect();
            all.sort_by(|a, b| a.partial_cmp(b).unwrap());
            let ties = all.windows(2).any(|w| w[0] == w[1]);
            let asym_cc = |cc: bool| -> Option<f64> {
                if !cc {
                    return Some(0.0);
                }
                // continuity-corrected mass  Phi((u-mu+.5)/s) - Phi((u-mu-.5)/s)
                let mut tie = 0.0;
                let mut k = 0;
                while k < all.len() {
                    let mut j = k;
                    while j < all.len() && all[j] == all[k] {
                        j += 1;
                    }
                    let c = (j - k) as f64;
                    tie += c * c * c - c;
                    k = j;
                }
                let (a, b) = (n1 as f64, n2 as f64);
                let n = a + b;
                let s = (a * b / 12.0 * ((n + 1.0) - tie / (n * (n - 1.0)))).sqrt();
                if !(s > 0.0) {
                    return None;
                }
                let d = l.0 - a * b / 2.0;
                Some(norm_cdf((d + 0.5) / s) - norm_cdf((d - 0.5) / s))
            };
            let exact = || -> Option<f64> {
                if ties || n1 + n2 > 16 {
                    return None;
                }
                // P(U = u1) by enumeration of all rank subsets
                let n = n1 + n2;
                let (mut hit, mut tot) = (0u64, 0u64);
                for mask in 0u32..(1u32 << n) {
                    if mask.count_ones() as usize != n1 {
                        continue;
                    }
                    let r1: usize = (0..n).filter(|b| mask >> b & 1 == 1).map(|b| b + 1).sum();
                    tot += 1;
                    if (r1 - n1 * (n1 + 1) / 2) as f64 == l.0 {
                        hit += 1;
                    }
                }
                Some(hit as f64 / tot as f64)
            };
            match i.method.as_str() {
                "Exact" => exact(),
                "AsymptoticInclContinuityCorrection" => asym_cc(true),
                "AsymptoticExclContinuityCorrection" => asym_cc(false),
                _ => {
                    if (n1 > 8 && n2 > 8) || ties {
                        asym_cc(true)
                    } else {
                        exact()
                    }
                }
            }
        }
        _ => None,
    };
    if let Some(m) = mass {
        if !pclose(l.1 + g.1, 1.0 + m, EXACT_TOL) {
            v.push((format!("{} p_less + p_greater != 1 + null mass{}", lab, degenerate_tag(i)), "one-sided p-values do not add up to 1 plus the null (or continuity-corrected) mass of the observed value (tolerance 1e-9)".into(), obs.clone(), format!("p_less + p_greater = {}", fx(1.0 + m))));
        }
    }
    if i.test != "fisher" {
        let want = (2.0 * l.1.min(g.1)).min(1.0);
        if !pclose(t.1, want, EXACT_TOL) {
            v.push((format!("{} two-sided != min(1, 2 min(p_less, p_greater)){}", lab, degenerate_tag(i)), "two-sided p-value is not twice the smaller one-sided value capped at 1 (tolerance 1e-9)".into(), obs, format!("p_two = {}", fx(want))));
        }
    }
    v
}

/// affine map x -> pa*x + pb (pa != 0): t, skew (sign flip swaps Less/Greater), F, one-sample KS with the image distribution
fn rel_affine(i: &Inp) -> Vec<Viol> {
    let mut v = vec![];
    let f = |x: f64| i.pa * x + i.pb;
    let mut j = i.clone();
    j.a = i.a.iter().map(|x| f(*x)).collect();
    j.groups = i.groups.iter().map(|g| g.iter().map(|x| f(*x)).collect()).collect();
    let flat0: Vec<f64> = if i.test == "f" { i.groups.iter().flatten().copied().collect() } else { i.a.clone() };
    let flat1: Vec<f64> = if i.test == "f" { j.groups.iter().flatten().copied().collect() } else { j.a.clone() };
    if i.test != "ks1" && !(well_conditioned(&flat0) && well_conditioned(&flat1)) {
        return v; // outside the stated conditioning
    }
    let neg = i.pa < 0.0;
    let mut sign = 1.0;
    match i.test.as_str() {
        "ttest" => {
            j.mu = f(i.mu);
            if neg {
                j.alt = swap_alt(&i.alt).into();
                sign = -1.0;
            }
        }
        "skew" => {
            if neg {
                j.alt = swap_alt(&i.alt).into();
                sign = -1.0;
            }
        }
        "f" => {}
        "ks1" => {
            // image of the hypothesised distribution under the map; reflection swaps Less and Greater
            match i.dist.as_str() {
                "normal" => {
                    j.d1 = f(i.d1);
                    j.d2 = i.pa.abs() * i.d2;
                }
                "uniform" => {
                    if neg {
                        j.d1 = f(i.d2);
                        j.d2 = f(i.d1);
                    } else {
                        j.d1 = f(i.d1);
                        j.d2 = f(i.d2);
                    }
                }
                _ => {
                    if neg || i.pb != 0.0 {
                        return v;
                    }
                    j.d1 = i.d1 / i.pa;
                }
            }
            if neg {
                j.method = match i.method.as_str() {
                    "Less" => "Greater".into(),
                    "Greater" => "Less".into(),
                    m => m.into(),
                };
            }
            if !(j.d2.is_finite() && j.d1.is_finite()) || (i.dist != "exp" && !(j.d2 > if i.dist == "uniform" { j.d1 } else { 0.0 })) {
                return v;
            }
            // ties must be preserved exactly (the exact method rejects ties)
            if !strictly_monotone_on(0, i.pa, i.pb, &i.a) {
                return v;
            }
        }
        _ => return v,
    }
    let r0 = exec_checked(i, &mut v);
    let r1 = exec_checked(&j, &mut v);
    let want = ok2(&r0).map(|x| sign * x.0);
    let cls = if i.test == "ks1" && i.method == "TwoSidedExact" { " @exact" } else { "" };
    cmp_pair("affine", i, &r0, &r1, want, AFFINE_TOL, if neg { "equivariant under x -> a*x+b, a<0 (statistic' = sign*statistic, Less<->Greater)" } else { "invariant under x -> a*x+b, a>0" }, cls, &mut v);
    v
}

/// strictly monotone map of both samples: Mann–Whitney and two-sample KS (decreasing affine map swaps Less/Greater)
fn rel_monotone(i: &Inp) -> Vec<Viol> {
    let mut v = vec![];
    let all: Vec<f64> = i.a.iter().chain(i.b.iter()).copied().collect();
    if !strictly_monotone_on(i.map_kind, i.pa, i.pb, &all) {
        return v;
    }
    let dec = i.map_kind == 0 && i.pa < 0.0;
    let mut j = i.clone();
    j.a = i.a.iter().map(|x| apply_map(i.map_kind, i.pa, i.pb, *x)).collect();
    j.b = i.b.iter().map(|x| apply_map(i.map_kind, i.pa, i.pb, *x)).collect();
    if i.test == "ks2" && i.method == "TwoSidedAsymptotic" && ks2_d_is_zero(&i.a, &i.b) {
        return v; // non-terminating call: rel_terminates
    }
    if dec {
        if i.test == "mwu" {
            j.alt = swap_alt(&i.alt).into();
        } else {
            j.method = match i.method.as_str() {
                "LessAsymptotic" => "GreaterAsymptotic".into(),
                "GreaterAsymptotic" => "LessAsymptotic".into(),
                m => m.into(),
            };
        }
    }
    let r0 = exec_checked(i, &mut v);
    let r1 = exec_checked(&j, &mut v);
    let want = ok2(&r0).map(|x| if dec && i.test == "mwu" { (i.a.len() * i.b.len()) as f64 - x.0 } else { x.0 });
    cmp_pair("monotone", i, &r0, &r1, want, EXACT_TOL, if dec { "equivariant under a strictly decreasing map (Less<->Greater, U1 -> n1 n2 - U1)" } else { "invariant under a strictly increasing map" }, "", &mut v);
    v
}

/// swapping the two samples (Mann–Whitney, two-sample KS); transposing / swapping the rows of the Fisher table
fn rel_swap(i: &Inp) -> Vec<Viol> {
    let mut v = vec![];
    if i.test == "ks2" && i.method == "TwoSidedAsymptotic" && ks2_d_is_zero(&i.a, &i.b) {
        return v;
    }
    let r0 = exec_checked(i, &mut v);
    let mut j = i.clone();
    match i.test.as_str() {
        "mwu" => {
            j.a = i.b.clone();
            j.b = i.a.clone();
            j.alt = swap_alt(&i.alt).into();
            let r1 = exec_checked(&j, &mut v);
            let want = ok2(&r0).map(|x| (i.a.len() * i.b.len()) as f64 - x.0);
            let cls = if i.a.len() == i.b.len() { " @n1=n2" } else { "" };
            cmp_pair("swap", i, &r0, &r1, want, EXACT_TOL, "equivariant under swapping the samples (U1 -> n1 n2 - U1, Less<->Greater)", cls, &mut v);
        }
        "ks2" => {
            j.a = i.b.clone();
            j.b = i.a.clone();
            j.method = match i.method.as_str() {
                "LessAsymptotic" => "GreaterAsymptotic".into(),
                "GreaterAsymptotic" => "LessAsymptotic".into(),
                m => m.into(),
            };
            let r1 = exec_checked(&j, &mut v);
            cmp_pair("swap", i, &r0, &r1, None, EXACT_TOL, "invariant under swapping the samples (Less<->Greater)", "", &mut v);
        }
        _ => {
            let t = i.table;
            j.table = [t[0], t[2], t[1], t[3]];
            let r1 = exec_checked(&j, &mut v);
            cmp_pair("transpose", i, &r0, &r1, None, EXACT_TOL, "invariant under transposing the table", degenerate_tag(i), &mut v);
            let mut k = i.clone();
            k.table = [t[2], t[3], t[0], t[1]];
            k.alt = swap_alt(&i.alt).into();
            let r2 = exec_checked(&k, &mut v);
            // odds ratio -> 1/odds ratio
            let want = ok2(&r0).map(|x| 1.0 / x.0);
            cmp_pair("rowswap", i, &r0, &r2, want, EXACT_TOL, "equivariant under swapping the rows (odds ratio -> 1/odds ratio, Less<->Greater)", degenerate_tag(i), &mut v);
        }
    }
    v
}

/// permuting observations within samples, groups (f_oneway), categories (chisquare)
fn rel_perm(i: &Inp) -> Vec<Viol> {
    let mut v = vec![];
    if i.test == "ks2" && i.method == "TwoSidedAsymptotic" && ks2_d_is_zero(&i.a, &i.b) {
        return v;
    }
    let mut j = i.clone();
    j.a = permuted(&i.a, i.seed);
    j.b = permuted(&i.b, i.seed ^ 0xabc);
    let mut cls = String::new();
    if i.test == "f" {
        let k = i.groups.len();
        let order = permuted(&(0..k).map(|x| x as f64).collect::<Vec<_>>(), i.seed ^ 0x77);
        j.groups = order.iter().enumerate().map(|(n, g)| permuted(&i.groups[*g as usize], i.seed + n as u64)).collect();
        let flat: Vec<f64> = i.groups.iter().flatten().copied().collect();
        let (m, s) = mean_sd(&flat);
        let ratio = m.abs() / s;
        cls = if ratio > 100.0 { " @|mean|/sd in (1e2,1e3]".into() } else if ratio > 10.0 { " @|mean|/sd in (10,1e2]".into() } else { String::new() };
    }
    if i.test == "chi2" {
        let n = i.obs.len();
        let order = permuted(&(0..n).map(|x| x as f64).collect::<Vec<_>>(), i.seed);
        j.obs = order.iter().map(|k| i.obs[*k as usize]).collect();
        j.exp = i.exp.as_ref().map(|e| order.iter().map(|k| e[*k as usize]).collect());
    }
    let r0 = exec_checked(i, &mut v);
    let r1 = exec_checked(&j, &mut v);
    cmp_pair("perm", i, &r0, &r1, None, EXACT_TOL, "invariant under permuting observations / groups / categories", &cls, &mut v);
    v
}

/// NaN policies: on NaN-free data all policies agree; with NaNs: Propogate -> (NaN, NaN), Error -> Err, Emit == NaN-free result
fn rel_nan(i: &Inp) -> Vec<Viol> {
    let mut v = vec![];
    if i.test == "ks2" && i.method == "TwoSidedAsymptotic" && ks2_d_is_zero(&i.a, &i.b) {
        return v;
    }
    let mut clean = i.clone();
    clean.pol = "Error".into();
    let r0 = exec_checked(&clean, &mut v);
    for pol in ["Propogate", "Emit"] {
        let mut c = i.clone();
        c.pol = pol.into();
        let r = exec_checked(&c, &mut v);
        cmp_pair("nan-free", &c, &r0, &r, None, EXACT_TOL, "independent of the NaNPolicy on NaN-free data", "", &mut v);
    }
    if i.nan_a.is_empty() && i.nan_b.is_empty() {
        return v;
    }
    let mut d = i.clone();
    if i.test == "f" {
        let k = i.groups.len();
        for p in &i.nan_a {
            let g = p % k;
            let at = (p / k).min(d.groups[g].len());
            d.groups[g].insert(at, f64::NAN);
        }
    } else {
        d.a = with_nans(&i.a, &i.nan_a);
        d.b = with_nans(&i.b, &i.nan_b);
    }
    let lab = i.label();
    let cls = if i.test == "ks2" { if i.nan_a.is_empty() { " @NaN in 2nd sample" } else if i.nan_b.is_empty() { " @NaN in 1st sample" } else { " @NaN in both samples" } } else { "" };
    for pol in POLS {
        let mut c = d.clone();
        c.pol = pol.into();
        let r = exec_checked(&c, &mut v);
        match pol {
            "Propogate" => {
                let ok = matches!(&r, Out::Val(Ok((s, p))) if s.is_nan() && p.is_nan());
                if !ok && !matches!(r, Out::Hang | Out::Panic) {
                    v.push((format!("{} NaNPolicy::Propogate does not yield (NaN, NaN){}", lab, cls), "data containing NaN under Propogate".into(), format!("{} on {}", show(&r), brief(&c)), "Ok((NaN, NaN))".into()));
                }
            }
            "Error" => {
                let ok = matches!(&r, Out::Val(Err(e)) if e.contains("NaN"));
                if !ok && !matches!(r, Out::Hang | Out::Panic) {
                    v.push((format!("{} NaNPolicy::Error does not yield Err(SampleContainsNaN){}", lab, cls), "data containing NaN under Error".into(), format!("{} on {}", show(&r), brief(&c)), "Err(SampleContainsNaN)".into()));
                }
            }
            _ => cmp_pair("emit", &c, &r0, &r, None, EXACT_TOL, "equal to the result on the NaN-free data (NaNPolicy::Emit)", cls, &mut v),
        }
    }
    v
}

/// a single call: terminates, no panic, p in [0,1]
fn rel_range(i: &Inp) -> Vec<Viol> {
    let mut v = vec![];
    let _ = exec_checked(i, &mut v);
    v
}

pub fn check(rel: &str, i: &Inp) -> Vec<Viol> {
    match rel {
        "alts" => rel_alts(i),
        "affine" => rel_affine(i),
        "monotone" => rel_monotone(i),
        "swap" => rel_swap(i),
        "perm" => rel_perm(i),
        "nan" => rel_nan(i),
        _ => rel_range(i),
    }
}

// ---------------------------------------------------------------- generators
fn zscore(cx: &mut Ctx, shape: u64) -> f64 {
    match shape {
        0 => (0..12).map(|_| cx.r.unit()).sum::<f64>() - 6.0,
        1 => -(1.0 - cx.r.unit()).ln() - 1.0,
        2 => (1.0 - cx.r.unit()).ln() + 1.0,
        _ => cx.r.range(-1.7, 1.7),
    }
}
/// non-constant sample with |mean|/sd <= 1e3: continuous, heavily tied, or small integers
fn gen_sample(cx: &mut Ctx, n: usize) -> Vec<f64> {
    loop {
        let style = cx.r.below(5);
        let mut a: Vec<f64> = match style {
            0 | 1 | 2 => {
                let sd = cx.r.log_range(1e-3, 1e3);
                let ratio = if cx.r.below(3) == 0 { 0.0 } else { cx.r.log_range(1e-3, 800.0) * if cx.r.below(2) == 0 { -1.0 } else { 1.0 } };
                let shape = cx.r.below(4);
                (0..n).map(|_| ratio * sd + sd * zscore(cx, shape)).collect()
            }
            3 => {
                let k = 2 + cx.r.below(4);
                let step = *cx.r.pick(&[1.0, 0.5, 0.1, 3.0, 1e-3, 250.0]);
                let base = *cx.r.pick(&[0.0, 0.0, 10.0, -7.0, 1000.0]);
                (0..n).map(|_| base + step * cx.r.below(k) as f64).collect()
            }
            _ => (0..n).map(|_| cx.r.below(10) as f64).collect(),
        };
        if n >= 2 && a.iter().all(|x| *x == a[0]) {
            a[0] += 1.0;
        }
        if n < 2 || well_conditioned(&a) {
            return a;
        }
    }
}
fn gen_size(cx: &mut Ctx, lo: usize, hi: usize) -> usize {
    let cap = match cx.r.below(4) {
        0 => 8,
        1 | 2 => 40,
        _ => hi,
    }
    .min(hi)
    .max(lo);
    lo + cx.r.below((cap - lo + 1) as u64) as usize
}
/// (pa, pb) with pa in +-[1e-3,1e3], pb in [-1e3,1e3] such that the image of `v` keeps |mean|/sd <= 1e3
fn gen_affine(cx: &mut Ctx, v: &[f64]) -> (f64, f64) {
    let pa = cx.r.log_range(1e-3, 1e3) * if cx.r.below(2) == 0 { -1.0 } else { 1.0 };
    let mut pb = match cx.r.below(3) {
        0 => cx.r.range(-1e3, 1e3),
        1 => cx.r.log_range(1e-3, 1e3) * if cx.r.below(2) == 0 { -1.0 } else { 1.0 },
        _ => 0.0,
    };
    for _ in 0..40 {
        let w: Vec<f64> = v.iter().map(|x| pa * x + pb).collect();
        if well_conditioned(&w) {
            break;
        }
        pb *= 0.25;
    }
    (pa, pb)
}
fn gen_nanpos(cx: &mut Ctx, n: usize) -> Vec<usize> {
    let k = 1 + cx.r.below(3) as usize;
    let mut p: Vec<usize> = (0..k)
        .map(|j| match cx.r.below(3) {
            0 => 0,
            1 => n + j,
            _ => cx.r.below(n as u64 + 1) as usize,
        })
        .collect();
    p.sort();
    p
}
fn binom_f(n: usize, k: usize) -> f64 {
    let k = k.min(n - k);
    (0..k).fold(1.0, |a, i| a * (n - i) as f64 / (i + 1) as f64)
}

struct St {
    ks2_d0_left: u32,
    mwu_big_exact_left: u32,
}
fn emit(cx: &mut Ctx, rel: &str, i: &Inp) {
    cx.evals += 1;
    for (site, what, obs, req) in check(rel, i) {
        cx.violation(&site, &what, i.to_json(rel), obs, &req);
    }
}
/// is this Mann–Whitney configuration going to enumerate more than 2e6 rank subsets?
fn mwu_enum_cost(i: &Inp) -> f64 {
    let (n1, n2) = (i.a.len(), i.b.len());
    let mut all: Vec<f64> = i.a.iter().chain(i.b.iter()).copied().collect();
    all.sort_by(|a, b| a.partial_cmp(b).unwrap());
    let ties = all.windows(2).any(|w| w[0] == w[1]);
    let exact = match i.method.as_str() {
        "Exact" => !ties,
        "Automatic" => !((n1 > 8 && n2 > 8) || ties),
        _ => false,
    };
    if exact {
        binom_f(n1 + n2, n1.min(n2))
    } else {
        0.0
    }
}
fn two_sample_suite(cx: &mut Ctx, st: &mut St, x: &[f64], y: &[f64], full: bool) {
    let all: Vec<f64> = x.iter().chain(y.iter()).copied().collect();
    let (_, sd) = mean_sd(&all);
    let sc = if sd > 0.0 { sd } else { 1.0 };
    // Mann–Whitney
    for m in MWU_METHODS {
        let mut i = Inp { test: "mwu".into(), a: x.to_vec(), b: y.to_vec(), method: m.into(), alt: "Less".into(), ..Default::default() };
        let cost = mwu_enum_cost(&i);
        if cost > if cx.thorough { 1e6 } else { 2e5 } {
            // exhaustive enumeration of C(n1+n2, min) subsets: evaluated only a capped number of times per run
            if cost > 1e10 && st.mwu_big_exact_left > 0 && m == "Automatic" {
                st.mwu_big_exact_left -= 1;
                emit(cx, "range", &i);
            }
            continue;
        }
        emit(cx, "alts", &i);
        for alt in ALTS {
            i.alt = alt.into();
            if full || cx.r.below(3) == 0 {
                i.map_kind = cx.r.below(4);
                i.pa = match i.map_kind {
                    0 => cx.r.log_range(1e-3, 1e3) * if cx.r.below(2) == 0 { -1.0 } else { 1.0 },
                    1 => 1.0,
                    _ => sc * cx.r.log_range(0.3, 30.0),
                };
                i.pb = if i.map_kind == 0 { cx.r.range(-1e3, 1e3) } else { 0.0 };
                emit(cx, "monotone", &i);
                emit(cx, "swap", &i);
                i.seed = cx.r.next();
                emit(cx, "perm", &i);
            }
        }
    }
    // two-sample KS
    for m in KS2_METHODS {
        let mut i = Inp { test: "ks2".into(), a: x.to_vec(), b: y.to_vec(), method: m.into(), pol: "Error".into(), ..Default::default() };
        if m == "TwoSidedAsymptotic" && ks2_d_is_zero(x, y) {
            if st.ks2_d0_left > 0 {
                st.ks2_d0_left -= 1;
                emit(cx, "range", &i);
            }
            continue;
        }
        i.map_kind = cx.r.below(4);
        i.pa = match i.map_kind {
            0 => cx.r.log_range(1e-3, 1e3) * if cx.r.below(2) == 0 { -1.0 } else { 1.0 },
            1 => 1.0,
            _ => sc * cx.r.log_range(0.3, 30.0),
        };
        i.pb = if i.map_kind == 0 { cx.r.range(-1e3, 1e3) } else { 0.0 };
        emit(cx, "monotone", &i);
        emit(cx, "swap", &i);
        i.seed = cx.r.next();
        emit(cx, "perm", &i);
        match cx.r.below(3) {
            0 => i.nan_a = gen_nanpos(cx, x.len()),
            1 => i.nan_b = gen_nanpos(cx, y.len()),
            _ => {
                i.nan_a = gen_nanpos(cx, x.len());
                i.nan_b = gen_nanpos(cx, y.len());
            }
        }
        emit(cx, "nan", &i);
    }
}
fn one_sample_ks_suite(cx: &mut Ctx, data: &[f64], dist: &str, d1: f64, d2: f64) {
    for m in KS1_METHODS {
        // the exact method multiplies (2 ceil(nD) - 1)-square matrices: for large n only one relation, and in
        // the quick tier n <= 80 (the documented limit n < 170 is exercised by a fixed well-fitting sample)
        let only = if m == "TwoSidedExact" && data.len() > 50 {
            if !cx.thorough && data.len() > 80 {
                continue;
            }
            Some(cx.r.below(3))
        } else {
            None
        };
        let mut i = Inp { test: "ks1".into(), a: data.to_vec(), dist: dist.into(), d1, d2, method: m.into(), pol: "Error".into(), ..Default::default() };
        let (pa, pb) = gen_affine(cx, if data.len() >= 2 && well_conditioned(data) { data } else { &[0.0, 1.0] });
        i.pa = pa;
        i.pb = pb;
        if only.map(|k| k == 0).unwrap_or(true) {
            emit(cx, "affine", &i);
        }
        i.seed = cx.r.next();
        if only.map(|k| k == 1).unwrap_or(true) {
            emit(cx, "perm", &i);
        }
        i.nan_a = gen_nanpos(cx, data.len());
        if only.map(|k| k == 2).unwrap_or(true) {
            emit(cx, "nan", &i);
        }
    }
}
fn fisher_suite(cx: &mut Ctx, t: [u64; 4]) {
    let mut i = Inp { test: "fisher".into(), table: t, alt: "Less".into(), ..Default::default() };
    emit(cx, "alts", &i);
    for alt in ALTS {
        i.alt = alt.into();
        emit(cx, "swap", &i);
    }
}

pub fn run(cx: &mut Ctx) {
    let th = cx.thorough;
    let mut st = St { ks2_d0_left: if th { 2 } else { 1 }, mwu_big_exact_left: if th { 1 } else { 0 } };
    let iters = if th { 600 } else { 50 };

    // ---- degenerate but admissible inputs
    for a in [vec![5.0; 3], vec![5.0; 9], vec![0.0; 8], vec![1.5], vec![2.0, 2.0]] {
        for mu in [5.0, 3.0] {
            let i = Inp { test: "ttest".into(), a: a.clone(), mu, alt: "Less".into(), pol: "Error".into(), ..Default::default() };
            emit(cx, "alts", &i);
        }
        let i = Inp { test: "skew".into(), a: a.clone(), alt: "Less".into(), pol: "Error".into(), ..Default::default() };
        emit(cx, "alts", &i);
    }
    for g in [vec![vec![1.0, 1.0], vec![2.0, 3.0]], vec![vec![1.0], vec![2.0]], vec![vec![1.0], vec![2.0, 3.0]], vec![vec![1.0, 2.0], vec![1.0, 2.0]], vec![vec![4.0], vec![4.0], vec![4.0, 5.0]]] {
        let i = Inp { test: "f".into(), groups: g, pol: "Error".into(), ..Default::default() };
        emit(cx, "nan", &i);
        emit(cx, "perm", &i);
    }
    for (obs, exp) in [(vec![0usize, 0, 0], None), (vec![5, 0, 0], None), (vec![3, 4], Some(vec![7.0, 0.0])), (vec![1, 1], None), (vec![0, 7], Some(vec![3.5, 3.5]))] {
        let i = Inp { test: "chi2".into(), obs, exp, ..Default::default() };
        emit(cx, "range", &i);
        emit(cx, "perm", &i);
    }
    for (x, y) in [(vec![1.0, 1.0, 1.0], vec![1.0, 1.0]), (vec![1.0], vec![2.0]), (vec![2.0], vec![1.0]), (vec![3.0], vec![3.0]), (vec![1.0, 2.0, 3.0], vec![1.0, 2.0, 3.0]), (vec![1.0, 2.0, 3.0, 4.0], vec![4.0, 3.0, 2.0, 1.0]), (vec![1.0, 2.0], vec![1.0, 1.0, 2.0, 2.0]), (vec![0.0; 10], vec![0.0; 12])] {
        two_sample_suite(cx, &mut st, &x, &y, true);
    }
    for (data, dist, d1, d2) in [(vec![0.5], "uniform", 0.0, 1.0), (vec![-1.0, -2.0], "uniform", 0.0, 1.0), (vec![2.0, 3.0, 4.0], "uniform", 0.0, 1.0), (vec![0.0, 0.0, 0.0], "exp", 1.0, 0.0), (vec![0.3, 0.3, 0.3], "uniform", 0.0, 1.0), (vec![0.0], "normal", 0.0, 1.0), (vec![-50.0, 50.0], "normal", 0.0, 1.0)] {
        one_sample_ks_suite(cx, &data, dist, d1, d2);
    }
    {
        // nearly equal two-level samples: tiny D, Kolmogorov series sums to just above 1/2
        let a: Vec<f64> = (0..33).map(|k| if k % 2 == 0 { 0.0 } else { 0.1 }).collect();
        let b = vec![0.0, 0.1, 0.0, 0.1];
        two_sample_suite(cx, &mut st, &a, &b, false);
    }
    {
        // D = 18/21 with sizes 147 and 21: almost every lattice path is admissible, p is about 0
        let a: Vec<f64> = (0..147).map(|k| k as f64).collect();
        let mut b = vec![-1.0; 3];
        b.extend(vec![1000.0; 18]);
        two_sample_suite(cx, &mut st, &a, &b, false);
    }
    for n in [100usize, 143, 150, 165, 169] {
        // misfitting sample, D about 1/4, inside the documented range n < 170 of the exact method
        let data: Vec<f64> = (0..n).map(|k| ((k as f64 + 0.5) / n as f64).powi(2)).collect();
        let i = Inp { test: "ks1".into(), a: data, dist: "uniform".into(), d1: 0.0, d2: 1.0, method: "TwoSidedExact".into(), pol: "Error".into(), ..Default::default() };
        emit(cx, "range", &i);
    }
    // ---- Fisher: every table with cells <= 4 (quick) / <= 6 (thorough): zero cells, empty margins
    let lim = if th { 6 } else { 4 };
    for code in 0..(lim + 1u64).pow(4) {
        let b = lim + 1;
        fisher_suite(cx, [code % b, code / b % b, code / b / b % b, code / b / b / b]);
    }
    if th {
        // extended domain: counts beyond 2^31 (hypergeometric sums of that length do not finish)
        let i = Inp { test: "fisher".into(), table: [3_000_000_000, 1, 1, 3_000_000_000], alt: "Less".into(), ..Default::default() };
        emit(cx, "range", &i);
    }

    // ---- seeded random inputs
    for it in 0..iters {
        // t-test
        let n = gen_size(cx, 2, 200);
        let a = gen_sample(cx, n);
        let (m, s) = mean_sd(&a);
        let mu = match cx.r.below(4) {
            0 => 0.0,
            1 => m,
            2 => m + s * cx.r.range(-3.0, 3.0) / (n as f64).sqrt(),
            _ => m + s * cx.r.range(-30.0, 30.0),
        };
        let mut i = Inp { test: "ttest".into(), a: a.clone(), mu, alt: "Less".into(), pol: "Error".into(), ..Default::default() };
        emit(cx, "alts", &i);
        for alt in ALTS {
            i.alt = alt.into();
            let (pa, pb) = gen_affine(cx, &a);
            i.pa = pa;
            i.pb = pb;
            emit(cx, "affine", &i);
            i.seed = cx.r.next();
            emit(cx, "perm", &i);
            i.nan_a = gen_nanpos(cx, n);
            emit(cx, "nan", &i);
            i.nan_a.clear();
        }
        // skewness test
        let n = gen_size(cx, 8, 200);
        let a = gen_sample(cx, n);
        let mut i = Inp { test: "skew".into(), a: a.clone(), alt: "Less".into(), pol: "Error".into(), ..Default::default() };
        emit(cx, "alts", &i);
        for alt in ALTS {
            i.alt = alt.into();
            let (pa, pb) = gen_affine(cx, &a);
            i.pa = pa;
            i.pb = pb;
            emit(cx, "affine", &i);
            i.seed = cx.r.next();
            emit(cx, "perm", &i);
            i.nan_a = gen_nanpos(cx, n);
            emit(cx, "nan", &i);
            i.nan_a.clear();
        }
        // one-way ANOVA
        let k = 2 + cx.r.below(5) as usize;
        let total = gen_size(cx, 2 * k, 200.max(2 * k));
        let pooled = gen_sample(cx, total);
        let eff = *cx.r.pick(&[0.0, 0.1, 1.0, 5.0]);
        let (_, s) = mean_sd(&pooled);
        let mut groups: Vec<Vec<f64>> = vec![vec![]; k];
        for (j, x) in pooled.iter().enumerate() {
            groups[j % k].push(*x);
        }
        for g in groups.iter_mut() {
            let sh = eff * s * zscore(cx, 0);
            for x in g.iter_mut() {
                *x += sh;
            }
            if g.iter().all(|x| *x == g[0]) {
                g[0] += if s > 0.0 { s } else { 1.0 };
            }
        }
        let flat: Vec<f64> = groups.iter().flatten().copied().collect();
        if well_conditioned(&flat) {
            let mut i = Inp { test: "f".into(), groups: groups.clone(), pol: "Error".into(), ..Default::default() };
            let (pa, pb) = gen_affine(cx, &flat);
            i.pa = pa;
            i.pb = pb;
            emit(cx, "affine", &i);
            i.seed = cx.r.next();
            emit(cx, "perm", &i);
            i.nan_a = gen_nanpos(cx, total);
            emit(cx, "nan", &i);
        }
        // chi-square
        let n = gen_size(cx, 2, 200);
        let scale = *cx.r.pick(&[3u64, 10, 100, 10_000]);
        let mut obs: Vec<usize> = (0..n).map(|_| cx.r.below(scale + 1) as usize).collect();
        if obs.iter().sum::<usize>() == 0 {
            obs[0] = 1;
        }
        let tot: usize = obs.iter().sum();
        let exp: Option<Vec<f64>> = if cx.r.below(2) == 0 {
            None
        } else {
            let wts: Vec<u64> = (0..n).map(|_| 1 + cx.r.below(100)).collect();
            let wsum: u64 = wts.iter().sum();
            let t8 = 8 * tot as u64;
            let mut e: Vec<u64> = wts.iter().map(|w| t8 * w / wsum).collect();
            let s: u64 = e.iter().sum();
            e[n - 1] += t8 - s;
            if e.iter().all(|x| *x > 0) {
                Some(e.iter().map(|x| *x as f64 / 8.0).collect())
            } else {
                None
            }
        };
        let ddof = match cx.r.below(3) {
            0 => None,
            1 => Some(0),
            _ => Some(cx.r.below(n as u64 - 1) as usize),
        };
        let i = Inp { test: "chi2".into(), obs, exp, ddof, seed: cx.r.next(), ..Default::default() };
        emit(cx, "perm", &i);
        // two-sample tests
        let (n1, n2) = (gen_size(cx, 1, 200), gen_size(cx, 1, 200));
        let pooled = gen_sample(cx, n1 + n2);
        let mut x = pooled[..n1].to_vec();
        let y = pooled[n1..].to_vec();
        if cx.r.below(3) == 0 {
            let (_, s) = mean_sd(&pooled);
            let d = s * cx.r.range(-1.5, 1.5);
            for v in x.iter_mut() {
                *v += d;
            }
        }
        two_sample_suite(cx, &mut st, &x, &y, false);
        if it % 10 == 0 {
            // small tie-free samples: the exact methods
            let n1 = 1 + cx.r.below(7) as usize;
            let n2 = 1 + cx.r.below(7) as usize;
            let mut v: Vec<f64> = (0..n1 + n2).map(|k| k as f64 + cx.r.range(0.0, 0.9)).collect();
            v = permuted(&v, cx.r.next());
            two_sample_suite(cx, &mut st, &v[..n1].to_vec(), &v[n1..].to_vec(), true);
        }
        // one-sample KS
        let n = gen_size(cx, 1, 200);
        let data = gen_sample(cx, n);
        let (m, s) = if n >= 2 { mean_sd(&data) } else { (data[0], 1.0) };
        let s = if s > 0.0 { s } else { 1.0 };
        let (q1, q2, q3, q4) = (cx.r.range(-1.0, 1.0), cx.r.log_range(0.3, 3.0), cx.r.range(0.5, 4.0), cx.r.range(0.5, 4.0));
        match cx.r.below(3) {
            0 => one_sample_ks_suite(cx, &data, "normal", m + s * q1, s * q2),
            1 => one_sample_ks_suite(cx, &data, "uniform", m - s * q3, m + s * q4),
            _ => {
                let pos: Vec<f64> = data.iter().map(|x| (x - m).abs() + s * 1e-3).collect();
                one_sample_ks_suite(cx, &pos, "exp", 1.0 / s * q2, 0.0)
            }
        }
        // Fisher, random tables
        let sc = *cx.r.pick(&[20u64, 200, 2000]);
        let t = [cx.r.below(sc + 1), cx.r.below(sc + 1), cx.r.below(sc + 1), cx.r.below(sc + 1)];
        fisher_suite(cx, t);
    }
}

pub fn replay(case: &Value) -> String {
    let rel = case["rel"].as_str().unwrap_or("range").to_string();
    let i = Inp::from_json(case);
    let v = check(&rel, &i);
    if v.is_empty() {
        format!("relation {:?} holds (no violation on replay) for {} on {}", rel, i.label(), brief(&i))
    } else {
        v.into_iter().map(|(site, _, obs, req)| format!("[{}] observed {} / required {}", site, obs, req)).collect::<Vec<_>>().join(" ;; ")
    }
}
