//! C19 — multivariate distributions are proper joint laws matching the univariate forms.
//!
//! Parameters (property text): dimensions 1..4; means in [-10,10]; covariance / scale = A·Aᵀ + eps·I with
//! condition numbers up to 1e6; freedom in {0.5..100, inf}; Dirichlet alpha in [0.2,50]; Multinomial p incl. zero
//! entries, n <= 6 (quick) / 8 (thorough), all compositions enumerated.
//! Checks and tolerances:
//!   * pdf >= 0, not NaN at random points; ln_pdf = ln(pdf) to 1e-9·max(1,|ln pdf|) wherever pdf is a normal float.
//!   * Multinomial (2..5 categories): Σ pmf = 1, Σ x·pmf = mean(), covariance of the masses = variance()
//!     (1e-9 relative to the scale n, exact enumeration), ln_pmf = ln pmf incl. zero-probability categories.
//!   * MVN / MVT / Dirichlet in dimension 1–2 (Dirichlet: 2–3 categories): product double-exponential
//!     (tanh-sinh / sinh-sinh) cubature in whitened coordinates for ∫pdf = 1, mean(), variance() and entropy()
//!     = -∫ pdf ln pdf.  TOLERANCE 1e-5: |∫pdf - 1| <= 1e-5; mean: 1e-5·(sd_i + |mean_i|); covariance:
//!     1e-5·sd_i·sd_j; entropy: 1e-5·max(1,|H|).  The cubature is run at two step sizes (1/16, 1/32); a comparison
//!     is made only if the two agree to 1e-7 of the natural scale (certified), otherwise it is counted in SKIPPED.
//!     MVT moments by cubature only for freedom >= 3 (mean: >= 2): below that the tail integrals converge too slowly.
//!   * closed-form moment checks in every dimension: MVN mean()/variance() are the given parameters; MVT mean() is
//!     the location iff freedom > 1, variance() = scale*nu/(nu-2) iff freedom > 2 (scale for ν = inf), None otherwise;
//!     Dirichlet mean = alpha/alpha0, covariance rows sum to 0 and equal the textbook formula (1e-12).
//!   * reductions, 1e-9 relative: MVN(1-D) = Normal, MVT(1-D) = StudentsT, Dirichlet(a,b) = Beta(a,b),
//!     Multinomial(2 categories) = Binomial, MVT(freedom = inf) = MVN (pdf, ln_pdf, mean, variance); for ln_pdf /
//!     ln_pmf the 1e-9 is absolute in the log domain (= 1e-9 relative of the density).
//!   * permutation invariance of pdf / pmf under a common permutation of coordinates and parameters; the property
//!     text states no tolerance: 1e-9 relative plus the conditioning allowance 4e-14·cond·(1 + Mahalanobis²) for
//!     MVN / MVT (a backward-stable evaluation of xᵀΣ⁻¹x cannot do better), plain 1e-9 for Dirichlet / Multinomial.
use crate::search::Ctx;
use nalgebra::{DMatrix, DVector};
use serde_json::{json, Value};
use statrs::distribution::*;
use statrs::statistics::{Distribution, MeanN, VarianceN};
use std::panic::{catch_unwind, AssertUnwindSafe};
use std::sync::atomic::{AtomicU64, Ordering};

pub static SKIPPED: AtomicU64 = AtomicU64::new(0);

fn guard<T>(f: impl FnOnce() -> T) -> Option<T> {
    catch_unwind(AssertUnwindSafe(f)).ok()
}

pub struct Finding {
    site: String,
    what: String,
    observed: String,
    required: String,
}
fn fnd(site: &str, what: &str, observed: String, required: &str) -> Finding {
    Finding { site: site.to_string(), what: what.to_string(), observed, required: required.to_string() }
}
fn hx(x: f64) -> String {
    format!("{:e}", x)
}
fn vs(v: &[f64]) -> String {
    format!("[{}]", v.iter().map(|x| format!("{:e}", x)).collect::<Vec<_>>().join(", "))
}
fn rel(a: f64, b: f64, tol: f64) -> bool {
    a == b || (a - b).abs() <= tol * a.abs().max(b.abs())
}

// ---------------------------------------------------------------------------------------------
// small dense linear algebra of our own (row-major d×d)
// ---------------------------------------------------------------------------------------------
fn chol(d: usize, a: &[f64]) -> Option<Vec<f64>> {
    let mut l = vec![0.0; d * d];
    for i in 0..d {
        for j in 0..=i {
            let mut s = a[i * d + j];
            for k in 0..j {
                s -= l[i * d + k] * l[j * d + k];
            }
            if i == j {
                if !(s > 0.0) {
                    return None;
                }
                l[i * d + i] = s.sqrt();
            } else {
                l[i * d + j] = s / l[j * d + j];
            }
        }
    }
    Some(l)
}
/// Mahalanobis distance² via forward substitution
fn maha(d: usize, l: &[f64], dx: &[f64]) -> f64 {
    let mut y = vec![0.0; d];
    for i in 0..d {
        let mut s = dx[i];
        for k in 0..i {
            s -= l[i * d + k] * y[k];
        }
        y[i] = s / l[i * d + i];
    }
    y.iter().map(|v| v * v).sum()
}
fn lmul(d: usize, l: &[f64], z: &[f64]) -> Vec<f64> {
    (0..d).map(|i| (0..=i).map(|k| l[i * d + k] * z[k]).sum()).collect()
}
/// condition number estimate of Σ = L·Lᵀ by power / inverse power iteration
fn cond_est(d: usize, a: &[f64], l: &[f64]) -> f64 {
    let mut v = vec![1.0; d];
    let mut lmax = 0.0;
    for _ in 0..60 {
        let w: Vec<f64> = (0..d).map(|i| (0..d).map(|j| a[i * d + j] * v[j]).sum()).collect();
        let n = w.iter().map(|x| x * x).sum::<f64>().sqrt();
        if !(n > 0.0) {
            break;
        }
        lmax = n;
        v = w.iter().map(|x| x / n).collect();
    }
    let mut v = vec![1.0; d];
    let mut imax = 0.0;
    for _ in 0..60 {
        // solve L Lᵀ w = v
        let mut y = vec![0.0; d];
        for i in 0..d {
            let mut s = v[i];
            for k in 0..i {
                s -= l[i * d + k] * y[k];
            }
            y[i] = s / l[i * d + i];
        }
        let mut w = vec![0.0; d];
        for i in (0..d).rev() {
            let mut s = y[i];
            for k in i + 1..d {
                s -= l[k * d + i] * w[k];
            }
            w[i] = s / l[i * d + i];
        }
        let n = w.iter().map(|x| x * x).sum::<f64>().sqrt();
        if !(n > 0.0) {
            break;
        }
        imax = n;
        v = w.iter().map(|x| x / n).collect();
    }
    lmax * imax
}

// ---------------------------------------------------------------------------------------------
// the laws under test behind one interface
// ---------------------------------------------------------------------------------------------
#[derive(Clone, Debug)]
pub enum Par {
    /// mean, cov (row-major, symmetric)
    Mvn(Vec<f64>, Vec<f64>),
    /// location, scale, freedom
    Mvt(Vec<f64>, Vec<f64>, f64),
    Dir(Vec<f64>),
    Mult(Vec<f64>, u64),
}
impl Par {
    fn name(&self) -> &'static str {
        match self {
            Par::Mvn(..) => "MultivariateNormal",
            Par::Mvt(..) => "MultivariateStudent",
            Par::Dir(..) => "Dirichlet",
            Par::Mult(..) => "Multinomial",
        }
    }
    fn to_json(&self) -> Value {
        let h = |v: &[f64]| v.iter().map(|x| format!("{:016x}", x.to_bits())).collect::<Vec<_>>();
        match self {
            Par::Mvn(m, c) => json!({"fam": "Mvn", "mean": h(m), "mat": h(c)}),
            Par::Mvt(m, c, f) => json!({"fam": "Mvt", "mean": h(m), "mat": h(c), "freedom": format!("{:016x}", f.to_bits())}),
            Par::Dir(a) => json!({"fam": "Dir", "alpha": h(a)}),
            Par::Mult(p, n) => json!({"fam": "Mult", "p": h(p), "n": n}),
        }
    }
    fn from_json(v: &Value) -> Option<Par> {
        let h = |x: &Value| -> Vec<f64> { x.as_array().map(|a| a.iter().filter_map(|s| s.as_str().and_then(|h| u64::from_str_radix(h, 16).ok()).map(f64::from_bits)).collect()).unwrap_or_default() };
        match v["fam"].as_str()? {
            "Mvn" => Some(Par::Mvn(h(&v["mean"]), h(&v["mat"]))),
            "Mvt" => Some(Par::Mvt(h(&v["mean"]), h(&v["mat"]), v["freedom"].as_str().and_then(|s| u64::from_str_radix(s, 16).ok()).map(f64::from_bits)?)),
            "Dir" => Some(Par::Dir(h(&v["alpha"]))),
            "Mult" => Some(Par::Mult(h(&v["p"]), v["n"].as_u64()?)),
            _ => None,
        }
    }
}
enum Law {
    Mvn(MultivariateNormal<nalgebra::Dyn>),
    Mvt(MultivariateStudent<nalgebra::Dyn>),
    Dir(Dirichlet<nalgebra::Dyn>),
}
fn dm(d: usize, rowmajor: &[f64]) -> DMatrix<f64> {
    DMatrix::from_row_slice(d, d, rowmajor)
}
fn build(p: &Par) -> Option<Law> {
    guard(|| match p {
        Par::Mvn(m, c) => MultivariateNormal::new_from_nalgebra(DVector::from_vec(m.clone()), dm(m.len(), c)).ok().map(Law::Mvn),
        Par::Mvt(m, c, f) => MultivariateStudent::new_from_nalgebra(DVector::from_vec(m.clone()), dm(m.len(), c), *f).ok().map(Law::Mvt),
        Par::Dir(a) => Dirichlet::new(a.clone()).ok().map(Law::Dir),
        Par::Mult(..) => None,
    })
    .flatten()
}
impl Law {
    /// None = panic
    fn pdf(&self, x: &[f64]) -> Option<f64> {
        let v = DVector::from_vec(x.to_vec());
        guard(|| match self {
            Law::Mvn(d) => d.pdf(&v),
            Law::Mvt(d) => d.pdf(&v),
            Law::Dir(d) => d.pdf(&v),
        })
    }
    fn ln_pdf(&self, x: &[f64]) -> Option<f64> {
        let v = DVector::from_vec(x.to_vec());
        guard(|| match self {
            Law::Mvn(d) => d.ln_pdf(&v),
            Law::Mvt(d) => d.ln_pdf(&v),
            Law::Dir(d) => d.ln_pdf(&v),
        })
    }
    fn mean(&self) -> Option<Option<Vec<f64>>> {
        guard(|| match self {
            Law::Mvn(d) => d.mean().map(|m| m.iter().cloned().collect()),
            Law::Mvt(d) => d.mean().map(|m| m.iter().cloned().collect()),
            Law::Dir(d) => d.mean().map(|m| m.iter().cloned().collect()),
        })
    }
    /// row-major
    fn variance(&self) -> Option<Option<Vec<f64>>> {
        let rm = |m: DMatrix<f64>| -> Vec<f64> {
            let d = m.nrows();
            (0..d * d).map(|k| m[(k / d, k % d)]).collect()
        };
        guard(|| match self {
            Law::Mvn(d) => d.variance().map(rm),
            Law::Mvt(d) => d.variance().map(rm),
            Law::Dir(d) => d.variance().map(rm),
        })
    }
    fn entropy(&self) -> Option<Option<f64>> {
        guard(|| match self {
            Law::Mvn(d) => d.entropy(),
            Law::Mvt(_) => None,
            Law::Dir(d) => d.entropy(),
        })
    }
}

// ---------------------------------------------------------------------------------------------
// point checks: pdf >= 0, ln_pdf = ln pdf
// ---------------------------------------------------------------------------------------------
fn point_check(p: &Par, x: &[f64]) -> Vec<Finding> {
    let mut out = vec![];
    let law = match build(p) {
        Some(l) => l,
        None => return out,
    };
    let n = p.name();
    let (f, lf) = (law.pdf(x), law.ln_pdf(x));
    let tag = match p {
        Par::Mvt(_, _, nu) if nu.is_infinite() => " [freedom=inf]",
        _ => "",
    };
    match f {
        None => out.push(fnd(&format!("{}::pdf panic{}", n, tag), "pdf panicked at an interior point", format!("x = {}", vs(x)), "a number >= 0")),
        Some(f) => {
            if f.is_nan() || f < 0.0 {
                out.push(fnd(&format!("{}::pdf {}{}", n, if f.is_nan() { "NaN" } else { "< 0" }, tag), "pdf negative or NaN", format!("pdf({}) = {}", vs(x), hx(f)), "pdf >= 0"));
            } else if let Some(lf) = lf {
                if f.is_finite() && f >= f64::MIN_POSITIVE {
                    let l = f.ln();
                    if !((lf - l).abs() <= 1e-9 * l.abs().max(1.0)) {
                        out.push(fnd(&format!("{}::ln_pdf != ln pdf{}", n, tag), "ln_pdf differs from the logarithm of pdf", format!("x = {}: ln_pdf = {}, ln(pdf) = {}", vs(x), hx(lf), hx(l)), "|ln_pdf - ln pdf| <= 1e-9·max(1,|ln pdf|)"));
                    }
                }
            } else {
                out.push(fnd(&format!("{}::ln_pdf panic{}", n, tag), "ln_pdf panicked at an interior point", format!("x = {}", vs(x)), "ln of pdf"));
            }
        }
    }
    out
}

// ---------------------------------------------------------------------------------------------
// cubature: product double-exponential rules
// ---------------------------------------------------------------------------------------------
/// nodes and weights of the sinh-sinh rule on (-inf, inf): x = sinh(π/2 sinh u)
fn de_line(h: f64, umax: f64) -> Vec<(f64, f64)> {
    let n = (umax / h).floor() as i64;
    (-n..=n)
        .map(|k| {
            let u = k as f64 * h;
            let y = std::f64::consts::FRAC_PI_2 * u.sinh();
            (y.sinh(), h * std::f64::consts::FRAC_PI_2 * u.cosh() * y.cosh())
        })
        .filter(|(x, w)| x.is_finite() && w.is_finite())
        .collect()
}
/// nodes of the tanh-sinh rule on (0,1): (s, 1-s, weight)
fn de_unit(h: f64, umax: f64) -> Vec<(f64, f64, f64)> {
    let n = (umax / h).floor() as i64;
    (-n..=n)
        .map(|k| {
            let u = k as f64 * h;
            let y = std::f64::consts::FRAC_PI_2 * u.sinh();
            // s = (1 + tanh y)/2 = 1/(1+e^{-2y}),  1-s = 1/(1+e^{2y}),  ds/du = (π/2) cosh u / (2 cosh² y)
            let s = 1.0 / (1.0 + (-2.0 * y).exp());
            let c = 1.0 / (1.0 + (2.0 * y).exp());
            let w = h * std::f64::consts::FRAC_PI_2 * u.cosh() / (2.0 * y.cosh() * y.cosh());
            (s, c, w)
        })
        .filter(|(s, c, w)| *s > 0.0 && *c > 0.0 && *w > 0.0 && w.is_finite())
        .collect()
}

/// accumulated integrals about a centre: S0, S1[i], S2[i][j], H = -∫ f ln f ; `bad` = a non-finite density value
struct Acc {
    d: usize,
    s0: f64,
    s1: Vec<f64>,
    s2: Vec<f64>,
    h: f64,
    bad: bool,
}
impl Acc {
    fn new(d: usize) -> Acc {
        Acc { d, s0: 0.0, s1: vec![0.0; d], s2: vec![0.0; d * d], h: 0.0, bad: false }
    }
    fn add(&mut self, w: f64, f: Option<f64>, dx: &[f64]) {
        let f = match f {
            Some(f) if f.is_finite() && f >= 0.0 => f,
            _ => {
                self.bad = true;
                return;
            }
        };
        if f == 0.0 || w == 0.0 {
            return;
        }
        let wf = w * f;
        if !wf.is_finite() {
            self.bad = true;
            return;
        }
        self.s0 += wf;
        for i in 0..self.d {
            self.s1[i] += wf * dx[i];
            for j in 0..self.d {
                self.s2[i * self.d + j] += wf * dx[i] * dx[j];
            }
        }
        self.h -= wf * f.ln();
    }
    fn flat(&self) -> Vec<f64> {
        let mut v = vec![self.s0, self.h];
        v.extend_from_slice(&self.s1);
        v.extend_from_slice(&self.s2);
        v
    }
}

/// cubature of MVN / MVT in dimension 1–2 in whitened coordinates x = μ + L z (L our own Cholesky factor)
fn cub_elliptic(law: &Law, mu: &[f64], l: &[f64], h: f64) -> Acc {
    let d = mu.len();
    let det: f64 = (0..d).map(|i| l[i * d + i]).product();
    let line = de_line(h, 4.7);
    let mut acc = Acc::new(d);
    if d == 1 {
        for (z, w) in &line {
            let dx = lmul(1, l, &[*z]);
            let x = [mu[0] + dx[0]];
            acc.add(w * det, law.pdf(&x), &dx);
        }
    } else {
        for (z0, w0) in &line {
            for (z1, w1) in &line {
                let dx = lmul(2, l, &[*z0, *z1]);
                let x = [mu[0] + dx[0], mu[1] + dx[1]];
                if !x[0].is_finite() || !x[1].is_finite() {
                    continue;
                }
                acc.add(w0 * w1 * det, law.pdf(&x), &dx);
            }
        }
    }
    acc
}
/// cubature of Dirichlet with 2 or 3 categories over the free coordinates (x_1 [, x_2]); centre = c
fn cub_dirichlet(law: &Law, k: usize, c: &[f64], h: f64) -> Acc {
    let unit = de_unit(h, 4.0);
    let mut acc = Acc::new(k - 1);
    if k == 2 {
        for (s, cs, w) in &unit {
            let x = [*s, *cs];
            if !(x[0] > 0.0 && x[0] < 1.0 && x[1] > 0.0 && x[1] < 1.0) {
                continue;
            }
            acc.add(*w, law.pdf(&x), &[s - c[0]]);
        }
    } else {
        // x1 = s, x2 = (1-s)·t, x3 = (1-s)(1-t), jacobian (1-s)
        for (s, cs, w0) in &unit {
            for (t, ct, w1) in &unit {
                let x = [*s, cs * t, cs * ct];
                if !x.iter().all(|v| *v > 0.0 && *v < 1.0) {
                    continue;
                }
                acc.add(w0 * w1 * cs, law.pdf(&x), &[x[0] - c[0], x[1] - c[1]]);
            }
        }
    }
    acc
}

/// normalisation, mean, variance, entropy against the cubature (tolerance 1e-5)
fn cubature_check(p: &Par) -> Vec<Finding> {
    let mut out = vec![];
    let law = match build(p) {
        Some(l) => l,
        None => return out,
    };
    let n = p.name();
    // free dimension, centre, scale
    let (fd, run): (usize, Box<dyn Fn(f64) -> Acc + '_>) = match p {
        Par::Mvn(m, c) | Par::Mvt(m, c, _) => {
            let d = m.len();
            if d > 2 {
                return out;
            }
            let l = match chol(d, c) {
                Some(l) => l,
                None => return out,
            };
            let m2 = m.clone();
            let lawr = &law;
            (d, Box::new(move |h| cub_elliptic(lawr, &m2, &l, h)))
        }
        Par::Dir(a) => {
            let k = a.len();
            if k > 3 {
                return out;
            }
            let a0: f64 = a.iter().sum();
            let c: Vec<f64> = a.iter().map(|x| x / a0).collect();
            let lawr = &law;
            (k - 1, Box::new(move |h| cub_dirichlet(lawr, k, &c, h)))
        }
        Par::Mult(..) => return out,
    };
    let (a1, a2) = match guard(|| (run(1.0 / 16.0), run(1.0 / 32.0))) {
        Some(x) => x,
        None => return out,
    };
    let centre: Vec<f64> = match p {
        Par::Mvn(m, _) | Par::Mvt(m, _, _) => m.clone(),
        Par::Dir(a) => {
            let a0: f64 = a.iter().sum();
            a.iter().take(fd).map(|x| x / a0).collect()
        }
        _ => vec![],
    };
    // which moments exist / are attempted
    let nu = match p {
        Par::Mvt(_, _, f) => *f,
        _ => f64::INFINITY,
    };
    let (do_mean, do_var) = (nu >= 2.0, nu >= 3.0);
    // certification: the two step sizes agree
    let (f1, f2) = (a1.flat(), a2.flat());
    let scale = |idx: usize| -> f64 {
        // natural size of component idx: s0 -> 1, H -> max(1,|H|), s1_i -> sd_i, s2_ij -> sd_i sd_j
        let sd = |i: usize| a2.s2[i * fd + i].abs().sqrt().max(f64::MIN_POSITIVE);
        if idx == 0 {
            1.0
        } else if idx == 1 {
            a2.h.abs().max(1.0)
        } else if idx < 2 + fd {
            sd(idx - 2)
        } else {
            let k = idx - 2 - fd;
            sd(k / fd) * sd(k % fd)
        }
    };
    let certified = |idx: usize| -> bool { !a1.bad && !a2.bad && f1[idx].is_finite() && f2[idx].is_finite() && (f1[idx] - f2[idx]).abs() <= 1e-7 * scale(idx) };
    let tag = match p {
        Par::Mvt(_, _, f) if f.is_infinite() => " [freedom=inf]",
        _ => "",
    };
    // --- normalisation
    if std::env::var("C19_STATS").is_ok() {
        eprintln!("CUB {} {:?} bad={}/{} f1={:?} f2={:?}", n, p, a1.bad, a2.bad, f1, f2);
    }
    if certified(0) {
        if (a2.s0 - 1.0).abs() > 1e-5 {
            out.push(fnd(&format!("{} normalisation{}", n, tag), "the density does not integrate to 1 (cubature, tolerance 1e-5)", format!("∫pdf = {} (step h/2: {}, step h: {})", hx(a2.s0), hx(a2.s0), hx(a1.s0)), "∫pdf = 1 ± 1e-5"));
        }
    } else {
        SKIPPED.fetch_add(1, Ordering::Relaxed);
        return out;
    }
    // density's own first two moments about its own mean
    let mean_i: Vec<f64> = (0..fd).map(|i| centre[i] * a2.s0 + a2.s1[i]).collect();
    let dlt: Vec<f64> = (0..fd).map(|i| mean_i[i] - centre[i]).collect();
    let cov_i: Vec<f64> = (0..fd * fd)
        .map(|k| {
            let (i, j) = (k / fd, k % fd);
            a2.s2[k] - a2.s1[i] * dlt[j] - dlt[i] * a2.s1[j] + dlt[i] * dlt[j] * a2.s0
        })
        .collect();
    let sd = |i: usize| cov_i[i * fd + i].abs().sqrt();
    // --- mean
    let rep_mean = law.mean();
    if do_mean && (0..fd).all(|i| certified(2 + i)) {
        if let Some(Some(rm)) = &rep_mean {
            for i in 0..fd {
                let s = if do_var { sd(i) } else { a2.s2[i * fd + i].abs().sqrt() };
                // ∫x·pdf = centre·∫pdf + …: a normalisation defect within its own 1e-5 moves the mean by 1e-5·|mean|
                if !((rm[i] - mean_i[i]).abs() <= 1e-5 * (s + mean_i[i].abs()).max(1e-300)) {
                    out.push(fnd(&format!("{}::mean != integral x*pdf{}", n, tag), "reported mean differs from the first moment of the density (cubature, tolerance 1e-5·(sd+|mean|))", format!("mean()[{}] = {} ; ∫ = {}", i, hx(rm[i]), hx(mean_i[i])), "|mean - ∫x pdf| <= 1e-5·(sd + |mean|)"));
                    break;
                }
            }
        }
    }
    // --- variance
    if do_var && (0..fd * fd).all(|k| certified(2 + fd + k)) && (0..fd).all(|i| certified(2 + i)) {
        if let Some(Some(rv)) = law.variance() {
            let full = (rv.len() as f64).sqrt().round() as usize;
            'outer: for i in 0..fd {
                for j in 0..fd {
                    let r = rv[i * full + j];
                    let v = cov_i[i * fd + j];
                    if !((r - v).abs() <= 1e-5 * sd(i) * sd(j)) {
                        out.push(fnd(&format!("{}::variance != integral (x-m)(x-m)^T*pdf{}", n, tag), "reported covariance differs from the second central moment of the density (cubature, tolerance 1e-5)", format!("variance()[{},{}] = {} ; ∫ = {}", i, j, hx(r), hx(v)), "|variance - ∫| <= 1e-5·sd_i·sd_j"));
                        break 'outer;
                    }
                }
            }
        }
    }
    // --- entropy
    if let Some(Some(he)) = law.entropy() {
        if certified(1) {
            if !((he - a2.h).abs() <= 1e-5 * a2.h.abs().max(1.0)) {
                out.push(fnd(&format!("{}::entropy != -integral pdf*ln pdf{}", n, tag), "reported entropy differs from that of the density (cubature, tolerance 1e-5)", format!("entropy() = {} ; -∫ pdf ln pdf = {}", hx(he), hx(a2.h)), "|entropy + ∫ pdf ln pdf| <= 1e-5·max(1,|H|)"));
            }
        } else {
            SKIPPED.fetch_add(1, Ordering::Relaxed);
        }
    }
    out
}

// ---------------------------------------------------------------------------------------------
// closed-form moment checks in every dimension
// ---------------------------------------------------------------------------------------------
fn moment_check(p: &Par) -> Vec<Finding> {
    let mut out = vec![];
    let law = match build(p) {
        Some(l) => l,
        None => return out,
    };
    let n = p.name();
    let (m, v) = (law.mean(), law.variance());
    let nan_in = |x: &Option<Option<Vec<f64>>>| matches!(x, Some(Some(v)) if v.iter().any(|y| y.is_nan()));
    match p {
        Par::Mvn(mu, c) => {
            if let Some(Some(mm)) = &m {
                if mm.iter().zip(mu.iter()).any(|(a, b)| a.to_bits() != b.to_bits()) {
                    out.push(fnd(&format!("{}::mean != given mean", n), "mean() is not the mean parameter", format!("{} vs {}", vs(mm), vs(mu)), "mean() = μ"));
                }
            }
            if let Some(Some(vv)) = &v {
                if vv.iter().zip(c.iter()).any(|(a, b)| a.to_bits() != b.to_bits()) {
                    out.push(fnd(&format!("{}::variance != given covariance", n), "variance() is not the covariance parameter", format!("{} vs {}", vs(vv), vs(c)), "variance() = Σ"));
                }
            }
        }
        Par::Mvt(mu, c, nu) => {
            let tag = if nu.is_infinite() { " [freedom=inf]" } else { "" };
            // mean exists iff ν > 1, covariance iff ν > 2
            match &m {
                Some(Some(mm)) => {
                    if !(*nu > 1.0) {
                        out.push(fnd(&format!("{}::mean Some although freedom <= 1", n), "a mean is reported although it does not exist", format!("freedom = {}", hx(*nu)), "None for freedom <= 1"));
                    } else if mm.iter().zip(mu.iter()).any(|(a, b)| !(a == b)) {
                        out.push(fnd(&format!("{}::mean != location{}", n, tag), "mean() is not the location", format!("{} vs {}", vs(mm), vs(mu)), "mean() = location for freedom > 1"));
                    }
                }
                Some(None) => {
                    if *nu > 1.0 {
                        out.push(fnd(&format!("{}::mean None although freedom > 1{}", n, tag), "no mean is reported although it exists", format!("freedom = {}", hx(*nu)), "Some(location) for freedom > 1"));
                    }
                }
                None => {}
            }
            match &v {
                Some(Some(vv)) => {
                    if !(*nu > 2.0) {
                        out.push(fnd(&format!("{}::variance Some although freedom <= 2", n), "a covariance is reported although it does not exist", format!("freedom = {}", hx(*nu)), "None for freedom <= 2"));
                    } else {
                        let k = if nu.is_infinite() { 1.0 } else { nu / (nu - 2.0) };
                        if vv.iter().zip(c.iter()).any(|(a, b)| !rel(*a, b * k, 1e-12)) {
                            out.push(fnd(&format!("{}::variance != scale*nu/(nu-2){}{}", n, tag, if nan_in(&v) { " (NaN)" } else { "" }), "variance() is not scale*nu/(nu-2) (the scale matrix itself for ν = inf)", format!("freedom {}: {} vs scale {}", hx(*nu), vs(vv), vs(c)), "variance() = Σ·ν/(ν-2), 1e-12 relative"));
                        }
                    }
                }
                Some(None) => {
                    if *nu > 2.0 {
                        out.push(fnd(&format!("{}::variance None although freedom > 2{}", n, tag), "no covariance is reported although it exists", format!("freedom = {}", hx(*nu)), "Some for freedom > 2"));
                    }
                }
                None => {}
            }
        }
        Par::Dir(a) => {
            let k = a.len();
            let a0: f64 = a.iter().sum();
            if let Some(Some(mm)) = &m {
                if (0..k).any(|i| !rel(mm[i], a[i] / a0, 1e-12)) {
                    out.push(fnd(&format!("{}::mean != alpha/alpha0", n), "mean() is not α_i/α_0", format!("{} for alpha {}", vs(mm), vs(a)), "mean_i = α_i/α_0 (1e-12)"));
                }
            }
            if let Some(Some(vv)) = &v {
                let den = a0 * a0 * (a0 + 1.0);
                let mut bad = false;
                for i in 0..k {
                    let mut row = 0.0;
                    let mut rowabs = 0.0;
                    for j in 0..k {
                        let want = if i == j { a[i] * (a0 - a[i]) / den } else { -a[i] * a[j] / den };
                        if !rel(vv[i * k + j], want, 1e-12) {
                            bad = true;
                        }
                        row += vv[i * k + j];
                        rowabs += vv[i * k + j].abs();
                    }
                    // Σ_j x_j = 1  =>  every row of the covariance sums to 0
                    if !(row.abs() <= 1e-12 * rowabs) {
                        bad = true;
                    }
                }
                if bad {
                    out.push(fnd(&format!("{}::variance != Dirichlet covariance", n), "variance() is not the Dirichlet covariance (rows must sum to 0)", format!("{} for alpha {}", vs(vv), vs(a)), "cov_ij = (δ_ij α_i α_0 - α_i α_j)/(α_0²(α_0+1)), 1e-12"));
                }
            }
        }
        Par::Mult(..) => {}
    }
    if nan_in(&m) {
        out.push(fnd(&format!("{}::mean NaN", n), "mean() contains NaN", format!("{:?}", m), "no NaN"));
    }
    out
}

// ---------------------------------------------------------------------------------------------
// Multinomial: exact enumeration
// ---------------------------------------------------------------------------------------------
fn compositions(n: u64, k: usize) -> Vec<Vec<u64>> {
    fn rec(n: u64, k: usize, cur: &mut Vec<u64>, out: &mut Vec<Vec<u64>>) {
        if k == 1 {
            cur.push(n);
            out.push(cur.clone());
            cur.pop();
            return;
        }
        for i in 0..=n {
            cur.push(i);
            rec(n - i, k - 1, cur, out);
            cur.pop();
        }
    }
    let mut out = vec![];
    rec(n, k, &mut vec![], &mut out);
    out
}

fn multinomial_check(p: &[f64], n: u64) -> Vec<Finding> {
    let mut out = vec![];
    let k = p.len();
    let d = match guard(|| Multinomial::new(p.to_vec(), n).ok()).flatten() {
        Some(d) => d,
        None => return out,
    };
    let zero_cat = p.iter().any(|x| *x == 0.0);
    let ztag = if zero_cat { " @zero-probability category" } else { "" };
    let comps = compositions(n, k);
    let mut s0 = 0.0;
    let mut s1 = vec![0.0; k];
    let mut s2 = vec![0.0; k * k];
    let mut ln_bad: Option<(Vec<u64>, f64, f64)> = None;
    let mut pm_bad: Option<(Vec<u64>, Option<f64>)> = None;
    for c in &comps {
        let x = DVector::from_vec(c.clone());
        let f = guard(|| d.pmf(&x));
        let lf = guard(|| d.ln_pmf(&x));
        let f = match f {
            Some(f) if f >= 0.0 && f.is_finite() => f,
            other => {
                if pm_bad.is_none() {
                    pm_bad = Some((c.clone(), other));
                }
                continue;
            }
        };
        s0 += f;
        for i in 0..k {
            s1[i] += f * c[i] as f64;
            for j in 0..k {
                s2[i * k + j] += f * c[i] as f64 * c[j] as f64;
            }
        }
        // ln_pmf = ln pmf, incl. -inf where pmf = 0
        if let Some(lf) = lf {
            let l = f.ln();
            let ok = if f == 0.0 { lf == f64::NEG_INFINITY } else if f >= f64::MIN_POSITIVE { (lf - l).abs() <= 1e-9 * l.abs().max(1.0) } else { true };
            if !ok && ln_bad.is_none() {
                ln_bad = Some((c.clone(), lf, l));
            }
        } else if ln_bad.is_none() {
            ln_bad = Some((c.clone(), f64::NAN, f.ln()));
        }
    }
    if let Some((c, f)) = pm_bad {
        out.push(fnd(&format!("Multinomial::pmf not a probability{}", ztag), "pmf negative, NaN, infinite or panicking on a composition of n", format!("p = {}, n = {}, x = {:?}: pmf = {:?}", vs(p), n, c, f), "0 <= pmf <= 1"));
        return out;
    }
    if let Some((c, lf, l)) = ln_bad {
        out.push(fnd(&format!("Multinomial::ln_pmf != ln pmf{}", ztag), "ln_pmf differs from the logarithm of pmf", format!("p = {}, n = {}, x = {:?}: ln_pmf = {}, ln(pmf) = {}", vs(p), n, c, hx(lf), hx(l)), "ln_pmf = ln pmf (1e-9; -inf where pmf = 0)"));
    }
    if !((s0 - 1.0).abs() <= 1e-9) {
        out.push(fnd(&format!("Multinomial sum pmf != 1{}", ztag), "the masses over all compositions of n do not sum to 1", format!("p = {}, n = {}: Σ = {}", vs(p), n, hx(s0)), "Σ pmf = 1 ± 1e-9"));
    }
    let nn = (n as f64).max(1.0);
    if let Some(Some(m)) = guard(|| d.mean()) {
        if (0..k).any(|i| !((m[i] - s1[i]).abs() <= 1e-9 * nn)) {
            out.push(fnd(&format!("Multinomial::mean != sum x*pmf{}", ztag), "mean() differs from the first moment of the masses", format!("p = {}, n = {}: mean() = {}, Σ = {}", vs(p), n, vs(m.as_slice()), vs(&s1)), "|mean - Σ x pmf| <= 1e-9·n"));
        }
    }
    if let Some(Some(v)) = guard(|| d.variance()) {
        let mut bad = None;
        for i in 0..k {
            for j in 0..k {
                let c = s2[i * k + j] - s1[i] * s1[j] / if s0 > 0.0 { s0 } else { 1.0 };
                if !((v[(i, j)] - c).abs() <= 1e-9 * nn) && bad.is_none() {
                    bad = Some((i, j, v[(i, j)], c));
                }
            }
        }
        if let Some((i, j, r, c)) = bad {
            out.push(fnd(&format!("Multinomial::variance != covariance of the masses{}", ztag), "variance() differs from the covariance computed from pmf", format!("p = {}, n = {}: variance()[{},{}] = {}, from masses {}", vs(p), n, i, j, hx(r), hx(c)), "|variance - cov| <= 1e-9·n"));
        }
    }
    out
}

// ---------------------------------------------------------------------------------------------
// reductions to the univariate families, ν = inf, permutations
// ---------------------------------------------------------------------------------------------
fn cmp9(out: &mut Vec<Finding>, site: &str, what: &str, at: String, a: Option<f64>, b: Option<f64>) {
    match (a, b) {
        (Some(a), Some(b)) => {
            // log-domain values: an absolute 1e-9 there is a relative 1e-9 of the density itself
            let abs_tol = if site.contains("ln_") { 1e-9 } else { 1e-12 * a.abs().max(b.abs()).min(1.0) + 1e-300 };
            let ok = (a.is_nan() && b.is_nan()) || rel(a, b, 1e-9) || (a - b).abs() <= abs_tol;
            if !ok {
                out.push(fnd(site, what, format!("{}: {} vs {}", at, hx(a), hx(b)), "agreement to 1e-9 relative"));
            }
        }
        (None, None) => {}
        (a, b) => out.push(fnd(&format!("{} (panic)", site), what, format!("{}: {:?} vs {:?} (None = panic)", at, a, b), "agreement to 1e-9 relative")),
    }
}

/// `x`: evaluation point (coordinates for Mvn/Mvt/Dir, counts for Mult as f64)
fn reduction_check(p: &Par, x: &[f64]) -> Vec<Finding> {
    let mut out = vec![];
    match p {
        Par::Mvn(m, c) if m.len() == 1 => {
            let (law, uni) = match (build(p), Normal::new(m[0], c[0].sqrt())) {
                (Some(l), Ok(u)) => (l, u),
                _ => return out,
            };
            let at = format!("mean {}, var {}, x {}", hx(m[0]), hx(c[0]), hx(x[0]));
            cmp9(&mut out, "MultivariateNormal(1-D) pdf != Normal", "1-D reduction", at.clone(), law.pdf(x), guard(|| uni.pdf(x[0])));
            cmp9(&mut out, "MultivariateNormal(1-D) ln_pdf != Normal", "1-D reduction", at.clone(), law.ln_pdf(x), guard(|| uni.ln_pdf(x[0])));
            cmp9(&mut out, "MultivariateNormal(1-D) entropy != Normal", "1-D reduction", at, law.entropy().flatten(), guard(|| uni.entropy()).flatten());
        }
        Par::Mvt(m, c, nu) if m.len() == 1 => {
            let (law, uni) = match (build(p), StudentsT::new(m[0], c[0].sqrt(), *nu)) {
                (Some(l), Ok(u)) => (l, u),
                _ => return out,
            };
            let tag = if nu.is_infinite() { " [freedom=inf]" } else { "" };
            let at = format!("location {}, scale² {}, freedom {}, x {}", hx(m[0]), hx(c[0]), hx(*nu), hx(x[0]));
            cmp9(&mut out, &format!("MultivariateStudent(1-D) pdf != StudentsT{}", tag), "1-D reduction", at.clone(), law.pdf(x), guard(|| uni.pdf(x[0])));
            cmp9(&mut out, &format!("MultivariateStudent(1-D) ln_pdf != StudentsT{}", tag), "1-D reduction", at, law.ln_pdf(x), guard(|| uni.ln_pdf(x[0])));
        }
        Par::Dir(a) if a.len() == 2 => {
            let (law, uni) = match (build(p), Beta::new(a[0], a[1])) {
                (Some(l), Ok(u)) => (l, u),
                _ => return out,
            };
            let at = format!("alpha {}, x {}", vs(a), vs(x));
            cmp9(&mut out, "Dirichlet(2) pdf != Beta", "two-category reduction", at.clone(), law.pdf(x), guard(|| uni.pdf(x[0])));
            cmp9(&mut out, "Dirichlet(2) ln_pdf != Beta", "two-category reduction", at.clone(), law.ln_pdf(x), guard(|| uni.ln_pdf(x[0])));
            cmp9(&mut out, "Dirichlet(2) mean != Beta", "two-category reduction", at.clone(), law.mean().flatten().map(|m| m[0]), guard(|| uni.mean()).flatten());
            cmp9(&mut out, "Dirichlet(2) variance != Beta", "two-category reduction", at.clone(), law.variance().flatten().map(|v| v[0]), guard(|| uni.variance()).flatten());
            cmp9(&mut out, "Dirichlet(2) entropy != Beta", "two-category reduction", at, law.entropy().flatten(), guard(|| uni.entropy()).flatten());
        }
        Par::Mult(pp, n) if pp.len() == 2 => {
            let s = pp[0] + pp[1];
            let (d, uni) = match (guard(|| Multinomial::new(pp.clone(), *n).ok()).flatten(), Binomial::new(pp[1] / s, *n)) {
                (Some(d), Ok(u)) => (d, u),
                _ => return out,
            };
            let ztag = if pp.iter().any(|v| *v == 0.0) { " @zero-probability category" } else { "" };
            for k in 0..=*n {
                let xx = DVector::from_vec(vec![n - k, k]);
                let at = format!("p {}, n {}, k {}", vs(pp), n, k);
                cmp9(&mut out, &format!("Multinomial(2) pmf != Binomial{}", ztag), "two-category reduction", at.clone(), guard(|| d.pmf(&xx)), guard(|| uni.pmf(k)));
                cmp9(&mut out, &format!("Multinomial(2) ln_pmf != Binomial{}", ztag), "two-category reduction", at, guard(|| d.ln_pmf(&xx)), guard(|| uni.ln_pmf(k)));
            }
            let at = format!("p {}, n {}", vs(pp), n);
            cmp9(&mut out, "Multinomial(2) mean != Binomial", "two-category reduction", at.clone(), guard(|| d.mean()).flatten().map(|m| m[1]), guard(|| Distribution::mean(&uni)).flatten());
            cmp9(&mut out, "Multinomial(2) variance != Binomial", "two-category reduction", at, guard(|| d.variance()).flatten().map(|v| v[(1, 1)]), guard(|| Distribution::variance(&uni)).flatten());
        }
        _ => {}
    }
    out
}

/// MultivariateStudent with freedom = +inf equals MultivariateNormal
fn inf_check(m: &[f64], c: &[f64], x: &[f64]) -> Vec<Finding> {
    let mut out = vec![];
    let (t, g) = match (build(&Par::Mvt(m.to_vec(), c.to_vec(), f64::INFINITY)), build(&Par::Mvn(m.to_vec(), c.to_vec()))) {
        (Some(t), Some(g)) => (t, g),
        _ => return out,
    };
    let at = format!("location {}, scale {}, x {}", vs(m), vs(c), vs(x));
    cmp9(&mut out, "MultivariateStudent(freedom=inf) pdf != MultivariateNormal", "ν = inf limit", at.clone(), t.pdf(x), g.pdf(x));
    cmp9(&mut out, "MultivariateStudent(freedom=inf) ln_pdf != MultivariateNormal", "ν = inf limit", at.clone(), t.ln_pdf(x), g.ln_pdf(x));
    match (t.mean(), g.mean()) {
        (Some(a), Some(b)) if a != b => out.push(fnd("MultivariateStudent(freedom=inf) mean != MultivariateNormal", "ν = inf limit", format!("{}: {:?} vs {:?}", at, a, b), "equal means")),
        _ => {}
    }
    match (t.variance(), g.variance()) {
        (Some(a), Some(b)) => {
            let same = match (&a, &b) {
                (Some(a), Some(b)) => a.iter().zip(b.iter()).all(|(x, y)| rel(*x, *y, 1e-9)),
                (None, None) => true,
                _ => false,
            };
            if !same {
                out.push(fnd("MultivariateStudent(freedom=inf) variance != MultivariateNormal", "ν = inf limit", format!("{}: {:?} vs {:?}", at, a, b), "equal covariances (1e-9)"));
            }
        }
        _ => {}
    }
    out
}

fn permute<T: Clone>(v: &[T], perm: &[usize]) -> Vec<T> {
    perm.iter().map(|i| v[*i].clone()).collect()
}
fn permute_mat(d: usize, c: &[f64], perm: &[usize]) -> Vec<f64> {
    let mut out = vec![0.0; d * d];
    for i in 0..d {
        for j in 0..d {
            out[i * d + j] = c[perm[i] * d + perm[j]];
        }
    }
    out
}

fn perm_check(p: &Par, x: &[f64], perm: &[usize]) -> Vec<Finding> {
    let mut out = vec![];
    let n = p.name();
    match p {
        Par::Mvn(m, c) | Par::Mvt(m, c, _) => {
            let d = m.len();
            let q = match p {
                Par::Mvn(..) => Par::Mvn(permute(m, perm), permute_mat(d, c, perm)),
                Par::Mvt(_, _, f) => Par::Mvt(permute(m, perm), permute_mat(d, c, perm), *f),
                _ => unreachable!(),
            };
            let (a, b) = match (build(p), build(&q)) {
                (Some(a), Some(b)) => (a, b),
                _ => return out,
            };
            let l = match chol(d, c) {
                Some(l) => l,
                None => return out,
            };
            let dx: Vec<f64> = x.iter().zip(m.iter()).map(|(a, b)| a - b).collect();
            let tol = 1e-9 + 4e-14 * cond_est(d, c, &l) * (1.0 + maha(d, &l, &dx));
            let (fa, fb) = (a.pdf(x), b.pdf(&permute(x, perm)));
            if let (Some(fa), Some(fb)) = (fa, fb) {
                if !(rel(fa, fb, tol) || (fa.is_nan() && fb.is_nan()) || (fa - fb).abs() < 1e-300) {
                    out.push(fnd(&format!("{}::pdf not permutation invariant", n), "pdf changes under a common permutation of coordinates and parameters", format!("perm {:?}, x {}: {} vs {} (tolerance {:e})", perm, vs(x), hx(fa), hx(fb), tol), "equal densities (1e-9 + conditioning allowance)"));
                }
            }
        }
        Par::Dir(a) => {
            let q = Par::Dir(permute(a, perm));
            if let (Some(la), Some(lb)) = (build(p), build(&q)) {
                cmp9(&mut out, "Dirichlet::pdf not permutation invariant", "pdf changes under a common permutation", format!("alpha {}, perm {:?}, x {}", vs(a), perm, vs(x)), la.pdf(x), lb.pdf(&permute(x, perm)));
            }
        }
        Par::Mult(pp, nn) => {
            let (da, db) = match (guard(|| Multinomial::new(pp.clone(), *nn).ok()).flatten(), guard(|| Multinomial::new(permute(pp, perm), *nn).ok()).flatten()) {
                (Some(a), Some(b)) => (a, b),
                _ => return out,
            };
            let xu: Vec<u64> = x.iter().map(|v| *v as u64).collect();
            let (xa, xb) = (DVector::from_vec(xu.clone()), DVector::from_vec(permute(&xu, perm)));
            cmp9(&mut out, "Multinomial::pmf not permutation invariant", "pmf changes under a common permutation", format!("p {}, n {}, perm {:?}, x {:?}", vs(pp), nn, perm, xu), guard(|| da.pmf(&xa)), guard(|| db.pmf(&xb)));
        }
    }
    out
}

// ---------------------------------------------------------------------------------------------
// generators
// ---------------------------------------------------------------------------------------------
fn gen_cov(r: &mut crate::rng::Sm, d: usize) -> Vec<f64> {
    // A with columns scaled over up to three decades => A·Aᵀ spans up to 1e6 in condition; eps·I bounds it
    let overall = r.log_range(1e-2, 1e2);
    let decades = match r.below(4) {
        0 => 0.0,
        1 => 1.0,
        _ => r.range(0.0, 3.0),
    };
    let a: Vec<f64> = (0..d * d).map(|k| r.range(-1.0, 1.0) * (10.0f64).powf(-decades * ((k % d) as f64) / (d.max(2) - 1) as f64)).collect();
    let mut c = vec![0.0; d * d];
    let mut tr = 0.0;
    for i in 0..d {
        for j in 0..=i {
            let s: f64 = (0..d).map(|k| a[i * d + k] * a[j * d + k]).sum();
            c[i * d + j] = s;
            c[j * d + i] = s;
        }
        tr += c[i * d + i];
    }
    let eps = tr.max(1e-3) * 1e-6 * (10.0f64).powf(r.range(0.0, 5.0));
    for i in 0..d {
        c[i * d + i] += eps;
    }
    for v in c.iter_mut() {
        *v *= overall;
    }
    // exact symmetry
    for i in 0..d {
        for j in 0..i {
            c[i * d + j] = c[j * d + i];
        }
    }
    c
}
fn gen_freedom(r: &mut crate::rng::Sm) -> f64 {
    match r.below(10) {
        0 => f64::INFINITY,
        1 => 0.5,
        2 => 1.0,
        3 => 2.0,
        4 => 3.0,
        5 => 100.0,
        _ => r.log_range(0.5, 100.0),
    }
}
fn gen_point(r: &mut crate::rng::Sm, m: &[f64], c: &[f64]) -> Vec<f64> {
    let d = m.len();
    let l = chol(d, c).unwrap_or_else(|| {
        let mut e = vec![0.0; d * d];
        for i in 0..d {
            e[i * d + i] = 1.0;
        }
        e
    });
    let spread = *r.pick(&[0.0, 0.5, 1.0, 3.0, 8.0, 30.0]);
    let z: Vec<f64> = (0..d).map(|_| r.range(-1.0, 1.0) * spread).collect();
    let dx = lmul(d, &l, &z);
    (0..d).map(|i| m[i] + dx[i]).collect()
}
fn gen_simplex(r: &mut crate::rng::Sm, k: usize) -> Vec<f64> {
    let e: Vec<f64> = (0..k).map(|_| -(1.0 - r.unit()).ln() * r.log_range(1e-2, 1.0)).collect();
    let s: f64 = e.iter().sum();
    let mut x: Vec<f64> = e.iter().map(|v| (v / s).clamp(1e-12, 1.0 - 1e-12)).collect();
    // renormalise the largest coordinate so that the sum is 1 up to rounding
    let imax = (0..k).max_by(|a, b| x[*a].partial_cmp(&x[*b]).unwrap()).unwrap();
    let rest: f64 = (0..k).filter(|i| *i != imax).map(|i| x[i]).sum();
    x[imax] = 1.0 - rest;
    x
}
fn gen_perm(r: &mut crate::rng::Sm, d: usize) -> Vec<usize> {
    let mut p: Vec<usize> = (0..d).collect();
    for i in (1..d).rev() {
        let j = r.below(i as u64 + 1) as usize;
        p.swap(i, j);
    }
    p
}
fn gen_probs(r: &mut crate::rng::Sm, k: usize) -> Vec<f64> {
    loop {
        let v: Vec<f64> = (0..k).map(|_| if r.below(4) == 0 { 0.0 } else { r.log_range(1e-2, 10.0) }).collect();
        if v.iter().filter(|x| **x > 0.0).count() >= 1 {
            return v;
        }
    }
}

fn emit(cx: &mut Ctx, fs: Vec<Finding>, check: &str, p: &Par, x: &[f64], perm: &[usize]) {
    for f in fs {
        let mut case = p.to_json();
        case["check"] = json!(check);
        case["x"] = json!(x.iter().map(|v| format!("{:016x}", v.to_bits())).collect::<Vec<_>>());
        case["perm"] = json!(perm);
        case["site"] = json!(f.site);
        cx.violation(&f.site, &f.what, case, f.observed, &f.required);
    }
}

pub fn run(cx: &mut Ctx) {
    let (n_par, n_pts, n_cub) = if cx.thorough { (2000, 12, 1200) } else { (60, 6, 24) };
    // ---- MVN / MVT
    for it in 0..n_par {
        let d = 1 + (it % 4);
        let m: Vec<f64> = (0..d).map(|_| cx.r.range(-10.0, 10.0)).collect();
        let c = gen_cov(&mut cx.r, d);
        let nu = gen_freedom(&mut cx.r);
        let pars = [Par::Mvn(m.clone(), c.clone()), Par::Mvt(m.clone(), c.clone(), nu)];
        for p in &pars {
            cx.evals += 1;
            let fs = moment_check(p);
            emit(cx, fs, "moment", p, &[], &[]);
            for _ in 0..n_pts {
                let x = gen_point(&mut cx.r, &m, &c);
                cx.evals += 3;
                let fs = point_check(p, &x);
                emit(cx, fs, "point", p, &x, &[]);
                let fs = reduction_check(p, &x);
                emit(cx, fs, "reduction", p, &x, &[]);
                if d > 1 {
                    let perm = gen_perm(&mut cx.r, d);
                    let fs = perm_check(p, &x, &perm);
                    emit(cx, fs, "perm", p, &x, &perm);
                }
            }
        }
        for _ in 0..n_pts {
            let x = gen_point(&mut cx.r, &m, &c);
            cx.evals += 1;
            let fs = inf_check(&m, &c, &x);
            emit(cx, fs, "inf", &Par::Mvt(m.clone(), c.clone(), f64::INFINITY), &x, &[]);
        }
    }
    // cubature in dimension 1–2
    for it in 0..n_cub {
        let d = 1 + (it % 2);
        let m: Vec<f64> = (0..d).map(|_| cx.r.range(-10.0, 10.0)).collect();
        let c = gen_cov(&mut cx.r, d);
        let nu = gen_freedom(&mut cx.r);
        for p in [Par::Mvn(m.clone(), c.clone()), Par::Mvt(m.clone(), c.clone(), nu)] {
            cx.evals += 1;
            let fs = cubature_check(&p);
            emit(cx, fs, "cubature", &p, &[], &[]);
        }
    }
    // ---- Dirichlet
    for it in 0..n_par {
        let k = 2 + (it % 4);
        let a: Vec<f64> = (0..k).map(|_| match cx.r.below(6) { 0 => 0.2, 1 => 1.0, 2 => 50.0, _ => cx.r.log_range(0.2, 50.0) }).collect();
        let p = Par::Dir(a.clone());
        cx.evals += 1;
        let fs = moment_check(&p);
        emit(cx, fs, "moment", &p, &[], &[]);
        for _ in 0..n_pts {
            let x = gen_simplex(&mut cx.r, k);
            cx.evals += 3;
            let fs = point_check(&p, &x);
            emit(cx, fs, "point", &p, &x, &[]);
            let fs = reduction_check(&p, &x);
            emit(cx, fs, "reduction", &p, &x, &[]);
            let perm = gen_perm(&mut cx.r, k);
            let fs = perm_check(&p, &x, &perm);
            emit(cx, fs, "perm", &p, &x, &perm);
        }
        if k <= 3 && it < 2 * n_cub {
            cx.evals += 1;
            let fs = cubature_check(&p);
            emit(cx, fs, "cubature", &p, &[], &[]);
        }
    }
    // ---- Multinomial: all compositions
    let nmax = if cx.thorough { 8 } else { 6 };
    let n_m = if cx.thorough { 1500 } else { 60 };
    for it in 0..n_m {
        let k = 2 + (it % 4);
        let mut pp = gen_probs(&mut cx.r, k);
        if it % 5 == 3 {
            // weights that ALMOST sum to one (typed to a few decimals): normalisation must not depend on a tolerance test
            let s: f64 = pp.iter().sum();
            let off = *cx.r.pick(&[1e-5, -1e-5, 9e-5, -9e-5, 1e-4, 1.1e-4, 1e-3, -1e-3, 1e-9]);
            if s > 0.0 {
                for v in pp.iter_mut() {
                    *v = *v / s * (1.0 + off);
                }
            }
        }
        let n = if it < 2 * (nmax as usize + 1) { (it / 2) as u64 % (nmax + 1) } else { cx.r.below(nmax + 1) };
        let p = Par::Mult(pp.clone(), n);
        cx.evals += 1;
        let fs = multinomial_check(&pp, n);
        emit(cx, fs, "multinomial", &p, &[], &[]);
        let fs = reduction_check(&p, &[]);
        emit(cx, fs, "reduction", &p, &[], &[]);
        let comps = compositions(n, k);
        for _ in 0..n_pts.min(comps.len()) {
            let x: Vec<f64> = cx.r.pick(&comps).iter().map(|v| *v as f64).collect();
            let perm = gen_perm(&mut cx.r, k);
            cx.evals += 1;
            let fs = perm_check(&p, &x, &perm);
            emit(cx, fs, "perm", &p, &x, &perm);
        }
    }
    if std::env::var("C19_STATS").is_ok() {
        eprintln!("C19 skipped (uncertified cubature) = {}", SKIPPED.load(Ordering::Relaxed));
    }
}

pub fn replay(case: &Value) -> String {
    let p = match Par::from_json(case) {
        Some(p) => p,
        None => return format!("cannot decode case {}", case),
    };
    let x: Vec<f64> = case["x"].as_array().map(|a| a.iter().filter_map(|s| s.as_str().and_then(|h| u64::from_str_radix(h, 16).ok()).map(f64::from_bits)).collect()).unwrap_or_default();
    let perm: Vec<usize> = case["perm"].as_array().map(|a| a.iter().filter_map(|v| v.as_u64().map(|u| u as usize)).collect()).unwrap_or_default();
    let fs = match case["check"].as_str().unwrap_or("") {
        "moment" => moment_check(&p),
        "point" => point_check(&p, &x),
        "reduction" => reduction_check(&p, &x),
        "perm" => perm_check(&p, &x, &perm),
        "cubature" => cubature_check(&p),
        "inf" => match &p {
            Par::Mvt(m, c, _) => inf_check(m, c, &x),
            _ => vec![],
        },
        "multinomial" => match &p {
            Par::Mult(pp, n) => multinomial_check(pp, *n),
            _ => vec![],
        },
        other => return format!("unknown check {}", other),
    };
    let want = case["site"].as_str().unwrap_or("");
    let mine: Vec<&Finding> = fs.iter().filter(|f| want.is_empty() || f.site == want).collect();
    if mine.is_empty() {
        "observed: the check passes on replay / required: (no violation)".to_string()
    } else {
        mine.iter().map(|f| format!("[{}] observed: {} / required: {}", f.site, f.observed, f.required)).collect::<Vec<_>>().join(" ;; ")
    }
}
