//! C20 — utility arithmetic and generators keep their stated contracts.
//!
//! Every check is `eval(case) -> findings` on a self-contained JSON case, so `replay` re-runs exactly
//! what `run` evaluated.  Floats are stored in cases as 16-hex-digit bit patterns (key `..`), with a
//! decimal rendering under `"_"` for the reader only.
//!
//! Checks (tolerances stated where they are applied):
//!  * `mod`      Modulus::modulus for i32/u32/i64/u64 (exact oracle in i128) and f32/f64 (exact oracle in
//!               BigRational).  d != 0, finite operands.  The mathematical residue of an integer pair is
//!               always representable (|r| < |d|), so ANY panic is a violation.  For floats the exact residue
//!               must be returned whenever it is representable in the type; otherwise only `r in [0,d)`
//!               (`(d,0]` for d<0) and not NaN is required.
//!  * `periodic` InfinitePeriodic: x_i in [0,amplitude); x_i = (phase + (i-delay)*f/r*A) mod A, compared on the
//!               circle R/A with tol_i = A*(1e-9 + 4*eps*(i+|delay|+2)*max(1,f/r)), eps = 2^-53; a value that is
//!               within tol only circularly (i.e. on the other side of the wrap discontinuity) is reported
//!               under a separate "wrap late" site.
//!  * `sine`     InfiniteSinusoidal: |x_i - mean| <= |A| exactly (f64 bound mean+-|A|), and
//!               x_i = mean + A sin(phase + 2 pi (i-delay) f/r) with the cycle fraction reduced exactly in
//!               rationals; tol_i = |A|*(1e-9 + 8*eps*(i+|delay|+2)*max(1, 2 pi f/r)) + 4 ulp(|mean|+|A|).
//!  * `square`   InfiniteSquare: value in {high,low}; equals high iff ((i-delay) mod (h+l)) < h (exact integers).
//!  * `triangle` InfiniteTriangle: within [min(low,high), max(low,high)]; closed form with exact rationals,
//!               tol_i = |height|*(1e-9 + 4*eps*(i+|delay|+2)).
//!  * `sawtooth` InfiniteSawtooth: within [low,high]; low + ((i-delay) mod p)*height/(p-1), compared on the
//!               circle of circumference height*p/(p-1) with the same tol; a flip at the wrap shows up as a
//!               gross bound violation.
//!  * `logsp`    log_spaced: len == length, first == 10^start, last == 10^stop (bit-identical to
//!               10f64.powf(e), and to the literal 1eK for integer K in -22..=22).
//!  * `poly`     polynomial(z, c) vs exact rational value: |err| <= gamma_{2n} * sum |c_i||z|^i, n = degree,
//!               gamma_k = k*u/(1-k*u), u = 2^-53 (operands chosen so that nothing under/overflows).
//!  * `almost`   almost_eq(a,b,acc) == almost_eq(b,a,acc); almost_eq(inf,inf,acc) and (-inf,-inf) are true.
use crate::search::Ctx;
use num_bigint::BigInt;
use num_rational::BigRational;
use num_traits::{FromPrimitive, One, Signed, ToPrimitive, Zero};
use serde_json::{json, Value};
use statrs::euclid::Modulus;
use statrs::generate::*;
use std::panic::{catch_unwind, AssertUnwindSafe};

pub struct Finding {
    pub site: String,
    pub what: String,
    pub observed: String,
    pub required: String,
}
fn finding(site: &str, what: &str, observed: String, required: &str) -> Finding {
    Finding { site: site.to_string(), what: what.to_string(), observed, required: required.to_string() }
}

fn hx(x: f64) -> Value {
    json!(format!("{:016x}", x.to_bits()))
}
fn unhx(v: &Value) -> f64 {
    f64::from_bits(u64::from_str_radix(v.as_str().unwrap_or("7ff8000000000000"), 16).unwrap_or(0x7ff8000000000000))
}
fn hx32(x: f32) -> Value {
    json!(format!("{:08x}", x.to_bits()))
}
fn unhx32(v: &Value) -> f32 {
    f32::from_bits(u32::from_str_radix(v.as_str().unwrap_or("7fc00000"), 16).unwrap_or(0x7fc00000))
}
fn geti(v: &Value) -> i128 {
    v.as_str().and_then(|s| s.parse::<i128>().ok()).or(v.as_i64().map(|x| x as i128)).or(v.as_u64().map(|x| x as i128)).unwrap_or(0)
}
fn fm(x: f64) -> String {
    format!("{:e} (0x{:016x})", x, x.to_bits())
}
fn rat(x: f64) -> BigRational {
    BigRational::from_float(x).unwrap()
}
fn ri(k: i128) -> BigRational {
    BigRational::from_integer(BigInt::from_i128(k).unwrap())
}
fn r2f(r: &BigRational) -> f64 {
    r.to_f64().unwrap_or(f64::NAN)
}
const EPS: f64 = 1.1102230246251565e-16;

/// run `f` on a helper thread, give up after 10 s (the thread is leaked then)
fn guarded<T: Send + 'static>(f: impl FnOnce() -> T + Send + 'static) -> Result<T, &'static str> {
    let (tx, rx) = std::sync::mpsc::channel();
    std::thread::spawn(move || {
        let r = catch_unwind(AssertUnwindSafe(f));
        let _ = tx.send(r);
    });
    match rx.recv_timeout(std::time::Duration::from_secs(10)) {
        Ok(Ok(v)) => Ok(v),
        Ok(Err(_)) => Err("panic"),
        Err(_) => Err("hang"),
    }
}

// ------------------------------------------------------------------------------------------------ modulus
fn int_residue(x: i128, d: i128) -> i128 {
    let r = x.rem_euclid(d.abs());
    if d < 0 && r != 0 {
        r + d
    } else {
        r
    }
}
fn dclass_i(x: i128, d: i128, min: i128) -> String {
    if x == min && d == -1 {
        "@x=MIN,d=-1".into()
    } else if d > 0 {
        "@d>0".into()
    } else {
        "@d<0".into()
    }
}
fn eval_mod_int(ty: &str, x: i128, d: i128) -> Vec<Finding> {
    let mut out = vec![];
    let (got, min): (Result<i128, ()>, i128) = match ty {
        "i32" => (catch_unwind(|| (x as i32).modulus(d as i32) as i128).map_err(|_| ()), i32::MIN as i128),
        "u32" => (catch_unwind(|| (x as u32).modulus(d as u32) as i128).map_err(|_| ()), 0),
        "i64" => (catch_unwind(|| (x as i64).modulus(d as i64) as i128).map_err(|_| ()), i64::MIN as i128),
        "u64" => (catch_unwind(|| (x as u64).modulus(d as u64) as i128).map_err(|_| ()), 0),
        _ => return out,
    };
    let want = int_residue(x, d);
    let cls = if ty.starts_with('u') { if d as u128 > (if ty == "u32" { u32::MAX as u128 } else { u64::MAX as u128 }) / 2 { "@d>MAX/2".to_string() } else { "@d<=MAX/2".to_string() } } else { dclass_i(x, d, min) };
    match got {
        Err(()) => out.push(finding(&format!("Modulus<{}> panic {}", ty, cls), "modulus panics although the canonical residue is representable", format!("panic; exact residue {}", want), "r with 0<=r<d (d<r<=0 for d<0), x-r divisible by d")),
        Ok(g) if g != want => out.push(finding(&format!("Modulus<{}> wrong residue {}", ty, cls), "modulus returns a value that is not the canonical residue", format!("{}", g), &format!("{}", want))),
        _ => {}
    }
    out
}
/// coarse operand class: magnitude class + position of x relative to d
fn fclass(x: f64, d: f64, max: f64, min_pos: f64) -> String {
    let big = |v: f64| v.abs() > max / 2.0;
    let mag = if big(d) || big(x) {
        "@|operand|>MAX/2"
    } else if d.abs() < min_pos || (x != 0.0 && x.abs() < min_pos) {
        "@subnormal operand"
    } else {
        "@ordinary"
    };
    let rel = if x == 0.0 || ((x > 0.0) == (d > 0.0) && x.abs() < d.abs()) {
        "x already in range"
    } else if (x > 0.0) == (d > 0.0) {
        "|x|>=|d| same sign"
    } else {
        "opposite signs"
    };
    format!("{} {}", mag, rel)
}
fn exact_residue(x: &BigRational, d: &BigRational) -> BigRational {
    let q = (x / d).floor();
    x - d * q
}
fn eval_mod_f64(x: f64, d: f64) -> Vec<Finding> {
    let mut out = vec![];
    let got = catch_unwind(|| x.modulus(d));
    let r = exact_residue(&rat(x), &rat(d));
    let rf = r2f(&r);
    let representable = rf.is_finite() && rat(rf) == r;
    let cls = fclass(x, d, f64::MAX, f64::MIN_POSITIVE);
    let sgn = if d > 0.0 { "d>0" } else { "d<0" };
    match got {
        Err(_) => out.push(finding(&format!("Modulus<f64> panic {}", cls), "panic", "panic".into(), "a value")),
        Ok(g) => {
            if representable {
                if !(g == rf) {
                    let kind = if g.is_nan() { "NaN" } else { "wrong residue" };
                    out.push(finding(&format!("Modulus<f64> {} {} {}", kind, cls, sgn), "the exact residue is representable but is not returned", fm(g), &format!("{} exactly", fm(rf))));
                }
            } else {
                let ok = if d > 0.0 { g >= 0.0 && g < d } else { g <= 0.0 && g > d };
                if !ok {
                    out.push(finding(&format!("Modulus<f64> out of range {} {}", cls, sgn), "result outside [0,d) resp. (d,0]", fm(g), "0 <= r < d (d < r <= 0 for negative d)"));
                }
            }
        }
    }
    out
}
fn eval_mod_f32(x: f32, d: f32) -> Vec<Finding> {
    let mut out = vec![];
    let got = catch_unwind(|| x.modulus(d));
    let r = exact_residue(&BigRational::from_float(x).unwrap(), &BigRational::from_float(d).unwrap());
    let rf = r.to_f64().unwrap_or(f64::NAN);
    let rf32 = rf as f32;
    let representable = rf32.is_finite() && BigRational::from_float(rf32).unwrap() == r;
    let cls = fclass(x as f64, d as f64, f32::MAX as f64, f32::MIN_POSITIVE as f64);
    let sgn = if d > 0.0 { "d>0" } else { "d<0" };
    match got {
        Err(_) => out.push(finding(&format!("Modulus<f32> panic {}", cls), "panic", "panic".into(), "a value")),
        Ok(g) => {
            if representable {
                if !(g == rf32) {
                    let kind = if g.is_nan() { "NaN" } else { "wrong residue" };
                    out.push(finding(&format!("Modulus<f32> {} {} {}", kind, cls, sgn), "the exact residue is representable but is not returned", format!("{:e} (0x{:08x})", g, g.to_bits()), &format!("{:e} exactly", rf32)));
                }
            } else {
                let ok = if d > 0.0 { g >= 0.0 && g < d } else { g <= 0.0 && g > d };
                if !ok {
                    out.push(finding(&format!("Modulus<f32> out of range {} {}", cls, sgn), "result outside [0,d) resp. (d,0]", format!("{:e}", g), "0 <= r < d (d < r <= 0 for negative d)"));
                }
            }
        }
    }
    out
}

// ------------------------------------------------------------------------------------------------ generators
fn take_n<I: Iterator<Item = f64> + Send + 'static>(mk: impl FnOnce() -> I + Send + 'static, n: usize) -> Result<Vec<f64>, &'static str> {
    guarded(move || mk().take(n).collect::<Vec<f64>>())
}
fn circ(a: f64, b: f64, c: f64) -> f64 {
    let d = (a - b).abs();
    d.min((c - d).abs())
}

fn eval_periodic(rate: f64, freq: f64, amp: f64, phase: f64, delay: i64, n: usize) -> Vec<Finding> {
    let mut out = vec![];
    let v = match take_n(move || InfinitePeriodic::new(rate, freq, amp, phase, delay), n) {
        Ok(v) => v,
        Err(e) => {
            out.push(finding(&format!("InfinitePeriodic {}", e), "generator did not produce its first n values", e.into(), "n values"));
            return out;
        }
    };
    let a = rat(amp);
    let step = rat(freq) / rat(rate) * &a;
    let mut ph = exact_residue(&(rat(phase) - ri(delay as i128) * &step), &a);
    let ratio = (freq / rate).abs().max(1.0);
    let (mut f_range, mut f_cf, mut f_wrap) = (false, false, false);
    for (i, &x) in v.iter().enumerate() {
        let e = r2f(&ph);
        let tol = amp * (1e-9 + 4.0 * EPS * (i as f64 + (delay as f64).abs() + 2.0) * ratio);
        if !(x >= 0.0 && x < amp) && !f_range {
            f_range = true;
            out.push(finding("InfinitePeriodic outside [0,amplitude)", "value leaves [0, amplitude)", format!("index {}: {}", i, fm(x)), &format!("0 <= x < {}", amp)));
        }
        if x.is_finite() {
            let lin = (x - e).abs();
            if circ(x, e, amp) > tol {
                if !f_cf {
                    f_cf = true;
                    out.push(finding("InfinitePeriodic != closed form", "value differs from (phase+(i-delay)*f/r*A) mod A by more than the tolerance (even circularly)", format!("index {}: {} (exact {:e}, tol {:e})", i, fm(x), e, tol), "closed-form waveform"));
                }
            } else if lin > tol && !f_wrap {
                f_wrap = true;
                out.push(finding("InfinitePeriodic wrap late (value ~amplitude where closed form ~0)", "value is on the other side of the wrap discontinuity", format!("index {}: {} (exact {:e})", i, fm(x), e), "closed-form waveform (value just above 0)"));
            }
        }
        ph = ph + &step;
        if ph >= a || ph < BigRational::zero() {
            ph = exact_residue(&ph, &a);
        }
    }
    // repeats with its period when r/f is an integer
    let p = rate / freq;
    if p.fract() == 0.0 && p >= 1.0 && (p as usize) < n {
        let p = p as usize;
        for i in 0..(n - p) {
            let tol = 2.0 * amp * (1e-9 + 4.0 * EPS * ((i + p) as f64 + (delay as f64).abs() + 2.0) * ratio);
            if v[i].is_finite() && v[i + p].is_finite() && circ(v[i], v[i + p], amp) > tol {
                out.push(finding("InfinitePeriodic not periodic", "x[i+P] differs from x[i]", format!("index {}: {} vs index {}: {}", i, fm(v[i]), i + p, fm(v[i + p])), "x[i+P] = x[i] for P = sampling_rate/frequency"));
                break;
            }
        }
    }
    out
}

fn eval_sine(rate: f64, freq: f64, amp: f64, mean: f64, phase: f64, delay: i64, n: usize) -> Vec<Finding> {
    let mut out = vec![];
    let v = match take_n(move || InfiniteSinusoidal::new(rate, freq, amp, mean, phase, delay), n) {
        Ok(v) => v,
        Err(e) => {
            out.push(finding(&format!("InfiniteSinusoidal {}", e), "generator did not produce its first n values", e.into(), "n values"));
            return out;
        }
    };
    let cyc = rat(freq) / rat(rate);
    let one = BigRational::one();
    let mut c = exact_residue(&(-ri(delay as i128) * &cyc), &one);
    let (lo, hi) = (mean - amp.abs(), mean + amp.abs());
    let ratio = (2.0 * std::f64::consts::PI * freq / rate).abs().max(1.0);
    let ulp_term = 4.0 * EPS * 2.0 * (mean.abs() + amp.abs());
    let (mut f_b, mut f_cf) = (false, false);
    for (i, &x) in v.iter().enumerate() {
        let frac = r2f(&c);
        let e = mean + amp * (phase + 2.0 * std::f64::consts::PI * frac).sin();
        let tol = amp.abs() * (1e-9 + 8.0 * EPS * (i as f64 + (delay as f64).abs() + 2.0) * ratio) + ulp_term;
        if !(x >= lo && x <= hi) && !f_b {
            f_b = true;
            out.push(finding("InfiniteSinusoidal outside mean+-amplitude", "value leaves [mean-|A|, mean+|A|]", format!("index {}: {}", i, fm(x)), &format!("{:e} <= x <= {:e}", lo, hi)));
        }
        if !((x - e).abs() <= tol) && !f_cf {
            f_cf = true;
            out.push(finding("InfiniteSinusoidal != closed form", "value differs from mean + A sin(phase + 2 pi (i-delay) f/r)", format!("index {}: {} (closed form {:e}, tol {:e})", i, fm(x), e, tol), "closed-form waveform"));
        }
        c = c + &cyc;
        if c >= one || c < BigRational::zero() {
            c = exact_residue(&c, &one);
        }
    }
    out
}

fn eval_square(h: i64, l: i64, high: f64, low: f64, delay: i64, n: usize) -> Vec<Finding> {
    let mut out = vec![];
    let v = match take_n(move || InfiniteSquare::new(h, l, high, low, delay), n) {
        Ok(v) => v,
        Err(e) => {
            out.push(finding(&format!("InfiniteSquare {}", e), "generator did not produce its first n values", e.into(), "n values"));
            return out;
        }
    };
    let d = (h as i128) + (l as i128);
    let (mut f_b, mut f_cf) = (false, false);
    for (i, &x) in v.iter().enumerate() {
        let m = (i as i128 - delay as i128).rem_euclid(d);
        let e = if m < h as i128 { high } else { low };
        if x.to_bits() != high.to_bits() && x.to_bits() != low.to_bits() && !f_b {
            f_b = true;
            out.push(finding("InfiniteSquare value not in {high,low}", "value is neither level", format!("index {}: {}", i, fm(x)), "high_value or low_value"));
        }
        if x.to_bits() != e.to_bits() && !f_cf {
            f_cf = true;
            let at = if m == 0 || m == h as i128 { "transition sample" } else { "inside a level" };
            // the recorded late-transition defect needs a period whose reciprocal does not multiply back to 1:
            // fl(fl(1/d)*d) = 1 exactly for every d < 49 (proved: Props/C20/FloatGeneratorsB.duration_step_exact_below_49),
            // so a deviation with a shorter period is a different defect and gets its own site
            let at = if d < 49 { format!("{} @period<49", at) } else { at.to_string() };
            out.push(finding(&format!("InfiniteSquare != closed form ({})", at), "level differs from: high iff ((i-delay) mod (high_duration+low_duration)) < high_duration", format!("index {} (position {} in period {}): {}", i, m, d, fm(x)), &format!("{:e}", e)));
        }
    }
    out
}

fn eval_triangle(r: i64, f: i64, high: f64, low: f64, delay: i64, n: usize) -> Vec<Finding> {
    let mut out = vec![];
    let v = match take_n(move || InfiniteTriangle::new(r, f, high, low, delay), n) {
        Ok(v) => v,
        Err(e) => {
            out.push(finding(&format!("InfiniteTriangle {}", e), "generator did not produce its first n values", e.into(), "n values"));
            return out;
        }
    };
    let d = (r as i128) + (f as i128);
    let height = rat(high) - rat(low);
    let hf = (high - low).abs();
    let (bl, bh) = (low.min(high), low.max(high));
    let (mut f_b, mut f_bg, mut f_cf) = (false, false, false);
    for (i, &x) in v.iter().enumerate() {
        let m = (i as i128 - delay as i128).rem_euclid(d);
        let e = if m < r as i128 { rat(low) + ri(m) * &height / ri(r as i128) } else { rat(high) - ri(m - r as i128) * &height / ri(f as i128) };
        let e = r2f(&e);
        let tol = hf * (1e-9 + 4.0 * EPS * (i as f64 + (delay as f64).abs() + 2.0)) + 8.0 * EPS * (high.abs() + low.abs());
        if !(x >= bl && x <= bh) {
            let excess = if x < bl { bl - x } else if x > bh { x - bh } else { f64::NAN };
            if excess <= 1e-9 * hf {
                if !f_b {
                    f_b = true;
                    out.push(finding("InfiniteTriangle outside [low,high] by rounding (<=1e-9*height)", "value leaves the high/low bounds by a few ulp", format!("index {}: {}", i, fm(x)), &format!("{:e} <= x <= {:e}", bl, bh)));
                }
            } else if !f_bg {
                f_bg = true;
                out.push(finding("InfiniteTriangle outside [low,high]", "value leaves the high/low bounds", format!("index {}: {}", i, fm(x)), &format!("{:e} <= x <= {:e}", bl, bh)));
            }
        }
        if !((x - e).abs() <= tol) && !f_cf {
            f_cf = true;
            out.push(finding("InfiniteTriangle != closed form", "value differs from the piecewise-linear closed form", format!("index {} (position {} in period {}): {} (closed form {:e}, tol {:e})", i, m, d, fm(x), e, tol), "closed-form waveform"));
        }
    }
    out
}

fn eval_sawtooth(p: i64, high: f64, low: f64, delay: i64, n: usize) -> Vec<Finding> {
    let mut out = vec![];
    let v = match take_n(move || InfiniteSawtooth::new(p, high, low, delay), n) {
        Ok(v) => v,
        Err(e) => {
            out.push(finding(&format!("InfiniteSawtooth {}", e), "generator did not produce its first n values", e.into(), "n values"));
            return out;
        }
    };
    let height = rat(high) - rat(low);
    let hf = (high - low).abs();
    let circum = hf * p as f64 / (p as f64 - 1.0);
    let (bl, bh) = (low.min(high), low.max(high));
    let (mut f_b, mut f_bg, mut f_cf) = (false, false, false);
    for (i, &x) in v.iter().enumerate() {
        let m = (i as i128 - delay as i128).rem_euclid(p as i128);
        let e = r2f(&(rat(low) + ri(m) * &height / ri(p as i128 - 1)));
        let tol = hf * (1e-9 + 4.0 * EPS * (i as f64 + (delay as f64).abs() + 2.0)) + 8.0 * EPS * (high.abs() + low.abs());
        if !(x >= bl && x <= bh) {
            let excess = if x < bl { bl - x } else if x > bh { x - bh } else { f64::NAN };
            if excess <= 1e-9 * hf {
                if !f_b {
                    f_b = true;
                    out.push(finding("InfiniteSawtooth outside [low,high] by rounding (<=1e-9*height)", "value leaves the high/low bounds by a few ulp", format!("index {}: {}", i, fm(x)), &format!("{:e} <= x <= {:e}", bl, bh)));
                }
            } else if !f_bg {
                f_bg = true;
                out.push(finding("InfiniteSawtooth outside [low,high]", "value leaves the high/low bounds (wrap missed: one more step above high_value)", format!("index {} (position {} in period {}): {}", i, m, p, fm(x)), &format!("{:e} <= x <= {:e}", bl, bh)));
            }
        }
        if x.is_finite() && circ(x, e, circum) > tol && !f_cf {
            f_cf = true;
            out.push(finding("InfiniteSawtooth != closed form", "value differs from low + ((i-delay) mod p)*height/(p-1)", format!("index {} (position {} in period {}): {} (closed form {:e}, tol {:e})", i, m, p, fm(x), e, tol), "closed-form waveform"));
        }
    }
    out
}

fn eval_logsp(len: usize, a: f64, b: f64) -> Vec<Finding> {
    let mut out = vec![];
    let v = match guarded(move || log_spaced(len, a, b)) {
        Ok(v) => v,
        Err(e) => {
            out.push(finding(&format!("log_spaced {}", e), "no result", e.into(), "a vector"));
            return out;
        }
    };
    if v.len() != len {
        out.push(finding("log_spaced length", "wrong length", format!("{}", v.len()), &format!("{}", len)));
        return out;
    }
    let lit = |e: f64| -> Option<f64> {
        if e.fract() == 0.0 && e.abs() <= 22.0 {
            format!("1e{}", e as i64).parse::<f64>().ok()
        } else {
            None
        }
    };
    if len >= 2 || (len == 1 && a == b) {
        let first = lit(a).unwrap_or(10f64.powf(a));
        if v[0].to_bits() != first.to_bits() {
            out.push(finding("log_spaced first != 10^start", "first element is not the start end point", fm(v[0]), &fm(first)));
        }
    }
    if len >= 1 {
        let last = lit(b).unwrap_or(10f64.powf(b));
        if v[len - 1].to_bits() != last.to_bits() {
            out.push(finding("log_spaced last != 10^stop", "last element is not the stop end point", fm(v[len - 1]), &fm(last)));
        }
    }
    out
}

fn eval_poly(z: f64, c: &[f64]) -> Vec<Finding> {
    let mut out = vec![];
    let c2 = c.to_vec();
    let got = match catch_unwind(move || statrs::function::evaluate::polynomial(z, &c2)) {
        Ok(g) => g,
        Err(_) => {
            out.push(finding("polynomial panic", "panic", "panic".into(), "a value"));
            return out;
        }
    };
    if c.is_empty() {
        if got != 0.0 {
            out.push(finding("polynomial empty != 0", "empty coefficient slice", fm(got), "0"));
        }
        return out;
    }
    let zr = rat(z);
    let mut exact = BigRational::zero();
    let mut abs_sum = BigRational::zero();
    let mut zp = BigRational::one();
    for &ci in c {
        exact += rat(ci) * &zp;
        abs_sum += (rat(ci) * &zp).abs();
        zp *= &zr;
    }
    let n = c.len() - 1;
    let k = ri(2 * n as i128);
    let u = BigRational::new(BigInt::one(), BigInt::one() << 53);
    let gamma = &k * &u / (BigRational::one() - &k * &u);
    let bound = gamma * &abs_sum;
    if !got.is_finite() {
        out.push(finding("polynomial non-finite", "non-finite value for moderate operands", fm(got), &format!("{:e}", r2f(&exact))));
        return out;
    }
    let err = (rat(got) - &exact).abs();
    if err > bound {
        out.push(finding("polynomial exceeds Horner bound", "|p_computed - p_exact| > gamma_{2n} sum |c_i||z|^i", format!("{} (exact {:e}, error {:e})", fm(got), r2f(&exact), r2f(&err)), &format!("error <= {:e}", r2f(&bound))));
    }
    out
}

fn eval_almost(a: f64, b: f64, acc: f64) -> Vec<Finding> {
    let mut out = vec![];
    let r1 = catch_unwind(|| statrs::prec::almost_eq(a, b, acc));
    let r2 = catch_unwind(|| statrs::prec::almost_eq(b, a, acc));
    match (r1, r2) {
        (Ok(x), Ok(y)) => {
            if x != y {
                out.push(finding("almost_eq not symmetric", "almost_eq(a,b) != almost_eq(b,a)", format!("{} vs {}", x, y), "equal"));
            }
            if a.is_infinite() && a == b && !x {
                out.push(finding("almost_eq equal infinities unequal", "equal infinities compare unequal", "false".into(), "true"));
            }
        }
        _ => out.push(finding("almost_eq panic", "panic", "panic".into(), "a bool")),
    }
    out
}

// ------------------------------------------------------------------------------------------------ dispatch
pub fn eval(case: &Value) -> Vec<Finding> {
    let k = case["k"].as_str().unwrap_or("");
    let n = case["n"].as_u64().unwrap_or(0) as usize;
    match k {
        "mod" => {
            let ty = case["ty"].as_str().unwrap_or("");
            match ty {
                "f64" => eval_mod_f64(unhx(&case["x"]), unhx(&case["d"])),
                "f32" => eval_mod_f32(unhx32(&case["x"]), unhx32(&case["d"])),
                _ => eval_mod_int(ty, geti(&case["x"]), geti(&case["d"])),
            }
        }
        "periodic" => eval_periodic(unhx(&case["rate"]), unhx(&case["freq"]), unhx(&case["amp"]), unhx(&case["phase"]), geti(&case["delay"]) as i64, n),
        "sine" => eval_sine(unhx(&case["rate"]), unhx(&case["freq"]), unhx(&case["amp"]), unhx(&case["mean"]), unhx(&case["phase"]), geti(&case["delay"]) as i64, n),
        "square" => eval_square(geti(&case["h"]) as i64, geti(&case["l"]) as i64, unhx(&case["high"]), unhx(&case["low"]), geti(&case["delay"]) as i64, n),
        "triangle" => eval_triangle(geti(&case["r"]) as i64, geti(&case["f"]) as i64, unhx(&case["high"]), unhx(&case["low"]), geti(&case["delay"]) as i64, n),
        "sawtooth" => eval_sawtooth(geti(&case["p"]) as i64, unhx(&case["high"]), unhx(&case["low"]), geti(&case["delay"]) as i64, n),
        "logsp" => eval_logsp(n, unhx(&case["a"]), unhx(&case["b"])),
        "poly" => {
            let c: Vec<f64> = case["c"].as_array().map(|a| a.iter().map(unhx).collect()).unwrap_or_default();
            eval_poly(unhx(&case["z"]), &c)
        }
        "almost" => eval_almost(unhx(&case["a"]), unhx(&case["b"]), unhx(&case["acc"])),
        _ => vec![finding("C20 bad case", "unknown case kind", k.to_string(), "")],
    }
}

fn submit(cx: &mut Ctx, case: Value) {
    cx.evals += 1;
    for f in eval(&case) {
        cx.violation(&f.site, &f.what, case.clone(), f.observed, &f.required);
    }
}

pub fn run(cx: &mut Ctx) {
    let thorough = cx.thorough;
    // ---- integer modulus: boundary lattice, all pairs; plus seeded random operands
    macro_rules! lattice {
        ($ty:expr, $min:expr, $max:expr, $signed:expr) => {{
            let (mn, mx): (i128, i128) = ($min as i128, $max as i128);
            let mut l: Vec<i128> = if $signed { vec![mn, mn + 1, mn + 2, mn / 2 - 1, mn / 2, mn / 2 + 1, -3, -2, -1, 0, 1, 2, 3, mx / 2 - 1, mx / 2, mx / 2 + 1, mx / 2 + 2, mx - 2, mx - 1, mx] } else { vec![0, 1, 2, 3, 7, mx / 2 - 1, mx / 2, mx / 2 + 1, mx / 2 + 2, mx - 2, mx - 1, mx] };
            l.sort();
            l.dedup();
            for &x in &l {
                for &d in &l {
                    if d != 0 {
                        submit(cx, json!({"k":"mod","ty":$ty,"x":x.to_string(),"d":d.to_string()}));
                    }
                }
            }
            let nr = if thorough { 20000 } else { 2000 };
            for _ in 0..nr {
                let pickv = |cx: &mut Ctx| -> i128 {
                    let span = (mx - mn) as u128 + 1;
                    match cx.r.below(4) {
                        0 => *cx.r.pick(&l),
                        1 => mn + (((cx.r.next() as u128) << 64 | cx.r.next() as u128) % span) as i128,
                        2 => (cx.r.below(2000) as i128 - if $signed { 1000 } else { 0 }).clamp(mn, mx),
                        _ => {
                            let sh = cx.r.below(if mx > u32::MAX as i128 { 64 } else { 32 });
                            let m = ((cx.r.next() as u128) >> (64 - sh.min(63))) as i128;
                            if $signed && cx.r.below(2) == 0 { (-m).clamp(mn, mx) } else { m.clamp(mn, mx) }
                        }
                    }
                };
                let x = pickv(cx);
                let d = pickv(cx);
                if d != 0 {
                    submit(cx, json!({"k":"mod","ty":$ty,"x":x.to_string(),"d":d.to_string()}));
                }
            }
        }};
    }
    lattice!("i32", i32::MIN, i32::MAX, true);
    lattice!("u32", 0u32, u32::MAX, false);
    lattice!("i64", i64::MIN, i64::MAX, true);
    lattice!("u64", 0u64, u64::MAX, false);

    // ---- float modulus
    let nu = |x: f64| f64::from_bits(x.to_bits() + 1);
    let nd = |x: f64| f64::from_bits(x.to_bits() - 1);
    let base = [5e-324, 1e-310, f64::MIN_POSITIVE, nu(f64::MIN_POSITIVE), 1e-300, 1e-20, 0.1, 0.3, 0.5, nd(1.0), 1.0, nu(1.0), 1.5, 2.0, 3.0, std::f64::consts::PI, 7.0, 10.0, 360.0, 1e10, 9007199254740992.0, 9007199254740994.0, 1e300, f64::MAX / 4.0, f64::MAX / 2.0, nu(f64::MAX / 2.0), 1e308, 1.5e308, nd(nd(f64::MAX)), nd(f64::MAX), f64::MAX];
    let mut pool: Vec<f64> = vec![0.0];
    for &b in &base {
        pool.push(b);
        pool.push(-b);
    }
    for &x in &pool {
        for &d in &pool {
            if d != 0.0 {
                submit(cx, json!({"k":"mod","ty":"f64","x":hx(x),"d":hx(d),"_":format!("x={:e} d={:e}", x, d)}));
            }
        }
    }
    let nr = if thorough { 20000 } else { 2000 };
    for _ in 0..nr {
        let pickf = |cx: &mut Ctx| -> f64 {
            match cx.r.below(4) {
                0 => *cx.r.pick(&pool),
                1 => f64::from_bits(cx.r.next() % 0x7ff0_0000_0000_0000) * if cx.r.below(2) == 0 { 1.0 } else { -1.0 },
                2 => cx.r.range(-100.0, 100.0),
                _ => (cx.r.below(2001) as f64 - 1000.0) * *cx.r.pick(&[1.0, 0.5, 0.25, 0.125]),
            }
        };
        let (x, d) = (pickf(cx), pickf(cx));
        if d != 0.0 {
            submit(cx, json!({"k":"mod","ty":"f64","x":hx(x),"d":hx(d),"_":format!("x={:e} d={:e}", x, d)}));
        }
    }
    let nu32 = |x: f32| f32::from_bits(x.to_bits() + 1);
    let nd32 = |x: f32| f32::from_bits(x.to_bits() - 1);
    let base32 = [1e-45f32, 1e-40, f32::MIN_POSITIVE, 1e-20, 0.1, 0.3, 0.5, nd32(1.0), 1.0, nu32(1.0), 1.5, 2.0, 3.0, 7.0, 360.0, 16777216.0, 16777218.0, 1e30, f32::MAX / 4.0, f32::MAX / 2.0, nu32(f32::MAX / 2.0), 3e38, nd32(f32::MAX), f32::MAX];
    let mut pool32: Vec<f32> = vec![0.0];
    for &b in &base32 {
        pool32.push(b);
        pool32.push(-b);
    }
    for &x in &pool32 {
        for &d in &pool32 {
            if d != 0.0 {
                submit(cx, json!({"k":"mod","ty":"f32","x":hx32(x),"d":hx32(d),"_":format!("x={:e} d={:e}", x, d)}));
            }
        }
    }
    for _ in 0..nr {
        let pickf = |cx: &mut Ctx| -> f32 {
            match cx.r.below(3) {
                0 => *cx.r.pick(&pool32),
                1 => f32::from_bits((cx.r.next() % 0x7f80_0000) as u32) * if cx.r.below(2) == 0 { 1.0 } else { -1.0 },
                _ => (cx.r.below(2001) as f32 - 1000.0) * *cx.r.pick(&[1.0f32, 0.5, 0.25, 0.125]),
            }
        };
        let (x, d) = (pickf(cx), pickf(cx));
        if d != 0.0 {
            submit(cx, json!({"k":"mod","ty":"f32","x":hx32(x),"d":hx32(d),"_":format!("x={:e} d={:e}", x, d)}));
        }
    }

    // ---- generators
    let n = if thorough { 100_000usize } else { 10_000 };
    let delays: [i64; 7] = [0, 1, 2, -1, -3, 1000, -1000];
    let rates = [8.0, 10.0, 44100.0, 49.0, 3.0, 1000.0, 7.5];
    let freqs = [2.0, 1.0, 440.0, 0.1, 3.0, 13.0];
    let amps = [1.0, 10.0, 0.1, 2.5, 1e-3, 1e6];
    let phases = [0.0, 1.0, 0.25, 2.0];
    let mut gp: Vec<Value> = vec![];
    // a fixed grid (kept small) and seeded random tuples
    for (i, &rate) in rates.iter().enumerate() {
        for (j, &freq) in freqs.iter().enumerate() {
            let amp = amps[(i + j) % amps.len()];
            let delay = delays[(i * 3 + j) % delays.len()];
            let phase = phases[(i + 2 * j) % phases.len()];
            gp.push(json!({"k":"periodic","rate":hx(rate),"freq":hx(freq),"amp":hx(amp),"phase":hx(phase * amp / 4.0),"delay":delay.to_string(),"n":n,
                "_":format!("InfinitePeriodic::new({:?},{:?},{:?},{:?},{})", rate, freq, amp, phase * amp / 4.0, delay)}));
            let mean = [0.0, 5.0, -1.0][(i + j) % 3];
            gp.push(json!({"k":"sine","rate":hx(rate),"freq":hx(freq),"amp":hx(amp),"mean":hx(mean),"phase":hx(phase),"delay":delay.to_string(),"n":n,
                "_":format!("InfiniteSinusoidal::new({:?},{:?},{:?},{:?},{:?},{})", rate, freq, amp, mean, phase, delay)}));
        }
    }
    gp.push(json!({"k":"periodic","rate":hx(8.0),"freq":hx(2.0),"amp":hx(10.0),"phase":hx(1.0),"delay":"2","n":n,"_":"doc example"}));
    gp.push(json!({"k":"sine","rate":hx(8.0),"freq":hx(2.0),"amp":hx(1.0),"mean":hx(5.0),"phase":hx(2.0),"delay":"1","n":n,"_":"doc example"}));
    let nrand = if thorough { 60 } else { 12 };
    for _ in 0..nrand {
        let rate = if cx.r.below(2) == 0 { cx.r.log_range(1.0, 1e5) } else { (1 + cx.r.below(200)) as f64 };
        let freq = cx.r.log_range(0.01, 100.0).min(rate * 4.0);
        let amp = cx.r.log_range(1e-3, 1e3);
        let phase = cx.r.range(0.0, 1.0) * amp;
        let delay = cx.r.below(41) as i64 - 20;
        gp.push(json!({"k":"periodic","rate":hx(rate),"freq":hx(freq),"amp":hx(amp),"phase":hx(phase),"delay":delay.to_string(),"n":n,
            "_":format!("InfinitePeriodic::new({:?},{:?},{:?},{:?},{})", rate, freq, amp, phase, delay)}));
        let mean = cx.r.range(-10.0, 10.0);
        let ph = cx.r.range(-6.0, 6.0);
        gp.push(json!({"k":"sine","rate":hx(rate),"freq":hx(freq),"amp":hx(amp),"mean":hx(mean),"phase":hx(ph),"delay":delay.to_string(),"n":n,
            "_":format!("InfiniteSinusoidal::new({:?},{:?},{:?},{:?},{:?},{})", rate, freq, amp, mean, ph, delay)}));
    }
    // square / triangle / sawtooth: integer durations
    let durs: [(i64, i64); 12] = [(3, 7), (4, 7), (1, 1), (2, 3), (5, 5), (24, 25), (1, 48), (10, 83), (50, 57), (100, 900), (7, 0), (0, 7)];
    let levels = [(1.0, -1.0), (5.0, 0.0), (0.3, 0.1), (-1.0, 1.0), (1e6, -1e6)];
    for (i, &(a, b)) in durs.iter().enumerate() {
        for (j, &delay) in delays.iter().enumerate() {
            let (hi, lo) = levels[(i + j) % levels.len()];
            gp.push(json!({"k":"square","h":a.to_string(),"l":b.to_string(),"high":hx(hi),"low":hx(lo),"delay":delay.to_string(),"n":n,
                "_":format!("InfiniteSquare::new({},{},{:?},{:?},{})", a, b, hi, lo, delay)}));
            if a > 0 && b > 0 {
                gp.push(json!({"k":"triangle","r":a.to_string(),"f":b.to_string(),"high":hx(hi),"low":hx(lo),"delay":delay.to_string(),"n":n,
                    "_":format!("InfiniteTriangle::new({},{},{:?},{:?},{})", a, b, hi, lo, delay)}));
            }
        }
    }
    for (i, &p) in [2i64, 3, 5, 7, 10, 12, 49, 50, 93, 100, 1000, 44100].iter().enumerate() {
        for (j, &delay) in delays.iter().enumerate() {
            let (hi, lo) = levels[(i + j) % 3];
            gp.push(json!({"k":"sawtooth","p":p.to_string(),"high":hx(hi),"low":hx(lo),"delay":delay.to_string(),"n":n,
                "_":format!("InfiniteSawtooth::new({},{:?},{:?},{})", p, hi, lo, delay)}));
        }
    }
    // every small duty cycle without delay (and two delays): with periods below 49 the embedded step is exactly 1.0
    // (Props/C20/FloatGeneratorsB), so the schedule must be exact there
    for a in 1..=12i64 {
        for b in 1..=12i64 {
            for delay in [0i64, 1, -7] {
                gp.push(json!({"k":"square","h":a.to_string(),"l":b.to_string(),"high":hx(2.5),"low":hx(-1.5),"delay":delay.to_string(),"n":200,
                    "_":format!("InfiniteSquare::new({},{},2.5,-1.5,{})", a, b, delay)}));
            }
        }
    }
    for _ in 0..nrand {
        let a = 1 + cx.r.below(300) as i64;
        let b = 1 + cx.r.below(300) as i64;
        let hi = cx.r.range(-10.0, 10.0);
        let lo = hi - cx.r.log_range(1e-3, 100.0);
        let delay = cx.r.below(2001) as i64 - 1000;
        gp.push(json!({"k":"square","h":a.to_string(),"l":b.to_string(),"high":hx(hi),"low":hx(lo),"delay":delay.to_string(),"n":n,"_":format!("InfiniteSquare::new({},{},{:?},{:?},{})", a, b, hi, lo, delay)}));
        gp.push(json!({"k":"triangle","r":a.to_string(),"f":b.to_string(),"high":hx(hi),"low":hx(lo),"delay":delay.to_string(),"n":n,"_":format!("InfiniteTriangle::new({},{},{:?},{:?},{})", a, b, hi, lo, delay)}));
        gp.push(json!({"k":"sawtooth","p":(a + 1).to_string(),"high":hx(hi),"low":hx(lo),"delay":delay.to_string(),"n":n,"_":format!("InfiniteSawtooth::new({},{:?},{:?},{})", a + 1, hi, lo, delay)}));
    }
    for c in gp {
        submit(cx, c);
    }

    // ---- log_spaced
    for &len in &[0usize, 1, 2, 3, 5, 10, 11, 100, 1001] {
        for &(a, b) in &[(0.0, 4.0), (-3.0, 3.0), (0.0, 0.0), (2.0, -2.0), (0.5, 2.5), (-300.0, 300.0), (-22.0, 22.0), (1.0, 2.0), (0.1, 0.7), (-5.5, 17.25)] {
            submit(cx, json!({"k":"logsp","n":len,"a":hx(a),"b":hx(b),"_":format!("log_spaced({},{:?},{:?})", len, a, b)}));
        }
    }
    for _ in 0..(if thorough { 2000 } else { 200 }) {
        let len = cx.r.below(300) as usize;
        let a = if cx.r.below(2) == 0 { cx.r.range(-300.0, 300.0) } else { cx.r.below(45) as f64 - 22.0 };
        let b = if cx.r.below(2) == 0 { cx.r.range(-300.0, 300.0) } else { cx.r.below(45) as f64 - 22.0 };
        submit(cx, json!({"k":"logsp","n":len,"a":hx(a),"b":hx(b),"_":format!("log_spaced({},{:?},{:?})", len, a, b)}));
    }

    // ---- polynomial: coefficient vectors of length 0..=12
    let np = if thorough { 20000 } else { 3000 };
    for it in 0..np {
        let len = (it % 13) as usize;
        let mut c = vec![];
        for _ in 0..len {
            let v = match cx.r.below(6) {
                0 => 0.0,
                1 => (cx.r.below(21) as f64) - 10.0,
                _ => cx.r.log_range(1e-5, 1e5) * if cx.r.below(2) == 0 { 1.0 } else { -1.0 },
            };
            c.push(v);
        }
        let z = match cx.r.below(8) {
            0 => 0.0,
            1 => 1.0,
            2 => -1.0,
            3 => cx.r.range(-2.0, 2.0),
            _ => cx.r.log_range(1e-3, 1e3) * if cx.r.below(2) == 0 { 1.0 } else { -1.0 },
        };
        submit(cx, json!({"k":"poly","z":hx(z),"c":c.iter().map(|&x| hx(x)).collect::<Vec<_>>(),"_":format!("z={:?} c={:?}", z, c)}));
    }

    // ---- almost_eq
    let sp = [0.0, -0.0, 1.0, -1.0, nu(1.0), 1.0 + 1e-10, 1e300, -1e300, f64::MAX, f64::MIN, 5e-324, f64::INFINITY, f64::NEG_INFINITY, f64::NAN, 0.5, 1e-15];
    let accs = [0.0, 5e-324, 1e-15, 1e-10, 1.0, 1e300, f64::MAX, f64::INFINITY];
    for &a in &sp {
        for &b in &sp {
            for &acc in &accs {
                submit(cx, json!({"k":"almost","a":hx(a),"b":hx(b),"acc":hx(acc),"_":format!("almost_eq({:?},{:?},{:?})", a, b, acc)}));
            }
        }
    }
    for _ in 0..(if thorough { 20000 } else { 2000 }) {
        let a = if cx.r.below(4) == 0 { *cx.r.pick(&sp) } else { cx.r.range(-2.0, 2.0) };
        let b = match cx.r.below(4) {
            0 => *cx.r.pick(&sp),
            1 => a + cx.r.range(-1e-9, 1e-9),
            _ => cx.r.range(-2.0, 2.0),
        };
        let acc = cx.r.log_range(1e-16, 1.0);
        submit(cx, json!({"k":"almost","a":hx(a),"b":hx(b),"acc":hx(acc),"_":format!("almost_eq({:?},{:?},{:?})", a, b, acc)}));
    }
}

pub fn replay(case: &Value) -> String {
    let fs = eval(case);
    if fs.is_empty() {
        return "no violation on replay".to_string();
    }
    fs.iter().map(|f| format!("[{}] observed {} / required {}", f.site, f.observed, f.required)).collect::<Vec<_>>().join("\n")
}
