//! Registry of per-property search modules (each: `pub fn run(cx: &mut Ctx)`, `pub fn replay(case) -> String`).
use crate::search::Ctx;

pub fn run(prop: &str, cx: &mut Ctx) {
    match prop {
        "C03" => crate::search_c03::run(cx),
        "C04" => crate::search_c04::run(cx),
        "C05" => crate::search_c05::run(cx),
        "C06" => crate::search_c06::run(cx),
        "C07" => crate::search_c07::run(cx),
        "C08" => crate::search_c08::run(cx),
        "C09" => crate::search_c09::run(cx),
        "C10" => crate::search_c10::run(cx),
        "C11" => crate::search_c11::run(cx),
        "C12" => crate::search_c12::run(cx),
        "C13" => crate::search_c13::run(cx),
        "C14" => crate::search_c14::run(cx),
        "C15" => crate::search_c15::run(cx),
        "C16" => crate::search_c16::run(cx),
        "C17" => crate::search_c17::run(cx),
        "C18" => crate::search_c18::run(cx),
        "C19" => crate::search_c19::run(cx),
        "C20" => crate::search_c20::run(cx),
        _ => {
            let _ = cx;
        }
    }
}

pub fn replay(prop: &str, case: &serde_json::Value) -> String {
    match prop {
        "C03" => crate::search_c03::replay(case),
        "C04" => crate::search_c04::replay(case),
        "C05" => crate::search_c05::replay(case),
        "C06" => crate::search_c06::replay(case),
        "C07" => crate::search_c07::replay(case),
        "C08" => crate::search_c08::replay(case),
        "C09" => crate::search_c09::replay(case),
        "C10" => crate::search_c10::replay(case),
        "C11" => crate::search_c11::replay(case),
        "C12" => crate::search_c12::replay(case),
        "C13" => crate::search_c13::replay(case),
        "C14" => crate::search_c14::replay(case),
        "C15" => crate::search_c15::replay(case),
        "C16" => crate::search_c16::replay(case),
        "C17" => crate::search_c17::replay(case),
        "C18" => crate::search_c18::replay(case),
        "C19" => crate::search_c19::replay(case),
        "C20" => crate::search_c20::replay(case),
        _ => format!("no replay handler for {} case {}", prop, case),
    }
}
