//! Registry of per-property search modules (each: `pub fn run(cx: &mut Ctx)`, `pub fn replay(case) -> String`).
use crate::search::Ctx;

pub fn run(prop: &str, cx: &mut Ctx) {
    match prop {
        _ => {
            let _ = cx;
        }
    }
}

pub fn replay(prop: &str, case: &serde_json::Value) -> String {
    match prop {
        _ => format!("no replay handler for {} case {}", prop, case),
    }
}
