#!/usr/bin/env python3
"""integrate.py <Draft-relative paths…> : move finished theorem files out of the staging area
   lean/Statrs/Draft/<ID>/X.lean   -> lean/Statrs/Props/<ID>/X.lean
   lean/Statrs/Draft/Lemmas/X.lean -> lean/Statrs/Lemmas/X.lean
   lean/Statrs/Draft/Common/X.lean -> lean/Statrs/Props/Common/X.lean
   lean/Statrs/Draft/Spec/X.lean   -> lean/Statrs/Spec/X.lean
 and rewrite `import Statrs.Draft.…` lines in ALL files under lean/Statrs accordingly (for the moved modules only)."""
import os, re, sys, shutil
ROOT = os.path.join(os.path.dirname(os.path.abspath(__file__)), "lean", "Statrs")
def target(rel):
    parts = rel.split("/")
    if parts[0] == "Lemmas": return "Lemmas/" + "/".join(parts[1:])
    if parts[0] == "Spec": return "Spec/" + "/".join(parts[1:])
    if parts[0] == "Common": return "Props/Common/" + "/".join(parts[1:])
    return "Props/" + rel
moved = {}
for rel in sys.argv[1:]:
    rel = rel.replace("lean/Statrs/Draft/", "")
    src = os.path.join(ROOT, "Draft", rel)
    dst = os.path.join(ROOT, target(rel))
    if not os.path.exists(src): print("missing", src); sys.exit(1)
    if os.path.exists(dst): print("exists", dst); sys.exit(1)
    moved["Statrs.Draft." + rel[:-5].replace("/", ".")] = "Statrs." + target(rel)[:-5].replace("/", ".")
for rel in sys.argv[1:]:
    rel = rel.replace("lean/Statrs/Draft/", "")
    dst = os.path.join(ROOT, target(rel)); os.makedirs(os.path.dirname(dst), exist_ok=True)
    shutil.move(os.path.join(ROOT, "Draft", rel), dst)
for dp, dn, fn in os.walk(ROOT):
    for f in fn:
        if not f.endswith(".lean"): continue
        p = os.path.join(dp, f); s = open(p).read(); t = s
        for a, b in moved.items():
            t = re.sub(r"^import " + re.escape(a) + r"\s*$", "import " + b, t, flags=re.M)
        if t != s: open(p, "w").write(t)
for a, b in moved.items(): print(a, "->", b)
