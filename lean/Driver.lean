/-
  Driver — evaluates the Float instance of the model on request lines
  (one line in, one line out; see Statrs/Driver/Proto.lean).  No Mathlib anywhere below.
-/
import Statrs.Driver.Proto
import Statrs.Gen.Dispatch
import Statrs.Model.Dispatch
import Std.Data.HashMap
open Statrs Statrs.Driver

def buildTable : Std.HashMap String (List Arg → String) :=
  let t := Statrs.Model.Dispatch.table ++ Statrs.Gen.Dispatch.table
  t.foldl (fun m (k, f) => if m.contains k then m else m.insert k f) {}

def handle (tbl : Std.HashMap String (List Arg → String)) (line : String) : String :=
  match (line.trimAscii.toString.splitOn " ").filter (· ≠ "") with
  | [] => "bad-op"
  | id :: toks =>
    match tbl[id]? with
    | none => "bad-op"
    | some f =>
      match allSome (toks.map parseArg) with
      | none => "bad-op"
      | some args => f args

partial def loop (tbl : Std.HashMap String (List Arg → String)) (hin : IO.FS.Stream) (hout : IO.FS.Stream) : IO Unit := do
  let line ← hin.getLine
  if line.isEmpty then return ()
  if line.trimAscii.toString.isEmpty then loop tbl hin hout
  else
    hout.putStrLn (handle tbl line)
    loop tbl hin hout

def main : IO Unit := do
  let tbl := buildTable
  let hin ← IO.getStdin
  let hout ← IO.getStdout
  loop tbl hin hout
  hout.flush
