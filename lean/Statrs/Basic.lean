/-
  Statrs.Basic — the model language.

  Import-free.  Every model definition (generated from /repo/src by `rs2lean`, or
  hand-written) is generic over a carrier `α` equipped with the *unbundled*
  operator classes below plus `RFun α`, the non-field operations of `f64`.
  Three carriers are used:
    * `Float`  (Inst/Float.lean)  — executable, bit-compatible with Rust `f64`;
    * `Rat`    (Inst/Rat.lean)    — exact oracle for field-only code;
    * `ℝ`      (Real/Inst.lean)   — the carrier the theorems are proved over.
  The class deliberately does NOT extend `Add`/`Mul`/…: bundling creates
  instance diamonds with Mathlib's `ℝ` (measured) and breaks `linarith`.
-/
namespace Statrs

/-- Non-field operations of `f64` used by statrs. -/
class RFun (α : Type) where
  exp : α → α
  ln : α → α
  log10 : α → α
  log2 : α → α
  /-- `f64::exp2` (what `2f64.powf(y)` is compiled to, see `pow2Lit`) -/
  exp2 : α → α
  sqrt : α → α
  sin : α → α
  cos : α → α
  tan : α → α
  atan : α → α
  floor : α → α
  ceil : α → α
  round : α → α
  abs : α → α
  signum : α → α
  ln1p : α → α
  expm1 : α → α
  recip : α → α
  pow : α → α → α
  /-- `f64::powi` (compiler-rt square-and-multiply) -/
  powi : α → Int → α
  /-- `f64::log(self, base)` -/
  logb : α → α → α
  /-- `f64::min` (NaN-ignoring) -/
  fmin : α → α → α
  /-- `f64::max` (NaN-ignoring) -/
  fmax : α → α → α
  /-- `%` on `f64` (C `fmod`) -/
  fmod : α → α → α
  isNaN : α → Bool
  isInf : α → Bool
  isFinite : α → Bool
  nan : α
  inf : α
  negInf : α
  maxVal : α
  minVal : α
  minPositive : α
  epsilon : α
  /-- `x as f64` for an integer `x` -/
  ofInt : Int → α
  /-- `x as u64` (saturating, NaN ↦ 0) -/
  toU64 : α → Int
  /-- `x as i64` -/
  toI64 : α → Int
  /-- `x as i32` -/
  toI32 : α → Int
  /-- `x as u32` -/
  toU32 : α → Int
  /-- `approx::ulps_eq!(a, b)` with default epsilon and max_ulps = 4 -/
  ulpsEq : α → α → Bool
  -- named constants: true constants over ℝ, Rust's literals over Float
  pi : α
  tau : α
  e : α
  ln2 : α
  ln10 : α
  sqrt2 : α
  frac1Sqrt2 : α
  fracPi2 : α
  c_SQRT_2PI : α
  c_LN_PI : α
  c_LN_SQRT_2PI : α
  c_LN_SQRT_2PIE : α
  c_LN_2_SQRT_E_OVER_PI : α
  c_TWO_SQRT_E_OVER_PI : α
  c_EULER_MASCHERONI : α
  /-- additive identity used by `Iterator::sum::<f64>()` (`-0.0` in current std) -/
  sumZero : α

/-- Rust's error/panic channel for the few places where the model needs one. -/
inductive Panic where
  | unwrapNone | unwrapErr | explicit | assertFailed | indexOOB | overflow | divZero | hang
  deriving Repr, DecidableEq, Inhabited

/-- `Option::unwrap`: the value, or the carrier's default where Rust panics.
    Theorems that mention `unwrapO` are stated under the guard that the
    argument is `some`; the correspondence check reports `panic` from the
    companion `isSome` test, never from the default. -/
@[inline] def unwrapO {β : Type} [Inhabited β] : Option β → β
  | some v => v
  | none => default

@[inline] def unwrapE {ε β : Type} [Inhabited β] : Except ε β → β
  | .ok v => v
  | .error _ => default

@[inline] def Except.isOk {ε β : Type} : Except ε β → Bool
  | .ok _ => true
  | .error _ => false

@[inline] def exceptMap {ε β γ : Type} (f : β → γ) : Except ε β → Except ε γ
  | .ok v => .ok (f v)
  | .error e => .error e

@[inline] def exceptToOption {ε β : Type} : Except ε β → Option β
  | .ok v => some v
  | .error _ => none

/-! ### integer helpers (Rust `u64/i64/usize/i32` are modelled by `Int`) -/

/-- `(lo..hi).fold(init, f)` -/
def foldRange {β : Type} (lo hi : Int) (init : β) (f : β → Int → β) : β :=
  let n := (hi - lo).toNat
  (List.range n).foldl (fun acc (i : Nat) => f acc (lo + (i : Int))) init

/-- `(lo..hi).map(f).sum::<f64>()`-style helpers are expressed with `foldRange`. -/
def rangeList (lo hi : Int) : List Int :=
  (List.range (hi - lo).toNat).map (fun (i : Nat) => lo + (i : Int))

/-- `slice[i]`; the default stands for Rust's out-of-bounds panic. -/
@[inline] def listGet {β : Type} [Inhabited β] (l : List β) (i : Int) : β :=
  if i < 0 then default else l.getD i.toNat default

@[inline] def listGet? {β : Type} (l : List β) (i : Int) : Option β :=
  if i < 0 then none else l[i.toNat]?

@[inline] def listLen {β : Type} (l : List β) : Int := (l.length : Int)

/-- `.iter().enumerate()` -/
def listEnum {β : Type} (l : List β) : List (Int × β) :=
  (List.range l.length).zip l |>.map (fun p => ((p.1 : Int), p.2))

/-- wrap-around casts -/
def wrapI32 (x : Int) : Int := (x + 2147483648) % 4294967296 - 2147483648
def wrapI64 (x : Int) : Int := (x + 9223372036854775808) % 18446744073709551616 - 9223372036854775808
def wrapU64 (x : Int) : Int := x % 18446744073709551616
def wrapU32 (x : Int) : Int := x % 4294967296

def u64Max : Int := 18446744073709551615
def i64Max : Int := 9223372036854775807
def i64Min : Int := -9223372036854775808
def i32Max : Int := 2147483647
def i32Min : Int := -2147483648

/-- `a.saturating_sub(b)` on unsigned -/
def usatSub (a b : Int) : Int := if a < b then 0 else a - b

section sums
variable {α : Type} [Add α] [Mul α] [OfScientific α]

/-- `.iter().sum::<f64>()` — Rust's `Sum for f64` is a left fold from `0.0`
    (std uses `-0.0` as the additive identity from 1.83 on; see Inst/Float). -/
def fsum (zero : α) (l : List α) : α := l.foldl (· + ·) zero

def fprod (one : α) (l : List α) : α := l.foldl (· * ·) one
end sums


/-- Result of a lifted loop: early `return`, fuel exhausted, or normal exit with the loop state. -/
inductive LoopR (ρ σ : Type) where
  | ret (v : ρ)
  | hang
  | done (s : σ)

/-- Fuel for self-recursive Rust functions (reflection branches; depth ≤ 2 in statrs). -/
def recFuel : Nat := 16

/-- Fuel given to every `loop`/`while` lifted by the translator. -/
def loopFuel : Nat := 20000

/-- Integer sentinel standing for a Rust panic in an integer-valued position (the driver prints
    `panic` for any integer of this magnitude; no `u64/i64` computation reaches it otherwise). -/
def panicInt : Int := -(2 ^ 200)
instance (priority := high) instInhabitedIntPanic : Inhabited Int := ⟨panicInt⟩

/-- Rust's checked unsigned subtraction (`attempt to subtract with overflow` in the profile the
    test-suite and the harness use). -/
@[inline] def usub (a b : Int) : Int := if a < b then panicInt else a - b
/-- unsigned `/` and `%`: panic on a zero divisor -/
@[inline] def udiv (a b : Int) : Int := if b = 0 then panicInt else a / b
@[inline] def umod (a b : Int) : Int := if b = 0 then panicInt else a % b
/-- signed `/` and `%` (truncating) -/
@[inline] def sdiv (a b : Int) : Int := if b = 0 then panicInt else Int.tdiv a b
@[inline] def smod (a b : Int) : Int := if b = 0 then panicInt else Int.tmod a b

/-- The default of `Result<T, E>` is `Ok(sentinel)`, never an error variant: a panic or an exhausted loop
    inside a `Result`-returning function must not be mistaken for a returned `Err` (core's instance would
    give `.error default`). -/
instance (priority := high) instInhabitedExceptPanic {ε β : Type} [Inhabited β] : Inhabited (Except ε β) := ⟨.ok default⟩

/-- value standing for a Rust panic in value position (see `unwrapO`) -/
@[inline] def panicV {β : Type} [Inhabited β] : β := default

/-- `Iterator::next` on a list-modelled iterator -/
def listNext {β : Type} : List β → Option β × List β
  | [] => (none, [])
  | x :: t => (some x, t)

def listSet {β : Type} (l : List β) (i : Int) (v : β) : List β :=
  if i < 0 then l else l.set i.toNat v

def listSwap {β : Type} [Inhabited β] (l : List β) (i j : Int) : List β :=
  let a := listGet l i
  let b := listGet l j
  listSet (listSet l i b) j a

section approx
variable {α : Type} [Add α] [Sub α] [Mul α] [Div α] [Neg α] [LT α] [LE α] [BEq α]
  [DecidableLT α] [DecidableLE α] [OfScientific α] [Inhabited α] [RFun α]

/-- `x.powf(2.0)` with the exponent written as a literal.  rustc/LLVM (SimplifyLibCalls, no fast-math
    needed) compiles `pow(x, 2.0)` to `x * x`; glibc's `pow(x, 2.0)` differs from `x * x` by one ulp on
    about 0.08 % of arguments (measured), so the executable model follows the compiled code.  Over ℝ both
    are `x ^ 2` (`powfLit2_real`). -/
def powfLit2 (x : α) : α := x * x
/-- `(2.0f64).powf(y)` with the base written as a literal: compiled to `exp2(y)` (one ulp off glibc's
    `pow(2.0, y)` on about 0.1 % of arguments, measured). -/
def pow2Lit (y : α) : α := RFun.exp2 y

/-- `f64::clamp` -/
def fclamp (x lo hi : α) : α := if x < lo then lo else if hi < x then hi else x
/-- `num_traits::clamp` -/
def ntClamp (x lo hi : α) : α := if x < lo then lo else if hi < x then hi else x

/-- `approx::AbsDiffEq::abs_diff_eq` for f64 -/
def absDiffEq (a b eps : α) : Bool :=
  decide ((if b < a then a - b else b - a) ≤ eps)

/-- `approx::RelativeEq::relative_eq` for f64 -/
def relativeEq (a b eps maxRel : α) : Bool :=
  if (a == b) = true then true
  else if (RFun.isInf a || RFun.isInf b) = true then false
  else
    let absDiff := RFun.abs (a - b)
    if absDiff ≤ eps then true
    else
      let absA := RFun.abs a
      let absB := RFun.abs b
      let largest := if absA < absB then absB else absA
      decide (absDiff ≤ largest * maxRel)
end approx

end Statrs
