/-
  Statrs.Lemmas.FloatLawsExtra — laws of IEEE-754 binary64 (round-to-nearest-even, gradual underflow) that
  the closed-form range proofs need and that are NOT in `Statrs.Spec.FloatLaws`.

  Every field has been checked by hand against IEEE-754 for ±0, ±∞, NaN, overflow and subnormals; the
  comment after each field says why it is true there.  Theorems that use them take `(E : ExtraLaws α)`.
-/
import Statrs.Spec.FloatLaws
import Statrs.Draft.Lemmas.FloatLawsBasic
set_option linter.unusedSectionVars false
namespace Statrs.Spec
open Statrs

variable (α : Type) [Add α] [Sub α] [Mul α] [Div α] [Neg α] [LT α] [LE α] [BEq α]
  [OfScientific α] [RFun α]

/-- IEEE-754 facts missing from `FloatLaws` (all true for binary64, round-to-nearest-even). -/
structure ExtraLaws : Prop where
  /-- `a < b ⇒ 0 < fl(b − a)`.  With gradual underflow the exact difference of two distinct finite doubles
      is a non-zero multiple of `2^-1074`, hence at least `2^-1074` in magnitude, and rounding to nearest
      does not move it to zero (this is the classical "x − y = 0 iff x = y" property; it FAILS under
      flush-to-zero, which Rust/x86-64 does not enable).  Overflow gives `+∞ > 0`.  For infinite operands
      `b − a` is `+∞` (`a = −∞` or `b = +∞`; `∞ − ∞` is excluded by `NN`). -/
  sub_pos : ∀ a b : α, a < b → NN (b - a) → (0.0 : α) < b - a
  /-- A sum of two non-negative values is never NaN: the only invalid addition is `(+∞) + (−∞)`, and
      `0 ≤ a`, `0 ≤ b` excludes `−∞` (and NaN). -/
  add_nn_of_nonneg : ∀ a b : α, (0.0 : α) ≤ a → (0.0 : α) ≤ b → NN (a + b)
  /-- the infinite values are exactly the values IEEE-equal to `+∞` or `−∞` -/
  isInf_iff : ∀ a : α, RFun.isInf a = true ↔
    ((a == (RFun.inf : α)) = true ∨ (a == (RFun.negInf : α)) = true)
  /-- `−(+∞) = −∞` (sign flip is exact) -/
  neg_inf_eq : ((-(RFun.inf : α)) == (RFun.negInf : α)) = true
  /-- `x − y` with `x = +∞`, `y` not `+∞`/NaN is `+∞`; `x − (+∞)` with `x` not `+∞`/NaN is `−∞`; likewise
      for sums.  Stated as: an infinite operand and a non-NaN result give the matching infinite result. -/
  inf_sub : ∀ b : α, NN ((RFun.inf : α) - b) → (((RFun.inf : α) - b) == (RFun.inf : α)) = true
  sub_inf : ∀ a : α, NN (a - (RFun.inf : α)) → ((a - (RFun.inf : α)) == (RFun.negInf : α)) = true
  negInf_sub : ∀ b : α, NN ((RFun.negInf : α) - b) →
    (((RFun.negInf : α) - b) == (RFun.negInf : α)) = true
  sub_negInf : ∀ a : α, NN (a - (RFun.negInf : α)) → ((a - (RFun.negInf : α)) == (RFun.inf : α)) = true
  /-- `(+∞) ÷ c = +∞` and `(−∞) ÷ c = −∞` for a positive finite or zero... only `0 < c` finite is used -/
  inf_div : ∀ c : α, (0.0 : α) < c → Fin c → (((RFun.inf : α) / c) == (RFun.inf : α)) = true
  negInf_div : ∀ c : α, (0.0 : α) < c → Fin c → (((RFun.negInf : α) / c) == (RFun.negInf : α)) = true
  /-- `|x|`: never NaN for non-NaN `x`, equal (IEEE `==`) to `x` for `0 ≤ x` and to `−x` for `x ≤ 0`
      (`|−0| = +0 == −0`). -/
  abs_nan : ∀ a : α, RFun.isNaN (RFun.abs a) = RFun.isNaN a
  abs_of_nonneg : ∀ a : α, (0.0 : α) ≤ a → (RFun.abs a == a) = true
  abs_of_nonpos : ∀ a : α, a ≤ (0.0 : α) → (RFun.abs a == -a) = true
  /-- division respects IEEE equality of the numerator (always) and of a NON-ZERO divisor (`±0` divisors
      differ in the sign of the quotient) when the result is not NaN -/
  div_congr : ∀ a a' b b' : α, (a == a') = true → (b == b') = true → ¬ ((b == (0.0 : α)) = true) →
    NN (a / b) → ((a / b) == (a' / b')) = true
  /-- `−x` respects IEEE equality -/
  neg_congr : ∀ a a' : α, (a == a') = true → ((-a) == (-a')) = true
  /-- `−a · b = −(a · b)` exactly (sign-magnitude: negation commutes with correctly rounded `·` and `÷`,
      because round-to-nearest-even is symmetric) -/
  neg_mul : ∀ a b : α, NN (a * b) → (((-a) * b) == (-(a * b))) = true
  neg_div : ∀ a b : α, NN (a / b) → (((-a) / b) == (-(a / b))) = true
  /-- the crate's `PI` constant is finite and positive -/
  pi_fin : Fin (RFun.pi : α)
  pi_pos : (0.0 : α) < (RFun.pi : α)
  fracPi2_fin : Fin (RFun.fracPi2 : α)
  /-- `fl(fl(1/π) · FRAC_PI_2) = 0.5` exactly in binary64 (evaluated: `0.3183098861837907 · 1.5707963267948966`
      rounds to `0.5`) -/
  inv_pi_mul_fracPi2 : ((((1.0 : α) / (RFun.pi : α)) * (RFun.fracPi2 : α)) == (0.5 : α)) = true
  /-- `0.5 + 0.5 = 1` and `0.5 − 0.5 = 0`... only the first is not an `ExactLaws` instance -/
  half_add_half : (((0.5 : α) + (0.5 : α)) == (1.0 : α)) = true


namespace ExtraLaws
variable {α}
variable (E : ExtraLaws α) (L : FloatLaws α)
include E L

/-- full(∀α): a finite value is strictly below `+∞` -/
theorem fin_lt_inf {a : α} (h : Fin a) : a < (RFun.inf : α) := by
  refine L.lt_of_le_not_le (L.le_inf (L.fin_nn' h)) (fun h' => ?_)
  have hb : (a == (RFun.inf : α)) = true := L.beq_of_le_le (L.le_inf (L.fin_nn' h)) h'
  have : RFun.isInf a = true := (E.isInf_iff _).2 (Or.inl hb)
  rw [L.fin_not_inf h] at this; exact Bool.noConfusion this

/-- full(∀α): a finite value is strictly above `−∞` -/
theorem negInf_lt_fin {a : α} (h : Fin a) : (RFun.negInf : α) < a := by
  refine L.lt_of_le_not_le (L.negInf_le (L.fin_nn' h)) (fun h' => ?_)
  have hb : (a == (RFun.negInf : α)) = true := L.beq_of_le_le h' (L.negInf_le (L.fin_nn' h))
  have : RFun.isInf a = true := (E.isInf_iff _).2 (Or.inr hb)
  rw [L.fin_not_inf h] at this; exact Bool.noConfusion this

/-- full(∀α): a non-NaN value between two finite values is finite -/
theorem fin_of_between {a x b : α} (ha : Fin a) (hb : Fin b) (h1 : a ≤ x) (h2 : x ≤ b) : Fin x := by
  apply L.fin_of (L.le_nnr h1)
  cases hi : RFun.isInf x with
  | false => rfl
  | true =>
    exfalso
    rcases (E.isInf_iff x).1 hi with h | h
    · exact L.lt_not_le (E.fin_lt_inf L hb) (L.le_tr (L.beq_ge h) h2)
    · exact L.lt_not_le (E.negInf_lt_fin L ha) (L.le_tr h1 (L.beq_le h))

end ExtraLaws
end Statrs.Spec
