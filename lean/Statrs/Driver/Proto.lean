/-
  Line protocol shared by the Lean driver and the Rust harness.
  request:  <fn-id> <arg>*      arg ::= f:<16 hex> | i:<dec> | b:0|1 | F:<hex>,<hex>,… | I:<dec>,<dec>,…
  reply:    f:<16 hex> | i:<dec> | b:0|1 | some(r) | none | ok(r) | err(<Variant>) | (r,r,…) | [r,r,…]
            | struct | unit | ctor-err(<Variant>) | bad-args | bad-op
  NaN payloads are canonicalised to 7ff8000000000000.
-/
import Statrs.Inst.Float
namespace Statrs.Driver
open Statrs

inductive Arg where
  | f (x : Float)
  | i (x : Int)
  | b (x : Bool)
  | fl (l : List Float)
  | il (l : List Int)

def hexDigit (c : Char) : Option Nat :=
  if '0' ≤ c ∧ c ≤ '9' then some (c.toNat - '0'.toNat)
  else if 'a' ≤ c ∧ c ≤ 'f' then some (c.toNat - 'a'.toNat + 10)
  else if 'A' ≤ c ∧ c ≤ 'F' then some (c.toNat - 'A'.toNat + 10)
  else none

def parseHex (s : String) : Option Nat :=
  if s.isEmpty then none else
  s.toList.foldl (fun acc c => match acc, hexDigit c with
    | some a, some d => some (a * 16 + d)
    | _, _ => none) (some 0)

def parseFloatBits (s : String) : Option Float :=
  if s.length != 16 then none else (parseHex s).map (fun n => Float.ofBits n.toUInt64)

def splitList (s : String) : List String :=
  if s.isEmpty then [] else s.splitOn ","

def allSome {β : Type} : List (Option β) → Option (List β)
  | [] => some []
  | none :: _ => none
  | some x :: xs => (allSome xs).map (x :: ·)

def parseArg (tok : String) : Option Arg :=
  if tok.startsWith "f:" then (parseFloatBits (tok.drop 2).toString).map Arg.f
  else if tok.startsWith "i:" then ((tok.drop 2).toString.toInt?).map Arg.i
  else if tok.startsWith "b:" then some (Arg.b ((tok.drop 2).toString == "1"))
  else if tok.startsWith "F:" then (allSome ((splitList (tok.drop 2).toString).map parseFloatBits)).map Arg.fl
  else if tok.startsWith "I:" then (allSome ((splitList (tok.drop 2).toString).map String.toInt?)).map Arg.il
  else none

def hexOfNat (n : Nat) (width : Nat) : String :=
  let rec go (n : Nat) (k : Nat) (acc : List Char) : List Char :=
    match k with
    | 0 => acc
    | k + 1 => go (n / 16) k (Nat.digitChar (n % 16) :: acc)
  String.ofList (go n width [])

def floatBitsStr (x : Float) : String :=
  if x.isNaN then "7ff8000000000000" else hexOfNat x.toBits.toNat 16

class ToReply (β : Type) where
  reply : β → String
export ToReply (reply)

instance : ToReply Float := ⟨fun x => if Float.isPanicNaN x then "panic" else "f:" ++ floatBitsStr x⟩
instance : ToReply Int := ⟨fun x => if x ≤ -(2 ^ 190) ∨ x ≥ 2 ^ 190 then "panic" else "i:" ++ toString x⟩
instance : ToReply Bool := ⟨fun x => if x then "b:1" else "b:0"⟩
instance : ToReply Unit := ⟨fun _ => "unit"⟩
instance {β} [ToReply β] : ToReply (Option β) := ⟨fun
  | some v => "some(" ++ reply v ++ ")"
  | none => "none"⟩

/-- last dotted component of a `Repr` rendering, up to the first space/paren: the variant name -/
def variantName (s : String) : String :=
  let s := (s.splitOn " ").headD ""
  let s := s.replace "(" "" |>.replace ")" ""
  ((s.splitOn ".").getLast?).getD s

def variantStr {ε : Type} [Repr ε] (e : ε) : String := variantName (toString (repr e))

instance {ε β} [Repr ε] [ToReply β] : ToReply (Except ε β) := ⟨fun
  | .ok v => "ok(" ++ reply v ++ ")"
  | .error e => "err(" ++ variantStr e ++ ")"⟩
instance {β γ} [ToReply β] [ToReply γ] : ToReply (β × γ) := ⟨fun p => "(" ++ reply p.1 ++ "," ++ reply p.2 ++ ")"⟩
instance {β} [ToReply β] : ToReply (List β) := ⟨fun l => "[" ++ ",".intercalate (l.map reply) ++ "]"⟩

def ctorErr (s : String) : String := "ctor-err(" ++ s ++ ")"

end Statrs.Driver
