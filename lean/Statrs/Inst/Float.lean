/-
  Statrs.Inst.Float — the executable carrier.  `Float` operations are the same
  IEEE/glibc calls Rust makes (measured bit-identical, DESIGN §3); `log1p`,
  `expm1`, `fmod` are not in Lean's `Float` API and come from c/shim.c.
  Import-free apart from Statrs.Basic so the driver links as a `lean_exe`.
-/
import Statrs.Basic
namespace Statrs

@[extern "statrs_log1p"] opaque Float.log1p : Float → Float
@[extern "statrs_expm1"] opaque Float.expm1 : Float → Float
@[extern "statrs_fmod"] opaque Float.fmod : Float → Float → Float

/-- compiler-rt `__powidf2` -/
partial def powiLoop (r a : Float) (b : Nat) : Float :=
  let r := if b % 2 == 1 then r * a else r
  let b := b / 2
  if b == 0 then r else powiLoop r (a * a) b

def Float.powi (a : Float) (b : Int) : Float :=
  let r := powiLoop 1.0 a b.natAbs
  if b < 0 then 1.0 / r else r

@[extern "statrs_rawbits"] opaque Float.rawBits : Float → UInt64
@[extern "statrs_ofrawbits"] opaque Float.ofRawBits : UInt64 → Float

def fNaN : Float := 0.0 / 0.0
/-- A Rust panic in value position evaluates, in the executable model, to a quiet NaN with a
    recognisable payload; the payload survives IEEE arithmetic and libm calls, and the driver
    prints `panic` for it.  (Over ℝ the value is irrelevant: theorems are stated under the
    guards that exclude the panic.) -/
def panicNaN : Float := Float.ofRawBits 0x7ff8dead00000000
def Float.isPanicNaN (x : Float) : Bool := x.isNaN && (Float.rawBits x &&& 0x0000ffff00000000) == 0x0000dead00000000
instance (priority := high) instInhabitedFloatPanic : Inhabited Float := ⟨panicNaN⟩
def fInf : Float := 1.0 / 0.0

/-- `f64::signum`: 1.0 for +0.0 and positives, -1.0 for -0.0 and negatives, NaN for NaN -/
def Float.signumR (x : Float) : Float :=
  if x.isNaN then fNaN else if x.toBits >>> 63 == 1 then -1.0 else 1.0

/-- Rust `f64::min`: if one is NaN return the other -/
def Float.minR (a b : Float) : Float :=
  if a.isNaN then b else if b.isNaN then a else if a < b then a else if b < a then b
  else if a.toBits >>> 63 == 1 then a else b   -- fmin(-0,+0): either; glibc returns -0 first-arg rules
def Float.maxR (a b : Float) : Float :=
  if a.isNaN then b else if b.isNaN then a else if a > b then a else if b > a then b
  else if a.toBits >>> 63 == 1 then b else a

/-- `f64::round`: half away from zero (C `round`) — same as Lean's. -/
def Float.ulpsEqR (a b : Float) : Bool :=
  let eps : Float := Float.ofBits 0x3CB0000000000000  -- f64::EPSILON = 2^-52
  let d := if a > b then a - b else b - a
  if d <= eps then true
  else if (Float.signumR a) != (Float.signumR b) then false
  else
    let ia := a.toBits.toNat; let ib := b.toBits.toNat
    if ia ≤ ib then ib - ia ≤ 4 else ia - ib ≤ 4

instance : RFun Float where
  exp := Float.exp
  ln := Float.log
  log10 := Float.log10
  log2 := Float.log2
  exp2 := Float.exp2
  sqrt := Float.sqrt
  sin := Float.sin
  cos := Float.cos
  tan := Float.tan
  atan := Float.atan
  floor := Float.floor
  ceil := Float.ceil
  round := Float.round
  abs := Float.abs
  signum := Float.signumR
  ln1p := Float.log1p
  expm1 := Float.expm1
  recip := fun x => 1.0 / x
  pow := Float.pow
  powi := Float.powi
  logb := fun x b => Float.log x / Float.log b
  fmin := Float.minR
  fmax := Float.maxR
  fmod := Float.fmod
  isNaN := Float.isNaN
  isInf := Float.isInf
  isFinite := Float.isFinite
  nan := fNaN
  inf := fInf
  negInf := -fInf
  maxVal := Float.ofBits 0x7FEFFFFFFFFFFFFF
  minVal := Float.ofBits 0xFFEFFFFFFFFFFFFF
  minPositive := Float.ofBits 0x0010000000000000
  epsilon := Float.ofBits 0x3CB0000000000000
  ofInt := fun x => if x ≤ -(2 ^ 190) ∨ x ≥ 2 ^ 190 then panicNaN else Float.ofInt x
  toU64 := fun x => (x.toUInt64.toNat : Int)
  toI64 := fun x => x.toInt64.toInt
  toI32 := fun x => x.toInt32.toInt
  toU32 := fun x => (x.toUInt32.toNat : Int)
  ulpsEq := Float.ulpsEqR
  pi := 3.14159265358979323846264338327950288
  tau := 6.28318530717958647692528676655900577
  e := 2.71828182845904523536028747135266250
  ln2 := 0.693147180559945309417232121458176568
  ln10 := 2.30258509299404568401799145468436421
  sqrt2 := 1.41421356237309504880168872420969808
  frac1Sqrt2 := 0.707106781186547524400844362104849039
  fracPi2 := 1.57079632679489661923132169163975144
  c_SQRT_2PI := 2.5066282746310005024157652848110452530069867406099
  c_LN_PI := 1.1447298858494001741434273513530587116472948129153
  c_LN_SQRT_2PI := 0.91893853320467274178032973640561763986139747363778
  c_LN_SQRT_2PIE := 1.4189385332046727417803297364056176398613974736378
  c_LN_2_SQRT_E_OVER_PI := 0.6207822376352452223455184457816472122518527279025978
  c_TWO_SQRT_E_OVER_PI := 1.8603827342052657173362492472666631120594218414085755
  c_EULER_MASCHERONI := 0.5772156649015328606065120900824024310421593359399235988057672348849
  sumZero := -0.0

end Statrs
