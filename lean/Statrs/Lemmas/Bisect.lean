/-
  Statrs.Lemmas.Bisect — the trait-default `ContinuousCDF::inverse_cdf` (src/distribution/mod.rs:141)
  as an abstract algorithm over an arbitrary function `F : ℝ → ℝ`, with its error bound.

  The translator instantiates the default method once per family (`X.inverse_cdf` with auxiliary
  `X.inverse_cdf.loop1/3/5`).  `loop1/loop3/loop5/bisect` below have literally the same shape with
  `X.cdf d` replaced by `F`; a family connects to this file by proving
  `X.inverse_cdf.loopN … = Bisect.loopN (X.cdf d) …` (induction on the fuel, both sides unfold
  identically) and then applies `bisect_bound`.
-/
import Statrs.Real.Simp
import Mathlib.Tactic
namespace Statrs.Lemmas.Bisect
open Statrs

/-- `while cdf(low) >= p { low = low + low }` (`>=` since the repair 7d48d82; it was `>`) -/
noncomputable def loop1 (F : ℝ → ℝ) : Nat → ℝ → ℝ → LoopR ℝ ℝ
  | 0, _, _ => LoopR.hang
  | fuel + 1, p, low => if p ≤ F low then loop1 F fuel p (low + low) else LoopR.done low

/-- `while cdf(high) < p { high = high + high }` -/
noncomputable def loop3 (F : ℝ → ℝ) : Nat → ℝ → ℝ → LoopR ℝ ℝ
  | 0, _, _ => LoopR.hang
  | fuel + 1, p, high => if F high < p then loop3 F fuel p (high + high) else LoopR.done high

/-- the 16 bisection steps -/
noncomputable def loop5 (F : ℝ → ℝ) : Nat → ℝ → ℝ → ℝ → ℝ → Int → LoopR ℝ (ℝ × ℝ × Int)
  | 0, _, _, _, _, _ => LoopR.hang
  | fuel + 1, p, two, high, low, i =>
    if i ≠ 0 then
      if p ≤ F ((high + low) / two) then loop5 F fuel p two ((high + low) / two) low (i - 1)
      else loop5 F fuel p two high ((high + low) / two) (i - 1)
    else LoopR.done (high, low, i)

/-- the whole default method (`mn`/`mx` are `self.min()`/`self.max()`) -/
noncomputable def bisect (F : ℝ → ℝ) (mn mx p : ℝ) : ℝ :=
  if p = 0 then mn
  else if p = 1 then mx
  else
    match loop1 F loopFuel p (-2) with
    | LoopR.ret v => v
    | LoopR.hang => panicV
    | LoopR.done low =>
      match loop3 F loopFuel p 2 with
      | LoopR.ret v => v
      | LoopR.hang => panicV
      | LoopR.done high =>
        match loop5 F loopFuel p 2 high low 16 with
        | LoopR.ret v => v
        | LoopR.hang => panicV
        | LoopR.done (high, low, _) => (high + low) / 2

/-- `Q` is the `p`-quantile of `F`, in the form the bisection needs: `F < p` strictly below `Q`,
    `F ≥ p` from `Q` on, and `F > p` strictly above `Q` (no flat piece of `F` at level `p`). -/
structure IsQuantile (F : ℝ → ℝ) (p Q : ℝ) : Prop where
  below : ∀ x, x < Q → F x < p
  atOrAbove : ∀ x, Q ≤ x → p ≤ F x
  above : ∀ x, Q < x → p < F x

/-- `Q = inf {x | p ≤ F x}` and the infimum is attained: `F < p` strictly below `Q`, `F ≥ p` from `Q` on.
    Flat pieces of `F` at level `p` are ALLOWED (step cdfs evaluated at one of their levels): since the
    repair of the lower doubling loop (`>=`) this is all the bisection needs. -/
structure IsQuantileLE (F : ℝ → ℝ) (p Q : ℝ) : Prop where
  below : ∀ x, x < Q → F x < p
  atOrAbove : ∀ x, Q ≤ x → p ≤ F x

theorem IsQuantile.toLE {F : ℝ → ℝ} {p Q : ℝ} (h : IsQuantile F p Q) : IsQuantileLE F p Q :=
  ⟨h.below, h.atOrAbove⟩

variable {F : ℝ → ℝ} {p Q : ℝ}

theorem loop1_spec (hQ : IsQuantileLE F p Q) (n : Nat) : ∀ (fuel : Nat) (low : ℝ), n < fuel → low < 0 →
    low * 2 ^ n < Q → ∃ r, loop1 F fuel p low = LoopR.done r ∧ r ≤ Q ∧ min low (2 * Q) ≤ r := by
  induction n with
  | zero =>
    intro fuel low hf hl hq
    obtain ⟨f, rfl⟩ : ∃ f, fuel = f + 1 := ⟨fuel - 1, by omega⟩
    have hlq : low < Q := by simpa using hq
    have : ¬ (p ≤ F low) := not_le.mpr (hQ.below low hlq)
    exact ⟨low, by rw [loop1, if_neg this], hlq.le, min_le_left _ _⟩
  | succ n ih =>
    intro fuel low hf hl hq
    obtain ⟨f, rfl⟩ : ∃ f, fuel = f + 1 := ⟨fuel - 1, by omega⟩
    by_cases hb : p ≤ F low
    · have hge : Q ≤ low := by
        by_contra hlt
        exact absurd (hQ.below low (not_le.mp hlt)) (not_lt.mpr hb)
      obtain ⟨r, hr, hr1, hr2⟩ := ih f (low + low) (by omega) (by linarith)
        (by rw [pow_succ] at hq; linarith)
      refine ⟨r, by rw [loop1, if_pos hb, hr], hr1, ?_⟩
      have : min low (2 * Q) ≤ min (low + low) (2 * Q) := by
        apply le_min
        · exact (min_le_right _ _).trans (by linarith)
        · exact min_le_right _ _
      exact this.trans hr2
    · have hle : low ≤ Q := by
        by_contra hlt
        exact hb (hQ.atOrAbove low (not_le.mp hlt).le)
      exact ⟨low, by rw [loop1, if_neg hb], hle, min_le_left _ _⟩

theorem loop3_spec (hQ : IsQuantileLE F p Q) (n : Nat) : ∀ (fuel : Nat) (high : ℝ), n < fuel → 0 < high →
    Q < high * 2 ^ n → ∃ r, loop3 F fuel p high = LoopR.done r ∧ Q ≤ r ∧ r ≤ max high (2 * Q) := by
  induction n with
  | zero =>
    intro fuel high hf hh hq
    obtain ⟨f, rfl⟩ : ∃ f, fuel = f + 1 := ⟨fuel - 1, by omega⟩
    have hlq : Q < high := by simpa using hq
    have : ¬ (F high < p) := not_lt.mpr (hQ.atOrAbove high hlq.le)
    exact ⟨high, by rw [loop3, if_neg this], hlq.le, le_max_left _ _⟩
  | succ n ih =>
    intro fuel high hf hh hq
    obtain ⟨f, rfl⟩ : ∃ f, fuel = f + 1 := ⟨fuel - 1, by omega⟩
    by_cases hb : F high < p
    · have hlt : high < Q := by
        by_contra hge
        exact absurd (hQ.atOrAbove high (not_lt.mp hge)) (not_le.mpr hb)
      obtain ⟨r, hr, hr1, hr2⟩ := ih f (high + high) (by omega) (by linarith)
        (by rw [pow_succ] at hq; linarith)
      refine ⟨r, by rw [loop3, if_pos hb, hr], hr1, ?_⟩
      have : max (high + high) (2 * Q) ≤ max high (2 * Q) := by
        apply max_le
        · exact le_trans (by linarith) (le_max_right _ _)
        · exact le_max_right _ _
      exact hr2.trans this
    · have hge : Q ≤ high := by
        by_contra hlt
        exact hb (hQ.below high (not_le.mp hlt))
      exact ⟨high, by rw [loop3, if_neg hb], hge, le_max_left _ _⟩

theorem loop5_spec (hQ : IsQuantileLE F p Q) (n : Nat) : ∀ (fuel : Nat) (high low : ℝ), n < fuel →
    low ≤ Q → Q ≤ high → ∃ h l, loop5 F fuel p 2 high low (n : Int) = LoopR.done (h, l, 0) ∧
      l ≤ Q ∧ Q ≤ h ∧ h - l = (high - low) / 2 ^ n := by
  induction n with
  | zero =>
    intro fuel high low hf hl hh
    obtain ⟨f, rfl⟩ : ∃ f, fuel = f + 1 := ⟨fuel - 1, by omega⟩
    exact ⟨high, low, by simp [loop5], hl, hh, by simp⟩
  | succ n ih =>
    intro fuel high low hf hl hh
    obtain ⟨f, rfl⟩ : ∃ f, fuel = f + 1 := ⟨fuel - 1, by omega⟩
    have hi : ((n + 1 : Nat) : Int) ≠ 0 := by omega
    have hi2 : ((n + 1 : Nat) : Int) - 1 = (n : Int) := by push_cast; ring
    by_cases hb : p ≤ F ((high + low) / 2)
    · have hge : Q ≤ (high + low) / 2 := by
        by_contra hlt
        exact absurd (hQ.below _ (not_le.mp hlt)) (not_lt.mpr hb)
      obtain ⟨h, l, hr, h1, h2, h3⟩ := ih f ((high + low) / 2) low (by omega) hl hge
      refine ⟨h, l, by rw [loop5, if_pos hi, if_pos hb, hi2, hr], h1, h2, ?_⟩
      rw [h3, pow_succ]; field_simp; ring
    · have hlt : (high + low) / 2 < Q := by
        by_contra hge
        exact hb (hQ.atOrAbove _ (not_lt.mp hge))
      obtain ⟨h, l, hr, h1, h2, h3⟩ := ih f high ((high + low) / 2) (by omega) hlt.le hh
      refine ⟨h, l, by rw [loop5, if_pos hi, if_neg hb, hi2, hr], h1, h2, ?_⟩
      rw [h3, pow_succ]; field_simp; ring

/-- Error bound of the default bisection `inverse_cdf`: if `Q` is the `p`-quantile of `F`
    (`IsQuantile`), `p ∉ {0,1}` and `|Q| ≤ 2^1024` (any finite `f64`; this keeps the two doubling
    loops within their fuel), the result is within `2⁻¹⁵·max(1,|Q|)` of `Q`. -/
theorem bisect_bound_le (hQ : IsQuantileLE F p Q) (mn mx : ℝ) (hp0 : p ≠ 0) (hp1 : p ≠ 1)
    (hQb : |Q| ≤ 2 ^ 1024) : |bisect F mn mx p - Q| ≤ 2⁻¹ ^ 15 * max 1 |Q| := by
  obtain ⟨hQ1, hQ2⟩ := abs_le.mp hQb
  have hpow : (0:ℝ) < 2 ^ 1024 := by positivity
  have aux1 : ∀ P : ℝ, 0 < P → -P ≤ Q → -2 * P < Q := fun P h1 h2 => by linarith
  have aux2 : ∀ P : ℝ, 0 < P → Q ≤ P → Q < 2 * P := fun P h1 h2 => by linarith
  obtain ⟨low, e1, l1, l2⟩ := loop1_spec hQ 1024 loopFuel (-2) (by unfold loopFuel; norm_num)
    (by norm_num) (aux1 _ hpow hQ1)
  obtain ⟨high, e3, u1, u2⟩ := loop3_spec hQ 1024 loopFuel 2 (by unfold loopFuel; norm_num)
    (by norm_num) (aux2 _ hpow hQ2)
  obtain ⟨h, l, e5, b1, b2, b3⟩ := loop5_spec hQ 16 loopFuel high low (by unfold loopFuel; norm_num) l1 u1
  have e5' : loop5 F loopFuel p 2 high low 16 = LoopR.done (h, l, 0) := by exact_mod_cast e5
  unfold bisect
  rw [if_neg hp0, if_neg hp1, e1]
  dsimp only
  rw [e3]
  dsimp only
  rw [e5']
  dsimp only
  -- width of the initial bracket
  have hM1 : (1:ℝ) ≤ max 1 |Q| := le_max_left _ _
  have hM2 : |Q| ≤ max 1 |Q| := le_max_right _ _
  have hQa : Q ≤ |Q| := le_abs_self Q
  have hQn : -Q ≤ |Q| := neg_le_abs Q
  have hlow : -(2 * max 1 |Q|) ≤ low := by
    refine le_trans ?_ l2
    apply le_min <;> linarith
  have hhigh : high ≤ 2 * max 1 |Q| := by
    refine le_trans u2 ?_
    apply max_le <;> linarith
  have hw : h - l ≤ 4 * max 1 |Q| / 2 ^ 16 := by
    rw [b3]
    apply div_le_div_of_nonneg_right _ (by positivity)
    linarith
  have hwn : (4:ℝ) * max 1 |Q| / 2 ^ 16 = 2 * (2⁻¹ ^ 15 * max 1 |Q|) := by
    norm_num; ring
  rw [hwn] at hw
  rw [abs_le]
  constructor <;> linarith

/-- the bound under the older, stronger premise (no flat piece at level `p`) -/
theorem bisect_bound (hQ : IsQuantile F p Q) (mn mx : ℝ) (hp0 : p ≠ 0) (hp1 : p ≠ 1)
    (hQb : |Q| ≤ 2 ^ 1024) : |bisect F mn mx p - Q| ≤ 2⁻¹ ^ 15 * max 1 |Q| :=
  bisect_bound_le hQ.toLE mn mx hp0 hp1 hQb

end Statrs.Lemmas.Bisect
