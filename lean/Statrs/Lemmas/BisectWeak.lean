/-
  Statrs.Draft.Lemmas.BisectWeak — more about the abstract default bisection `Lemmas.Bisect.bisect F mn mx p`
  (src/distribution/mod.rs:141 and its private copy `Empirical::__inverse_cdf`, after the repair 7d48d82:
  `while cdf(low) >= p`), for an ARBITRARY `F : ℝ → ℝ`:

    * exact characterisation of the two doubling loops: `loop1`/`loop3` never `ret`; they `hang` iff the loop
      condition held at all `fuel` visited points `low·2^k` / `high·2^k`; they are `done r` iff `r` is the first
      visited point at which the condition fails;
    * `loop5_bracket`: the 16 bisection steps always finish; the final bracket `[l, h]` has width
      `(high − low)/2^16`, `h` is the initial `high` or a midpoint with `F h ≥ p`, `l` is the initial `low` or a
      midpoint with `F l < p`;
    * `bisect_bracket`: what `bisect` returns, with no assumption on `F`, when the doubling loops finish: the
      midpoint of a bracket with `F l < p ≤ F h`;
    * small consequences of `IsQuantileLE` (`Q` is the smallest `x` with `F x ≥ p`): uniqueness, `Q ∈ (l, h]`.
-/
import Statrs.Lemmas.Bisect
namespace Statrs.Lemmas.Bisect
open Statrs

variable {F : ℝ → ℝ} {p Q : ℝ}

/-! ### the doubling loops, exactly -/

/-- full(ℝ): the first doubling loop has no early `return` -/
theorem loop1_ne_ret (F : ℝ → ℝ) (p : ℝ) : ∀ (fuel : Nat) (low v : ℝ), loop1 F fuel p low ≠ LoopR.ret v := by
  intro fuel
  induction fuel with
  | zero => intro low v h; simp [loop1] at h
  | succ f ih =>
    intro low v
    rw [loop1]
    split_ifs
    · exact ih _ v
    · simp

/-- full(ℝ): the second doubling loop has no early `return` -/
theorem loop3_ne_ret (F : ℝ → ℝ) (p : ℝ) : ∀ (fuel : Nat) (high v : ℝ), loop3 F fuel p high ≠ LoopR.ret v := by
  intro fuel
  induction fuel with
  | zero => intro high v h; simp [loop3] at h
  | succ f ih =>
    intro high v
    rw [loop3]
    split_ifs
    · exact ih _ v
    · simp

/-- full(ℝ): the first doubling loop exhausts its fuel iff `cdf(low·2^k) ≥ p` at all `fuel` points it visits -/
theorem loop1_eq_hang_iff (F : ℝ → ℝ) (p : ℝ) : ∀ (fuel : Nat) (low : ℝ),
    loop1 F fuel p low = LoopR.hang ↔ ∀ k, k < fuel → p ≤ F (low * 2 ^ k) := by
  intro fuel
  induction fuel with
  | zero => intro low; simp [loop1]
  | succ f ih =>
    intro low
    rw [loop1]
    by_cases hb : p ≤ F low
    · rw [if_pos hb, ih]
      constructor
      · intro h k hk
        cases k with
        | zero => simpa using hb
        | succ j =>
          have := h j (by omega)
          rwa [show (low + low) * 2 ^ j = low * 2 ^ (j + 1) by rw [pow_succ]; ring] at this
      · intro h k hk
        have := h (k + 1) (by omega)
        rwa [show (low + low) * 2 ^ k = low * 2 ^ (k + 1) by rw [pow_succ]; ring]
    · rw [if_neg hb]
      constructor
      · intro h; cases h
      · intro h; exact absurd (by simpa using h 0 (by omega)) hb

/-- full(ℝ): the first doubling loop ends at `r` iff `r = low·2^k` is the first visited point with `cdf(r) < p` -/
theorem loop1_eq_done_iff (F : ℝ → ℝ) (p : ℝ) : ∀ (fuel : Nat) (low r : ℝ),
    loop1 F fuel p low = LoopR.done r ↔
      ∃ k, k < fuel ∧ r = low * 2 ^ k ∧ ¬ p ≤ F r ∧ ∀ j, j < k → p ≤ F (low * 2 ^ j) := by
  intro fuel
  induction fuel with
  | zero => intro low r; simp [loop1]
  | succ f ih =>
    intro low r
    rw [loop1]
    by_cases hb : p ≤ F low
    · rw [if_pos hb, ih]
      constructor
      · rintro ⟨k, hk, hr, hn, hj⟩
        refine ⟨k + 1, by omega, by rw [hr, pow_succ]; ring, hn, ?_⟩
        intro j hjk
        cases j with
        | zero => simpa using hb
        | succ i =>
          have := hj i (by omega)
          rwa [show (low + low) * 2 ^ i = low * 2 ^ (i + 1) by rw [pow_succ]; ring] at this
      · rintro ⟨k, hk, hr, hn, hj⟩
        cases k with
        | zero => rw [hr] at hn; exact absurd (by simpa using hb) hn
        | succ i =>
          refine ⟨i, by omega, by rw [hr, pow_succ]; ring, hn, ?_⟩
          intro j hji
          have := hj (j + 1) (by omega)
          rwa [show (low + low) * 2 ^ j = low * 2 ^ (j + 1) by rw [pow_succ]; ring]
    · rw [if_neg hb]
      constructor
      · intro h
        have hr : low = r := by simpa using h
        subst hr
        exact ⟨0, by omega, by simp, hb, fun j hj => absurd hj (by omega)⟩
      · rintro ⟨k, hk, hr, hn, hj⟩
        cases k with
        | zero => simp at hr; rw [hr]
        | succ i => exact absurd (by simpa using hj 0 (by omega)) hb

/-- full(ℝ): the second doubling loop exhausts its fuel iff `cdf(high·2^k) < p` at all `fuel` points it visits -/
theorem loop3_eq_hang_iff (F : ℝ → ℝ) (p : ℝ) : ∀ (fuel : Nat) (high : ℝ),
    loop3 F fuel p high = LoopR.hang ↔ ∀ k, k < fuel → F (high * 2 ^ k) < p := by
  intro fuel
  induction fuel with
  | zero => intro high; simp [loop3]
  | succ f ih =>
    intro high
    rw [loop3]
    by_cases hb : F high < p
    · rw [if_pos hb, ih]
      constructor
      · intro h k hk
        cases k with
        | zero => simpa using hb
        | succ j =>
          have := h j (by omega)
          rwa [show (high + high) * 2 ^ j = high * 2 ^ (j + 1) by rw [pow_succ]; ring] at this
      · intro h k hk
        have := h (k + 1) (by omega)
        rwa [show (high + high) * 2 ^ k = high * 2 ^ (k + 1) by rw [pow_succ]; ring]
    · rw [if_neg hb]
      constructor
      · intro h; cases h
      · intro h; exact absurd (by simpa using h 0 (by omega)) hb

/-- full(ℝ): the second doubling loop ends at `r` iff `r = high·2^k` is the first visited point with `cdf(r) ≥ p` -/
theorem loop3_eq_done_iff (F : ℝ → ℝ) (p : ℝ) : ∀ (fuel : Nat) (high r : ℝ),
    loop3 F fuel p high = LoopR.done r ↔
      ∃ k, k < fuel ∧ r = high * 2 ^ k ∧ ¬ F r < p ∧ ∀ j, j < k → F (high * 2 ^ j) < p := by
  intro fuel
  induction fuel with
  | zero => intro high r; simp [loop3]
  | succ f ih =>
    intro high r
    rw [loop3]
    by_cases hb : F high < p
    · rw [if_pos hb, ih]
      constructor
      · rintro ⟨k, hk, hr, hn, hj⟩
        refine ⟨k + 1, by omega, by rw [hr, pow_succ]; ring, hn, ?_⟩
        intro j hjk
        cases j with
        | zero => simpa using hb
        | succ i =>
          have := hj i (by omega)
          rwa [show (high + high) * 2 ^ i = high * 2 ^ (i + 1) by rw [pow_succ]; ring] at this
      · rintro ⟨k, hk, hr, hn, hj⟩
        cases k with
        | zero => rw [hr] at hn; exact absurd (by simpa using hb) hn
        | succ i =>
          refine ⟨i, by omega, by rw [hr, pow_succ]; ring, hn, ?_⟩
          intro j hji
          have := hj (j + 1) (by omega)
          rwa [show (high + high) * 2 ^ j = high * 2 ^ (j + 1) by rw [pow_succ]; ring]
    · rw [if_neg hb]
      constructor
      · intro h
        have hr : high = r := by simpa using h
        subst hr
        exact ⟨0, by omega, by simp, hb, fun j hj => absurd hj (by omega)⟩
      · rintro ⟨k, hk, hr, hn, hj⟩
        cases k with
        | zero => simp at hr; rw [hr]
        | succ i => exact absurd (by simpa using hj 0 (by omega)) hb

/-- full(ℝ): a finished first loop stopped at a point with `cdf < p` -/
theorem loop1_done_lt {fuel : Nat} {low r : ℝ} (h : loop1 F fuel p low = LoopR.done r) : F r < p := by
  obtain ⟨_, _, _, hn, _⟩ := (loop1_eq_done_iff F p fuel low r).1 h
  exact not_le.mp hn

/-- full(ℝ): a finished second loop stopped at a point with `cdf ≥ p` -/
theorem loop3_done_not_lt {fuel : Nat} {high r : ℝ} (h : loop3 F fuel p high = LoopR.done r) : ¬ F r < p := by
  obtain ⟨_, _, _, hn, _⟩ := (loop3_eq_done_iff F p fuel high r).1 h
  exact hn

/-- full(ℝ): a finished first loop (started at `low ≤ 0`) stopped at or below its start -/
theorem loop1_done_le {fuel : Nat} {low r : ℝ} (hl : low ≤ 0) (h : loop1 F fuel p low = LoopR.done r) :
    r ≤ low := by
  obtain ⟨k, _, hr, _, _⟩ := (loop1_eq_done_iff F p fuel low r).1 h
  rw [hr]
  have : (1 : ℝ) ≤ 2 ^ k := one_le_pow₀ (by norm_num)
  nlinarith

/-- full(ℝ): a finished second loop (started at `high ≥ 0`) stopped at or above its start -/
theorem loop3_done_ge {fuel : Nat} {high r : ℝ} (hh : 0 ≤ high) (h : loop3 F fuel p high = LoopR.done r) :
    high ≤ r := by
  obtain ⟨k, _, hr, _, _⟩ := (loop3_eq_done_iff F p fuel high r).1 h
  rw [hr]
  have : (1 : ℝ) ≤ 2 ^ k := one_le_pow₀ (by norm_num)
  nlinarith

/-! ### the bisection steps, for an arbitrary `F` -/

/-- full(ℝ): The `n` bisection steps always finish (given fuel); the final bracket has width `(high − low)/2^n`,
    lies inside the initial one, its upper end is the initial `high` or a midpoint with `F ≥ p`, its lower
    end is the initial `low` or a midpoint with `F < p`. -/
theorem loop5_bracket (F : ℝ → ℝ) (p : ℝ) (n : Nat) : ∀ (fuel : Nat) (high low : ℝ), n < fuel →
    ∃ h l, loop5 F fuel p 2 high low (n : Int) = LoopR.done (h, l, 0) ∧
      h - l = (high - low) / 2 ^ n ∧ (h = high ∨ p ≤ F h) ∧ (l = low ∨ F l < p) ∧
      (low ≤ high → low ≤ l ∧ h ≤ high) := by
  induction n with
  | zero =>
    intro fuel high low hf
    obtain ⟨f, rfl⟩ : ∃ f, fuel = f + 1 := ⟨fuel - 1, by omega⟩
    exact ⟨high, low, by simp [loop5], by simp, Or.inl rfl, Or.inl rfl, fun h => ⟨le_rfl, le_rfl⟩⟩
  | succ n ih =>
    intro fuel high low hf
    obtain ⟨f, rfl⟩ : ∃ f, fuel = f + 1 := ⟨fuel - 1, by omega⟩
    have hi : ((n + 1 : Nat) : Int) ≠ 0 := by omega
    have hi2 : ((n + 1 : Nat) : Int) - 1 = (n : Int) := by push_cast; ring
    by_cases hb : p ≤ F ((high + low) / 2)
    · obtain ⟨h, l, hr, h3, hh, hl, hin⟩ := ih f ((high + low) / 2) low (by omega)
      refine ⟨h, l, by rw [loop5, if_pos hi, if_pos hb, hi2, hr], ?_, ?_, hl, ?_⟩
      · rw [h3, pow_succ]; field_simp; ring
      · rcases hh with hh | hh
        · right; rw [hh]; exact hb
        · right; exact hh
      · intro hlh
        obtain ⟨a, b⟩ := hin (by linarith)
        exact ⟨a, by linarith⟩
    · obtain ⟨h, l, hr, h3, hh, hl, hin⟩ := ih f high ((high + low) / 2) (by omega)
      refine ⟨h, l, by rw [loop5, if_pos hi, if_neg hb, hi2, hr], ?_, hh, ?_, ?_⟩
      · rw [h3, pow_succ]; field_simp; ring
      · rcases hl with hl | hl
        · right; rw [hl]; exact not_le.mp hb
        · right; exact hl
      · intro hlh
        obtain ⟨a, b⟩ := hin (by linarith)
        exact ⟨by linarith, b⟩

/-- full(ℝ): What the default bisection returns for an ARBITRARY `F` once the two doubling loops have finished
    at `low₀` and `high₀`: the midpoint of a bracket `[l, h] ⊆ [low₀, high₀]` of width
    `(high₀ − low₀)/2^16` with `F l < p ≤ F h` ("the bisection keeps `cdf(high) ≥ p`" — and, since the repair of
    the first loop, `cdf(low) < p`). -/
theorem bisect_bracket (F : ℝ → ℝ) (mn mx p : ℝ) (hp0 : p ≠ 0) (hp1 : p ≠ 1) {low₀ high₀ : ℝ}
    (e1 : loop1 F loopFuel p (-2) = LoopR.done low₀) (e3 : loop3 F loopFuel p 2 = LoopR.done high₀) :
    ∃ h l, bisect F mn mx p = (h + l) / 2 ∧ h - l = (high₀ - low₀) / 2 ^ 16 ∧
      low₀ ≤ l ∧ h ≤ high₀ ∧ l ≤ h ∧ p ≤ F h ∧ F l < p := by
  have hlow : low₀ ≤ -2 := loop1_done_le (by norm_num) e1
  have hhigh : 2 ≤ high₀ := loop3_done_ge (by norm_num) e3
  obtain ⟨h, l, e5, b3, bh, bl, bin⟩ := loop5_bracket F p 16 loopFuel high₀ low₀ (by unfold loopFuel; norm_num)
  have e5' : loop5 F loopFuel p 2 high₀ low₀ 16 = LoopR.done (h, l, 0) := by exact_mod_cast e5
  obtain ⟨i1, i2⟩ := bin (by linarith)
  have hlh : l ≤ h := by
    have : (0:ℝ) ≤ (high₀ - low₀) / 2 ^ 16 := div_nonneg (by linarith) (by positivity)
    linarith
  refine ⟨h, l, ?_, b3, i1, i2, hlh, ?_, ?_⟩
  · unfold bisect
    rw [if_neg hp0, if_neg hp1, e1]
    dsimp only
    rw [e3]
    dsimp only
    rw [e5']
  · rcases bh with bh | bh
    · rw [bh]; exact not_lt.mp (loop3_done_not_lt e3)
    · exact bh
  · rcases bl with bl | bl
    · rw [bl]; exact loop1_done_lt e1
    · exact bl

/-! ### `IsQuantileLE` -/

/-- full(ℝ): `F x ≥ p` forces `x ≥ Q` -/
theorem IsQuantileLE.le_of_le (hQ : IsQuantileLE F p Q) {x : ℝ} (h : p ≤ F x) : Q ≤ x := by
  by_contra hlt
  exact absurd (hQ.below x (not_le.mp hlt)) (not_lt.mpr h)

/-- full(ℝ): `F x < p` forces `x < Q` -/
theorem IsQuantileLE.lt_of_lt (hQ : IsQuantileLE F p Q) {x : ℝ} (h : F x < p) : x < Q := by
  by_contra hge
  exact absurd (hQ.atOrAbove x (not_lt.mp hge)) (not_le.mpr h)

/-- full(ℝ): the smallest `x` with `F x ≥ p` is unique -/
theorem IsQuantileLE.unique {Q' : ℝ} (h : IsQuantileLE F p Q) (h' : IsQuantileLE F p Q') : Q = Q' :=
  le_antisymm (h.le_of_le (h'.atOrAbove Q' le_rfl)) (h'.le_of_le (h.atOrAbove Q le_rfl))

/-- full(ℝ): both doubling loops finish when `Q` is a finite double -/
theorem loops_finish (hQ : IsQuantileLE F p Q) (hQb : |Q| ≤ 2 ^ 1024) :
    ∃ low₀ high₀, loop1 F loopFuel p (-2) = LoopR.done low₀ ∧ loop3 F loopFuel p 2 = LoopR.done high₀ := by
  obtain ⟨hQ1, hQ2⟩ := abs_le.mp hQb
  have hpow : (0:ℝ) < 2 ^ 1024 := by positivity
  have aux1 : ∀ P : ℝ, 0 < P → -P ≤ Q → -2 * P < Q := fun P h1 h2 => by linarith
  have aux2 : ∀ P : ℝ, 0 < P → Q ≤ P → Q < 2 * P := fun P h1 h2 => by linarith
  obtain ⟨low, e1, _⟩ := loop1_spec hQ 1024 loopFuel (-2) (by unfold loopFuel; norm_num)
    (by norm_num) (aux1 _ hpow hQ1)
  obtain ⟨high, e3, _⟩ := loop3_spec hQ 1024 loopFuel 2 (by unfold loopFuel; norm_num)
    (by norm_num) (aux2 _ hpow hQ2)
  exact ⟨low, high, e1, e3⟩

/-- full(ℝ): under `IsQuantileLE` the final bracket of `bisect_bracket` contains `Q`: `l < Q ≤ h` -/
theorem bisect_bracket_mem (hQ : IsQuantileLE F p Q) {h l : ℝ} (hh : p ≤ F h) (hl : F l < p) : l < Q ∧ Q ≤ h :=
  ⟨hQ.lt_of_lt hl, hQ.le_of_le hh⟩

end Statrs.Lemmas.Bisect
