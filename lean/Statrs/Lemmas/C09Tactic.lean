/-
  Statrs.Lemmas.C09Tactic — the decision procedure used by the C09 constructor theorems.

  After `cases` on every `XR` argument, a constructor is a nest of `if`s whose conditions are
  literal truth values (NaN/±∞ cases) or linear inequalities over the reals carried by `fin`.
  `ctor_solve [defs]` unfolds `defs` (the generated `X.new`, the documented domain, …) with
  `norm_num` (which also evaluates the decimal literals `0.0`, `1.0`, `2.0`, `0.5`), splits the
  remaining `if`s, and closes the propositional/linear residue with `grind`.
-/
import Statrs.Spec.Domain
import Mathlib.Tactic
namespace Statrs.Lemmas
open Statrs

syntax "ctor_solve" "[" Lean.Parser.Tactic.simpLemma,* "]" : tactic
macro_rules
  | `(tactic| ctor_solve [$ls,*]) =>
    `(tactic| (norm_num [$ls,*] <;> (try split_ifs) <;> (try simp only [exceptMap]) <;> grind))

end Statrs.Lemmas
