/-
  Statrs.Lemmas.C09Vector — helper lemmas for the C09 theorems about the VECTOR / MATRIX
  constructors (Multinomial, Dirichlet, MultivariateNormal, MultivariateStudent, Categorical):

    * facts about the exact-value carrier `XR` that the scalar constructors did not need
      (`==` as a proposition, sums of non-negative values, `lp_norm(1)` of finite vectors);
    * the carrier-independent description of the validation loop `Multinomial.newLoop`;
    * the `Prop`-level reading of nalgebra's symmetry / NaN tests on `List (List XR)`.
-/
import Statrs.Spec.XR
import Statrs.Model.Multivariate
import Mathlib.Tactic
set_option linter.unusedSectionVars false
namespace Statrs.Lemmas.C09Vector
open Statrs Statrs.Gen Statrs.Model Statrs.Spec Statrs.Spec.XR

/-! ### `XR`: literals, `==`, addition -/

theorem xlit0 : (0.0 : XR) = fin 0 := by rw [ofScientific_eq]; norm_num
theorem xlit1 : (1.0 : XR) = fin 1 := by rw [ofScientific_eq]; norm_num

/-- IEEE `==` on `XR` is equality of non-NaN values -/
theorem beq_iff (a b : XR) : (a == b) = true ↔ a = b ∧ ¬ IsNaN a := by
  cases a <;> cases b <;> simp

@[simp] theorem fin_add_pinf (a : ℝ) : fin a + pinf = pinf := rfl
@[simp] theorem pinf_add_fin (a : ℝ) : pinf + fin a = pinf := rfl
@[simp] theorem pinf_add_pinf : pinf + pinf = pinf := rfl

/-- "not NaN and not `< 0`": a non-negative real or `+∞` -/
def NN (x : XR) : Prop := ¬ IsNaN x ∧ ¬ x < fin 0

theorem nn_iff (x : XR) : NN x ↔ x = pinf ∨ ∃ r, 0 ≤ r ∧ x = fin r := by
  cases x <;> simp [NN]

theorem nn_add {a b : XR} (ha : NN a) (hb : NN b) : NN (a + b) := by
  rw [nn_iff] at *
  rcases ha with rfl | ⟨r, hr, rfl⟩ <;> rcases hb with rfl | ⟨s, hs, rfl⟩ <;> simp
  exact add_nonneg hr hs

theorem nn_add_eq_zero {a b : XR} (ha : NN a) (hb : NN b) :
    a + b = fin 0 ↔ a = fin 0 ∧ b = fin 0 := by
  rw [nn_iff] at *
  rcases ha with rfl | ⟨r, hr, rfl⟩ <;> rcases hb with rfl | ⟨s, hs, rfl⟩ <;> simp
  constructor
  · intro h; constructor <;> linarith
  · rintro ⟨rfl, rfl⟩; simp

/-- the running sum `fold(c, |a, b| a + b)` of non-negative values is non-negative, and zero only
    if everything is zero -/
theorem foldl_add_nn (p : List XR) (c : XR) (hc : NN c) (hp : ∀ x ∈ p, NN x) :
    NN (p.foldl (fun a b => a + b) c) ∧
      (p.foldl (fun a b => a + b) c = fin 0 ↔ c = fin 0 ∧ ∀ x ∈ p, x = fin 0) := by
  induction p generalizing c with
  | nil => simp [hc]
  | cons a t ih =>
    have ha : NN a := hp a List.mem_cons_self
    have ht : ∀ x ∈ t, NN x := fun x hx => hp x (List.mem_cons_of_mem _ hx)
    obtain ⟨h1, h2⟩ := ih (c + a) (nn_add hc ha) ht
    refine ⟨h1, ?_⟩
    rw [List.foldl_cons, h2, nn_add_eq_zero hc ha]
    simp [and_assoc]

/-- the sum of the values of a vector, as the code accumulates it (`0.0`, then `+=` in order) -/
def xsum (p : List XR) : XR := p.foldl (fun a b => a + b) (fin 0)

theorem xsum_map_fin (l : List ℝ) : xsum (l.map fin) = fin l.sum := by
  unfold xsum
  have : ∀ (l : List ℝ) (c : ℝ), (l.map fin).foldl (fun a b => a + b) (fin c) = fin (c + l.sum) := by
    intro l
    induction l with
    | nil => intro c; simp
    | cons a t ih => intro c; simp [ih, add_assoc]
  rw [this, zero_add]

/-- the sum of non-negative values is `== 0.0` exactly when all of them are `0` -/
theorem xsum_beq_zero_iff (p : List XR) (hp : ∀ x ∈ p, NN x) :
    (xsum p == fin 0) = true ↔ ∀ x ∈ p, x = fin 0 := by
  have h0 : NN (fin 0) := by simp [NN]
  obtain ⟨h1, h2⟩ := foldl_add_nn p (fin 0) h0 hp
  rw [beq_iff]
  constructor
  · rintro ⟨h, _⟩; exact (h2.mp h).2
  · intro h; exact ⟨h2.mpr ⟨rfl, h⟩, h1.1⟩

/-- … equivalently: the sum is NOT `== 0.0` exactly when some value is positive -/
theorem xsum_not_beq_zero_iff (p : List XR) (hp : ∀ x ∈ p, NN x) :
    ¬ (xsum p == fin 0) = true ↔ ∃ x ∈ p, fin 0 < x := by
  rw [xsum_beq_zero_iff p hp]
  push Not
  constructor
  · rintro ⟨x, hx, hne⟩
    refine ⟨x, hx, ?_⟩
    have := (nn_iff x).mp (hp x hx)
    rcases this with rfl | ⟨r, hr, rfl⟩
    · simp
    · simp only [fin_lt_fin]
      exact lt_of_le_of_ne hr (fun h => hne (by rw [← h]))
  · rintro ⟨x, hx, hlt⟩
    refine ⟨x, hx, ?_⟩
    rintro rfl
    simp at hlt

/-! ### `lp_norm(1)` and `unscale` of a finite non-negative vector on `XR` -/

theorem lpNorm1_map_fin (l : List ℝ) (hl : ∀ r ∈ l, 0 ≤ r) : LA.lpNorm1 (l.map fin) = fin l.sum := by
  unfold LA.lpNorm1
  have hfold : ∀ (l : List ℝ) (c : ℝ), (∀ r ∈ l, 0 ≤ r) →
      (l.map fin).foldl (fun a b => a + RFun.powi (RFun.abs b) 1) (fin c) = fin (c + l.sum) := by
    intro l
    induction l with
    | nil => intro c _; simp
    | cons a t ih =>
      intro c h
      have ha : 0 ≤ a := h a List.mem_cons_self
      rw [List.map_cons, List.foldl_cons]
      have : (fin c + RFun.powi (RFun.abs (fin a)) 1 : XR) = fin (c + a) := by
        show fin c + fin ((|a|) ^ (1 : ℤ)) = _
        rw [abs_of_nonneg ha, zpow_one]; rfl
      rw [this, ih _ (fun r hr => h r (List.mem_cons_of_mem _ hr))]
      simp [add_assoc]
  rw [xlit0, hfold l 0 hl, zero_add, xlit1]
  show RFun.pow (fin l.sum) (fin 1 / fin ((1 : ℤ) : ℝ)) = _
  rw [fin_div_fin _ _ (by norm_num)]
  show fin (l.sum ^ ((1 : ℝ) / ((1 : ℤ) : ℝ))) = _
  norm_num

/-! ### `Multinomial.newLoop` on every carrier -/
section generic
variable {α : Type} [Add α] [Sub α] [Mul α] [Div α] [Neg α] [LT α] [LE α] [BEq α]
  [DecidableLT α] [DecidableLE α] [OfScientific α] [Inhabited α] [RFun α]

/-- the loop returns early (`Err(ProbabilityInvalid)`) iff some entry is NaN or `< 0.0` -/
theorem newLoop_eq_none_iff (p : List α) (c : α) :
    Multinomial.newLoop p c = none ↔ ∃ x ∈ p, (RFun.isNaN x = true) ∨ x < (0.0 : α) := by
  induction p generalizing c with
  | nil => simp [Multinomial.newLoop]
  | cons a t ih =>
    unfold Multinomial.newLoop
    by_cases h : (RFun.isNaN a = true) ∨ a < (0.0 : α)
    · rw [if_pos h]; simp only [List.mem_cons, exists_eq_or_imp, true_iff]; exact Or.inl h
    · rw [if_neg h, ih]; simp only [List.mem_cons, exists_eq_or_imp, h, false_or]

/-- otherwise it returns the running sum -/
theorem newLoop_eq_some (p : List α) (c : α)
    (h : ∀ x ∈ p, ¬ ((RFun.isNaN x = true) ∨ x < (0.0 : α))) :
    Multinomial.newLoop p c = some (p.foldl (fun a b => a + b) c) := by
  induction p generalizing c with
  | nil => simp [Multinomial.newLoop]
  | cons a t ih =>
    unfold Multinomial.newLoop
    rw [if_neg (h a List.mem_cons_self), ih _ (fun x hx => h x (List.mem_cons_of_mem _ hx))]
    rfl

/-! ### `Cholesky::new` on 0×0, 1×1 and 2×2 matrices, on every carrier (pure unfolding) -/

theorem choleskyNew_nil : LA.choleskyNew ([] : List (List α)) = some [] := by
  simp [LA.choleskyNew]

/-- 1×1: fails iff the entry is `== 0.0` or not `>= 0.0` -/
theorem choleskyNew_one (s : α) : LA.choleskyNew [[s]] =
    if (s == (0.0 : α)) = true then none else if (0.0 : α) ≤ s then some [[RFun.sqrt s]] else none := by
  simp [LA.choleskyNew, LA.cholStep, LA.mget, List.range_succ]

/-- the second pivot of the 2×2 factorisation, with nalgebra's `axpy` expression
    `(-l10) * l10 * 1 + 1 * d`, `l10 = c / sqrt a` (only the lower triangle `a, c, d` is read) -/
def pivot2 (a c d : α) : α :=
  ((-(c / RFun.sqrt a)) * (c / RFun.sqrt a)) * (1.0 : α) + (1.0 : α) * d

/-- 2×2 -/
theorem choleskyNew_two (a b c d : α) : LA.choleskyNew [[a, b], [c, d]] =
    if (a == (0.0 : α)) = true then none
    else if (0.0 : α) ≤ a then
      (if (pivot2 a c d == (0.0 : α)) = true then none
       else if (0.0 : α) ≤ pivot2 a c d then
         some [[RFun.sqrt a, b], [c / RFun.sqrt a, RFun.sqrt (pivot2 a c d)]]
       else none)
    else none := by
  unfold pivot2
  simp only [LA.choleskyNew, List.length_cons, List.length_nil, List.range_succ, List.range_zero,
    List.nil_append, List.cons_append, List.foldl_cons, List.foldl_nil, Option.bind_some]
  by_cases h1 : (a == (0.0 : α)) = true
  · simp [LA.cholStep, LA.mget, h1]
  · by_cases h2 : (0.0 : α) ≤ a
    · simp [LA.cholStep, LA.cholAxpy, LA.mget, h1, h2, List.range_succ]
    · simp [LA.cholStep, LA.mget, h1, h2]

end generic

/-! ### nalgebra's symmetry and NaN tests on `List (List XR)` -/

/-- entries `(i, j)` and `(j, i)` agree and are not NaN, for all `i, j < n` -/
def SymNoNaN (n : ℕ) (m : List (List XR)) : Prop :=
  ∀ i j, i < n → j < n → LA.mget m i j = LA.mget m j i ∧ ¬ IsNaN (LA.mget m i j)

/-- `cov.lower_triangle() == cov.upper_triangle().transpose()` holds exactly for a symmetric
    matrix WITHOUT NaN entries (NaN `!=` NaN, and every entry takes part in a comparison) -/
theorem symmetricEq_iff (m : List (List XR)) : LA.symmetricEq m = true ↔ SymNoNaN m.length m := by
  unfold LA.symmetricEq SymNoNaN
  simp only [List.all_eq_true, List.mem_range, beq_iff]
  constructor
  · intro h i j hi hj
    rcases Nat.lt_or_ge j (i + 1) with hji | hji
    · exact h i hi j hji
    · obtain ⟨h1, h2⟩ := h j hj i (by omega)
      exact ⟨h1.symm, by rwa [← h1]⟩
  · intro h i hi j hj
    exact h i j hi (by omega)

/-- on a square matrix the separate `cov.iter().any(|f| f.is_nan())` test can never fire once the
    symmetry test has passed -/
theorem anyNaN_false_of_symmetricEq (m : List (List XR)) (hsq : LA.isSquare m = true)
    (hs : LA.symmetricEq m = true) : LA.anyNaN m = false := by
  rw [symmetricEq_iff] at hs
  unfold LA.isSquare at hsq
  rw [List.all_eq_true] at hsq
  unfold LA.anyNaN
  rw [Bool.eq_false_iff]
  intro hany
  rw [List.any_eq_true] at hany
  obtain ⟨r, hr, hany⟩ := hany
  rw [List.any_eq_true] at hany
  obtain ⟨x, hx, hnan⟩ := hany
  obtain ⟨i, hi, rfl⟩ := List.mem_iff_getElem.mp hr
  obtain ⟨j, hj, rfl⟩ := List.mem_iff_getElem.mp hx
  have hlen : (m[i]).length = m.length := by
    have := hsq _ hr
    simpa using this
  have := (hs i j hi (by omega)).2
  apply this
  have hget : LA.mget m i j = m[i][j] := by
    simp [LA.mget, List.getD_eq_getElem?_getD, hi, hj]
  rw [hget]
  exact (rfun_isNaN_iff _).mp hnan

theorem anyNaN_false_iff (m : List (List XR)) :
    LA.anyNaN m = false ↔ ∀ r ∈ m, ∀ x ∈ r, ¬ IsNaN x := by
  unfold LA.anyNaN
  rw [Bool.eq_false_iff]
  simp only [ne_eq, List.any_eq_true, not_exists, not_and, rfun_isNaN_iff]

theorem any_isNaN_false_iff (v : List XR) :
    (v.any (fun f => RFun.isNaN f)) = false ↔ ∀ x ∈ v, ¬ IsNaN x := by
  rw [Bool.eq_false_iff]
  simp only [ne_eq, List.any_eq_true, not_exists, not_and, rfun_isNaN_iff]

end Statrs.Lemmas.C09Vector
