/-
  `binary_index` of src/distribution/categorical.rs (the search behind `Categorical::inverse_cdf`)
  over ℝ: on every NON-DECREASING table (repeated entries allowed) it returns the FIRST index whose
  entry is `≥ val` (`List.findIdx`), i.e. the generalised inverse of the cumulative table.  (The
  loop is a lower-bound search: on `val ≤ el` — equality included — it moves `high` below `mid`.)

  The loop halves the window `[low, high]`, so `loopFuel = 20000` iterations are enough for every
  table of length `≤ isize::MAX` (`window < 2^fuel`).
-/
import Statrs.Real.Simp
import Statrs.Gen.D_categorical
import Statrs.Model.CategoricalModel
import Mathlib.Tactic
namespace Statrs.Lemmas.CategoricalSearch
open Statrs Statrs.Gen

/-- the post-processing of the loop result in `binary_index` -/
def finish (c : List ℝ) : LoopR Int (Int × Int) → Int
  | LoopR.ret v => v
  | LoopR.hang => panicV
  | LoopR.done (_, low) => Min.min (listLen c) (wrapU64 (Max.max low (0 : Int)))

open Lean Elab Term Meta in
/-- The value of the generated `D.categorical.binary_index` read from the environment (not copied),
    with the constant `loopFuel` replaced by the given term.  Needed because the kernel cannot
    compare `binary_index c val` with its own unfolding: the matcher on the loop result is an
    `abbrev`, so the kernel reduces it first and tries to evaluate the loop on the symbolic table.
    Unfolding BOTH sides of `binary_index c val = binIdx loopFuel c val` gives syntactically
    identical terms, which the kernel accepts at once. -/
elab "binary_index_with_fuel% " f:term : term => do
  let fuel ← elabTermEnsuringType f (mkConst ``Nat)
  let ci ← getConstInfo ``Statrs.Gen.D.categorical.binary_index
  let v := ci.value!
  return v.replace fun e => if e.isConstOf ``Statrs.loopFuel then some fuel else none

/-- `binary_index` with the loop fuel as a parameter -/
def binIdx (fuel : Nat) := binary_index_with_fuel% fuel

theorem binary_index_eq_binIdx (c : List ℝ) (val : ℝ) :
    D.categorical.binary_index c val = binIdx loopFuel c val := rfl

theorem binIdx_eq_finish (fuel : Nat) (c : List ℝ) (val : ℝ) :
    binIdx fuel c val
      = finish c (D.categorical.binary_index.loop1 fuel c val (wrapI64 (listLen c) - 1) 0) := by
  unfold binIdx
  simp only
  generalize D.categorical.binary_index.loop1 fuel c val (wrapI64 (listLen c) - 1) 0 = r
  cases r with
  | ret v => rfl
  | hang => rfl
  | done s => obtain ⟨h, l⟩ := s; rfl

theorem binary_index_eq_finish (c : List ℝ) (val : ℝ) :
    D.categorical.binary_index c val
      = finish c (D.categorical.binary_index.loop1 loopFuel c val (wrapI64 (listLen c) - 1) 0) := by
  rw [binary_index_eq_binIdx, binIdx_eq_finish]

private theorem findIdx_eq_of_split (c : List ℝ) (val : ℝ) (r : ℕ) (hr : r ≤ c.length)
    (hlo : ∀ i : ℕ, i < r → ∀ h : i < c.length, c[i] < val)
    (hhi : ∀ h : r < c.length, val ≤ c[r]) :
    c.findIdx (fun x => decide (val ≤ x)) = r := by
  rcases Nat.lt_or_ge r c.length with h | h
  · rw [List.findIdx_eq h]
    refine ⟨by simpa using hhi h, ?_⟩
    intro j hj
    have := hlo j hj (by omega)
    simpa using this
  · have hrn : r = c.length := by omega
    rw [hrn, List.findIdx_eq_length]
    intro x hx
    obtain ⟨i, hi, rfl⟩ := List.mem_iff_getElem.mp hx
    have := hlo i (by omega) hi
    simpa using this

theorem loop_spec (c : List ℝ) (val : ℝ) (hs : c.Pairwise (· ≤ ·))
    (hn : (c.length : ℤ) ≤ i64Max) :
    ∀ (f : ℕ) (low high : ℤ), 0 ≤ low → low ≤ high + 1 → high + 1 ≤ (c.length : ℤ) →
      high - low + 1 < 2 ^ f →
      (∀ i : ℕ, (i : ℤ) < low → ∀ h : i < c.length, c[i] < val) →
      (∀ i : ℕ, high < (i : ℤ) → ∀ h : i < c.length, val ≤ c[i]) →
      finish c (D.categorical.binary_index.loop1 (f + 1) c val high low)
        = ((c.findIdx (fun x => decide (val ≤ x)) : ℕ) : ℤ) := by
  have hmono : ∀ (i j : ℕ) (hi : i < c.length) (hj : j < c.length), i < j → c[i] ≤ c[j] :=
    fun i j hi hj hij => List.pairwise_iff_getElem.mp hs i j hi hj hij
  have hmax : i64Max = 9223372036854775807 := rfl
  intro f
  induction f with
  | zero =>
    intro low high h0 h1 h2 hsz hlo hhi
    have hlh : ¬ low ≤ high := by simp at hsz; omega
    rw [D.categorical.binary_index.loop1, if_neg hlh]
    show Min.min (listLen c) (wrapU64 (Max.max low 0)) = _
    have hw : wrapU64 (Max.max low 0) = low := by
      rw [max_eq_left h0]; unfold wrapU64; omega
    rw [hw, listLen, min_eq_right (by omega)]
    obtain ⟨r, rfl⟩ := Int.eq_ofNat_of_zero_le h0
    congr 1
    symm
    apply findIdx_eq_of_split c val r (by omega)
    · intro i hi h; exact hlo i (by omega) h
    · intro h; exact hhi r (by omega) h
  | succ k ih =>
    intro low high h0 h1 h2 hsz hlo hhi
    have hp : (2 : ℤ) ^ (k + 1) = 2 * 2 ^ k := by rw [pow_succ]; ring
    rw [D.categorical.binary_index.loop1]
    by_cases hlh : low ≤ high
    · rw [if_pos hlh]
      have hsd : sdiv (high - low) 2 = (high - low) / 2 := by
        unfold sdiv; rw [if_neg (by norm_num)]; exact Int.tdiv_eq_ediv_of_nonneg (by omega)
      simp only [hsd]
      have hmid0 : 0 ≤ low + (high - low) / 2 := by omega
      obtain ⟨m, hm⟩ := Int.eq_ofNat_of_zero_le hmid0
      have hmlo : low ≤ (m : ℤ) := by omega
      have hmhi : (m : ℤ) ≤ high := by omega
      have hmn : m < c.length := by omega
      rw [hm]
      have hw : wrapU64 (m : ℤ) = (m : ℤ) := by unfold wrapU64; omega
      have hel : unwrapO (listGet? c (wrapU64 (m : ℤ))) = c[m] := by
        rw [hw]; unfold listGet?
        rw [if_neg (by omega), Int.toNat_natCast, List.getElem?_eq_getElem hmn]; rfl
      simp only [hel]
      by_cases c1 : val ≤ c[m]
      · rw [if_pos c1]
        apply ih low ((m : ℤ) - 1) h0 (by omega) (by omega) (by omega) hlo
        intro i hi h
        rcases Nat.lt_or_ge m i with hmi | hmi
        · exact le_trans c1 (hmono m i hmn h hmi)
        · have : i = m := by omega
          subst this; exact c1
      · rw [if_neg c1]
        have c2 : c[m] < val := not_le.mp c1
        have hmin : Min.min ((m : ℤ) + 1) i64Max = (m : ℤ) + 1 := min_eq_left (by omega)
        rw [hmin]
        apply ih ((m : ℤ) + 1) high (by omega) (by omega) h2 (by omega) _ hhi
        intro i hi h
        rcases Nat.lt_or_ge i m with him | him
        · exact lt_of_le_of_lt (hmono i m h hmn him) c2
        · have : i = m := by omega
          subst this; exact c2
    · rw [if_neg hlh]
      show Min.min (listLen c) (wrapU64 (Max.max low 0)) = _
      have hw : wrapU64 (Max.max low 0) = low := by
        rw [max_eq_left h0]; unfold wrapU64; omega
      rw [hw, listLen, min_eq_right (by omega)]
      obtain ⟨r, rfl⟩ := Int.eq_ofNat_of_zero_le h0
      congr 1
      symm
      apply findIdx_eq_of_split c val r (by omega)
      · intro i hi h; exact hlo i (by omega) h
      · intro h; exact hhi r (by omega) h

/-- `binary_index` on a NON-DECREASING table (repeated entries allowed) of length `≤ isize::MAX`:
    the FIRST index whose entry is `≥ val` (the table length if there is none) — a lower-bound
    search; on a run of equal entries it returns the start of the run. -/
theorem binary_index_spec (c : List ℝ) (val : ℝ) (hs : c.Pairwise (· ≤ ·))
    (hn : (c.length : ℤ) ≤ i64Max) :
    D.categorical.binary_index c val = ((c.findIdx (fun x => decide (val ≤ x)) : ℕ) : ℤ) := by
  rw [binary_index_eq_finish]
  have hmax : i64Max = 9223372036854775807 := rfl
  have hw : wrapI64 (listLen c) = (c.length : ℤ) := by unfold wrapI64 listLen; omega
  rw [hw, show loopFuel = 19999 + 1 from rfl]
  apply loop_spec c val hs hn 19999 0 ((c.length : ℤ) - 1) (le_refl _) (by omega) (by omega)
  · have h1 : (2 : ℤ) ^ 63 ≤ 2 ^ 19999 := pow_le_pow_right₀ (by norm_num) (by norm_num)
    have h2 : (2 : ℤ) ^ 63 = 9223372036854775808 := by norm_num
    omega
  · intro i hi h; omega
  · intro i hi h; omega

/-- the strictly increasing case (the statement before the lower-bound fix) is an instance -/
theorem binary_index_spec_strict (c : List ℝ) (val : ℝ) (hs : c.Pairwise (· < ·))
    (hn : (c.length : ℤ) ≤ i64Max) :
    D.categorical.binary_index c val = ((c.findIdx (fun x => decide (val ≤ x)) : ℕ) : ℤ) :=
  binary_index_spec c val (hs.imp le_of_lt) hn

/-! ### the table built by `Categorical::new` (hand transcription `Model.Categorical.new`,
    `Model.prob_mass_to_cdf`) from non-negative masses is non-decreasing -/

/-- the fold inside `prob_mass_to_cdf` over ℝ, started at running sum `s` with pushes `acc`:
    non-negative masses keep the pushes non-decreasing and below the running sum -/
theorem cdfFold_mono (q : List ℝ) (s : ℝ) (acc : List ℝ) (hq : ∀ x ∈ q, 0 ≤ x)
    (hacc : acc.Pairwise (· ≤ ·)) (hle : ∀ x ∈ acc, x ≤ s) :
    let st := q.foldl (fun (st : ℝ × List ℝ) p => let sum := st.1 + p; (sum, st.2 ++ [sum])) (s, acc)
    st.2.Pairwise (· ≤ ·) ∧ (∀ x ∈ st.2, x ≤ st.1) ∧ st.1 = s + q.sum ∧
      st.2.length = acc.length + q.length ∧
      ((q ≠ [] ∨ acc.getLast? = some s) → st.2.getLast? = some st.1) := by
  induction q generalizing s acc with
  | nil => simp [hacc]; exact hle
  | cons a t ih =>
    have ha : 0 ≤ a := hq a (by simp)
    have h := ih (s + a) (acc ++ [s + a]) (fun x hx => hq x (by simp [hx]))
      (by
        rw [List.pairwise_append]
        refine ⟨hacc, by simp, ?_⟩
        intro x hx y hy
        simp at hy; subst hy
        have := hle x hx; linarith)
      (by
        intro x hx
        simp at hx
        rcases hx with hx | hx
        · have := hle x hx; linarith
        · subst hx; exact le_refl _)
    simp only [List.foldl_cons]
    obtain ⟨h1, h2, h3, h4, h5⟩ := h
    refine ⟨h1, h2, by rw [h3]; simp; ring, by rw [h4]; simp; ring, fun _ => h5 (Or.inr (by simp))⟩

/-- `prob_mass_to_cdf` of non-negative masses over ℝ: a NON-DECREASING table with one entry per
    mass whose last entry is the sum of the masses (zero masses give repeated entries) -/
theorem prob_mass_to_cdf_mono (p : List ℝ) (hp : ∀ x ∈ p, 0 ≤ x) :
    (Model.prob_mass_to_cdf (α := ℝ) p).Pairwise (· ≤ ·)
      ∧ (Model.prob_mass_to_cdf (α := ℝ) p).length = p.length
      ∧ (p ≠ [] → (Model.prob_mass_to_cdf (α := ℝ) p).getLast? = some p.sum) := by
  obtain ⟨h1, _, h3, h4, h5⟩ := cdfFold_mono p (0.0 : ℝ) [] hp (by simp) (by simp)
  unfold Model.prob_mass_to_cdf
  refine ⟨h1, by simpa using h4, fun hne => ?_⟩
  rw [h5 (Or.inl hne), h3]; norm_num

/-- the validation loop of `Categorical::new` over ℝ accepts exactly the non-negative vectors and
    returns the start value plus their sum -/
theorem newLoop_real (p : List ℝ) (s r : ℝ) (h : Model.Multinomial.newLoop p s = some r) :
    (∀ x ∈ p, 0 ≤ x) ∧ r = s + p.sum := by
  induction p generalizing s with
  | nil => simp [Model.Multinomial.newLoop] at h; simp [h]
  | cons a t ih =>
    rw [Model.Multinomial.newLoop] at h
    by_cases hbad : (RFun.isNaN a = true) ∨ a < (0.0 : ℝ)
    · rw [if_pos hbad] at h; cases h
    rw [if_neg hbad] at h
    have ha : 0 ≤ a := by
      by_contra hneg
      exact hbad (Or.inr (by rw [show (0.0 : ℝ) = 0 by norm_num]; exact not_le.mp hneg))
    obtain ⟨h1, h2⟩ := ih (s + a) h
    refine ⟨?_, by rw [h2]; simp; ring⟩
    intro x hx
    simp at hx
    rcases hx with rfl | hx
    · exact ha
    · exact h1 x hx

/-- every `Categorical` that `Categorical::new` returns `Ok` over ℝ: the masses were non-negative
    with positive sum, and `f_cdf` is a non-empty NON-DECREASING table with positive last entry —
    the hypotheses of `binary_index_spec` / the quantile theorems hold for constructed objects -/
theorem categorical_new_table (p : List ℝ) (d : Categorical ℝ)
    (h : Model.Categorical.new p = .ok d) :
    (∀ x ∈ p, 0 ≤ x) ∧ 0 < p.sum ∧ d.f_cdf = Model.prob_mass_to_cdf (α := ℝ) p ∧
      d.f_cdf ≠ [] ∧ d.f_cdf.length = p.length ∧ d.f_cdf.Pairwise (· ≤ ·) ∧
      d.f_cdf.getLast? = some p.sum := by
  unfold Model.Categorical.new at h
  split_ifs at h with hemp
  have hne : p ≠ [] := by simpa using hemp
  split at h
  · cases h
  · rename_i prob_sum hloop
    obtain ⟨hnn, hsum⟩ := newLoop_real p _ _ hloop
    split_ifs at h with hz
    have hcdf : d.f_cdf = Model.prob_mass_to_cdf (α := ℝ) p := by
      injection h with h; rw [← h]
    obtain ⟨hm, hl, hlast⟩ := prob_mass_to_cdf_mono p hnn
    have hs0 : 0 ≤ p.sum := List.sum_nonneg hnn
    have hpos : 0 < p.sum := by
      rcases hs0.lt_or_eq with h | h
      · exact h
      · exfalso; apply hz; rw [hsum, ← h]; simp
    refine ⟨hnn, hpos, hcdf, ?_, by rw [hcdf, hl], by rw [hcdf]; exact hm, by rw [hcdf]; exact hlast hne⟩
    intro he
    have : d.f_cdf.length = p.length := by rw [hcdf, hl]
    rw [he] at this
    exact hne (List.length_eq_zero_iff.mp this.symm)

end Statrs.Lemmas.CategoricalSearch
