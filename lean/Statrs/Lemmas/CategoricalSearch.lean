/-
  `binary_index` of src/distribution/categorical.rs (the search behind `Categorical::inverse_cdf`)
  over ℝ: on a STRICTLY increasing table it returns the first index whose entry is `≥ val`
  (`List.findIdx`), i.e. the generalised inverse of the cumulative table.

  The loop halves the window `[low, high]`, so `loopFuel = 20000` iterations are enough for every
  table of length `≤ isize::MAX` (`window < 2^fuel`).
-/
import Statrs.Real.Simp
import Statrs.Gen.D_categorical
import Mathlib.Tactic
namespace Statrs.Lemmas.CategoricalSearch
open Statrs Statrs.Gen

/-- the post-processing of the loop result in `binary_index` -/
def finish (c : List ℝ) : LoopR Int (Int × Int) → Int
  | LoopR.ret v => v
  | LoopR.hang => panicV
  | LoopR.done (_, low) => Min.min (listLen c) (wrapU64 (Max.max low (0 : Int)))

open Lean Elab Term Meta in
/-- The value of the generated `D.categorical.binary_index` read from the environment (not copied),
    with the constant `loopFuel` replaced by the given term.  Needed because the kernel cannot
    compare `binary_index c val` with its own unfolding: the matcher on the loop result is an
    `abbrev`, so the kernel reduces it first and tries to evaluate the loop on the symbolic table.
    Unfolding BOTH sides of `binary_index c val = binIdx loopFuel c val` gives syntactically
    identical terms, which the kernel accepts at once. -/
elab "binary_index_with_fuel% " f:term : term => do
  let fuel ← elabTermEnsuringType f (mkConst ``Nat)
  let ci ← getConstInfo ``Statrs.Gen.D.categorical.binary_index
  let v := ci.value!
  return v.replace fun e => if e.isConstOf ``Statrs.loopFuel then some fuel else none

/-- `binary_index` with the loop fuel as a parameter -/
def binIdx (fuel : Nat) := binary_index_with_fuel% fuel

theorem binary_index_eq_binIdx (c : List ℝ) (val : ℝ) :
    D.categorical.binary_index c val = binIdx loopFuel c val := rfl

theorem binIdx_eq_finish (fuel : Nat) (c : List ℝ) (val : ℝ) :
    binIdx fuel c val
      = finish c (D.categorical.binary_index.loop1 fuel c val (wrapI64 (listLen c) - 1) 0) := by
  unfold binIdx
  simp only
  generalize D.categorical.binary_index.loop1 fuel c val (wrapI64 (listLen c) - 1) 0 = r
  cases r with
  | ret v => rfl
  | hang => rfl
  | done s => obtain ⟨h, l⟩ := s; rfl

theorem binary_index_eq_finish (c : List ℝ) (val : ℝ) :
    D.categorical.binary_index c val
      = finish c (D.categorical.binary_index.loop1 loopFuel c val (wrapI64 (listLen c) - 1) 0) := by
  rw [binary_index_eq_binIdx, binIdx_eq_finish]

private theorem findIdx_eq_of_split (c : List ℝ) (val : ℝ) (r : ℕ) (hr : r ≤ c.length)
    (hlo : ∀ i : ℕ, i < r → ∀ h : i < c.length, c[i] < val)
    (hhi : ∀ h : r < c.length, val ≤ c[r]) :
    c.findIdx (fun x => decide (val ≤ x)) = r := by
  rcases Nat.lt_or_ge r c.length with h | h
  · rw [List.findIdx_eq h]
    refine ⟨by simpa using hhi h, ?_⟩
    intro j hj
    have := hlo j hj (by omega)
    simpa using this
  · have hrn : r = c.length := by omega
    rw [hrn, List.findIdx_eq_length]
    intro x hx
    obtain ⟨i, hi, rfl⟩ := List.mem_iff_getElem.mp hx
    have := hlo i (by omega) hi
    simpa using this

theorem loop_spec (c : List ℝ) (val : ℝ) (hs : c.Pairwise (· < ·))
    (hn : (c.length : ℤ) ≤ i64Max) :
    ∀ (f : ℕ) (low high : ℤ), 0 ≤ low → low ≤ high + 1 → high + 1 ≤ (c.length : ℤ) →
      high - low + 1 < 2 ^ f →
      (∀ i : ℕ, (i : ℤ) < low → ∀ h : i < c.length, c[i] < val) →
      (∀ i : ℕ, high < (i : ℤ) → ∀ h : i < c.length, val < c[i]) →
      finish c (D.categorical.binary_index.loop1 (f + 1) c val high low)
        = ((c.findIdx (fun x => decide (val ≤ x)) : ℕ) : ℤ) := by
  have hmono : ∀ (i j : ℕ) (hi : i < c.length) (hj : j < c.length), i < j → c[i] < c[j] :=
    fun i j hi hj hij => List.pairwise_iff_getElem.mp hs i j hi hj hij
  have hmax : i64Max = 9223372036854775807 := rfl
  intro f
  induction f with
  | zero =>
    intro low high h0 h1 h2 hsz hlo hhi
    have hlh : ¬ low ≤ high := by simp at hsz; omega
    rw [D.categorical.binary_index.loop1, if_neg hlh]
    show Min.min (listLen c) (wrapU64 (Max.max low 0)) = _
    have hw : wrapU64 (Max.max low 0) = low := by
      rw [max_eq_left h0]; unfold wrapU64; omega
    rw [hw, listLen, min_eq_right (by omega)]
    obtain ⟨r, rfl⟩ := Int.eq_ofNat_of_zero_le h0
    congr 1
    symm
    apply findIdx_eq_of_split c val r (by omega)
    · intro i hi h; exact hlo i (by omega) h
    · intro h; exact (hhi r (by omega) h).le
  | succ k ih =>
    intro low high h0 h1 h2 hsz hlo hhi
    have hp : (2 : ℤ) ^ (k + 1) = 2 * 2 ^ k := by rw [pow_succ]; ring
    rw [D.categorical.binary_index.loop1]
    by_cases hlh : low ≤ high
    · rw [if_pos hlh]
      have hsd : sdiv (high - low) 2 = (high - low) / 2 := by
        unfold sdiv; rw [if_neg (by norm_num)]; exact Int.tdiv_eq_ediv_of_nonneg (by omega)
      simp only [hsd]
      have hmid0 : 0 ≤ low + (high - low) / 2 := by omega
      obtain ⟨m, hm⟩ := Int.eq_ofNat_of_zero_le hmid0
      have hmlo : low ≤ (m : ℤ) := by omega
      have hmhi : (m : ℤ) ≤ high := by omega
      have hmn : m < c.length := by omega
      rw [hm]
      have hw : wrapU64 (m : ℤ) = (m : ℤ) := by unfold wrapU64; omega
      have hel : unwrapO (listGet? c (wrapU64 (m : ℤ))) = c[m] := by
        rw [hw]; unfold listGet?
        rw [if_neg (by omega), Int.toNat_natCast, List.getElem?_eq_getElem hmn]; rfl
      simp only [hel]
      by_cases c1 : val < c[m]
      · rw [if_pos c1]
        apply ih low ((m : ℤ) - 1) h0 (by omega) (by omega) (by omega) hlo
        intro i hi h
        rcases Nat.lt_or_ge m i with hmi | hmi
        · exact lt_trans c1 (hmono m i hmn h hmi)
        · have : i = m := by omega
          subst this; exact c1
      · rw [if_neg c1]
        by_cases c2 : c[m] < val
        · rw [if_pos c2]
          have hmin : Min.min ((m : ℤ) + 1) i64Max = (m : ℤ) + 1 := min_eq_left (by omega)
          rw [hmin]
          apply ih ((m : ℤ) + 1) high (by omega) (by omega) h2 (by omega) _ hhi
          intro i hi h
          rcases Nat.lt_or_ge i m with him | him
          · exact lt_trans (hmono i m h hmn him) c2
          · have : i = m := by omega
            subst this; exact c2
        · rw [if_neg c2]
          show wrapU64 (m : ℤ) = _
          rw [hw]
          congr 1
          symm
          have heq : c[m] = val := le_antisymm (not_lt.mp c1) (not_lt.mp c2)
          apply findIdx_eq_of_split c val m (by omega)
          · intro i hi h; rw [← heq]; exact hmono i m h hmn hi
          · intro h; exact heq.ge
    · rw [if_neg hlh]
      show Min.min (listLen c) (wrapU64 (Max.max low 0)) = _
      have hw : wrapU64 (Max.max low 0) = low := by
        rw [max_eq_left h0]; unfold wrapU64; omega
      rw [hw, listLen, min_eq_right (by omega)]
      obtain ⟨r, rfl⟩ := Int.eq_ofNat_of_zero_le h0
      congr 1
      symm
      apply findIdx_eq_of_split c val r (by omega)
      · intro i hi h; exact hlo i (by omega) h
      · intro h; exact (hhi r (by omega) h).le

/-- `binary_index` on a strictly increasing table of length `≤ isize::MAX`: the first index whose
    entry is `≥ val` (the table length if there is none) -/
theorem binary_index_spec (c : List ℝ) (val : ℝ) (hs : c.Pairwise (· < ·))
    (hn : (c.length : ℤ) ≤ i64Max) :
    D.categorical.binary_index c val = ((c.findIdx (fun x => decide (val ≤ x)) : ℕ) : ℤ) := by
  rw [binary_index_eq_finish]
  have hmax : i64Max = 9223372036854775807 := rfl
  have hw : wrapI64 (listLen c) = (c.length : ℤ) := by unfold wrapI64 listLen; omega
  rw [hw, show loopFuel = 19999 + 1 from rfl]
  apply loop_spec c val hs hn 19999 0 ((c.length : ℤ) - 1) (le_refl _) (by omega) (by omega)
  · have h1 : (2 : ℤ) ^ 63 ≤ 2 ^ 19999 := pow_le_pow_right₀ (by norm_num) (by norm_num)
    have h2 : (2 : ℤ) ^ 63 = 9223372036854775808 := by norm_num
    omega
  · intro i hi h; omega
  · intro i hi h; omega

end Statrs.Lemmas.CategoricalSearch
