/-
  Positivity of a second central moment: if `f ≥ 0` is positive on `(0,∞)` and `(x−m)² f` is
  integrable then `∫ (x−m)² f > 0`.  Used to show that the variances returned by `Weibull` and `Chi`
  (differences of Γ-values) are strictly positive without a Γ-inequality.
  Pure Mathlib statements; no model definitions.
-/
import Mathlib
namespace Statrs.Lemmas.CentralMoments
open MeasureTheory Set

theorem integral_sq_sub_mul_pos {f : ℝ → ℝ} (m : ℝ) (hf0 : ∀ x, 0 ≤ f x)
    (hpos : ∀ x, 0 < x → 0 < f x) (hint : Integrable (fun x => (x - m) ^ 2 * f x)) :
    0 < ∫ x, (x - m) ^ 2 * f x := by
  rw [integral_pos_iff_support_of_nonneg (fun x => mul_nonneg (sq_nonneg _) (hf0 x)) hint]
  have hsub : Ioi |m| ⊆ Function.support (fun x => (x - m) ^ 2 * f x) := by
    intro x hx
    have hx' : |m| < x := hx
    have h0 : 0 < x := lt_of_le_of_lt (abs_nonneg m) hx'
    have hm : m < x := lt_of_le_of_lt (le_abs_self m) hx'
    have : 0 < (x - m) ^ 2 * f x := mul_pos (pow_pos (by linarith) 2) (hpos x h0)
    exact this.ne'
  refine lt_of_lt_of_le ?_ (measure_mono hsub)
  rw [Real.volume_Ioi]; exact ENNReal.zero_lt_top

end Statrs.Lemmas.CentralMoments
